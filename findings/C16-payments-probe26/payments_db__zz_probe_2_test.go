package paymentsdb

import (
	"crypto/sha256"
	"testing"

	"github.com/lightningnetwork/lnd/record"
	"github.com/stretchr/testify/require"
)

// Suspicion 2: a final hop flagged LegacyPayload that carries an MPP record.
// Whatever the store validated is what it has to keep: the attempt was
// admitted as an MPP shard, so it is stored as an MPP shard and the second
// shard of the same set is admitted, on both backends alike.
func TestZZProbe2LegacyPayloadMPP(t *testing.T) {
	for name, db := range zzSeedStores(t) {
		t.Run(name, func(t *testing.T) {
			ctx := t.Context()
			preimg := genPreimage(t)
			rhash := sha256.Sum256(preimg[:])
			info := genPaymentCreationInfo(t, rhash)
			hash := info.PaymentIdentifier
			require.NoError(t, db.InitPayment(ctx, hash, info))

			mpp := record.NewMPP(info.Value, [32]byte{1})
			for id := uint64(0); id < 2; id++ {
				a := genAttemptWithHash(
					t, id, genSessionKey(t), rhash,
				)
				a.Route.FinalHop().LegacyPayload = true
				a.Route.FinalHop().AmtToForward = info.Value / 2
				a.Route.FinalHop().MPP = mpp
				p, err := db.RegisterAttempt(ctx, hash, a)
				require.NoError(t, err, "shard %d", id)

				stored := p.HTLCs[id].Route.FinalHop().MPP
				require.NotNil(t, stored, "shard %d was "+
					"validated as MPP shard but stored "+
					"without the record", id)
				require.Equal(t, mpp.TotalMsat(),
					stored.TotalMsat())
				require.Equal(t, mpp.PaymentAddr(),
					stored.PaymentAddr())
			}

			// A non-MPP attempt is refused while MPP shards are in
			// flight.
			c := genAttemptWithHash(t, 2, genSessionKey(t), rhash)
			c.Route.FinalHop().AmtToForward = info.Value
			c.Route.FinalHop().MPP = nil
			_, err := db.RegisterAttempt(ctx, hash, c)
			require.ErrorIs(t, err, ErrMPPayment)
		})
	}
}
