package chancloser

import (
	"bytes"
	"testing"

	"github.com/btcsuite/btcd/btcutil/v2"
	"github.com/btcsuite/btcd/chaincfg/v2"
	"github.com/btcsuite/btcd/txscript/v2"
	"github.com/btcsuite/btcd/wire/v2"
	"github.com/lightningnetwork/lnd/channeldb"
	"github.com/lightningnetwork/lnd/fn/v2"
	"github.com/lightningnetwork/lnd/lntypes"
	"github.com/lightningnetwork/lnd/lnwallet"
	"github.com/lightningnetwork/lnd/lnwire"
	"github.com/lightningnetwork/lnd/tlv"
	"github.com/stretchr/testify/require"
)

type probe6Observer struct{}

func (probe6Observer) NoDanglingUpdates() bool                     { return true }
func (probe6Observer) DisableIncomingAdds() error                  { return nil }
func (probe6Observer) DisableOutgoingAdds() error                  { return nil }
func (probe6Observer) DisableChannel() error                       { return nil }
func (probe6Observer) MarkCoopBroadcasted(*wire.MsgTx, bool) error { return nil }
func (probe6Observer) MarkShutdownSent([]byte, bool) error         { return nil }
func (probe6Observer) FinalBalances() fn.Option[ShutdownBalances] {
	return fn.None[ShutdownBalances]()
}

func probe6Script(b byte) lnwire.DeliveryAddress {
	return append(
		[]byte{txscript.OP_0, txscript.OP_DATA_20},
		bytes.Repeat([]byte{b}, 20)...,
	)
}

// TestProbeRejectedOfferLeavesTheTermsAlone: a closing_complete that carries
// a new closer script is refused (here: the fee is more than the remote party
// owns), yet the new script stays in the close terms shared with the local
// half, which would use it for our next own offer.
func TestProbeRejectedOfferLeavesTheTermsAlone(t *testing.T) {
	t.Parallel()

	_, bobChan, err := lnwallet.CreateTestChannels(
		t, channeldb.SingleFunderTweaklessBit,
	)
	require.NoError(t, err)

	chanPoint := bobChan.ChannelPoint()
	env := &Environment{
		ChainParams:  chaincfg.RegressionNetParams,
		ChanPoint:    chanPoint,
		ChanID:       lnwire.NewChanIDFromOutPoint(chanPoint),
		ChanType:     bobChan.ChanType(),
		FeeEstimator: &SimpleCoopFeeEstimator{},
		ChanObserver: probe6Observer{},
		CloseSigner:  bobChan,
	}

	bobScript := probe6Script(0xb0)
	aliceScript, aliceNewScript := probe6Script(0xa1), probe6Script(0xa2)

	snapshot := bobChan.StateSnapshot()
	terms := &CloseChannelTerms{
		ShutdownScripts: ShutdownScripts{
			LocalDeliveryScript:  bobScript,
			RemoteDeliveryScript: aliceScript,
		},
		ShutdownBalances: ShutdownBalances{
			LocalBalance:  snapshot.LocalBalance,
			RemoteBalance: snapshot.RemoteBalance,
		},
	}
	negotiation := &ClosingNegotiation{
		PeerState: lntypes.Dual[AsymmetricPeerState]{
			Local:  &LocalCloseStart{CloseChannelTerms: terms},
			Remote: &RemoteCloseStart{CloseChannelTerms: terms},
		},
		CloseChannelTerms: terms,
	}

	// The offer names a new script, and a fee that is more than the whole
	// channel.
	var sig lnwire.Sig
	_, err = negotiation.ProcessEvent(&OfferReceivedEvent{
		SigMsg: lnwire.ClosingComplete{
			ChannelID:    env.ChanID,
			CloserScript: aliceNewScript,
			CloseeScript: bobScript,
			FeeSatoshis:  btcutil.Amount(snapshot.Capacity) * 2,
			ClosingSigs: lnwire.ClosingSigs{
				CloserAndClosee: newSigTlv[tlv.TlvType3](sig),
			},
		},
	}, env)
	require.ErrorIs(t, err, ErrRemoteCannotPay)

	require.Equal(
		t, aliceScript, terms.RemoteDeliveryScript, "a refused "+
			"closing_complete changed the remote delivery script",
	)
}
