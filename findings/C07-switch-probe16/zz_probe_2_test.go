package htlcswitch

import (
	"bytes"
	"crypto/sha256"
	"testing"
	"time"

	"github.com/btcsuite/btcd/btcutil/v2"
	"github.com/lightningnetwork/lnd/lnwire"
	"github.com/stretchr/testify/require"
)

// TestProbe2ReforwardedMalformedFailIsConverted probes the switch-startup
// replay of settles/fails (Switch.reforwardSettleFails) against the link's own
// replay (channelLink.processRemoteSettleFails), which it "should mimic".
//
// Setup (all real code except the incoming link, which is a mockChannelLink):
//
//	carol(mock link) --> alice(switch) --real link--> bob
//
// Alice forwards an HTLC of Carol's to Bob. Bob answers with
// update_fail_malformed_htlc, which is locked in. Alice's link converts it to
// an UpdateFailHTLC whose Reason has no HMAC (FailureMessageLength+4 bytes),
// stores it in its forwarding package and forwards it to the switch with
// convertedError=true: the switch encrypts it AS THE ERROR SOURCE
// (EncryptMalformedError) and hands it to Carol's link. Carol's link has not
// yet put the fail on a commitment (the settle/fail ref stays un-acked) when
// Alice restarts.
//
// On restart the switch replays the un-acked fail from the forwarding package.
// It must come out exactly as it did the first time. On the unmodified tree
// reforwardSettleFails never sets convertedError, so the switch merely
// "wraps" the HMAC-less cleartext (IntermediateEncrypt): the payment sender
// gets a failure it cannot attribute/decode, and because the switch closed the
// circuit with that packet, the outgoing link's later (correct) replay is
// dropped with ErrCircuitClosing.
func TestProbe2ReforwardedMalformedFailIsConverted(t *testing.T) {
	t.Parallel()

	const chanAmt = btcutil.SatoshiPerBitcoin * 5
	const chanReserve = btcutil.SatoshiPerBitcoin * 1
	harness, err := newSingleLinkTestHarness(t, chanAmt, chanReserve)
	require.NoError(t, err)

	// The harness does not start its switch; the fail path needs the
	// switch's event loop.
	require.NoError(t, harness.aliceSwitch.Start())
	require.NoError(t, harness.start())

	//nolint:forcetypeassert
	coreLink := harness.aliceLink.(*channelLink)
	aliceMsgs := coreLink.cfg.Peer.(*mockPeer).sentMsgs //nolint:forcetypeassert
	aliceDB := testChannelStateDB(t, coreLink.channel).GetParentDB()

	ctx := linkTestContext{
		t:           t,
		aliceSwitch: harness.aliceSwitch,
		aliceLink:   harness.aliceLink,
		aliceMsgs:   aliceMsgs,
		bobChannel:  harness.bobChannel,
	}

	// Carol's (incoming) link on Alice's switch.
	carolPeer, err := newMockServer(
		t, "carol", testStartingHeight, nil, testDefaultDelta,
	)
	require.NoError(t, err)
	carolChanID, _, carolScid, _ := genIDs()
	carolLink := newMockChannelLink(
		harness.aliceSwitch, carolChanID, carolScid, emptyScid,
		carolPeer, true, false, false, false,
	)
	require.NoError(t, harness.aliceSwitch.AddLink(carolLink))

	// Forward one HTLC carol -> alice -> bob: commit the circuit (with an
	// error encrypter: this is a forward, not a local payment) and hand
	// the Add to Alice's real link.
	htlc, _ := generateHtlcAndInvoice(t, 0)
	inKey := CircuitKey{ChanID: carolScid, HtlcID: 0}
	actions, err := harness.aliceSwitch.circuits.CommitCircuits(
		&PaymentCircuit{
			Incoming:       inKey,
			PaymentHash:    htlc.PaymentHash,
			IncomingAmount: htlc.Amount + 1000,
			OutgoingAmount: htlc.Amount,
			ErrorEncrypter: NewMockObfuscator(),
		},
	)
	require.NoError(t, err)
	require.Len(t, actions.Adds, 1)
	require.NoError(t, harness.aliceLink.handleSwitchPacket(&htlcPacket{
		incomingChanID: carolScid,
		incomingHTLCID: 0,
		incomingAmount: htlc.Amount + 1000,
		amount:         htlc.Amount,
		obfuscator:     NewMockObfuscator(),
		htlc:           htlc,
	}))

	// Lock the Add in on both commitments.
	ctx.receiveHtlcAliceToBob()
	harness.aliceBatchTicker <- time.Now()
	ctx.receiveCommitSigAliceToBob(1)
	ctx.sendRevAndAckBobToAlice()
	ctx.sendCommitSigBobToAlice(1)
	ctx.receiveRevAndAckAliceToBob()
	require.Equal(t, 1, harness.aliceSwitch.circuits.NumOpen())

	// Bob could not parse the onion: update_fail_malformed_htlc.
	shaOnion := sha256.Sum256(htlc.OnionBlob[:])
	require.NoError(t, harness.bobChannel.MalformedFailHTLC(
		0, lnwire.CodeInvalidOnionKey, shaOnion, nil,
	))
	harness.aliceLink.HandleChannelUpdate(&lnwire.UpdateFailMalformedHTLC{
		ChanID:       harness.aliceLink.ChanID(),
		ID:           0,
		ShaOnionBlob: shaOnion,
		FailureCode:  lnwire.CodeInvalidOnionKey,
	})
	ctx.sendCommitSigBobToAlice(0)
	ctx.receiveRevAndAckAliceToBob()
	ctx.receiveCommitSigAliceToBob(0)
	ctx.sendRevAndAckBobToAlice()

	// FIRST delivery (no restart): link -> switch -> carol's link.
	var first *htlcPacket
	select {
	case first = <-carolLink.packets:
	case <-time.After(10 * time.Second):
		t.Fatalf("fail was not propagated to the incoming link")
	}
	firstFail, ok := first.htlc.(*lnwire.UpdateFailHTLC)
	require.True(t, ok)
	require.True(t, first.convertedError)

	// The sender can read it: InvalidOnionKey from the first hop's peer.
	fwdErr, err := newMockDeobfuscator().DecryptError(firstFail.Reason)
	require.NoError(t, err)
	require.Equal(
		t, lnwire.CodeInvalidOnionKey, fwdErr.WireMessage().Code(),
	)

	// Carol's link has not committed the fail yet: nothing acked the
	// settle/fail reference and the circuit is still on disk. Alice goes
	// down now.
	require.NoError(t, harness.aliceSwitch.Stop())

	s2, err := initSwitchWithDB(testStartingHeight, aliceDB)
	require.NoError(t, err)
	carolLink2 := newMockChannelLink(
		s2, carolChanID, carolScid, emptyScid, carolPeer, true, false,
		false, false,
	)
	require.NoError(t, s2.Start())
	defer func() { _ = s2.Stop() }()
	require.NoError(t, s2.AddLink(carolLink2))

	// SECOND delivery: the switch's own replay at startup
	// (reforwardResponses -> reforwardSettleFails).
	var second *htlcPacket
	select {
	case second = <-carolLink2.packets:
	case <-time.After(10 * time.Second):
		t.Fatalf("the switch did not replay the un-acked fail")
	}
	secondFail, ok := second.htlc.(*lnwire.UpdateFailHTLC)
	require.True(t, ok)

	_, err = newMockDeobfuscator().DecryptError(secondFail.Reason)
	if err != nil || !bytes.Equal(firstFail.Reason, secondFail.Reason) {
		t.Fatalf("PROBE FIRES: the converted malformed fail replayed "+
			"by the switch after a restart differs from the one "+
			"delivered before the restart: convertedError=%v, "+
			"len(reason)=%d (was %d), sender-side decrypt error: "+
			"%v", second.convertedError, len(secondFail.Reason),
			len(firstFail.Reason), err)
	}
}
