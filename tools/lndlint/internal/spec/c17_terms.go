package spec

import (
	"go/ast"
	"strings"

	"lndlint/internal/an"
)

func init() {
	specExtras["C17"] = append(specExtras["C17"], c17SharedTerms)
}

// c17SharedTerms: the RBF close states of one negotiation share one set of
// close terms (round-3 seed C17/f).
func c17SharedTerms(r *an.Run) {
	p := r.Prog
	r.Obl("rbf-states-share-one-set-of-close-terms", "ROLE",
		"every state literal built by a ProcessEvent method in package chancloser hands on the close terms pointer it holds itself (receiver.CloseChannelTerms); only the transition that creates the negotiation takes the address of freshly built terms, and gives that one address to every state it creates",
		"updateAndValidateCloseTerms writes a changed delivery script into the shared terms; a state that keeps a copy builds the next transaction for the peer's previous script, the peer's signature fails and the close cannot be replaced", 8,
		func(o *an.Obl) {
			n := 0
			for _, f := range p.Funcs(false, "lnwallet/chancloser") {
				if !strings.HasSuffix(f.ID, ".ProcessEvent") {
					continue
				}
				fresh := map[string]int{}
				for _, fn := range append([]*an.Func{f}, f.Lits...) {
					ast.Inspect(fn.Body, func(x ast.Node) bool {
						kv, ok := x.(*ast.KeyValueExpr)
						if !ok || an.Text(kv.Key) != "CloseChannelTerms" {
							return true
						}
						n++
						c := fn.Canon(kv.Value)
						o.Site("%s: CloseChannelTerms: %s", f.ID, c)
						switch {
						case c == "$recv.CloseChannelTerms":
						case strings.HasPrefix(an.Text(kv.Value), "&"):
							fresh[an.Text(kv.Value)]++
						default:
							o.FailAt(f.ID+"#terms-not-shared", fn.Where(kv.Pos()), "the next state gets %s as its close terms, expected the pointer this state holds (a copy no longer sees a delivery script the peer changes later)", an.Text(kv.Value))
						}
						return true
					})
				}
				if len(fresh) > 1 {
					o.FailAt(f.ID+"#several-fresh-terms", f.Where(f.Body.Pos()), "%s hands out the addresses of %d different term values", f.ID, len(fresh))
				}
				for addr := range fresh {
					// the address must be of a local composite built in this function
					name := strings.TrimPrefix(addr, "&")
					okDef := false
					ast.Inspect(f.Body, func(x ast.Node) bool {
						as, ok := x.(*ast.AssignStmt)
						if ok && len(as.Lhs) == 1 && an.Text(as.Lhs[0]) == name && as.Tok.String() == ":=" {
							if cl, isLit := as.Rhs[0].(*ast.CompositeLit); isLit && strings.HasSuffix(an.TypeID(f.Info().TypeOf(cl)), "CloseChannelTerms") {
								okDef = true
							}
						}
						return true
					})
					if !okDef {
						o.FailAt(f.ID+"#fresh-terms-origin", f.Where(f.Body.Pos()), "%s hands out %s, which is not the address of terms built by this transition", f.ID, addr)
					}
				}
			}
			if n < 8 {
				o.FailAt("chancloser#terms-literals", "", "expected at least 8 state literals carrying CloseChannelTerms, found %d", n)
			}
		})
}
