package discovery

import (
	"errors"
	"sync/atomic"
	"testing"

	"github.com/btcsuite/btcd/chainhash/v2"
	tmock "github.com/stretchr/testify/mock"
	"github.com/stretchr/testify/require"
)

// TestProbeTransientUtxoErrorClosesScid: the chain backend fails the GetUtxo
// lookup of a perfectly valid channel announcement with a transient error (not
// btcwallet.ErrOutputSpent). validateFundingTransaction wraps every GetUtxo
// error in ErrChannelSpent, so handleChanAnnouncement records the SCID in the
// persistent closed-scid index and punishes the peer. Afterwards the very
// same, valid announcement is dropped as "closed channel" although the backend
// works again.
func TestProbeTransientUtxoErrorClosesScid(t *testing.T) {
	ctx := t.Context()

	tCtx, err := createTestCtx(t, 10, false)
	require.NoError(t, err)

	peer := &mockPeer{remoteKeyPriv1.PubKey(), nil, nil, atomic.Bool{}}

	// Valid block + funding tx, but GetUtxo fails once with an RPC-ish
	// error.
	info := makeFundingTxInBlock(t)
	tCtx.chain.On("GetBlockHash", int64(7)).
		Return(&chainhash.Hash{}, nil).Once()
	tCtx.chain.On("GetBlock", tmock.Anything).
		Return(info.fundingBlock, nil).Once()
	tCtx.chain.On(
		"GetUtxo", tmock.Anything, tmock.Anything, tmock.Anything,
		tmock.Anything,
	).Return(nil, errors.New("rpc: connection reset by peer")).Once()

	ann, err := tCtx.createRemoteChannelAnnouncement(
		7, withFundingTxPrep(fundingTxPrepTypeNone),
	)
	require.NoError(t, err)

	err = mustProcess(t, tCtx.gossiper.ProcessRemoteAnnouncement(
		ctx, ann, peer,
	))
	t.Logf("first attempt (backend hiccup): %v", err)
	require.Error(t, err)

	closed, err := tCtx.gossiper.cfg.ScidCloser.IsClosedScid(
		ctx, ann.ShortChannelID,
	)
	require.NoError(t, err)
	t.Logf("scid recorded as closed after a transient backend error: %v",
		closed)

	// The failed lookup says nothing about the peer's honesty.
	require.Zero(t, tCtx.gossiper.banman.peerBanIndex.Len(),
		"peer punished for a backend failure")

	// Another peer sends the same valid announcement later; the backend
	// works again.
	tCtx.chain.On("GetBlockHash", int64(7)).
		Return(&chainhash.Hash{}, nil).Once()
	tCtx.chain.On("GetBlock", tmock.Anything).
		Return(info.fundingBlock, nil).Once()
	tCtx.chain.On(
		"GetUtxo", tmock.Anything, tmock.Anything, tmock.Anything,
		tmock.Anything,
	).Return(info.fundingTx, nil).Once()

	peer2 := &mockPeer{remoteKeyPriv2.PubKey(), nil, nil, atomic.Bool{}}
	err = mustProcess(t, tCtx.gossiper.ProcessRemoteAnnouncement(
		ctx, ann, peer2,
	))
	t.Logf("second attempt (backend healthy): %v", err)

	require.False(t, closed, "valid, unspent channel was recorded in "+
		"the closed-scid index because of a transient GetUtxo error")
	require.NoError(t, err, "valid announcement refused after the "+
		"backend recovered")
	require.True(t, tCtx.gossiper.cfg.Graph.IsKnownEdge(
		ann.ShortChannelID,
	))
}
