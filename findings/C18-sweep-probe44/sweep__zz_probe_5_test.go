package sweep

import (
	"testing"

	"github.com/btcsuite/btcd/wire/v2"
	"github.com/lightningnetwork/lnd/chainntnfs"
	"github.com/lightningnetwork/lnd/fn/v2"
	"github.com/lightningnetwork/lnd/input"
	"github.com/lightningnetwork/lnd/lnwallet/chainfee"
	"github.com/stretchr/testify/mock"
	"github.com/stretchr/testify/require"
)

// TestProbeNewInputRBFInfoKeepsHigherRequestedRate checks that when a new
// input is offered with a starting fee rate, and the mempool has a previous
// sweeping tx for it which paid LESS than that, the requested starting fee
// rate is kept. And when the mempool tx paid MORE, the mempool rate is used.
func TestProbeNewInputRBFInfoKeepsHigherRequestedRate(t *testing.T) {
	const (
		mempoolRate   = chainfee.SatPerKWeight(500)
		requestedHigh = chainfee.SatPerKWeight(2500)
		requestedLow  = chainfee.SatPerKWeight(300)
	)

	run := func(
		requested chainfee.SatPerKWeight) chainfee.SatPerKWeight {

		store := &MockSweeperStore{}
		mempool := chainntnfs.NewMockMempoolWatcher()
		notifier := &chainntnfs.MockChainNotifier{}

		s := New(&UtxoSweeperConfig{
			Store:                store,
			Mempool:              mempool,
			Notifier:             notifier,
			NoDeadlineConfTarget: uint32(DefaultDeadlineDelta),
		})
		t.Cleanup(func() {
			close(s.quit)
			s.wg.Wait()
		})

		inp := createTestInput(100_000, input.WitnessKeyHash)
		op := inp.OutPoint()

		spendingTx := wire.NewMsgTx(2)
		spendingTx.AddTxIn(&wire.TxIn{PreviousOutPoint: op})

		mempool.On("LookupInputMempoolSpend", op).Return(
			fn.Some(*spendingTx))
		store.On("GetTx", spendingTx.TxHash()).Return(&TxRecord{
			Txid:    spendingTx.TxHash(),
			FeeRate: uint64(mempoolRate),
			Fee:     100,
		}, nil)
		notifier.On("RegisterSpendNtfn", mock.Anything, mock.Anything,
			mock.Anything).Return(&chainntnfs.SpendEvent{
			Spend:  make(chan *chainntnfs.SpendDetail),
			Cancel: func() {},
		}, nil)

		err := s.handleNewInput(&sweepInputMessage{
			input: &inp,
			params: Params{
				Budget:          10_000,
				StartingFeeRate: fn.Some(requested),
			},
			resultChan: make(chan Result, 1),
		})
		require.NoError(t, err)

		return s.inputs[op].params.StartingFeeRate.UnwrapOr(0)
	}

	// The caller asks for more than what the mempool tx pays.
	require.Equal(t, requestedHigh, run(requestedHigh),
		"requested starting fee rate lowered to the mempool tx's")

	// The caller asks for less than what the mempool tx pays.
	require.Equal(t, mempoolRate, run(requestedLow))
}

// TestProbeUpdateParamsRestartsBelowPublished shows that updating the params
// of an input whose sweeping tx has already been bumped for a few blocks (what
// `lncli wallet bumpfee` without a fee rate does via prepareSweepParams, which
// passes on the input's original StartingFeeRate) makes the next tx start over
// from the fee estimator, below the tx already published.
//
// FAILS on the unmodified tree (NOT repaired, see report).
func TestProbeUpdateParamsRestartsBelowPublished(t *testing.T) {
	const (
		startHeight = int32(100)
		deadline    = int32(110)
		value       = int64(1_000_000)
	)

	h := newProbeHarness(t, startHeight, 300)

	inp := createTestInput(value, input.WitnessKeyHash)
	params := Params{
		Budget:         10_000,
		DeadlineHeight: fn.Some(deadline),
		Immediate:      true,
	}
	h.offer(&inp, params)

	for height := startHeight + 1; height < startHeight+5; height++ {
		h.block(height)
	}

	// The user bumps the input, giving a bigger budget only. The params
	// are the ones walletrpc.prepareSweepParams would build.
	pi := h.s.inputs[inp.OutPoint()]
	_, err := h.s.handleUpdateReq(&updateReq{
		input: inp.OutPoint(),
		params: Params{
			Budget:          20_000,
			DeadlineHeight:  pi.params.DeadlineHeight,
			StartingFeeRate: pi.params.StartingFeeRate,
			Immediate:       true,
		},
	})
	require.NoError(t, err)

	h.s.sweepPendingInputs(h.s.updateSweeperInputs())
	h.pump()

	h.mu.Lock()
	defer h.mu.Unlock()

	var lastFee int64
	for i, tx := range h.published {
		fee := value - tx.TxOut[0].Value
		t.Logf("published at height %d: fee=%v", h.heights[i], fee)

		require.GreaterOrEqualf(t, fee, lastFee, "tx published at "+
			"height %d pays less than the one before", h.heights[i])
		lastFee = fee
	}
}
