package contractcourt

// Probe 3 (property C13, "... and is marked so eventually"): the utxo nursery
// must sweep a two-stage (crib) htlc output whose second-stage CSV delay has
// already expired by the time the confirmation of its timeout tx is processed.
//
// NurseryStore.CribToKinder files the kindergarten output under
// confHeight+csv. Unlike PreschoolToKinder ("Late Registration": a maturity
// height <= the last graduated height is moved to lastGradHeight+1) it has no
// handling for a maturity height that is already in the past. Block epochs only
// graduate the class of the block that arrived, so an output filed under a past
// height is not looked at again until the NEXT restart replays the past heights
// (reloadClasses).
//
// This is reachable with a single restart: the timeout tx is published at the
// htlc expiry, the node goes down, the tx confirms and more than csv blocks
// pass. On startup reloadClasses re-publishes the timeout tx and re-registers
// its confirmation (sweepCribOutput); the notifier dispatches the historical
// confirmation at once; CribToKinder files the output under the past height.
// The legacy htlc timeout resolver waits for this sweep, so the channel stays
// pending as long as the node keeps running.
//
// FAILS on the unmodified tree, passes with probe12-fix3.patch.

import (
	"testing"
	"time"

	"github.com/stretchr/testify/require"
)

func TestProbeNurseryCribLateConfirmation(t *testing.T) {
	ctx := createNurseryTestContext(t, func(callback func()) bool {
		callback()
		return true
	})

	// An outgoing htlc on our commitment: expiry 125, csv delay 2.
	outgoingRes := incubateTestOutput(t, ctx.nursery, true)

	// CLTV expiry: the timeout tx is published.
	ctx.notifyEpoch(125)
	ctx.receiveTx()

	// The node is down until height 200. Meanwhile the timeout tx
	// confirmed at 126, so its output matured at 128.
	ctx.chainIO.BestHeight = 200
	require.True(t, ctx.restart())

	// The restart re-publishes the timeout tx and re-registers for its
	// confirmation, which is then delivered.
	ctx.receiveTx()

	timeoutTxHash := outgoingRes.SignedTimeoutTx.TxHash()
	require.NoError(t, ctx.notifier.ConfirmTx(&timeoutTxHash, 126))

	select {
	case <-ctx.store.cribToKinderChan:
	case <-time.After(defaultTestTimeout):
		t.Fatalf("output not promoted to KNDR")
	}

	// The next block arrives. The output has been mature for 73 blocks, so
	// by now at the latest it must have been offered to the sweeper.
	ctx.notifyEpoch(201)

	select {
	case <-ctx.sweeper.sweepChan:
	case <-time.After(3 * time.Second):
		past, _ := ctx.nursery.cfg.Store.HeightsBelowOrEqual(200)
		t.Fatalf("CSV-matured timeout output not swept at the next "+
			"block; it is filed under past heights %v", past)
	}

	// From here on the run ends as an uninterrupted one does: the sweep
	// confirms, the output graduates and the channel is removed.
	ctx.sweeper.sweepAll()

	select {
	case <-ctx.store.graduateKinderChan:
	case <-time.After(defaultTestTimeout):
		t.Fatalf("output not graduated")
	}

	// finish() waits for the nursery's goroutines and asserts that nothing
	// is left in the store.
	ctx.finish()
	assertNurseryReportUnavailable(t, ctx.nursery)
}
