package chancloser

import (
	"bytes"
	"testing"

	"github.com/btcsuite/btcd/chaincfg/v2"
	"github.com/btcsuite/btcd/txscript/v2"
	"github.com/btcsuite/btcd/wire/v2"
	"github.com/lightningnetwork/lnd/channeldb"
	"github.com/lightningnetwork/lnd/fn/v2"
	"github.com/lightningnetwork/lnd/lnwallet"
	"github.com/lightningnetwork/lnd/lnwallet/chainfee"
	"github.com/lightningnetwork/lnd/lnwire"
	"github.com/lightningnetwork/lnd/protofsm"
	"github.com/stretchr/testify/require"
)

// These probes assert the behaviour the C17 property asks for. They are
// expected to FAIL on the unmodified tree: each failure documents a suspected
// genuine defect (see the report).

type probeObserver struct{}

func (probeObserver) NoDanglingUpdates() bool                     { return true }
func (probeObserver) DisableIncomingAdds() error                  { return nil }
func (probeObserver) DisableOutgoingAdds() error                  { return nil }
func (probeObserver) DisableChannel() error                       { return nil }
func (probeObserver) MarkCoopBroadcasted(*wire.MsgTx, bool) error { return nil }
func (probeObserver) MarkShutdownSent([]byte, bool) error         { return nil }
func (probeObserver) FinalBalances() fn.Option[ShutdownBalances] {
	return fn.None[ShutdownBalances]()
}

func probeScript(b byte) lnwire.DeliveryAddress {
	return append(
		[]byte{txscript.OP_0, txscript.OP_DATA_20},
		bytes.Repeat([]byte{b}, 20)...,
	)
}

func probeEnv(ch *lnwallet.LightningChannel, height uint32) *Environment {
	chanPoint := ch.ChannelPoint()

	return &Environment{
		ChainParams:  chaincfg.RegressionNetParams,
		ChanPoint:    chanPoint,
		ChanID:       lnwire.NewChanIDFromOutPoint(chanPoint),
		ChanType:     ch.ChanType(),
		BlockHeight:  height,
		FeeEstimator: &SimpleCoopFeeEstimator{},
		ChanObserver: probeObserver{},
		CloseSigner:  ch,
	}
}

func probeTerms(ch *lnwallet.LightningChannel, local,
	remote lnwire.DeliveryAddress) *CloseChannelTerms {

	snapshot := ch.StateSnapshot()

	return &CloseChannelTerms{
		ShutdownScripts: ShutdownScripts{
			LocalDeliveryScript:  local,
			RemoteDeliveryScript: remote,
		},
		ShutdownBalances: ShutdownBalances{
			LocalBalance:  snapshot.LocalBalance,
			RemoteBalance: snapshot.RemoteBalance,
		},
	}
}

// TestProbeCloserSignsTheLockTimeItAnnounces: lnd's closer puts
// env.BlockHeight into closing_complete.locktime but signs (and later
// completes) a transaction with nLockTime 0, while lnd's closee builds the
// transaction with the announced locktime. The two only agree while
// env.BlockHeight is zero, which is what peer/brontide.go happens to leave it
// at today.
func TestProbeCloserSignsTheLockTimeItAnnounces(t *testing.T) {
	t.Parallel()

	aliceChan, bobChan, err := lnwallet.CreateTestChannels(
		t, channeldb.SingleFunderTweaklessBit,
	)
	require.NoError(t, err)

	aliceScript, bobScript := probeScript(0xa1), probeScript(0xb0)

	// Bob is the closer and knows the current height.
	bobEnv := probeEnv(bobChan, 144)
	bobStart := &LocalCloseStart{
		CloseChannelTerms: probeTerms(bobChan, bobScript, aliceScript),
	}
	transition, err := bobStart.ProcessEvent(&SendOfferEvent{
		TargetFeeRate: chainfee.SatPerVByte(10),
	}, bobEnv)
	require.NoError(t, err)

	var closingComplete *lnwire.ClosingComplete
	transition.NewEvents.WhenSome(func(ev RbfEvent) {
		for _, ext := range ev.ExternalEvents {
			send, ok := ext.(*protofsm.SendMsgEvent[ProtocolEvent])
			if !ok {
				continue
			}
			for _, m := range send.Msgs {
				if cc, ok := m.(*lnwire.ClosingComplete); ok {
					closingComplete = cc
				}
			}
		}
	})
	require.NotNil(t, closingComplete)
	require.EqualValues(t, 144, closingComplete.LockTime)

	// Alice is the closee (another lnd).
	aliceEnv := probeEnv(aliceChan, 144)
	aliceStart := &RemoteCloseStart{
		CloseChannelTerms: probeTerms(
			aliceChan, aliceScript, bobScript,
		),
	}
	aliceTransition, err := aliceStart.ProcessEvent(&OfferReceivedEvent{
		SigMsg: *closingComplete,
	}, aliceEnv)
	require.NoError(t, err, "closee rejects the closer's signature: the "+
		"closer signed nLockTime=0 but announced 144")

	alicePending, ok := aliceTransition.NextState.(*ClosePending)
	require.True(t, ok)
	require.EqualValues(t, 144, alicePending.CloseTx.LockTime)

	// Alice's closing_sig goes back to Bob, who must complete the very
	// same transaction.
	var closingSig *lnwire.ClosingSig
	aliceTransition.NewEvents.WhenSome(func(ev RbfEvent) {
		for _, ext := range ev.ExternalEvents {
			send, ok := ext.(*protofsm.SendMsgEvent[ProtocolEvent])
			if !ok {
				continue
			}
			for _, m := range send.Msgs {
				if cs, ok := m.(*lnwire.ClosingSig); ok {
					closingSig = cs
				}
			}
		}
	})
	require.NotNil(t, closingSig)
	require.EqualValues(t, 144, closingSig.LockTime)

	bobSent, ok := transition.NextState.(*LocalOfferSent)
	require.True(t, ok)
	bobTransition, err := bobSent.ProcessEvent(&LocalSigReceived{
		SigMsg: *closingSig,
	}, bobEnv)
	require.NoError(t, err, "closer cannot complete with the closee's sig")

	bobPending, ok := bobTransition.NextState.(*ClosePending)
	require.True(t, ok)
	require.Equal(
		t, alicePending.CloseTx.TxHash(), bobPending.CloseTx.TxHash(),
	)
	require.EqualValues(t, 144, bobPending.CloseTx.LockTime)
}
