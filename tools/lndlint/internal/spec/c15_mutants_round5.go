package spec

// Witness for c15_round5.go: seeded change C15/j of the fifth round.
func init() {
	registry["C15"].Mutants = append(registry["C15"].Mutants, []Mutant{
		{Name: "seed5-C15-j", File: "invoices/update.go",
			Old:    "\tswitch {\n\tcase inv.Terms.Features.RequiresFeature(lnwire.AMPRequired) &&\n\t\tctx.amp == nil:\n\n\t\treturn nil, ctx.failRes(ResultHtlcInvoiceTypeMismatch), nil\n\n\tcase !inv.Terms.Features.RequiresFeature(lnwire.AMPRequired) &&\n\t\tctx.amp != nil:\n\n\t\treturn nil, ctx.failRes(ResultHtlcInvoiceTypeMismatch), nil\n\t}\n",
			New:    "\tif inv.IsAMP() && ctx.amp == nil {\n\t\treturn nil, ctx.failRes(ResultHtlcInvoiceTypeMismatch), nil\n\t}\n",
			Expect: "htlc-is-recorded-only-when-payload-type-agrees-with-invoice-type"},
		{Name: "seed5-C15-j-legacy-sibling", File: "invoices/update.go",
			Old:    "\tif inv.IsAMP() {\n\t\treturn nil, ctx.failRes(ResultHtlcInvoiceTypeMismatch), nil\n\t}\n",
			New:    "",
			Expect: "htlc-is-recorded-only-when-payload-type-agrees-with-invoice-type"},
	}...)
}
