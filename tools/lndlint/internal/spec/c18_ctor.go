package spec

import (
	"go/ast"
	"go/token"
	"go/types"

	"lndlint/internal/an"
	"lndlint/internal/flow"
)

// c18Ctor is the shape of sweep.NewLinearFeeFunction the rules of C18 rely
// on: the two rate locals of the per-block delta `end - start`, the
// statements that write the starting rate, and the composite literals the
// constructor builds.
type c18Ctor struct {
	f          *an.Func
	start, end types.Object
	deltas     []an.Site // the assignments that compute `end - start`
	extraDelta []ast.Expr
	// writes of start, classified
	startDef []c17VarWrite // the first definition
	caps     []an.Site     // start = end
	lifts    []an.Site     // start = chainfee.FeePerKwFloor
	other    []c17VarWrite // anything else
	// assignments of the function under construction that take the start
	rateWrites []an.Site // l.currentFeeRate = …, l.startingFeeRate = …
}

// c18FloorTerm matches the fee floor constant a transaction must pay to be
// relayed.
func c18FloorTerm() an.Term { return an.PkgVar("lnwallet/chainfee", "FeePerKwFloor") }

// c18CallerGaveStart is the fact "the caller supplied the starting rate" (want)
// or "the starting rate is the estimator's" (!want): IsSome()/IsNone() of the
// constructor's starting-rate option.
func c18CallerGaveStart(c *an.Func, want bool) an.Fact {
	opt := an.Param(3)
	desc := "the caller supplied the starting rate"
	if !want {
		desc = "the starting rate is estimated"
	}
	return an.AnyOf(desc,
		an.Truth(an.CallNamed("IsSome", opt), want, ""),
		an.Truth(an.CallNamed("IsNone", opt), !want, ""))
}

// c18CtorShape reads the shape of the constructor; fields stay empty for what
// cannot be found (the callers report that).
func c18CtorShape(p *an.Prog) *c18Ctor {
	c := p.Func(sw + "NewLinearFeeFunction")
	k := &c18Ctor{f: c}
	for _, v := range c.Graph().V {
		as, ok := v.Node.(*ast.AssignStmt)
		if !ok {
			continue
		}
		ast.Inspect(as, func(n ast.Node) bool {
			if _, isLit := n.(*ast.FuncLit); isLit {
				return false
			}
			be, ok := n.(*ast.BinaryExpr)
			if !ok || be.Op != token.SUB {
				return true
			}
			x, xok := ast.Unparen(be.X).(*ast.Ident)
			y, yok := ast.Unparen(be.Y).(*ast.Ident)
			if !xok || !yok || c.Info().TypeOf(x) == nil || an.TypeID(c.Info().TypeOf(x)) != "lnwallet/chainfee.SatPerKWeight" {
				return true
			}
			ex, sy := c17ObjOfIdent(c, x), c17ObjOfIdent(c, y)
			if (k.end != nil && ex != k.end) || (k.start != nil && sy != k.start) {
				k.extraDelta = append(k.extraDelta, be)
				return true
			}
			k.end, k.start = ex, sy
			k.deltas = append(k.deltas, an.Site{Fn: c, V: v, Node: as})
			return true
		})
	}
	if k.start == nil {
		return k
	}
	for i, w := range c17WritesOf(c, k.start) {
		s, inGraph := c17SiteOfNode(c, w.Node)
		plain := inGraph && w.Tok == token.ASSIGN && w.Whole && !w.Tuple && w.Rhs != nil
		switch {
		case i == 0 && w.Tok == token.DEFINE && inGraph:
			k.startDef = append(k.startDef, w)
		case plain && c17ObjTerm(k.end)(c, ast.Unparen(w.Rhs)):
			k.caps = append(k.caps, s)
		case plain && c18FloorTerm()(c, ast.Unparen(w.Rhs)):
			k.lifts = append(k.lifts, s)
		default:
			k.other = append(k.other, w)
		}
	}
	for _, fld := range []string{"currentFeeRate", "startingFeeRate"} {
		k.rateWrites = append(k.rateWrites, c.Assigns(an.Field(sw+"LinearFeeFunction", fld, nil), false)...)
	}
	return k
}

// startTerm / endTerm match the two rate locals.
func (k *c18Ctor) startTerm() an.Term { return c17ObjTerm(k.start) }
func (k *c18Ctor) endTerm() an.Term   { return c17ObjTerm(k.end) }

// reachesWithout reports whether target can be reached from vertex from on a
// path that neither takes an edge of cut nor executes one of the stop sites.
func c18ReachesWithout(f *an.Func, from *flow.Vertex, cut flow.EdgeSet, stop []an.Site, target *flow.Vertex) bool {
	st := map[*flow.Vertex]bool{}
	for _, s := range stop {
		st[s.V] = true
	}
	r := f.Graph().Reach(from, cut, st)
	return r[target] && !st[target]
}

// c18CtorClamps is the constructor part of C18/rate-ceiling-clamps.
func c18CtorClamps(o *an.Obl, p *an.Prog) {
	k := c18CtorShape(p)
	c := k.f
	notReassigned(o, c, c17ParamNames(c, 0, 1, 3)...)

	// the ceiling is never written after construction
	for _, fn := range p.Funcs(false, "sweep") {
		for _, s := range fn.Assigns(an.Field(sw+"LinearFeeFunction", "endingFeeRate", nil), true) {
			o.FailAt(fn.ID+"#writes-ending", s.Where(), "%s writes the ceiling of an existing fee function: %s", fn.ID, s.String())
		}
	}

	// the starting rate is never above the ending rate when the per-block
	// delta `end - start` is computed (the delta is stored in an unsigned
	// type): either `start > end` is false or start was set to end
	for _, be := range k.extraDelta {
		o.FailAt(c.ID+"#delta", c.Where(be.Pos()), "a second rate difference %s", an.Text(be))
	}
	haveDelta := need(o, c, "delta computation from end - start", k.deltas, 1)
	if haveDelta {
		// end: one definition, the ceiling of the function under construction
		for i, w := range c17WritesOf(c, k.end) {
			sel, _ := w.Rhs.(*ast.SelectorExpr)
			ok := i == 0 && w.Tok == token.DEFINE && !w.Tuple && sel != nil && an.Field(sw+"LinearFeeFunction", "endingFeeRate", nil)(c, sel)
			if ok {
				base, _ := ast.Unparen(sel.X).(*ast.Ident)
				var def ast.Expr
				if base != nil {
					def = c.UniqueDef(base)
				}
				u, _ := def.(*ast.UnaryExpr)
				isLit := false
				if u != nil && u.Op == token.AND {
					_, isLit = ast.Unparen(u.X).(*ast.CompositeLit)
				}
				ok = isLit
			}
			o.Site("%s = %s", k.end.Name(), an.Text(w.Node))
			if !ok {
				o.FailAt(c.ID+"#end-definition", c.Where(w.Node.Pos()), "the rate the start is capped at is written by %s, expected one definition from the ceiling of the function under construction", an.Text(w.Node))
			}
		}
	}

	// ---- the literals: the ceiling is the parameter, directly or through
	// the local read back from the function under construction
	isCeiling := func(fn *an.Func, e ast.Expr) bool {
		e = ast.Unparen(e)
		if id, ok := e.(*ast.Ident); ok && k.end != nil && c17ObjOfIdent(fn, id) == k.end {
			return true
		}
		return fn.Canon(e) == "$p0"
	}
	ge := an.Cmp(k.startTerm(), an.GE, k.endTerm(), "start >= end")
	lastBlock := an.Cmp(an.Param(1), an.LE, an.IntConst(1), "confTarget <= 1")
	nLit := 0
	for _, cl := range p.CompositeLitsOf(p.LookupType("sweep", "LinearFeeFunction")) {
		if cl.Fn == nil || an.IsTestish(cl.Fn.Filename()) {
			continue
		}
		if cl.Fn.Root().ID != c.ID {
			o.FailAt(cl.Fn.ID+"#builds-fee-function", cl.Where, "%s builds a LinearFeeFunction outside its constructor", cl.Fn.ID)
			continue
		}
		nLit++
		ending, constant := "", false
		for _, el := range cl.Node.(*ast.CompositeLit).Elts {
			kv, ok := el.(*ast.KeyValueExpr)
			if !ok {
				o.FailAt(c.ID+"#literal", cl.Where, "positional LinearFeeFunction literal")
				continue
			}
			switch an.Text(kv.Key) {
			case "endingFeeRate":
				ending = an.Text(kv.Value)
				o.Site("constructor endingFeeRate = %s", an.Text(kv.Value))
				if !isCeiling(cl.Fn, kv.Value) {
					o.FailAt(c.ID+"#ending", c.Where(kv.Pos()), "endingFeeRate is initialised from %s", an.Text(kv.Value))
				}
			case "currentFeeRate", "startingFeeRate":
				// a rate placed directly in the literal bypasses the cap of the
				// starting rate: only the ceiling itself is known not to exceed it
				constant = true
				o.Site("constructor literal %s = %s", an.Text(kv.Key), an.Text(kv.Value))
				if !isCeiling(cl.Fn, kv.Value) {
					o.FailAt(c.ID+"#literal-"+an.Text(kv.Key), c.Where(kv.Pos()), "the literal sets %s to %s; without the cap only the ceiling itself may be placed there", an.Text(kv.Key), cl.Fn.Canon(kv.Value))
				}
			}
		}
		if ending == "" {
			o.FailAt(c.ID+"#ending", cl.Where, "a LinearFeeFunction literal does not set endingFeeRate")
		}
		if !constant {
			continue
		}
		// a function that sits at the ceiling from the first block on is built
		// only where nothing is left to ramp: the deadline is the next block,
		// or the (capped) starting rate has reached the ceiling
		s, inGraph := c17SiteOfNode(c, cl.Node)
		if !inGraph {
			o.FailAt(c.ID+"#constant-function", cl.Where, "a constant fee function is built inside a closure")
			continue
		}
		atCeiling, _ := c.Guarded(s, ge)
		last, _ := c.Guarded(s, lastBlock)
		o.Site("constant function at the ceiling at %s (confTarget <= 1: %v, start >= end: %v)", s.Where(), last, atCeiling)
		switch {
		case last:
		case atCeiling && k.start != nil:
			c17HoldsSinceLastWrite(o, c, s, ge, k.start, k.end)
		default:
			o.FailAt(c.ID+"#constant-function", s.Where(), "a function that offers the ceiling from the first block on is built where neither `confTarget <= 1` nor `start >= end` (after the cap) holds; guards here: %v", c.GuardsAt(s))
		}
	}
	if nLit == 0 {
		o.FailAt(c.ID+"#ending", c.Where(c.Body.Pos()), "the constructor builds no LinearFeeFunction literal")
	}
	if !haveDelta {
		return
	}

	// ---- start: defined once; afterwards only the lift to the fee floor
	// (upward, for a caller-supplied rate, to that constant) and the cap
	// `start = end`; the cap is the last word before the rate is consumed
	for _, w := range k.startDef {
		o.Site("start defined by %s", an.Text(w.Node))
	}
	for _, w := range k.other {
		o.FailAt(c.ID+"#start-reassigned", c.Where(w.Node.Pos()), "the starting rate is changed by %s; only the lift `start = chainfee.FeePerKwFloor` below `start < chainfee.FeePerKwFloor` and the cap `start = end` are tabled", an.Text(w.Node))
	}
	for _, s := range k.caps {
		o.Site("start = end at %s", s.Where())
	}
	le := an.CmpX(k.startTerm(), an.LE, k.endTerm(), "start <= end")
	consumers := append(append([]an.Site{}, k.deltas...), k.rateWrites...)
	for _, s := range k.lifts {
		o.Site("start lifted to the fee floor at %s", s.Where())
		guarded(o, c, s, an.Cmp(k.startTerm(), an.LE, c18FloorTerm(), "start < FeePerKwFloor"))
		guarded(o, c, s, c18CallerGaveStart(c, true))
		// the lift precedes the cap: whatever consumes the rate after it is
		// behind `start = end` or a fresh `start <= end`
		for _, t := range consumers {
			if c18ReachesWithout(c, s.V, c.EdgesOf(le), k.caps, t.V) {
				o.FailAt(c.ID+"#lift-after-cap", s.Where(), "after the lift to the fee floor at %s, %s is reached without the cap `start = end` and without a new test `start <= end`: the floor may exceed the ceiling", s.Where(), t.String())
			}
		}
	}
	if len(k.caps) == 0 {
		// rejecting instead of capping is as good
		guardedAll(o, c, k.deltas, le)
	} else {
		mustDoUnless(o, c, "start = end", k.caps, k.deltas, le)
	}
	for _, s := range c.Assigns(an.Field(sw+"LinearFeeFunction", "currentFeeRate", nil), false) {
		o.Site("%s", s.String())
		before(o, c, "the cap of the starting rate", k.deltas, "the assignment of currentFeeRate", []an.Site{s})
	}
}
