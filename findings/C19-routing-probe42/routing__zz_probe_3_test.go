package routing

import (
	"math"
	"math/big"
	"testing"

	"github.com/lightningnetwork/lnd/lnwire"
	"github.com/stretchr/testify/require"
)

// TestProbeFeeRateWrapUnderpaysHop: a node announces a fee rate of 2^31 ppm
// (the field is a uint32 of gossip). For an amount of 2^33 msat (0.086 BTC)
// the product is exactly 2^64. A route through that node must either pay the
// fee the policy demands or not be returned.
func TestProbeFeeRateWrapUnderpaysHop(t *testing.T) {
	const (
		rate = uint64(1) << 31
		base = uint64(1000)
	)
	amt := lnwire.MilliSatoshi(1 << 33)

	testChannels := []*testChannel{
		symmetricTestChannel("me", "evil", 10_000_000,
			&testChannelPolicy{
				Expiry:  40,
				MinHTLC: 1,
				MaxHTLC: lnwire.NewMSatFromSatoshis(10_000_000),
			}, 1),
		symmetricTestChannel("evil", "t", 10_000_000,
			&testChannelPolicy{
				Expiry:      40,
				FeeBaseMsat: lnwire.MilliSatoshi(base),
				FeeRate:     lnwire.MilliSatoshi(rate),
				MinHTLC:     1,
				MaxHTLC:     lnwire.NewMSatFromSatoshis(10_000_000),
			}, 2),
	}

	graph, err := createTestGraphFromChannels(
		t, true, testChannels, "me",
	)
	require.NoError(t, err)

	ctx := createTestCtxFromGraphInstance(t, 100, graph)

	target := ctx.aliases["t"]
	restrictions := &RestrictParams{
		FeeLimit:          lnwire.NewMSatFromSatoshis(1000),
		ProbabilitySource: noProbabilitySource,
		CltvLimit:         math.MaxUint32,
	}
	req, err := NewRouteRequest(
		ctx.router.cfg.SelfNode, &target, amt, 0, restrictions, nil,
		nil, nil, 40,
	)
	require.NoError(t, err)

	rt, _, err := ctx.router.FindRoute(req)
	if err != nil {
		// The real fee is about 1.8e13 msat, far beyond the limit.
		require.ErrorIs(t, err, errNoPathFound)
		return
	}

	require.Len(t, rt.Hops, 2)

	// What evil demands for forwarding hop[0].AmtToForward.
	fwd := uint64(rt.Hops[0].AmtToForward)
	want := new(big.Int).Mul(
		new(big.Int).SetUint64(fwd), new(big.Int).SetUint64(rate),
	)
	want.Div(want, big.NewInt(1_000_000))
	want.Add(want, new(big.Int).SetUint64(base))

	paid := new(big.Int).SetUint64(uint64(rt.TotalAmount) - fwd)
	require.GreaterOrEqualf(t, paid.Cmp(want), 0, "the route pays %v msat "+
		"to a hop whose policy demands %v msat (fee limit %v)", paid,
		want, restrictions.FeeLimit)
}
