package paymentsdb

import (
	"crypto/sha256"
	"testing"

	"github.com/lightningnetwork/lnd/lnwire"
	"github.com/stretchr/testify/assert"
	"github.com/stretchr/testify/require"
)

// TestZZProbe5HopFieldsBothBackends: the hops of a stored route read back the
// same on both backends, including Hop.LegacyPayload and a total amount record
// on a final hop that is not blinded (SendToRoute takes total_amt_msat of any
// hop from the caller).
func TestZZProbe5HopFieldsBothBackends(t *testing.T) {
	preimg := genPreimage(t)
	rhash := sha256.Sum256(preimg[:])

	type view struct {
		legacy []bool
		total  lnwire.MilliSatoshi
	}
	views := make(map[string]view)

	for name, db := range zzSeedStores(t) {
		ctx := t.Context()

		info := genPaymentCreationInfo(t, rhash)
		hash := info.PaymentIdentifier
		require.NoError(t, db.InitPayment(ctx, hash, info))

		a := genAttemptWithHash(t, 0, genSessionKey(t), rhash)
		a.Route.Hops[0].LegacyPayload = true
		a.Route.FinalHop().TotalAmtMsat = info.Value
		_, err := db.RegisterAttempt(ctx, hash, a)
		require.NoError(t, err)

		p, err := db.FetchPayment(ctx, hash)
		require.NoError(t, err)

		var v view
		for _, h := range p.HTLCs[0].Route.Hops {
			v.legacy = append(v.legacy, h.LegacyPayload)
		}
		v.total = p.HTLCs[0].Route.FinalHop().TotalAmtMsat
		views[name] = v

		assert.Equalf(t, []bool{true, false}, v.legacy,
			"%s: LegacyPayload not read back", name)
		assert.Equalf(t, info.Value, v.total,
			"%s: TotalAmtMsat of the final hop not read back", name)
	}

	assert.Equal(t, views["kv"], views["sql"], "backends differ")
}
