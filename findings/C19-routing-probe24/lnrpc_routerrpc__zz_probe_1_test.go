package routerrpc

import (
	"testing"

	"github.com/btcsuite/btcd/btcec/v2"
	"github.com/lightningnetwork/lnd/lnrpc"
	"github.com/lightningnetwork/lnd/routing"
	"github.com/lightningnetwork/lnd/routing/route"
	"github.com/stretchr/testify/require"
)

// TestProbeQueryRoutesIntroOnlyBlindedCltvLimit (package dir: lnrpc/routerrpc)
// queries a route to a blinded path that consists of the introduction node
// only. RestrictParams.CltvLimit is "the maximum time lock of the route
// excluding the final cltv" and the final delta of such a route is the path's
// total_cltv_delta (RouteRequest.FinalExpiry, used by FindRoute and newRoute).
// The request's cltv_limit is the limit of the whole route, so what is handed
// to the router plus the final expiry must not exceed it.
func TestProbeQueryRoutesIntroOnlyBlindedCltvLimit(t *testing.T) {
	const (
		cltvLimit = 100
		pathDelta = 80
	)

	_, introPub := btcec.PrivKeyFromBytes([]byte{7})
	_, blindingPub := btcec.PrivKeyFromBytes([]byte{9})

	request := &lnrpc.QueryRoutesRequest{
		Amt:       100,
		CltvLimit: cltvLimit,
		BlindedPaymentPaths: []*lnrpc.BlindedPaymentPath{{
			BlindedPath: &lnrpc.BlindedPath{
				IntroductionNode: introPub.SerializeCompressed(),
				BlindingPoint: blindingPub.
					SerializeCompressed(),
				BlindedHops: []*lnrpc.BlindedHop{{
					BlindedNode: introPub.
						SerializeCompressed(),
					EncryptedData: []byte{1, 2, 3},
				}},
			},
			TotalCltvDelta: pathDelta,
			HtlcMaxMsat:    100_000_000,
		}},
	}

	var called bool
	findRoute := func(req *routing.RouteRequest) (*route.Route, float64,
		error) {

		called = true

		// The route the router builds has a total time lock of up to
		// height + Restrictions.CltvLimit + FinalExpiry.
		require.EqualValues(t, pathDelta, req.FinalExpiry)
		require.LessOrEqualf(t,
			req.Restrictions.CltvLimit+uint32(req.FinalExpiry),
			uint32(cltvLimit), "router may use %d blocks for the "+
				"hops plus %d for the final hop, the caller "+
				"allowed %d in total",
			req.Restrictions.CltvLimit, req.FinalExpiry, cltvLimit)

		hops := []*route.Hop{{}}
		rt, err := route.NewRouteFromHops(
			req.Amount, 144, req.Source, hops,
		)

		return rt, 1, err
	}

	backend := &RouterBackend{
		FindRoute:        findRoute,
		SelfNode:         route.Vertex{1, 2, 3},
		MaxTotalTimelock: 1000,
		MissionControl:   &mockMissionControl{},
	}

	_, err := backend.QueryRoutes(t.Context(), request)
	if err != nil {
		// Refusing the request is a sound answer as well.
		return
	}
	require.True(t, called)
}
