package lnwire

import (
	"bytes"
	"testing"

	"github.com/lightningnetwork/lnd/tlv"
	"github.com/stretchr/testify/require"
	"pgregory.net/rapid"
)

// probeRewriteLen walks the TLV stream that makes up the body of a pure TLV
// message and rewrites the length of the record of the given type to newLen,
// leaving every other byte (including the value of that record) as it is. The
// result is NOT a well formed stream for a reader that honours record lengths:
// the bytes that follow are consumed from the wrong offset.
func probeRewriteLen(t *testing.T, msg []byte, typ uint64,
	newLen uint64) ([]byte, bool) {

	var (
		buf  [8]byte
		body = msg[2:]
		r    = bytes.NewReader(body)
		out  = append([]byte(nil), msg[:2]...)
	)
	found := false
	for r.Len() > 0 {
		start := len(body) - r.Len()
		recType, err := tlv.ReadVarInt(r, &buf)
		require.NoError(t, err)
		afterType := len(body) - r.Len()
		recLen, err := tlv.ReadVarInt(r, &buf)
		require.NoError(t, err)
		afterLen := len(body) - r.Len()

		val := make([]byte, recLen)
		_, err = r.Read(val)
		if recLen > 0 {
			require.NoError(t, err)
		}

		out = append(out, body[start:afterType]...)
		if recType == typ {
			found = true
			var lb bytes.Buffer
			require.NoError(t, tlv.WriteVarInt(&lb, newLen, &buf))
			out = append(out, lb.Bytes()...)
		} else {
			out = append(out, body[afterType:afterLen]...)
		}
		out = append(out, val...)
	}

	return out, found
}

// probeWrongLen draws messages of the given type until one carries the record,
// then checks that the message is refused once the record announces a length
// its codec does not produce.
func probeWrongLen(t *testing.T, empty TestMessage, typ uint64,
	newLen uint64) {

	tried := false
	rapid.Check(t, func(rt *rapid.T) {
		if tried {
			return
		}
		msg := empty.RandTestMessage(rt)

		var b bytes.Buffer
		_, err := WriteMessage(&b, msg, 0)
		require.NoError(rt, err)

		mutated, found := probeRewriteLen(t, b.Bytes(), typ, newLen)
		if !found {
			return
		}
		tried = true

		decoded, err := ReadMessage(bytes.NewReader(mutated), 0)
		if err != nil {
			t.Logf("%T type %d len %d: refused (%v)", msg, typ,
				newLen, err)
			return
		}

		var b2 bytes.Buffer
		_, err = WriteMessage(&b2, decoded, 0)
		require.NoError(rt, err)

		t.Errorf("%T: record type %d with length %d is ACCEPTED "+
			"although its decoder consumes a different number "+
			"of bytes; re-encoding equals input: %v\n in:  %x\n "+
			"out: %x", msg, typ, newLen,
			bytes.Equal(b2.Bytes(), mutated), mutated, b2.Bytes())
	})
	require.True(t, tried, "no message with the record drawn")
}

// node_announcement_2 color (type 1): rgbDecoder reads 3 bytes whatever l is.
func TestProbeColorRecordLength5(t *testing.T) {
	probeWrongLen(t, &NodeAnnouncement2{}, 1, 5)
}

func TestProbeColorRecordLength0(t *testing.T) {
	probeWrongLen(t, &NodeAnnouncement2{}, 1, 0)
}

// channel_update_2 second_peer (type 8): booleanDecoder accepts l == 1 and
// reads nothing.
func TestProbeTrueBooleanRecordLength(t *testing.T) {
	probeWrongLen(t, &ChannelUpdate2{}, 8, 1)
}

// channel_announcement_2 outpoint (type 18): outpointDecoder reads 34 bytes
// whatever l is.
func TestProbeOutpointRecordLength36(t *testing.T) {
	probeWrongLen(t, &ChannelAnnouncement2{}, 18, 36)
}

func TestProbeOutpointRecordLength2(t *testing.T) {
	probeWrongLen(t, &ChannelAnnouncement2{}, 18, 2)
}
