package lnwire

// Probe for suspicion 1 (property C10): lnwire.decodeMilliSatoshis ->
// tlv.DBigSize never checks the record length. dyn_propose (types 2 and 4),
// dyn_commit and channel_update_2 use it. Both messages below are accepted on
// the unmodified tree.
//
// Run: go test -count=1 -run TestProbe1 ./lnwire/

import (
	"bytes"
	"encoding/binary"
	"testing"

	"github.com/stretchr/testify/require"
)

func probe1Msg(typ MessageType, body []byte) []byte {
	var b [2]byte
	binary.BigEndian.PutUint16(b[:], uint16(typ))

	return append(b[:], body...)
}

// probe1Reencode decodes raw, re-encodes, decodes again and reports.
func probe1Reencode(t *testing.T, raw []byte) (Message, []byte, Message) {
	t.Helper()

	m1, err := ReadMessage(bytes.NewReader(raw), 0)
	require.NoError(t, err)

	var b bytes.Buffer
	_, err = WriteMessage(&b, m1, 0)
	require.NoError(t, err, "decoded message can't be re-encoded")
	b2 := append([]byte{}, b.Bytes()...)

	m2, err := ReadMessage(bytes.NewReader(b2), 0)
	require.NoError(t, err)

	return m1, b2, m2
}

func TestProbe1MilliSatoshiRecordIgnoresLength(t *testing.T) {
	chanID := bytes.Repeat([]byte{0x11}, 32)

	// Record type 2 (max_htlc_value_in_flight) declares 3 bytes but its
	// BigSize value is 1 byte long. The other 2 bytes "05 00" are then
	// parsed as a separate record (type 5, length 0).
	raw := probe1Msg(MsgDynPropose, append(
		append([]byte{}, chanID...), 0x02, 0x03, 0x01, 0x05, 0x00,
	))
	msg, err := ReadMessage(bytes.NewReader(raw), 0)
	if err == nil {
		dp := msg.(*DynPropose)
		t.Errorf("dyn_propose with record 2 of length 3 / 1 byte "+
			"BigSize value accepted: max_value_in_flight=%v",
			dp.MaxValueInFlight.UnwrapOrFailV(t))
	}

	// Record type 2 declares 0 bytes; the decoder takes the next byte of
	// the stream (0x07 -- on its own a truncated record).
	raw = probe1Msg(MsgDynPropose, append(
		append([]byte{}, chanID...), 0x02, 0x00, 0x07,
	))
	msg, err = ReadMessage(bytes.NewReader(raw), 0)
	if err == nil {
		dp := msg.(*DynPropose)
		t.Errorf("dyn_propose with empty record 2 accepted: "+
			"max_value_in_flight=%v",
			dp.MaxValueInFlight.UnwrapOrFailV(t))
	}

	// Well-formed records of each of the four BigSize widths still decode
	// and re-encode byte-identically.
	for _, tail := range [][]byte{
		{0x02, 0x01, 0x07},
		{0x02, 0x03, 0xfd, 0x01, 0x00},
		{0x02, 0x05, 0xfe, 0x00, 0x01, 0x00, 0x00},
		{0x02, 0x09, 0xff, 0, 0, 0, 1, 0, 0, 0, 0},
	} {
		raw = probe1Msg(MsgDynPropose, append(
			append([]byte{}, chanID...), tail...,
		))
		_, b2, _ := probe1Reencode(t, raw)
		require.Equal(t, raw, b2)
	}
}
