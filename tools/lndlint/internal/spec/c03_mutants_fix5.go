package spec

// Witnesses of c03_fix5.go: reversals of the repairs 39d76f7 and 9b717a1 and
// close variants.
func init() {
	registry["C03"].Mutants = append(registry["C03"].Mutants, []Mutant{
		// ---- add-cases-cover-noop-adds (39d76f7)
		{Name: "fixrev-commit-diff-lists-circuits-of-plain-adds-only", File: "lnwallet/channel.go",
			Old:    "		case Add, NoOpAdd:\n			// Gather any references for circuits opened by this Add",
			New:    "		case Add:\n			// Gather any references for circuits opened by this Add",
			Expect: "add-cases-cover-noop-adds"},
		{Name: "c03f5-log-update-of-noop-add-not-built", File: "lnwallet/payment_descriptor.go",
			Old:    "	case Add, NoOpAdd:\n		msg = &lnwire.UpdateAddHTLC{",
			New:    "	case Add:\n		msg = &lnwire.UpdateAddHTLC{",
			Expect: "add-cases-cover-noop-adds"},
		{Name: "c03f5-isadd-forgets-noop-adds", File: "lnwallet/payment_descriptor.go",
			Old:    "	return pd.EntryType == Add || pd.EntryType == NoOpAdd",
			New:    "	return pd.EntryType == Add",
			Expect: "add-cases-cover-noop-adds"},
		{Name: "c03f5-aux-isadd-denies-noop-adds", File: "lnwallet/aux_signer.go",
			Old:    "	case Add:\n		fallthrough\n	case NoOpAdd:\n		return true",
			New:    "	case Add:\n		return true\n	case NoOpAdd:\n		return false",
			Expect: "add-cases-cover-noop-adds"},
		{Name: "c03f5-uncommitted-noop-adds-not-collected", File: "lnwallet/channel.go",
			Old:    "		switch update.EntryType {\n		case Add, NoOpAdd:",
			New:    "		switch update.EntryType {\n		case NoOpAdd:\n			return false\n		case Add:",
			Expect: "add-cases-cover-noop-adds"},

		// ---- restarted-link-signs-what-it-owes (9b717a1)
		{Name: "fixrev-restarted-link-signs-for-own-updates-only", File: "htlcswitch/link.go",
			Old:    "	if l.channel.OweCommitment() {\n		return l.updateCommitTx(ctx)",
			New:    "	if l.channel.NumPendingUpdates(lntypes.Local, lntypes.Remote) > 0 {\n		return l.updateCommitTx(ctx)",
			Expect: "restarted-link-signs-what-it-owes"},
		{Name: "c03f5-restarted-link-signs-only-with-own-updates-too", File: "htlcswitch/link.go",
			Old:    "	if l.channel.OweCommitment() {\n		return l.updateCommitTx(ctx)",
			New:    "	if l.channel.OweCommitment() && l.channel.NumPendingUpdates(lntypes.Local, lntypes.Remote) > 0 {\n		return l.updateCommitTx(ctx)",
			Expect: "restarted-link-signs-what-it-owes"},
		{Name: "c03f5-restarted-link-asks-what-it-needs", File: "htlcswitch/link.go",
			Old:    "	if l.channel.OweCommitment() {\n		return l.updateCommitTx(ctx)",
			New:    "	if l.channel.NeedCommitment() {\n		return l.updateCommitTx(ctx)",
			Expect: "restarted-link-signs-what-it-owes"},
		{Name: "c03f5-restarted-link-drops-the-signing-error", File: "htlcswitch/link.go",
			Old:    "	if l.channel.OweCommitment() {\n		return l.updateCommitTx(ctx)\n	}",
			New:    "	if l.channel.OweCommitment() {\n		_ = l.updateCommitTx(ctx)\n	}",
			Expect: "restarted-link-signs-what-it-owes"},
		{Name: "c03f5-restarted-link-asks-before-reprocessing", File: "htlcswitch/link.go",
			Old:    "	for _, fwdPkg := range fwdPkgs {\n		if err := l.resolveFwdPkg(fwdPkg); err != nil {\n			return err\n		}\n	}\n",
			New:    "	if l.channel.OweCommitment() {\n		return l.updateCommitTx(ctx)\n	}\n	for _, fwdPkg := range fwdPkgs {\n		if err := l.resolveFwdPkg(fwdPkg); err != nil {\n			return err\n		}\n	}\n	if true {\n		return nil\n	}\n",
			Expect: "restarted-link-signs-what-it-owes"},
		{Name: "c03f5-restarted-link-skips-signing-after-a-failed-package", File: "htlcswitch/link.go",
			Old:    "		if err := l.resolveFwdPkg(fwdPkg); err != nil {\n			return err\n		}\n	}\n\n	// If any of our reprocessing steps",
			New:    "		if err := l.resolveFwdPkg(fwdPkg); err != nil {\n			return nil\n		}\n	}\n\n	// If any of our reprocessing steps",
			Expect: "restarted-link-signs-what-it-owes"},
	}...)
}
