package lnwire

import (
	"bytes"
	"testing"

	"github.com/lightningnetwork/lnd/tlv"
	"github.com/stretchr/testify/require"
)

// The address list decoders of node_announcement_2 use r.Read instead of
// io.ReadFull, so a record whose announced length runs past the end of the
// stream is accepted when the cut falls inside the port of the last entry (one
// of the two port bytes present): the missing byte reads as zero, or as the
// low port byte of the previous entry, because the scratch array is reused.
func TestProbeAddrListShortRead(t *testing.T) {
	// type 5 (ipv4 list), length 6, but only 5 value bytes are there.
	truncated := []byte{0x05, 0x06, 1, 2, 3, 4, 0x26}

	var addrs IPV4Addrs
	rec := tlv.MakeDynamicRecord(
		5, &addrs, addrs.encodedSize, ipv4AddrsEncoder,
		ipv4AddrsDecoder,
	)
	stream, err := tlv.NewStream(rec)
	require.NoError(t, err)

	err = stream.DecodeP2P(bytes.NewReader(truncated))
	if err == nil {
		t.Errorf("truncated ipv4 list record accepted: %v", addrs[0])
	}
}

// The same cut for the ipv6 and tor v3 lists, and a two entry ipv4 list whose
// second port is cut: the missing low byte is taken from the first entry.
func TestProbeAddrListShortReadOthers(t *testing.T) {
	decode := func(rec tlv.Record, b []byte) error {
		stream, err := tlv.NewStream(rec)
		require.NoError(t, err)

		return stream.DecodeP2P(bytes.NewReader(b))
	}

	var v6 IPV6Addrs
	in := append([]byte{0x07, 18}, bytes.Repeat([]byte{0x20}, 17)...)
	err := decode(tlv.MakeDynamicRecord(
		7, &v6, v6.encodedSize, ipv6AddrsEncoder, ipv6AddrsDecoder,
	), in)
	if err == nil {
		t.Errorf("truncated ipv6 list record accepted: %v", v6[0])
	}

	var onion TorV3Addrs
	in = append([]byte{0x09, torV3AddrEncodedSize},
		bytes.Repeat([]byte{0x20}, torV3AddrEncodedSize-1)...)
	err = decode(tlv.MakeDynamicRecord(
		9, &onion, onion.encodedSize, torV3AddrsEncoder,
		torV3AddrsDecoder,
	), in)
	if err == nil {
		t.Errorf("truncated tor v3 list record accepted: %v", onion[0])
	}

	var v4 IPV4Addrs
	in = []byte{
		0x05, 12, 1, 2, 3, 4, 0x26, 0x07, 5, 6, 7, 8, 0x11,
	}
	err = decode(tlv.MakeDynamicRecord(
		5, &v4, v4.encodedSize, ipv4AddrsEncoder, ipv4AddrsDecoder,
	), in)
	if err == nil {
		t.Errorf("truncated two entry ipv4 list accepted: %v %v "+
			"(port low byte of entry 2 is stale)", v4[0], v4[1])
	}
}
