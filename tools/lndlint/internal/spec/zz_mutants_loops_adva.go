package spec

// Reported gaps of the first adversarial campaign (tools/scripts/gaps/advA-gaps.txt) that the
// rewritten loop engine closed; the other 77 are kept as closed-* witnesses by the spec that closed them.
func init() {
	registry["C01"].Mutants = append(registry["C01"].Mutants, []Mutant{
		{Name: "adv3-loop-revocation-scan-stops-at-forwarded", File: "lnwallet/channel.go",
			Old:    "		if pd.isForwarded {\n			continue\n		}",
			New:    "		if pd.isForwarded {\n			break\n		}",
			Expect: "per-element-loops-visit-every-element"},
		{Name: "adv3-loop-compaction-stops-at-first-add", File: "lnwallet/update_log.go",
			Old:    "			if htlc.EntryType == Add {\n				continue\n			}",
			New:    "			if htlc.EntryType == Add {\n				break\n			}",
			Expect: "per-element-loops-visit-every-element"},
		{Name: "adv3-loop-view-scan-stops-at-first-uncovered", File: "lnwallet/channel.go",
			Old:    "		if htlc.LogIndex < theirLogIndex {\n			theirHTLCs = append(theirHTLCs, htlc)\n		}",
			New:    "		if htlc.LogIndex < theirLogIndex {\n			theirHTLCs = append(theirHTLCs, htlc)\n		} else {\n			break\n		}",
			Expect: "per-element-loops-visit-every-element"},
	}...)
	registry["C02"].Mutants = append(registry["C02"].Mutants, []Mutant{
		{Name: "adv3-loop-acked-scan-stops-at-signed-update", File: "lnwallet/channel.go",
			Old:    "		if pd.LogIndex < lastRemoteCommitted {\n			continue\n		}",
			New:    "		if pd.LogIndex < lastRemoteCommitted {\n			break\n		}",
			Expect: "per-element-loops-visit-every-element"},
		{Name: "adv3-loop-unsigned-local-scan-stops-at-add", File: "lnwallet/channel.go",
			Old:    "		if pd.isAdd() {\n			continue\n		}\n\n		// This is a settle/fail that is on the remote commitment, but",
			New:    "		if pd.isAdd() {\n			break\n		}\n\n		// This is a settle/fail that is on the remote commitment, but",
			Expect: "per-element-loops-visit-every-element"},
		{Name: "adv3-loop-commit-diff-scan-stops-at-lingering-entry", File: "lnwallet/channel.go",
			Old:    "			pd.removeCommitHeights.Remote != newCommit.height {\n\n			continue\n		}",
			New:    "			pd.removeCommitHeights.Remote != newCommit.height {\n\n			break\n		}",
			Expect: "per-element-loops-visit-every-element"},
		{Name: "adv3-loop-store-filter-stops-at-unsigned-update", File: "channeldb/channel.go",
			Old:    "				unsignedUpdates = append(unsignedUpdates, upd)\n\n				continue",
			New:    "				unsignedUpdates = append(unsignedUpdates, upd)\n\n				break",
			Expect: "log-index-window-discipline"},
	}...)
}
