package paymentsdb

import (
	"crypto/sha256"
	"testing"

	"github.com/lightningnetwork/lnd/routing/route"
	"github.com/stretchr/testify/require"
)

// TestZZProbe4StoredAttemptWithoutHops: a stored in-flight attempt without
// hops (legacy or damaged data) must make verifyAttempt refuse the new attempt
// with an error, not crash the daemon.
func TestZZProbe4StoredAttemptWithoutHops(t *testing.T) {
	preimg := genPreimage(t)
	rhash := sha256.Sum256(preimg[:])
	info := genPaymentCreationInfo(t, rhash)

	stored := genAttemptWithHash(t, 0, genSessionKey(t), rhash)
	stored.Route.Hops = nil

	payment := &MPPayment{
		Info:  info,
		HTLCs: []HTLCAttempt{{HTLCAttemptInfo: *stored}},
	}
	require.NoError(t, payment.setState())
	require.Equal(t, StatusInFlight, payment.Status)

	attempt := genAttemptWithHash(t, 1, genSessionKey(t), rhash)

	var err error
	require.NotPanics(t, func() {
		err = verifyAttempt(payment, attempt)
	})
	require.ErrorIs(t, err, route.ErrNoRouteHopsProvided)
}
