package spec

import (
	"go/ast"
	"go/token"
	"go/types"
	"strings"

	"lndlint/internal/an"
	"lndlint/internal/flow"
)

// commitStoreTransactions: the three commit-state transitions of the channel
// store write their complete key set inside one transaction on every
// successful path, and the lastWasRevoke flag is the constant each transition
// documents. Shared by C02 (reloaded state) and C03 (the flag orders the
// retransmission after a reconnect).
func commitStoreTransactions(r *an.Run) {
	p := r.Prog
	type txSpec struct {
		fn     string
		writes []struct {
			what string
			term an.Term
		}
		// legacyKeys are writes that the documented early return may skip
		legacy []struct {
			what string
			term an.Term
		}
		legacyGet string
		// gate is the fact that keeps a borked channel out of the
		// transition (every write lies below it)
		gate an.Fact
	}
	// AppendRemoteCommitChain and AdvanceCommitChainTail ask isChannelBorked;
	// UpdateChannelCommitment, which also writes the fetched copy's chanInfo
	// back, tests the status of the copy it fetched in the transaction itself
	notBorked := an.Truth(an.ResultOf(an.CallTo("channeldb.isChannelBorked", nil, an.Param(0), canonTerm(`^channeldb\.fetchChanBucketRw\(`)), 0), false, "!isBorked")
	diskDefault := an.Cmp(an.CallNamed("ChannelStatusForStore", canonTerm(c02DiskCopyOfUpdate)), an.EQ, an.PkgVar("channeldb", "ChanStatusDefault"),
		"status of the channel fetched in this transaction == ChanStatusDefault")
	put := func(key string) an.Term {
		return an.CallNamed("Put", nil, an.PkgVar("channeldb", key))
	}
	del := func(key string) an.Term {
		return an.CallNamed("Delete", nil, an.PkgVar("channeldb", key))
	}
	call := func(id string) an.Term { return an.CallTo(id, nil) }
	type w = struct {
		what string
		term an.Term
	}
	txs := []txSpec{
		{fn: "channeldb.ChannelStateDB.UpdateChannelCommitment", writes: []w{
			{"putChanInfo", call("channeldb.putChanInfo")},
			{"putChanCommitment", an.CallTo("channeldb.putChanCommitment", nil, nil, nil, an.BoolConst(true))},
			{"Put(unsignedAckedUpdatesKey)", put("unsignedAckedUpdatesKey")},
			{"Put(lastWasRevokeKey)", put("lastWasRevokeKey")},
		}, legacy: []w{{"Put(remoteUnsignedLocalUpdatesKey)", put("remoteUnsignedLocalUpdatesKey")}}, legacyGet: "remoteUnsignedLocalUpdatesKey", gate: diskDefault},
		{fn: "channeldb.ChannelStateDB.AppendRemoteCommitChain", writes: []w{
			{"AckAddHtlcs", call("channeldb.ChannelPackager.AckAddHtlcs")},
			{"AckSettleFails", call("channeldb.ChannelPackager.AckSettleFails")},
			{"Put(lastWasRevokeKey)", put("lastWasRevokeKey")},
			{"Put(commitDiffKey)", put("commitDiffKey")},
		}, gate: notBorked},
		{fn: "channeldb.ChannelStateDB.AdvanceCommitChainTail", writes: []w{
			{"putChanRevocationState", call("channeldb.putChanRevocationState")},
			{"putChanCommitment(remote)", an.CallTo("channeldb.putChanCommitment", nil, nil, nil, an.BoolConst(false))},
			{"Delete(commitDiffKey)", del("commitDiffKey")},
			{"putRevocationLog", call("channeldb.putRevocationLog")},
			{"AddFwdPkg", call("channeldb.ChannelPackager.AddFwdPkg")},
			// our updates the peer still has to sign are stored on every
			// successful path, also while unsignedAckedUpdatesKey does not
			// exist yet (before our first revocation): see known_findings
			// "fixed" and DESIGN.md section 9
			{"Put(remoteUnsignedLocalUpdatesKey)", put("remoteUnsignedLocalUpdatesKey")},
		}, gate: notBorked},
	}
	r.Obl("one-transaction-complete-write-set", "PATH",
		"each state transition of the store runs exactly one kvdb.Update; inside its closure every required durable write is on every nil-error return and is reachable only below the transition's borked gate (the false answer of isChannelBorked(the channel, the channel's bucket) in AppendRemoteCommitChain and AdvanceCommitChainTail; in UpdateChannelCommitment the status of the channel fetched from the bucket in this very transaction compared equal to ChanStatusDefault); writes the legacy early return may skip are required on every other success return; every direct Put stores the bytes of a local buffer filled by exactly one successful serializer call with the value that key holds (no buffer stored twice, none filled and dropped), and the helper writes receive the transition's own channel / commitment / diff / forwarding package (putChanInfo of UpdateChannelCommitment: the channel fetched in the transaction, not the caller's)",
		"a write that is skipped on some success path, or moved out of the transaction, makes the reloaded state a mixture of two transitions", 40,
		func(o *an.Obl) {
			for _, tx := range txs {
				f := p.Func(tx.fn)
				upd := f.Calls(kvUpdate, false)
				if len(upd) != 1 {
					o.FailAt(f.ID+"#kvdb.Update-count", f.Where(f.Body.Pos()), "%s contains %d kvdb.Update calls, expected exactly one transaction", f.ID, len(upd))
					continue
				}
				o.Site("transaction %s", upd[0].String())
				cl := theLit(f, kvUpdate, "kvdb.Update")
				succ := cl.SuccessReturns()
				for _, wr := range tx.writes {
					sites := cl.CallsMatching(wr.term, false)
					mustPass(o, cl, wr.what, sites, an.OkErrNil, succ)
					guardedAll(o, cl, sites, tx.gate)
					if want, ok := c02StoreArgs[tx.fn+"/"+wr.what]; ok {
						for _, s := range sites {
							c02ArgsAre(o, cl, s, wr.what, want)
						}
					}
					// and nowhere outside the closure
					for _, s := range f.CallsMatching(wr.term, false) {
						o.FailAt(f.ID+"#outside-tx-"+wr.what, s.Where(), "%s is called outside the kvdb.Update closure", wr.what)
					}
				}
				// the value side of the direct Put calls
				c02BufferStores(o, cl, c02StorePayloads[tx.fn])
				if len(tx.legacy) > 0 {
					legacyFact := an.IsNil(an.CallNamed("Get", nil, an.PkgVar("channeldb", tx.legacyGet)), true, "Get("+tx.legacyGet+") == nil")
					var rest []an.Site
					nLegacy := 0
					for _, s := range succ {
						if ok, _ := cl.Guarded(s, legacyFact); ok {
							nLegacy++
							o.Site("legacy early return %s", s.String())
							continue
						}
						rest = append(rest, s)
					}
					if nLegacy != 1 {
						o.FailAt(cl.ID+"#legacy-returns", cl.Where(cl.Body.Pos()), "expected exactly one documented early return below %s, found %d", legacyFact.Desc, nLegacy)
					}
					for _, wr := range tx.legacy {
						sites := cl.CallsMatching(wr.term, false)
						mustPass(o, cl, wr.what, sites, an.OkErrNil, rest)
					}
				}
			}
		})

	r.Obl("lastWasRevoke-constants", "TABLE",
		"the value stored under lastWasRevokeKey is the constant true in UpdateChannelCommitment (we just revoked) and false in AppendRemoteCommitChain (we just signed); fetchChanInfo decodes the stored value into channel.LastWasRevoke and sets the constant false only when the key is absent",
		"ProcessChanSyncMsg orders the retransmitted revocation and commitment by this flag (C03)", 2,
		func(o *an.Obl) {
			for fnID, want := range map[string]bool{
				"channeldb.ChannelStateDB.UpdateChannelCommitment": true,
				"channeldb.ChannelStateDB.AppendRemoteCommitChain": false,
			} {
				f := p.Func(fnID)
				cl := theLit(f, kvUpdate, "kvdb.Update")
				puts := cl.CallsMatching(an.CallNamed("Put", nil, an.PkgVar("channeldb", "lastWasRevokeKey")), false)
				if len(puts) != 1 {
					o.FailAt(f.ID+"#Put(lastWasRevokeKey)-count", f.Where(f.Body.Pos()), "expected one Put(lastWasRevokeKey), found %d", len(puts))
					continue
				}
				// Put(key, b.Bytes()) ; WriteElements(&b, CONST)
				val := callArg(puts[0], 1)
				var buf *ast.Ident
				if c, ok := ast.Unparen(val).(*ast.CallExpr); ok {
					if sel, ok := c.Fun.(*ast.SelectorExpr); ok && sel.Sel.Name == "Bytes" {
						buf, _ = ast.Unparen(sel.X).(*ast.Ident)
					}
				}
				if buf == nil {
					o.FailAt(f.ID+"#lastWasRevoke-value", puts[0].Where(), "value stored under lastWasRevokeKey is not <buffer>.Bytes(): %s", an.Text(val))
					continue
				}
				bufObj := cl.Info().Uses[buf]
				found := 0
				for _, ws := range cl.Calls(an.CalleeIs("channeldb.WriteElements"), false) {
					c := ws.Node.(*ast.CallExpr)
					if len(c.Args) < 1 {
						continue
					}
					id, _ := an.Strip(cl.Info(), c.Args[0]).(*ast.Ident)
					if id == nil || cl.Info().Uses[id] != bufObj {
						continue
					}
					found++
					o.Site("%s stores %s", f.ID, an.Text(c))
					if len(c.Args) != 2 || !an.BoolConst(want)(cl, ast.Unparen(c.Args[1])) {
						o.FailAt(f.ID+"#lastWasRevoke-value", ws.Where(), "%s must store constant %v under lastWasRevokeKey, stores %s", f.ID, want, an.Text(c))
					}
					if !cl.Before([]an.Site{ws}, puts[0]) {
						o.FailAt(f.ID+"#lastWasRevoke-order", ws.Where(), "the flag buffer is written after it is stored")
					}
				}
				if found != 1 {
					o.FailAt(f.ID+"#lastWasRevoke-writes", puts[0].Where(), "expected exactly one WriteElements into the flag buffer, found %d", found)
				}
			}
			// the reader: the stored byte is decoded into channel.LastWasRevoke;
			// a channel that has neither signed nor revoked yet (no key) reads
			// as false, the value AppendRemoteCommitChain would have stored
			rd := p.Func("channeldb.fetchChanInfo")
			flag := an.Field("chanstate.OpenChannel", "LastWasRevoke", nil)
			stored := an.CallNamed("Get", nil, an.PkgVar("channeldb", "lastWasRevokeKey"))
			asg := rd.Assigns(flag, true)
			if needExactly(o, rd, "constant assignment of LastWasRevoke", asg, 1) {
				as, _ := asg[0].Node.(*ast.AssignStmt)
				if as == nil || len(as.Rhs) != 1 || !an.BoolConst(false)(rd, ast.Unparen(as.Rhs[0])) {
					o.FailAt(rd.ID+"#lastWasRevoke-default", asg[0].Where(), "fetchChanInfo sets LastWasRevoke by %s; the default for a missing key must be the constant false", an.Text(asg[0].Node))
				}
				guarded(o, rd, asg[0], an.IsNil(stored, true, "Get(lastWasRevokeKey) == nil"))
			}
			var reads []an.Site
			for _, s := range rd.Calls(an.CalleeIs("channeldb.ReadElements", "channeldb.ReadElement"), false) {
				for _, a := range s.Node.(*ast.CallExpr).Args[1:] {
					if an.Match(rd, flag, a) {
						reads = append(reads, s)
					}
				}
			}
			if needExactly(o, rd, "ReadElements(.., &channel.LastWasRevoke)", reads, 1) {
				c02ArgsAre(o, rd, reads[0], "ReadElements(lastWasRevoke)", map[int]string{
					0: `^bytes\.NewReader\(\$p0\.Get\(channeldb\.lastWasRevokeKey\)\)$`, 1: `^&\$p1\.LastWasRevoke$`})
				guarded(o, rd, reads[0], an.IsNil(stored, false, "Get(lastWasRevokeKey) != nil"))
				mustPassUnless(o, rd, "ReadElements(lastWasRevoke)", reads, an.OkErrNil, rd.SuccessReturns(), an.IsNil(stored, true, "Get(lastWasRevokeKey) == nil"))
			}
		})

}

// c02StoreArgs: what the helper writes of each transition are given (the
// channel, the new commitment, the diff's ack lists, the forwarding package
// are parameters of the transition; the promoted remote commitment is the one
// of the diff read under commitDiffKey in the same transaction).
var c02StoreArgs = map[string]map[int]string{
	"channeldb.ChannelStateDB.UpdateChannelCommitment/putChanInfo":              {0: `^channeldb\.fetchChanBucketRw\(\$lit\.p0, `, 1: c02DiskCopyOfUpdate},
	"channeldb.ChannelStateDB.UpdateChannelCommitment/putChanCommitment":        {1: `^\$p1$`},
	"channeldb.ChannelStateDB.AppendRemoteCommitChain/AckAddHtlcs":              {1: `^\$p1\.AddAcks$`},
	"channeldb.ChannelStateDB.AppendRemoteCommitChain/AckSettleFails":           {1: `^\$p1\.SettleFailAcks$`},
	"channeldb.ChannelStateDB.AdvanceCommitChainTail/putChanRevocationState":    {1: `^\$p0$`},
	"channeldb.ChannelStateDB.AdvanceCommitChainTail/putChanCommitment(remote)": {1: `^&channeldb\.deserializeCommitDiff\(bytes\.NewReader\(.*\.Get\(channeldb\.commitDiffKey\)\)\)\.Commitment$`},
	"channeldb.ChannelStateDB.AdvanceCommitChainTail/putRevocationLog":          {1: `^&\$p0\.RemoteCommitment$`, 2: `^\$p3$`, 3: `^\$p4$`},
	"channeldb.ChannelStateDB.AdvanceCommitChainTail/AddFwdPkg":                 {1: `^\$p1$`},
}

// c02DiskCopyOfUpdate: the canonical form of the channel UpdateChannelCommitment
// reads back inside its transaction (from the bucket of the caller's channel,
// under the caller's funding outpoint).
const c02DiskCopyOfUpdate = `^channeldb\.fetchOpenChannel\(channeldb\.fetchChanBucketRw\(\$lit\.p0, \$p0\.IdentityPub, &\$p0\.FundingOutpoint, \$p0\.ChainHash\), &\$p0\.FundingOutpoint\)$`

// c02StorePayloads: what each transition serializes under the keys it writes
// directly (the lists filtered inside the transaction are the elements of the
// list read back under the same key).
var c02StorePayloads = map[string]map[string]c02PayloadRule{
	"channeldb.ChannelStateDB.UpdateChannelCommitment": {
		"unsignedAckedUpdatesKey": {writer: "serializeLogUpdates", value: `^\$p2$`},
		"lastWasRevokeKey":        {writer: "WriteElements", value: `^(true|false)$`},
		"remoteUnsignedLocalUpdatesKey": {writer: "serializeLogUpdates", value: `^\$v:\[\]`,
			elems: `^\$elem\(channeldb\.deserializeLogUpdates\(bytes\.NewReader\(.*\.Get\(channeldb\.remoteUnsignedLocalUpdatesKey\)\)\)\)$`},
	},
	"channeldb.ChannelStateDB.AppendRemoteCommitChain": {
		"lastWasRevokeKey": {writer: "WriteElements", value: `^(true|false)$`},
		"commitDiffKey":    {writer: "serializeCommitDiff", value: `^\$p1$`},
	},
	"channeldb.ChannelStateDB.AdvanceCommitChainTail": {
		"unsignedAckedUpdatesKey": {writer: "serializeLogUpdates", value: `^\$v:\[\]`,
			elems: `^\$elem\(channeldb\.deserializeLogUpdates\(bytes\.NewReader\(.*\.Get\(channeldb\.unsignedAckedUpdatesKey\)\)\)\)$`},
		"remoteUnsignedLocalUpdatesKey": {writer: "serializeLogUpdates", value: `^\$p2$`},
	},
}

// modifiedMarkerDiscipline: when the update logs are rebuilt, an HTLC is
// marked as already modified only on behalf of an update that removes it.
// Shared by C01, C02 and C03.
func modifiedMarkerDiscipline(r *an.Run) {
	p := r.Prog
	r.Obl("restore-marks-only-removed-htlcs", "TABLE",
		"in the three log-restoring functions (restorePendingRemoteUpdates, restorePeerLocalUpdates, restorePendingLocalUpdates) markHtlcModified(payDesc.ParentIndex) is unreachable for entries of type Add, NoOpAdd and FeeUpdate, reached by every restored Settle, Fail and MalformedFail (no further condition between the insertion into the log and the mark), and marks the log opposite to the one that receives the restored update, which is the log the converter looked the parent HTLC up in",
		"a fee update has no parent HTLC (its ParentIndex is 0): marking on its behalf makes HTLC 0 look already resolved, so its real settle or fail is rejected after a restart", 6,
		func(o *an.Obl) {
			kinds := []string{"Add", "NoOpAdd", "FeeUpdate", "Settle", "Fail", "MalformedFail"}
			removal := map[string]bool{"Settle": true, "Fail": true, "MalformedFail": true}
			for _, name := range []string{"restorePendingRemoteUpdates", "restorePeerLocalUpdates", "restorePendingLocalUpdates"} {
				f := p.Func(lw + "LightningChannel." + name)
				marks := f.Calls(an.CalleeIs(lw+"updateLog.markHtlcModified"), false)
				if !need(o, f, "markHtlcModified", marks, 1) {
					continue
				}
				for _, m := range marks {
					if a := f.ArgCanon(m); !strings.HasSuffix(a[len(a)-1], ".ParentIndex") {
						o.FailAt(f.ID+"#marked-index", m.Where(), "markHtlcModified is given %v, expected the restored update's ParentIndex", a)
					}
					// which log
					sel := m.Node.(*ast.CallExpr).Fun.(*ast.SelectorExpr)
					marked := an.Text(sel.X)
					var restored string
					for _, c := range f.AllCalls(false) {
						cs, ok := c.Node.(*ast.CallExpr).Fun.(*ast.SelectorExpr)
						if !ok {
							continue
						}
						if n := cs.Sel.Name; n == "restoreUpdate" || n == "appendUpdate" {
							restored = an.Text(cs.X)
						}
					}
					o.Site("%s: update restored into %s, HTLC marked in %s", name, restored, marked)
					if restored == "" || restored == marked {
						o.FailAt(f.ID+"#marked-log", m.Where(), "the HTLC is marked modified in %s, the same log (%s) that receives the restored update", marked, restored)
					}
					// the parent HTLC is looked up (by the converter) in the log
					// in which it is then marked
					for _, c := range f.AllCalls(false) {
						id := an.CalleeID(f.Info(), c.Node.(*ast.CallExpr))
						if !strings.HasSuffix(id, "ogUpdateToPayDesc") {
							continue
						}
						a := f.ArgCanon(c)
						o.Site("%s: %s looks the parent up in %s", name, id, a[1])
						if a[1] != f.Canon(sel.X) {
							o.FailAt(f.ID+"#parent-log", c.Where(), "%s looks the parent HTLC up in %s but marks it in %s", id, a[1], f.Canon(sel.X))
						}
						if !reMatch(`^&\$elem\(\$p0(\.LogUpdates)?\)$`, a[0]) {
							o.FailAt(f.ID+"#converted-update", c.Where(), "%s converts %s, expected the element of the restored list", id, a[0])
						}
					}
				}
				c02ParamsStable(o, f)
				// the entry types the descriptor source of this function can
				// construct (an update list that never holds Adds is restored
				// by a converter that has no Add case)
				possible := map[string]bool{}
				for _, c := range f.AllCalls(false) {
					id := an.CalleeID(f.Info(), c.Node.(*ast.CallExpr))
					if !strings.HasSuffix(id, "ogUpdateToPayDesc") {
						continue
					}
					conv := p.Func(id)
					ast.Inspect(conv.Body, func(n ast.Node) bool {
						kv, ok := n.(*ast.KeyValueExpr)
						if !ok || an.Text(kv.Key) != "EntryType" {
							return true
						}
						if cid, ok := kv.Value.(*ast.Ident); ok {
							if _, isConst := conv.Info().Uses[cid].(*types.Const); isConst {
								possible[cid.Name] = true
								return true
							}
						}
						possible["Add"], possible["NoOpAdd"] = true, true
						return true
					})
					// assignments pd.EntryType = ...
					for _, a := range conv.Assigns(an.FieldPath(nil, "EntryType"), false) {
						_ = a
						possible["Add"], possible["NoOpAdd"] = true, true
					}
					o.Site("%s: descriptors come from %s, which constructs %v", name, id, keys(possible))
				}
				if len(possible) == 0 {
					o.FailAt(f.ID+"#descriptor-source", f.Where(f.Body.Pos()), "cannot find the log-update converter of %s", name)
					continue
				}
				for _, k := range kinds {
					if !possible[k] {
						continue
					}
					decide := entryKindDecide(k)
					_ = func(fn *an.Func, v *flow.Vertex) (bool, bool) {
						isEntryType := func(e ast.Expr) bool {
							return strings.HasSuffix(an.Text(e), ".EntryType")
						}
						switch v.Kind {
						case flow.KCase:
							if v.Tag == nil || !isEntryType(v.Tag) {
								return false, false
							}
							if id, ok := v.Node.(*ast.Ident); ok {
								return id.Name == k, true
							}
						case flow.KCond:
							e := ast.Unparen(v.Node.(ast.Expr))
							if be, ok := e.(*ast.BinaryExpr); ok && (be.Op == token.EQL || be.Op == token.NEQ) && isEntryType(be.X) {
								if id, ok := be.Y.(*ast.Ident); ok {
									return (id.Name == k) == (be.Op == token.EQL), true
								}
							}
							if c, ok := e.(*ast.CallExpr); ok {
								if sel, ok := c.Fun.(*ast.SelectorExpr); ok && sel.Sel.Name == "isAdd" {
									return k == "Add" || k == "NoOpAdd", true
								}
							}
						}
						return false, false
					}
					reach := f.ReachUnder(decide)
					hit := false
					for _, m := range marks {
						if reach[m.V] {
							hit = true
						}
					}
					o.Site("%s: entry type %s -> marks an HTLC modified: %v", name, k, hit)
					if hit && !removal[k] {
						o.FailAt(f.ID+"#marks-for-"+k, marks[0].Where(), "%s marks an HTLC as modified on behalf of a %s entry", name, k)
					}
					if !hit && removal[k] {
						o.FailAt(f.ID+"#no-mark-for-"+k, marks[0].Where(), "%s no longer marks the parent HTLC of a restored %s as modified", name, k)
					}
					// every restored removal is marked, not only some: once the
					// update was put into its log, the iteration cannot end
					// before the mark
					if removal[k] {
						stop := map[*flow.Vertex]bool{}
						for _, m := range marks {
							stop[m.V] = true
						}
						for _, c := range f.AllCalls(false) {
							cs, ok := c.Node.(*ast.CallExpr).Fun.(*ast.SelectorExpr)
							if !ok || (cs.Sel.Name != "restoreUpdate" && cs.Sel.Name != "appendUpdate") || !reach[c.V] {
								continue
							}
							after := f.ReachUnderStop(c.V, decide, stop)
							for _, end := range append(c02RangeHeads(f), f.Graph().Exit) {
								if after[end] && !stop[end] {
									o.FailAt(f.ID+"#unmarked-"+k, c.Where(), "%s: after %s a restored %s can finish its iteration without markHtlcModified", name, c.String(), k)
									break
								}
							}
						}
					}
				}
			}
		})
}

// entryKindDecide decides conditions on a payment descriptor's EntryType for
// the assumption that it is kind k.
func entryKindDecide(k string) an.Decide {
	return func(fn *an.Func, v *flow.Vertex) (bool, bool) {
		isEntryType := func(e ast.Expr) bool { return strings.HasSuffix(an.Text(e), ".EntryType") }
		switch v.Kind {
		case flow.KCase:
			if v.Tag == nil || !isEntryType(v.Tag) {
				return false, false
			}
			if id, ok := v.Node.(*ast.Ident); ok {
				return id.Name == k, true
			}
		case flow.KCond:
			e := ast.Unparen(v.Node.(ast.Expr))
			if be, ok := e.(*ast.BinaryExpr); ok && (be.Op == token.EQL || be.Op == token.NEQ) && isEntryType(be.X) {
				if id, ok := be.Y.(*ast.Ident); ok {
					return (id.Name == k) == (be.Op == token.EQL), true
				}
			}
			if c, ok := e.(*ast.CallExpr); ok {
				if sel, ok := c.Fun.(*ast.SelectorExpr); ok && sel.Sel.Name == "isAdd" {
					return k == "Add" || k == "NoOpAdd", true
				}
			}
		}
		return false, false
	}
}

// converterKinds lists the entry types a log-update converter constructs, and
// per constructed kind the descriptor fields its arm sets.
func converterKinds(p *an.Prog, id string) (map[string]bool, map[string]map[string]bool) {
	k, f, _ := c02ConverterArms(p, id)
	return k, f
}

// c02ConverterArms is converterKinds that also returns, per constructed kind,
// the canonical source of every descriptor field its arm sets (the message
// variable of the type switch printed as $msg, so that arms are comparable).
func c02ConverterArms(p *an.Prog, id string) (map[string]bool, map[string]map[string]bool, map[string]map[string]string) {
	conv := p.Func(id)
	kinds := map[string]bool{}
	fields := map[string]map[string]bool{}
	sources := map[string]map[string]string{}
	norm := func(e ast.Expr) string {
		return reSub(`\$v:\*lnwire\.[A-Za-z]+`, "$$msg", conv.Canon(e))
	}
	_, clauses := conv.TypeSwitchCases()
	for _, cl := range clauses {
		var armKinds []string
		set := map[string]bool{}
		src := map[string]string{}
		for _, st := range cl.Body {
			ast.Inspect(st, func(n ast.Node) bool {
				switch x := n.(type) {
				case *ast.KeyValueExpr:
					key := an.Text(x.Key)
					if lit, isLit := x.Value.(*ast.CompositeLit); isLit && strings.HasSuffix(key, "CommitHeights") {
						for _, el := range lit.Elts {
							if kv, ok := el.(*ast.KeyValueExpr); ok {
								set[key+"."+an.Text(kv.Key)] = true
								src[key+"."+an.Text(kv.Key)] = norm(kv.Value)
							}
						}
						return false
					}
					set[key] = true
					src[key] = norm(x.Value)
					if key == "EntryType" {
						if cid, ok := x.Value.(*ast.Ident); ok {
							if _, isConst := conv.Info().Uses[cid].(*types.Const); isConst {
								armKinds = append(armKinds, cid.Name)
								return true
							}
						}
						armKinds = append(armKinds, "Add", "NoOpAdd")
					}
				case *ast.AssignStmt:
					for _, l := range x.Lhs {
						if sel, ok := l.(*ast.SelectorExpr); ok {
							t := an.Text(sel)
							if i := strings.Index(t, "."); i >= 0 {
								set[t[i+1:]] = true
								if t[i+1:] == "EntryType" {
									armKinds = append(armKinds, "Add", "NoOpAdd")
								}
							}
						}
					}
				}
				return true
			})
		}
		for _, k := range armKinds {
			kinds[k] = true
			if fields[k] == nil {
				fields[k] = map[string]bool{}
				sources[k] = map[string]string{}
			}
			for f := range set {
				fields[k][f] = true
			}
			for f, c := range src {
				if old, dup := sources[k][f]; dup && old != c {
					c = old + " | " + c
				}
				sources[k][f] = c
			}
		}
	}
	return kinds, fields, sources
}

// persistRestoreKindAgreement: the lists of updates written for a later
// restore hold exactly the entry kinds their restore converter handles, and
// the converter's arms for the three removal kinds set the same bookkeeping
// fields. Shared by C01, C02 and C03.
func persistRestoreKindAgreement(r *an.Run) {
	p := r.Prog
	r.Obl("persisted-update-kinds-match-restore", "TABLE",
		"unsignedLocalUpdates (our updates the peer still has to sign) keeps every entry kind except adds, exactly the kinds localLogUpdateToPayDesc restores; getUnsignedAckedUpdates filters by log index only (every kind), as remoteLogUpdateToPayDesc restores every kind; in each of the three converters the arms for Settle, Fail and MalformedFail set the same bookkeeping fields (entry type, log index, parent index, the commit heights of the same sides) from the same sources: the log index of the persisted update, the HtlcIndex of the HTLC looked up by the message ID, the height parameter",
		"an update kind dropped on the persist side, or restored without the commit height its siblings get, is applied twice or not at all after a restart although it was covered by a signature", 12,
		func(o *an.Obl) {
			all := []string{"Add", "NoOpAdd", "FeeUpdate", "Settle", "Fail", "MalformedFail"}
			for _, pr := range []struct {
				producer, conv string
				dropsAdds      bool
			}{
				{lw + "LightningChannel.unsignedLocalUpdates", lw + "LightningChannel.localLogUpdateToPayDesc", true},
				{lw + "LightningChannel.getUnsignedAckedUpdates", lw + "LightningChannel.remoteLogUpdateToPayDesc", false},
			} {
				f := p.Func(pr.producer)
				var apps []an.Site
				for _, v := range f.Graph().V {
					as, ok := v.Node.(*ast.AssignStmt)
					if ok && len(as.Rhs) == 1 && isAppend(f, as.Rhs[0]) && strings.Contains(an.Text(as.Rhs[0]), "toLogUpdate()") {
						apps = append(apps, an.Site{Fn: f, V: v, Node: as})
					}
				}
				if !need(o, f, "append of pd.toLogUpdate()", apps, 1) {
					continue
				}
				kinds, _ := converterKinds(p, pr.conv)
				for _, k := range all {
					reach := f.ReachUnder(entryKindDecide(k))
					produced := false
					for _, a := range apps {
						if reach[a.V] {
							produced = true
						}
					}
					o.Site("%s: kind %s persisted=%v, restorable by %s=%v", pr.producer, k, produced, pr.conv, kinds[k])
					isAdd := k == "Add" || k == "NoOpAdd"
					switch {
					case produced && !kinds[k]:
						o.FailAt(f.ID+"#persists-unrestorable-"+k, apps[0].Where(), "%s persists %s updates, which %s cannot restore", pr.producer, k, pr.conv)
					case !produced && kinds[k] && !(isAdd && pr.dropsAdds):
						o.FailAt(f.ID+"#drops-"+k, apps[0].Where(), "%s no longer persists %s updates although they are covered by a signature and %s restores them", pr.producer, k, pr.conv)
					case produced && isAdd && pr.dropsAdds:
						o.FailAt(f.ID+"#persists-adds", apps[0].Where(), "%s persists adds, which are restored from the commitment", pr.producer)
					}
				}
			}
			for _, conv := range []string{"logUpdateToPayDesc", "localLogUpdateToPayDesc", "remoteLogUpdateToPayDesc"} {
				id := lw + "LightningChannel." + conv
				_, fields, sources := c02ConverterArms(p, id)
				book := func(k string) []string {
					var out []string
					for f := range fields[k] {
						if f == "EntryType" || f == "LogIndex" || f == "ParentIndex" || strings.Contains(f, "CommitHeights") {
							// the field and where its value comes from (the entry
							// type is what distinguishes the arms)
							if f == "EntryType" {
								out = append(out, f)
							} else {
								out = append(out, f+"="+sources[k][f])
							}
						}
					}
					sortStrings(out)
					return out
				}
				// parent and log index come from the looked-up HTLC and the
				// persisted update, the heights from the height parameter
				c02ParamsStable(o, p.Func(id))
				for _, k := range []string{"Settle", "Fail", "MalformedFail"} {
					for f, want := range map[string]string{
						"ParentIndex": `^\$p1\.lookupHtlc\(\$msg\.ID\)\.HtlcIndex$`,
						"LogIndex":    `^\$p0\.LogIndex$`,
					} {
						if got := sources[k][f]; !reMatch(want, got) {
							o.FailAt(id+"#source-"+k+"-"+f, p.Func(id).Where(p.Func(id).Body.Pos()), "in %s the %s arm takes %s from %s, expected /%s/", conv, k, f, got, want)
						}
					}
					for f, got := range sources[k] {
						if strings.Contains(f, "CommitHeights") && got != "$p2" {
							o.FailAt(id+"#source-"+k+"-"+f, p.Func(id).Where(p.Func(id).Body.Pos()), "in %s the %s arm sets %s to %s, expected the commit height parameter", conv, k, f, got)
						}
					}
				}
				ref := book("Settle")
				o.Site("%s: Settle arm sets %v", conv, ref)
				if len(ref) < 3 {
					o.FailAt(id+"#settle-arm", "", "cannot read the bookkeeping fields of the Settle arm of %s (%v)", conv, ref)
					continue
				}
				for _, k := range []string{"Fail", "MalformedFail"} {
					got := book(k)
					o.Site("%s: %s arm sets %v", conv, k, got)
					if strings.Join(got, ",") != strings.Join(ref, ",") {
						o.FailAt(id+"#arm-"+k, p.Func(id).Where(p.Func(id).Body.Pos()), "in %s the %s arm sets %v but the Settle arm sets %v", conv, k, got, ref)
					}
				}
			}
		})
}
