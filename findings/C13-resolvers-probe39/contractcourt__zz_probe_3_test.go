package contractcourt

import (
	"testing"

	"github.com/btcsuite/btcd/wire/v2"
	"github.com/lightningnetwork/lnd/chainntnfs"
	"github.com/lightningnetwork/lnd/channeldb"
	"github.com/lightningnetwork/lnd/lnwallet"
	"github.com/stretchr/testify/require"
)

// TestProbeLegacySuccessRestartAfterSweep restores a legacy (pre-anchor, local
// commitment) success resolver that has checkpointed outputIncubating. While
// the node was down the success tx confirmed and the nursery's sweep of its
// output confirmed as well, so re-publishing the success tx is answered with
// "missing inputs", which the wallet maps to ErrDoubleSpend. The resolver must
// still pick up the (historical) spend of the second-level output and resolve,
// as an uninterrupted run would have done.
func TestProbeLegacySuccessRestartAfterSweep(t *testing.T) {
	defer timeout()()

	commitOutpoint := wire.OutPoint{Index: 2}
	signedSuccessTx := &wire.MsgTx{
		TxIn: []*wire.TxIn{{PreviousOutPoint: commitOutpoint}},
		TxOut: []*wire.TxOut{{
			Value:    111,
			PkScript: []byte{0xaa, 0xaa},
		}},
	}
	htlcOutpoint := wire.OutPoint{
		Hash:  signedSuccessTx.TxHash(),
		Index: 0,
	}

	sweepTx := &wire.MsgTx{
		TxIn:  []*wire.TxIn{{PreviousOutPoint: htlcOutpoint}},
		TxOut: []*wire.TxOut{{}},
	}
	sweepHash := sweepTx.TxHash()

	ctx := newHtlcResolverTestContext(t,
		func(htlc channeldb.HTLC, cfg ResolverConfig) ContractResolver {
			cfg.PublishTx = func(*wire.MsgTx, string) error {
				return lnwallet.ErrDoubleSpend
			}

			r := &htlcSuccessResolver{
				contractResolverKit: *newContractResolverKit(cfg),
				htlc:                htlc,
				htlcResolution: lnwallet.IncomingHtlcResolution{
					SignedSuccessTx: signedSuccessTx,
					ClaimOutpoint:   htlcOutpoint,
					SweepSignDesc:   testSignDesc,
				},
				outputIncubating: true,
			}
			r.initLogger("htlcSuccessResolver")

			return r
		},
	)
	ctx.checkpoint = func(ContractResolver,
		...*channeldb.ResolverReport) error {

		return nil
	}

	ctx.resolve()

	// The historical spend of the second-level output is there for the
	// resolver to pick up.
	ctx.notifier.SpendChan <- &chainntnfs.SpendDetail{
		SpendingTx:    sweepTx,
		SpentOutPoint: &htlcOutpoint,
		SpenderTxHash: &sweepHash,
	}

	result := <-ctx.resolverResultChan
	require.NoError(t, result.err, "resolver gave up on re-publishing "+
		"an already confirmed success tx")
	require.True(t, ctx.resolver.IsResolved())
}
