package paymentsdb

import (
	"crypto/sha256"
	"testing"
	"time"

	"github.com/stretchr/testify/require"
)

// Suspicion 5: a terminated payment whose creation time is the zero time (or
// anything before 1970) is removed by the bulk delete, on both backends alike.
// (An unbounded QueryPayments skips such a payment on both backends, so that
// part is consistent and not asserted here.)
func TestZZProbe5ZeroCreationTime(t *testing.T) {
	for _, created := range []time.Time{{}, time.Unix(-86400, 0)} {
		for name, db := range zzSeedStores(t) {
			t.Run(name, func(t *testing.T) {
				ctx := t.Context()
				preimg := genPreimage(t)
				rhash := sha256.Sum256(preimg[:])
				info := genPaymentCreationInfo(t, rhash)
				info.CreationTime = created
				hash := info.PaymentIdentifier
				require.NoError(
					t, db.InitPayment(ctx, hash, info),
				)
				_, err := db.Fail(
					ctx, hash, FailureReasonNoRoute,
				)
				require.NoError(t, err)

				n, err := db.DeletePayments(ctx, false, false)
				require.NoError(t, err)
				require.Equal(t, 1, n)

				_, err = db.FetchPayment(ctx, hash)
				require.ErrorIs(t, err, ErrPaymentNotInitiated)
			})
		}
	}
}
