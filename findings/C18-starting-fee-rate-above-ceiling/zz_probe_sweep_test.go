package sweep

import (
	"errors"
	"testing"
	"time"

	"github.com/btcsuite/btcd/btcutil/v2"
	"github.com/btcsuite/btcd/txscript/v2"
	"github.com/btcsuite/btcd/wire/v2"
	"github.com/lightningnetwork/lnd/chainntnfs"
	"github.com/lightningnetwork/lnd/fn/v2"
	"github.com/lightningnetwork/lnd/input"
	"github.com/lightningnetwork/lnd/lnwallet/chainfee"
	"github.com/stretchr/testify/assert"
	"github.com/stretchr/testify/mock"
	"github.com/stretchr/testify/require"
)

// TestProbeALinearFeeFunctionStartAboveCeiling drives the real
// LinearFeeFunction with a caller supplied starting fee rate that is above
// the ceiling (maxFeeRate). For every block until the deadline the offered fee
// rate must stay at or below the ceiling and must never decrease.
func TestProbeALinearFeeFunctionStartAboveCeiling(t *testing.T) {
	// The estimator must not be consulted as the start is supplied.
	estimator := &chainfee.MockEstimator{}
	defer estimator.AssertExpectations(t)

	// ceiling = sweeper.maxfeerate default (1000 sat/vb), start is what
	// walletrpc.validateBumpFeeRequest derives from sat_per_vbyte=5000.
	ceiling := DefaultMaxFeeRate.FeePerKWeight()
	start := chainfee.SatPerVByte(5000).FeePerKWeight()

	for _, confTarget := range []uint32{2, 3, 10, 144} {
		f, err := NewLinearFeeFunction(
			ceiling, confTarget, estimator, fn.Some(start),
		)
		if err != nil {
			// Rejecting the request is an acceptable outcome.
			t.Logf("confTarget=%v: rejected: %v", confTarget, err)
			continue
		}

		t.Logf("confTarget=%v: start=%v end=%v current=%v "+
			"deltaFeeRate=%d msat/kw", confTarget,
			f.startingFeeRate, f.endingFeeRate, f.FeeRate(),
			uint64(f.deltaFeeRate))

		require.LessOrEqualf(t, f.FeeRate(), ceiling,
			"confTarget=%v: initial fee rate %v above ceiling %v",
			confTarget, f.FeeRate(), ceiling)

		prev := f.FeeRate()
		for ct := int64(confTarget) - 1; ct >= 0; ct-- {
			_, err := f.IncreaseFeeRate(uint32(ct))
			if err != nil {
				require.ErrorIs(t, err, ErrMaxPosition)
			}

			cur := f.FeeRate()
			require.LessOrEqualf(t, cur, ceiling,
				"confTarget=%v->%v: fee rate %v above "+
					"ceiling %v", confTarget, ct, cur,
				ceiling)
			require.GreaterOrEqualf(t, cur, prev,
				"confTarget=%v->%v: fee rate decreased from "+
					"%v to %v", confTarget, ct, prev, cur)

			prev = cur
		}

		require.Equal(t, ceiling, f.FeeRate(), "ceiling not reached")
	}
}

// TestProbeATxPublisherStartingFeeRateAboveMaxFeeRate runs the real
// TxPublisher (real LinearFeeFunction, real tx construction) with only the
// wallet, signer, estimator and notifier mocked. The BumpRequest is exactly
// what UtxoSweeper.sweep builds after `lncli wallet bumpfee --sat_per_vbyte
// 5000 --budget 50000000 --immediate` on a 1 BTC output with the default
// sweeper.maxfeerate of 1000 sat/vb: MaxFeeRate=250000 sat/kw and
// StartingFeeRate=1250000 sat/kw.
//
// Every published tx must pay fee <= budget and fee rate <= MaxFeeRate, and
// the fee rate offered by the record must never decrease across blocks.
func TestProbeATxPublisherStartingFeeRateAboveMaxFeeRate(t *testing.T) {
	const (
		inputValue  = btcutil.Amount(100_000_000)
		budget      = btcutil.Amount(50_000_000)
		startHeight = int32(100)
	)

	maxFeeRate := DefaultMaxFeeRate.FeePerKWeight()
	startFeeRate := chainfee.SatPerVByte(5000).FeePerKWeight()

	for _, deadlineDelta := range []int32{2, 10} {
		// The estimator must never be consulted: no expectations set.
		estimator := &chainfee.MockEstimator{}
		signer := &input.MockInputSigner{}
		wallet := &MockWallet{}
		notifier := &chainntnfs.MockChainNotifier{}

		signer.On("ComputeInputScript", mock.Anything,
			mock.Anything).Return(&input.Script{}, nil)
		wallet.On("CheckMempoolAcceptance", mock.Anything).Return(nil)

		// Capture everything that gets published.
		var published []*wire.MsgTx
		wallet.On("PublishTransaction", mock.Anything,
			mock.Anything).Run(func(args mock.Arguments) {

			tx := args.Get(0).(*wire.MsgTx)
			published = append(published, tx.Copy())
		}).Return(nil)

		tp := NewTxPublisher(TxPublisherConfig{
			Estimator: estimator,
			Signer:    signer,
			Wallet:    wallet,
			Notifier:  notifier,
		})
		tp.currentHeight.Store(startHeight)

		inp := createTestInput(int64(inputValue), input.WitnessKeyHash)
		req := &BumpRequest{
			DeliveryAddress: changePkScript,
			Inputs:          []input.Input{&inp},
			Budget:          budget,
			MaxFeeRate:      maxFeeRate,
			DeadlineHeight:  startHeight + deadlineDelta,
			StartingFeeRate: fn.Some(startFeeRate),
			Immediate:       true,
		}

		weight, err := calcSweepTxWeight(
			req.Inputs, [][]byte{changePkScript.DeliveryAddress},
		)
		require.NoError(t, err)

		ceiling, err := req.MaxFeeRateAllowed()
		require.NoError(t, err)
		require.Equal(t, maxFeeRate, ceiling)

		// checkPublished validates the property on the latest tx.
		checked := 0
		checkPublished := func(height int32) {
			for ; checked < len(published); checked++ {
				tx := published[checked]

				require.Len(t, tx.TxIn, 1)
				require.Equal(t, inp.OutPoint(),
					tx.TxIn[0].PreviousOutPoint)

				var out btcutil.Amount
				for _, o := range tx.TxOut {
					out += btcutil.Amount(o.Value)
				}
				fee := inputValue - out
				rate := chainfee.NewSatPerKWeight(fee, weight)

				t.Logf("deadlineDelta=%v height=%v: published "+
					"fee=%v weight=%v feerate=%v (%v), "+
					"budget=%v, maxFeeRate=%v (%v)", deadlineDelta, height,
					fee, weight, rate, rate.FeePerVByte(),
					budget, maxFeeRate,
					maxFeeRate.FeePerVByte())

				require.LessOrEqual(t, fee, budget,
					"fee above budget")
				assert.LessOrEqualf(t, rate, maxFeeRate,
					"deadlineDelta=%v height=%v: published "+
						"fee rate %v exceeds MaxFeeRate %v",
					deadlineDelta, height, rate, maxFeeRate)
			}
		}

		// Immediate broadcast runs handleInitialBroadcast inline.
		resultChan := tp.Broadcast(req)

		var result *BumpResult
		select {
		case result = <-resultChan:
		case <-time.After(time.Second):
			t.Fatal("no result")
		}

		t.Logf("deadlineDelta=%v: initial result event=%v err=%v "+
			"feerate=%v", deadlineDelta, result.Event, result.Err,
			result.FeeRate)

		checkPublished(startHeight)

		if result.Event != TxPublished {
			// Refusing to publish is acceptable.
			require.Empty(t, published)
			continue
		}

		rec, ok := tp.records.Load(tp.requestCounter.Load())
		require.True(t, ok)

		// Now deliver every block up to the deadline.
		prev := rec.feeFunction.FeeRate()
		for h := startHeight + 1; h <= req.DeadlineHeight; h++ {
			tp.currentHeight.Store(h)

			tp.wg.Add(1)
			tp.handleFeeBumpTx(rec, h)

			select {
			case r := <-resultChan:
				t.Logf("height=%v: event=%v feerate=%v", h,
					r.Event, r.FeeRate)
			default:
			}

			checkPublished(h)

			cur := rec.feeFunction.FeeRate()
			assert.GreaterOrEqualf(t, cur, prev,
				"deadlineDelta=%v height=%v: offered fee rate "+
					"decreased from %v to %v", deadlineDelta,
				h, prev, cur)
			assert.LessOrEqual(t, cur, maxFeeRate)

			prev = cur
		}
	}
}

// TestProbeBDroppedInputIsStillSpent checks what TxPublisher.createSweepTx
// does when getWeightEstimate filters out an input. NOTE: this can only be
// triggered with a WitnessType whose AddWeightEstimation fails while its
// WitnessGenerator works, which no production witness type does (all 42
// StandardWitnessType values have a size, and unknown values fail in
// WitnessGenerator too). The sweeper's filterInputs also rejects such inputs
// before they reach the publisher. It is therefore a latent hazard only.
func TestProbeBDroppedInputIsStillSpent(t *testing.T) {
	signer := &input.MockInputSigner{}
	signer.On("ComputeInputScript", mock.Anything,
		mock.Anything).Return(&input.Script{}, nil)

	tp := NewTxPublisher(TxPublisherConfig{
		Estimator: &chainfee.MockEstimator{},
		Signer:    signer,
		Wallet:    &MockWallet{},
		Notifier:  &chainntnfs.MockChainNotifier{},
	})
	tp.currentHeight.Store(100)

	// A witness type that cannot be weighed but can be signed.
	wt := &input.MockWitnessType{}
	wt.On("AddWeightEstimation").Return(errors.New("no weight"))
	wt.On("String").Return("probe-unweighable").Maybe()
	wt.On("WitnessGenerator").Return(input.WitnessGenerator(
		func(*wire.MsgTx, *txscript.TxSigHashes, int) (*input.Script,
			error) {

			return &input.Script{}, nil
		},
	))

	good := createTestInput(1_000_000, input.WitnessKeyHash)
	bad := createTestInput(5_000_000, wt)
	inputs := []input.Input{&good, &bad}

	feeRate := chainfee.SatPerKWeight(2500)
	sweepCtx, err := tp.createSweepTx(inputs, changePkScript, feeRate)
	if err != nil {
		// Refusing to build the tx is the safe outcome.
		t.Logf("createSweepTx refused: %v", err)
		return
	}

	var in, out btcutil.Amount
	for _, txIn := range sweepCtx.tx.TxIn {
		switch txIn.PreviousOutPoint {
		case good.OutPoint():
			in += 1_000_000
		case bad.OutPoint():
			in += 5_000_000
		}
	}
	for _, o := range sweepCtx.tx.TxOut {
		out += btcutil.Amount(o.Value)
	}

	t.Logf("tx spends %d inputs worth %v, pays outputs %v, actual fee=%v, "+
		"fee reported to the budget check=%v", len(sweepCtx.tx.TxIn),
		in, out, in-out, sweepCtx.fee)

	require.Equal(t, sweepCtx.fee, in-out, "the fee checked against the "+
		"budget is not the fee the tx pays")
}
