package spec

import (
	"go/ast"
	"go/types"
	"sort"
	"strings"

	"lndlint/internal/an"
)

// c10RecvField returns the name of the field of the method receiver that e
// (after &, parentheses, slicing) is rooted in when that field has the type
// lnwire.ExtraOpaqueData; exact reports that e is the field itself (or its
// address), not a part of it.
func c10RecvField(f *an.Func, e ast.Expr) (field string, exact bool) {
	exact = true
	for {
		switch x := ast.Unparen(e).(type) {
		case *ast.UnaryExpr:
			e = x.X
			continue
		case *ast.SliceExpr:
			exact = false
			e = x.X
			continue
		case *ast.IndexExpr:
			exact = false
			e = x.X
			continue
		case *ast.SelectorExpr:
			if an.TypeID(f.Info().TypeOf(x)) != "lnwire.ExtraOpaqueData" {
				return "", false
			}
			if !strings.HasPrefix(f.Canon(x), "$recv.") {
				return "", false
			}
			return x.Sel.Name, exact
		}
		return "", false
	}
}

// c10HasExtraField: the named lnwire type has a field of type ExtraOpaqueData.
func c10HasExtraField(p *an.Prog, typeID string) bool {
	T := p.LookupType("lnwire", strings.TrimPrefix(typeID, "lnwire."))
	if T == nil {
		return false
	}
	for _, t := range an.StructFieldTypes(T) {
		if an.TypeID(t) == "lnwire.ExtraOpaqueData" {
			return true
		}
	}
	return false
}

// c10KnownTypeNumbers returns the TLV type numbers named by the elements of a
// `[]tlv.Type{X.TlvType(), ...}` literal; bad lists the elements that are not
// of that form.
func c10KnownTypeNumbers(f *an.Func, lit *ast.CompositeLit) (nums map[string]bool, bad []string) {
	nums = map[string]bool{}
	for _, el := range lit.Elts {
		c, ok := ast.Unparen(el).(*ast.CallExpr)
		if ok && len(c.Args) == 0 {
			if sel, ok := ast.Unparen(c.Fun).(*ast.SelectorExpr); ok && sel.Sel.Name == "TlvType" {
				t := f.Info().TypeOf(sel.X)
				if pt, ok := t.(*types.Pointer); ok {
					t = pt.Elem()
				}
				if n := an.TlvNumberOf(t); n != "" {
					nums[n] = true
					continue
				}
			}
		}
		bad = append(bad, an.Text(el))
	}
	return nums, bad
}

// c10ProducerNumbers returns the TLV type numbers of the producers that the
// function (closures included) appends to the local slice obj.
func c10ProducerNumbers(f *an.Func, obj types.Object) (nums map[string]bool, untyped []string) {
	nums = map[string]bool{}
	info := f.Info()
	ast.Inspect(f.Body, func(n ast.Node) bool {
		ap, ok := n.(*ast.CallExpr)
		if !ok || an.CalleeID(info, ap) != "builtin.append" || len(ap.Args) < 2 {
			return true
		}
		a0, ok := ast.Unparen(ap.Args[0]).(*ast.Ident)
		if !ok || info.Uses[a0] != obj {
			return true
		}
		for _, a := range ap.Args[1:] {
			t := info.TypeOf(a)
			if pt, ok := t.(*types.Pointer); ok {
				t = pt.Elem()
			}
			if num := an.TlvNumberOf(t); num != "" {
				nums[num] = true
			} else {
				untyped = append(untyped, an.Text(a))
			}
		}
		return true
	})
	return nums, untyped
}

// unknownRecordsSurvive: Decode keeps the whole extension TLV stream in the
// message's extra-data field; an Encode that re-packs that field from the
// message's typed records only (lnwire.EncodeMessageExtraData overwrites the
// field with exactly the given producers) writes a stream without the records
// it does not know.
func unknownRecordsSurvive(r *an.Run) {
	p := r.Prog
	r.Obl("unknown-records-survive-reencoding", "MIRROR",
		"no method of a wire message re-packs its stored extension data from typed records only: not through lnwire.EncodeMessageExtraData, not by calling PackRecords on the receiver's ExtraOpaqueData field, and neither helper is taken as a function value anywhere in lnwire; a message with typed extension records uses EncodeMessageExtraDataKeepUnknown on that field, naming as known exactly the TLV types of the producers it passes, or writes the stored bytes unchanged (WriteBytes gets the field itself, not a part of it; MergeAndEncode gets the field itself as the existing data); Decode stores the whole stream it read into that field, restricted by nothing but the stream being non-empty; EncodeMessageExtraDataKeepUnknown packs the typed records together with the existing records minus the known types whenever the stored stream is non-empty and parses",
		"a record of an unknown odd type must be ignored, not removed: removing it changes the bytes a gossip signature covers (channel_update) and breaks the canonical fixpoint decode-encode for every message", 14,
		func(o *an.Obl) {
			n := 0
			isMsg := map[string]bool{}
			for _, mt := range messageTypes(p) {
				isMsg["lnwire."+mt.name] = true
			}
			for _, f := range p.Funcs(false, "lnwire") {
				if f.Lit != nil {
					continue
				}
				switch f.ID {
				case "lnwire.EncodeMessageExtraData", "lnwire.EncodeMessageExtraDataKeepUnknown":
					continue
				}
				// the helpers are only ever called
				for _, where := range c08ValuesTaken(f, "EncodeMessageExtraData", "EncodeMessageExtraDataKeepUnknown", "PackRecords") {
					o.FailAt(f.ID+"#repacks-through-value", where, "%s takes a function value of a re-packing helper; what it overwrites cannot be decided", f.ID)
				}
				owner := f.ID[:strings.LastIndex(f.ID, ".")]
				method := isMsg[owner]
				for _, fn := range append([]*an.Func{f}, f.Lits...) {
					for _, s := range fn.AllCalls(false) {
						c := s.Node.(*ast.CallExpr)
						id := an.CalleeID(fn.Info(), c)
						switch id {
						case "lnwire.EncodeMessageExtraData":
							n++
							o.Site("%s re-packs its extension data from typed records only", f.ID)
							o.FailAt(f.ID+"#drops-unknown-records", s.Where(), "%s re-packs its extension data with EncodeMessageExtraData: records of unknown types that Decode kept are not written back", f.ID)
						case "lnwire.ExtraOpaqueData.PackRecords":
							sel, ok := ast.Unparen(c.Fun).(*ast.SelectorExpr)
							if !ok || !method {
								continue
							}
							if fld, _ := c10RecvField(fn, sel.X); fld != "" {
								n++
								o.FailAt(f.ID+"#packs-over-stored-extension", s.Where(), "%s overwrites its stored extension data (%s) with PackRecords: records of unknown types that Decode kept are not written back", f.ID, fld)
							}
						case "lnwire.WriteBytes":
							if !method || len(c.Args) != 2 {
								continue
							}
							if fld, exact := c10RecvField(fn, c.Args[1]); fld != "" {
								o.Site("%s writes the stored extension data %s", f.ID, fn.Canon(c.Args[1]))
								if !exact {
									o.FailAt(f.ID+"#writes-part-of-extension", s.Where(), "%s writes %s, a part of the stored extension data %s, instead of all of it", f.ID, an.Text(c.Args[1]), fld)
								}
							}
						case "lnwire.MergeAndEncode":
							// merges typed records, the stored stream and the custom records
							if !method || len(c.Args) != 3 || !c10HasExtraField(p, owner) {
								continue
							}
							o.Site("%s merges %s", f.ID, fn.Canon(c.Args[1]))
							if fld, exact := c10RecvField(fn, c.Args[1]); fld == "" || !exact {
								o.FailAt(f.ID+"#merges-without-stored-data", s.Where(), "%s merges %s as the existing extension data, expected the receiver's stored extension data field", f.ID, an.Text(c.Args[1]))
							}
						case "lnwire.EncodeMessageExtraDataKeepUnknown":
							n++
							o.Site("%s keeps unknown records (known types %s)", f.ID, an.Text(c.Args[1]))
							if fld, exact := c10RecvField(fn, c.Args[0]); fld == "" || !exact || !method {
								o.FailAt(f.ID+"#keeps-other-data", s.Where(), "%s re-packs %s, expected the address of the receiver's extension data field", f.ID, an.Text(c.Args[0]))
							}
							// every producer handed over is named as known, and nothing else
							lit, ok := ast.Unparen(c.Args[1]).(*ast.CompositeLit)
							if !ok {
								o.FailAt(f.ID+"#known-types", s.Where(), "the known types are %s, expected a literal list", an.Text(c.Args[1]))
								continue
							}
							known, bad := c10KnownTypeNumbers(fn, lit)
							for _, b := range bad {
								o.FailAt(f.ID+"#known-types-form", s.Where(), "the known type %s is not the TlvType() of a typed record", b)
							}
							if len(c.Args) != 3 || !c.Ellipsis.IsValid() {
								o.FailAt(f.ID+"#producers-form", s.Where(), "expected the typed records to be passed as one slice (producers...)")
								continue
							}
							pid, ok := ast.Unparen(c.Args[2]).(*ast.Ident)
							if !ok {
								o.FailAt(f.ID+"#producers-form", s.Where(), "the typed records are %s, expected a local slice", an.Text(c.Args[2]))
								continue
							}
							prods, untyped := c10ProducerNumbers(f, fn.Info().Uses[pid])
							for _, u := range untyped {
								o.FailAt(f.ID+"#producer-untyped", s.Where(), "the producer %s has no static TLV type", u)
							}
							o.Site("%s: known %v, produced %v", f.ID, keys(known), keys(prods))
							for _, d := range an.SetDiff(known, prods) {
								o.FailAt(f.ID+"#known-types-count", s.Where(), "TLV type %s is named as known but no producer of that type is passed: an existing record of that type is dropped", d)
							}
							for _, d := range an.SetDiff(prods, known) {
								o.FailAt(f.ID+"#known-types-count", s.Where(), "a producer of TLV type %s is passed but the type is not named as known: the record is written twice", d)
							}
						}
					}
				}
			}
			if n < 14 {
				o.FailAt("lnwire#extension-repackers", "", "expected at least 14 messages that re-pack their extension data, found %d", n)
			}
			// Decode of a message that keeps unknown records stores the stream it
			// read, whenever it is non-empty
			for _, mt := range messageTypes(p) {
				enc, dec := p.FuncOpt("lnwire."+mt.name+".Encode"), p.FuncOpt("lnwire."+mt.name+".Decode")
				if enc == nil || dec == nil || len(enc.Calls(an.CalleeIs("lnwire.EncodeMessageExtraDataKeepUnknown"), true)) == 0 {
					continue
				}
				stores := 0
				for _, s := range dec.Assigns(func(f *an.Func, e ast.Expr) bool {
					fld, exact := c10RecvField(f, e)
					return fld != "" && exact
				}, false) {
					as, ok := s.Node.(*ast.AssignStmt)
					if !ok || len(as.Lhs) != 1 || len(as.Rhs) != 1 {
						continue
					}
					stores++
					rhs := dec.Canon(as.Rhs[0])
					o.Site("%s stores %s", dec.ID, s.String())
					id, isID := ast.Unparen(as.Rhs[0]).(*ast.Ident)
					if !isID {
						o.FailAt(dec.ID+"#stored-stream", s.Where(), "%s stores %s as its extension data, expected the stream variable it read", dec.ID, rhs)
						continue
					}
					onlyGuards(o, dec, s, []string{`^!\(.* != nil\)$`, `^.* == nil$`, `^len\(` + regexpQuote(id.Name) + `\) != 0$`, `^len\(` + regexpQuote(id.Name) + `\) > 0$`, `^!\(.*\.HasMaxHtlc\(\)\)$`, `^.*\.HasMaxHtlc\(\)$`}, "stored extension stream")
					// the variable is read into, once, and not otherwise assigned
					if ws := c08WritesOf(dec, c08ObjOf(dec.Info(), id), true); len(ws) > 0 {
						o.FailAt(dec.ID+"#stream-rewritten", s.Where(), "the stream variable %s is overwritten: %s", id.Name, ws[0])
					}
				}
				if stores != 1 {
					o.FailAt(dec.ID+"#stores-stream", dec.Where(dec.Body.Pos()), "expected exactly one store of the extension stream in %s, found %d", dec.ID, stores)
				}
			}
			c10KeepUnknownBody(o, p)
		})
}

// c10KeepUnknownBody pins the keeping helper: unknown = existing minus known,
// packed together with the typed records, whenever the stored stream is
// non-empty and parses.
func c10KeepUnknownBody(o *an.Obl, p *an.Prog) {
	k := p.FuncOpt("lnwire.EncodeMessageExtraDataKeepUnknown")
	if k == nil {
		o.FailAt("lnwire.EncodeMessageExtraDataKeepUnknown#missing", "", "the keeping helper is gone")
		return
	}
	ex := k.Calls(an.CalleeIs("lnwire.ExtraOpaqueData.ExtractRecords"), true)
	pk := k.Calls(an.CalleeIs("lnwire.ExtraOpaqueData.PackRecords"), true)
	if !c08OneDirect(o, k, "ExtractRecords", ex) || !c08OneDirect(o, k, "PackRecords", pk) {
		return
	}
	info := k.Info()
	params := k.Params(false)
	var names []string
	for _, pv := range params {
		names = append(names, pv.Name())
	}
	notReassigned(o, k, names...)
	existing := "$p0.ExtractRecords()"
	if got := k.Canon(ex[0].Node.(*ast.CallExpr)); got != existing {
		o.FailAt(k.ID+"#extracts-other", ex[0].Where(), "the existing records are %s, expected %s with no typed record extracted", got, existing)
	}
	// what is packed: the stored field gets one local slice, spread
	pc := pk[0].Node.(*ast.CallExpr)
	if sel, ok := ast.Unparen(pc.Fun).(*ast.SelectorExpr); !ok || k.Canon(sel.X) != "$p0" {
		o.FailAt(k.ID+"#packs-into-other", pk[0].Where(), "PackRecords is not called on the extension data handed in")
	}
	var packed types.Object
	if len(pc.Args) == 1 && pc.Ellipsis.IsValid() {
		if id, ok := ast.Unparen(pc.Args[0]).(*ast.Ident); ok {
			packed = info.Uses[id]
		}
	}
	if packed == nil || packed == types.Object(params[2]) {
		o.FailAt(k.ID+"#packs-typed-only", pk[0].Where(), "PackRecords is given %s, expected the local list that also receives the unknown records", an.Text(pc))
		return
	}
	// assignments of that list: initial value = the typed records; then, on the
	// keeping path, a fresh list that gets the typed records and the unknown ones
	unknown := "lnwire.RecordsAsProducers(lnwire.TlvMapToRecords(" + existing + "))"
	var addTyped, addUnknown []an.Site
	for _, s := range k.Assigns(func(f *an.Func, e ast.Expr) bool {
		id, ok := e.(*ast.Ident)
		return ok && c08ObjOf(info, id) == packed
	}, true) {
		as, ok := s.Node.(*ast.AssignStmt)
		if !ok || len(as.Lhs) != 1 || len(as.Rhs) != 1 || s.Fn != k {
			o.FailAt(k.ID+"#list-assignment", s.Where(), "unexpected assignment of the packed list: %s", s.String())
			continue
		}
		rhs := ast.Unparen(as.Rhs[0])
		c, isCall := rhs.(*ast.CallExpr)
		switch {
		case k.Canon(rhs) == "$p2":
			// starts as the typed records
		case isCall && an.CalleeID(info, c) == "builtin.make" && len(c.Args) >= 2 && k.Canon(c.Args[1]) == "0":
			// fresh empty list
		case isCall && an.CalleeID(info, c) == "builtin.append" && len(c.Args) == 2 && c.Ellipsis.IsValid():
			if a0, ok := ast.Unparen(c.Args[0]).(*ast.Ident); !ok || info.Uses[a0] != packed {
				o.FailAt(k.ID+"#list-assignment", s.Where(), "the packed list is rebuilt from another slice: %s", s.String())
				continue
			}
			switch got := k.Canon(c.Args[1]); got {
			case "$p2":
				addTyped = append(addTyped, s)
			case unknown:
				addUnknown = append(addUnknown, s)
			default:
				o.FailAt(k.ID+"#list-content", s.Where(), "the packed list receives %s, expected the typed records ($p2) or %s", got, unknown)
			}
		default:
			o.FailAt(k.ID+"#list-assignment", s.Where(), "unexpected assignment of the packed list: %s", s.String())
		}
	}
	empty := an.Cmp(an.Len(an.Param(0)), an.EQ, an.IntConst(0), "the stored stream is empty")
	unparsable := an.IsNil(canonTerm(`^`+regexpQuote(existing)+`#1$`), false, "the stored stream does not parse")
	mustDoUnless(o, k, "append of the typed records to the fresh list", addTyped, pk, empty, unparsable)
	mustDoUnless(o, k, "append of the unknown records", addUnknown, pk, empty, unparsable)
	// the existing records: only the known types are removed, nothing else
	// touches the map
	var exObj types.Object
	ast.Inspect(k.Body, func(n ast.Node) bool {
		if as, ok := n.(*ast.AssignStmt); ok && len(as.Rhs) == 1 && ast.Unparen(as.Rhs[0]) == ex[0].Node {
			if id, ok := as.Lhs[0].(*ast.Ident); ok {
				exObj = c08ObjOf(info, id)
			}
		}
		return true
	})
	if exObj == nil {
		o.FailAt(k.ID+"#existing-unbound", ex[0].Where(), "the existing records are not bound to a local")
		return
	}
	loopVisitsAll(o, k, `^\$p1$`)
	deletes, conv := 0, 0
	var stack []ast.Node
	ast.Inspect(k.Body, func(n ast.Node) bool {
		if n == nil {
			stack = stack[:len(stack)-1]
			return true
		}
		stack = append(stack, n)
		id, ok := n.(*ast.Ident)
		if !ok || info.Uses[id] != exObj {
			return true
		}
		par := stack[len(stack)-2]
		if c, ok := par.(*ast.CallExpr); ok && len(c.Args) > 0 && c.Args[0] == ast.Expr(id) {
			switch an.CalleeID(info, c) {
			case "builtin.delete":
				deletes++
				if hdr := enclosingLoopHeader(k, c); hdr != "$p1" || len(c.Args) != 2 || k.Canon(c.Args[1]) != "$elem($p1)" {
					o.FailAt(k.ID+"#removed-types", k.Where(c.Pos()), "records are removed by %s inside the loop over %q, expected delete(existing, knownType) for each of the known types", an.Text(c), hdr)
				}
				return true
			case "lnwire.TlvMapToRecords":
				conv++
				return true
			}
		}
		o.FailAt(k.ID+"#existing-touched", k.Where(id.Pos()), "the existing records are used other than by delete(existing, knownType) and TlvMapToRecords(existing): %s", an.Text(par))
		return true
	})
	if deletes != 1 || conv != 1 {
		o.FailAt(k.ID+"#removals", k.Where(k.Body.Pos()), "expected one removal of known types from the existing records and one conversion of the rest, found %d and %d", deletes, conv)
	}
	var ns []string
	for _, s := range append(addTyped, addUnknown...) {
		ns = append(ns, s.Where())
	}
	sort.Strings(ns)
	o.Site("%s: typed + (existing - known) packed; appends at %v", k.ID, ns)
}
