package spec

import (
	"sort"

	"lndlint/internal/an"
)

// loopTable lists, per property, the functions whose range loops apply a
// per-element step of that property to a whole collection (every HTLC of a
// view, every resolver of a channel, every request at a height, ...).  The
// shared obligation below requires each of those loops to be left only when
// the range is exhausted or by a failure return: a `break`, a `return nil`
// or a `continue` turned `break` silently leaves the remaining elements
// without the step.  Search and validation loops that are meant to stop at
// the first hit are tabled with their reason.
var loopTable = map[string][]string{
	"C01": {"lnwallet.LightningChannel.evaluateHTLCView", "lnwallet.LightningChannel.computeView", "lnwallet.LightningChannel.fetchHTLCView", "lnwallet.LightningChannel.fetchCommitmentView", "lnwallet.LightningChannel.validateCommitmentSanity", "lnwallet.CommitmentBuilder.createUnsignedCommitmentTx", "lnwallet.compactLogs", "lnwallet.commitment.toDiskCommit", "lnwallet.commitment.populateHtlcIndexes", "lnwallet.LightningChannel.ReceiveRevocation"},
	"C02": {"lnwallet.LightningChannel.restorePendingRemoteUpdates", "lnwallet.LightningChannel.restorePeerLocalUpdates", "lnwallet.LightningChannel.restorePendingLocalUpdates", "lnwallet.LightningChannel.restoreStateLogs", "lnwallet.LightningChannel.unsignedLocalUpdates", "lnwallet.LightningChannel.getUnsignedAckedUpdates", "lnwallet.LightningChannel.createCommitDiff"},
	"C03": {"lnwallet.LightningChannel.ProcessChanSyncMsg"},
	"C04": {"lnwallet.NewBreachRetribution", "lnwallet.createBreachRetribution", "lnwallet.createBreachRetributionLegacy", "contractcourt.newRetributionInfo", "contractcourt.BreachArbitrator.createJusticeTx", "contractcourt.BreachArbitrator.createSweepTx", "contractcourt.BreachArbitrator.exactRetribution", "contractcourt.BreachArbitrator.sweepSpendableOutputsTxn"},
	"C05": {"lnwallet.genRemoteHtlcSigJobs", "lnwallet.genHtlcSigValidationJobs", "lnwallet.extractHtlcResolutions", "lnwallet.NewLocalForceCloseSummary", "lnwallet.NewUnilateralCloseSummary", "lnwallet.LightningChannel.SignNextCommitment", "lnwallet.LightningChannel.ReceiveNewCommitment"},
	"C07": {"htlcswitch.circuitMap.restoreMemState", "htlcswitch.circuitMap.CommitCircuits", "htlcswitch.circuitMap.OpenCircuits", "htlcswitch.circuitMap.DeleteCircuits", "htlcswitch.Switch.reforwardResolutions", "htlcswitch.Switch.reforwardSettleFails"},
	"C08": {"htlcswitch.channelLink.processRemoteSettleFails", "htlcswitch.channelLink.processRemoteAdds", "htlcswitch.channelLink.resolveFwdPkgs"},
	"C12": {"contractcourt.ChannelArbitrator.checkCommitChainActions", "contractcourt.ChannelArbitrator.checkRemoteDanglingActions", "contractcourt.ChannelArbitrator.checkRemoteDiffActions"},
	"C13": {"contractcourt.ChannelArbitrator.relaunchResolvers", "contractcourt.ChannelArbitrator.prepContractResolutions", "contractcourt.ChannelArbitrator.resolveContracts", "contractcourt.ChannelArbitrator.stateStep", "contractcourt.ChannelArbitrator.abandonForwards", "contractcourt.ChannelArbitrator.failIncomingDust"},
	"C14": {"chainntnfs.TxNotifier.ConnectTip", "chainntnfs.TxNotifier.DisconnectTip", "chainntnfs.TxNotifier.NotifyHeight", "chainntnfs.TxNotifier.UpdateConfDetails", "chainntnfs.TxNotifier.updateSpendDetails", "chainntnfs.TxNotifier.handleConfDetailsAtTip", "chainntnfs.TxNotifier.handleSpendDetailsAtTip", "chainntnfs.TxNotifier.updateHints", "chainntnfs.TxNotifier.unconfirmedRequests", "chainntnfs.TxNotifier.unspentRequests", "chainntnfs.TxNotifier.filterTx", "chainntnfs.TxNotifier.RegisterConf"},
	"C15": {"invoices.addHTLCs", "invoices.cancelHTLCs", "invoices.settleHodlInvoice", "invoices.cancelInvoice", "invoices.updateMpp", "invoices.updateLegacy", "invoices.reconstructAMPPreimages", "invoices.InvoiceRegistry.SettleHodlInvoice"},
	"C16": {"payments/db.decidePaymentStatus", "payments/db.MPPayment.SentAmt", "payments/db.MPPayment.InFlightHTLCs", "payments/db.verifyAttempt", "payments/db.computePaymentStatusFromResolutions"},
	"C17": {"lnwallet.CreateCooperativeCloseTx"},
	"C18": {"sweep.TxPublisher.createSweepTx", "sweep.prepareSweepTx"},
	"C19": {"routing.newRoute", "routing.edgeUnifier.getEdgeLocal", "routing.edgeUnifier.getEdgeNetwork", "routing.nodeEdgeUnifier.addGraphPolicies"},
	"C20": {"netann.ValidateNodeAnnFields"},
}

// loopExempt: function -> regexp over the canonical range expression -> why
// that loop is meant to stop early.
var loopExempt = map[string]map[string]string{
	"htlcswitch.channelLink.processRemoteAdds": {
		`^\$v:\[\]\*lnwire\.UpdateAddHTLC$`: "the bare returns follow l.failf: the link is being torn down (the function has no error result)",
	},
	"invoices.updateMpp": {
		`HTLCSet\(`: "validation of the accepted set: a mismatching member refuses the new HTLC with a failure resolution",
	},
	"invoices.updateLegacy": {
		`HTLCSet\(`: "an accepted MPP member refuses the legacy HTLC with a failure resolution",
	},
	"invoices.reconstructAMPPreimages": {
		`ReconstructChildren`: "a child whose hash does not match refuses the HTLC with a failure resolution",
	},
	"sweep.TxPublisher.createSweepTx": {
		`^\$lit\.p0$`: "search for the change output inside fn.MapOption",
	},
	"lnwallet.NewLocalForceCloseSummary": {
		`TxOut$`: "search for our to_local output on the commitment",
	},
	"lnwallet.NewUnilateralCloseSummary": {
		`TxOut$`: "search for our to_remote output on the commitment",
	},
}

func loopCoverage(r *an.Run, id string) {
	fns := loopTable[id]
	if len(fns) == 0 {
		return
	}
	p := r.Prog
	r.Obl("per-element-loops-visit-every-element", "PATH",
		"in the tabled functions that apply this property's per-element step to a collection, every range loop is left only when the range is exhausted or by a failure return (no break, goto or successful return inside the body); loops that are searches or validations are tabled with the reason",
		"the property quantifies over every HTLC / update / request / resolver; a loop that stops at the first skipped element leaves the rest without the step while every sampled test with one element still passes", len(fns),
		func(o *an.Obl) {
			sort.Strings(fns)
			for _, fn := range fns {
				f := p.FuncOpt(fn)
				if f == nil {
					o.FailAt(fn+"#missing", "", "tabled function %s not found: the anchor moved", fn)
					continue
				}
				n := allLoopsVisitAll(o, f, loopExempt[fn])
				for _, lf := range f.Lits {
					n += allLoopsVisitAll(o, lf, loopExempt[fn])
				}
				o.Site("%s: %d range loops checked", fn, n)
			}
		})
}
