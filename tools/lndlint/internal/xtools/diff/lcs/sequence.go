// Copyright 2022 The Go Authors. All rights reserved.
// Use of this source code is governed by a BSD-style
// license that can be found in the LICENSE file.

package lcs

// This file defines the abstract sequence over which the LCS algorithm operates.

// sequences abstracts a pair of sequences, A and B.
type sequences interface {
	lengths() (int, int)                    // len(A), len(B)
	commonPrefixLen(ai, aj, bi, bj int) int // len(commonPrefix(A[ai:aj], B[bi:bj]))
	commonSuffixLen(ai, aj, bi, bj int) int // len(commonSuffix(A[ai:aj], B[bi:bj]))
}

type stringSeqs struct{ a, b string }

func (s stringSeqs) lengths() (int, int) { return len(s.a), len(s.b) }
func (s stringSeqs) commonPrefixLen(ai, aj, bi, bj int) int {
	return commonPrefixLenString(s.a[ai:aj], s.b[bi:bj])
}
func (s stringSeqs) commonSuffixLen(ai, aj, bi, bj int) int {
	return commonSuffixLenString(s.a[ai:aj], s.b[bi:bj])
}

// The explicit capacity in s[i:j:j] leads to more efficient code.

type bytesSeqs struct{ a, b []byte }

func (s bytesSeqs) lengths() (int, int) { return len(s.a), len(s.b) }
func (s bytesSeqs) commonPrefixLen(ai, aj, bi, bj int) int {
	return commonPrefixLenBytes(s.a[ai:aj:aj], s.b[bi:bj:bj])
}
func (s bytesSeqs) commonSuffixLen(ai, aj, bi, bj int) int {
	return commonSuffixLenBytes(s.a[ai:aj:aj], s.b[bi:bj:bj])
}

type runesSeqs struct{ a, b []rune }

func (s runesSeqs) lengths() (int, int) { return len(s.a), len(s.b) }
func (s runesSeqs) commonPrefixLen(ai, aj, bi, bj int) int {
	return commonPrefixLenRunes(s.a[ai:aj:aj], s.b[bi:bj:bj])
}
func (s runesSeqs) commonSuffixLen(ai, aj, bi, bj int) int {
	return commonSuffixLenRunes(s.a[ai:aj:aj], s.b[bi:bj:bj])
}

// TODO(adonovan): optimize these functions using ideas from:
// - https://go.dev/cl/408116 common.go
// - https://go.dev/cl/421435 xor_generic.go

// TODO(adonovan): factor using generics when available,
// but measure performance impact.

// commonPrefixLen* returns the length of the common prefix of a[ai:aj] and b[bi:bj].
func commonPrefixLenBytes(a, b []byte) int {
	n := min(len(a), len(b))
	i := 0
	for i < n && a[i] == b[i] {
		i++
	}
	return i
}
func commonPrefixLenRunes(a, b []rune) int {
	n := min(len(a), len(b))
	i := 0
	for i < n && a[i] == b[i] {
		i++
	}
	return i
}
func commonPrefixLenString(a, b string) int {
	n := min(len(a), len(b))
	i := 0
	for i < n && a[i] == b[i] {
		i++
	}
	return i
}

// commonSuffixLen* returns the length of the common suffix of a[ai:aj] and b[bi:bj].
func commonSuffixLenBytes(a, b []byte) int {
	n := min(len(a), len(b))
	i := 0
	for i < n && a[len(a)-1-i] == b[len(b)-1-i] {
		i++
	}
	return i
}
func commonSuffixLenRunes(a, b []rune) int {
	n := min(len(a), len(b))
	i := 0
	for i < n && a[len(a)-1-i] == b[len(b)-1-i] {
		i++
	}
	return i
}
func commonSuffixLenString(a, b string) int {
	n := min(len(a), len(b))
	i := 0
	for i < n && a[len(a)-1-i] == b[len(b)-1-i] {
		i++
	}
	return i
}

func min(x, y int) int {
	if x < y {
		return x
	} else {
		return y
	}
}
