package lnwallet

// Probe A1 (property C06). Run:
//   go test -count=1 -run TestProbeA1BadRevocationThenGenuine -v ./lnwallet/
//
// Suspicion: ReceiveRevocation (channel.go) calls store.AddNextEntry before
// the commitment point check. At an odd shachain index (bucket 0, i.e. every
// even commitment height, e.g. height 0) AddNextEntry has nothing to check
// the secret against, so a garbage secret is stored and the store's index
// advances; the point check then refuses the message, but the in-memory
// store stays polluted: the genuine revocation is refused afterwards and a
// LookUp of that height returns the garbage.
//
// Observed on the unmodified tree:
//   bad revocation: revocation key mismatch
//   genuine revocation afterwards: hash isn't derivable from previous ones

import (
	"bytes"
	"testing"

	"github.com/lightningnetwork/lnd/channeldb"
	"github.com/lightningnetwork/lnd/lnwire"
	"github.com/stretchr/testify/require"
)

func TestProbeA1BadRevocationThenGenuine(t *testing.T) {
	alice, bob, err := CreateTestChannels(
		t, channeldb.SingleFunderTweaklessBit,
	)
	require.NoError(t, err)

	htlc, _ := createHTLC(0, lnwire.NewMSatFromSatoshis(20000))
	addAndReceiveHTLC(t, alice, bob, htlc, nil)

	sig, err := alice.SignNextCommitment(ctxb)
	require.NoError(t, err)
	require.NoError(t, bob.ReceiveNewCommitment(sig.CommitSigs))

	rev, _, _, err := bob.RevokeCurrentCommitment()
	require.NoError(t, err)

	var before bytes.Buffer
	require.NoError(t, alice.channelState.RevocationStore.Encode(&before))

	bad := *rev
	bad.Revocation[5] ^= 1

	_, _, err = alice.ReceiveRevocation(&bad)
	t.Logf("bad revocation: %v", err)
	require.Error(t, err)

	// A refused message leaves the store untouched.
	var after bytes.Buffer
	require.NoError(t, alice.channelState.RevocationStore.Encode(&after))
	require.Equal(t, before.Bytes(), after.Bytes(), "the refused "+
		"revoke_and_ack changed the in-memory revocation store")

	// ... and the channel able to accept the genuine one.
	_, _, err = alice.ReceiveRevocation(rev)
	t.Logf("genuine revocation afterwards: %v", err)
	require.NoError(t, err, "in-memory revocation store was polluted by "+
		"the refused revoke_and_ack")

	secret, err := alice.channelState.RevocationStore.LookUp(0)
	require.NoError(t, err)
	require.Equal(t, rev.Revocation[:], secret[:])
}
