package spec

import (
	"go/ast"
	"strings"

	"lndlint/internal/an"
)

func init() {
	register(&Spec{
		ID:          "C08",
		Loads:       []LoadSpec{{Patterns: []string{"./htlcswitch", "./lnwallet", "./chanstate"}}},
		Explanation: "Decides that an incoming HTLC is settled only through the two link entry points, whose preimage originates from the settle packet of the outgoing HTLC (forwarded) or from an invoice-registry settle resolution (exit hop), and that the state machine accepts a settle only for a matching preimage; that a settle learned from the outgoing peer is forwarded only after the state machine verified it against the outgoing HTLC; that fail packets towards the incoming link are built only from forwarding packages (updates irrevocably committed on both commitments, produced by ReceiveRevocation or reloaded from disk); the forwarding filter of ReceiveRevocation; that the forwarding decision is durable before packets leave the link; and that acks and circuit closure ride in the commit diff.",
		NotDecided: []string{
			"balance conservation at quiescence", "goroutine scheduling, message drops and link restarts",
			"that held invoices are eventually resolved",
		},
		Assumptions: commonAssumptions,
		Engines:     "WHO, ROLE, GUARD, PATH",
		TagMatrix:   [][]string{{"integration"}},
		Run:         runC08,
	})
}

func runC08(r *an.Run) {
	p := r.Prog

	r.Obl("settle-preimage-origin", "WHO",
		"LightningChannel.SettleHTLC has exactly two callers: processLocalUpdateFulfillHTLC, passing the PaymentPreimage of the switch packet's update_fulfill_htlc together with the packet's incoming HTLC id and references, and settleHTLC (exit hop), whose preimage comes from an invoice-registry HtlcSettleResolution; both settle entry points of the state machine require RHash == sha256(preimage)",
		"an incoming HTLC settled with a preimage that was not learned downstream (or from the node's own invoice) leaves the forwarder out of pocket", 6,
		func(o *an.Obl) {
			w := r.Wide()
			w.WhoMay(o, "lnwallet.LightningChannel.SettleHTLC", w.RefsTo(w.Method("lnwallet", "LightningChannel", "SettleHTLC"), true), map[string]string{
				hs + "channelLink.processLocalUpdateFulfillHTLC": "forwarded settle: preimage carried by the switch packet from the outgoing link",
				hs + "channelLink.settleHTLC":                    "exit hop: preimage from the invoice registry",
			}, []string{hs + "channelLink.processLocalUpdateFulfillHTLC", hs + "channelLink.settleHTLC"})
			f := p.Func(hs + "channelLink.processLocalUpdateFulfillHTLC")
			for _, s := range f.Calls(an.CalleeNamed("SettleHTLC"), false) {
				a := f.ArgCanon(s)
				o.Site("%s args=%v", s.String(), a)
				if a[0] != "$p2.PaymentPreimage" || a[1] != "$p1.incomingHTLCID" || a[2] != "$p1.sourceRef" || a[3] != "$p1.destRef" {
					o.FailAt(f.ID+"#SettleHTLC-args", s.Where(), "the forwarded settle must use the packet's preimage, incoming HTLC id and references; got %v", a[:4])
				}
			}
			g := p.Func(hs + "channelLink.settleHTLC")
			for _, s := range g.Calls(an.CalleeNamed("SettleHTLC"), false) {
				a := g.ArgCanon(s)
				o.Site("%s args=%v", s.String(), a)
				if a[0] != "$p0" || a[1] != "$p1" {
					o.FailAt(g.ID+"#SettleHTLC-args", s.Where(), "the exit-hop settle must use its preimage and HTLC index parameters; got %v", a[:2])
				}
			}
			w.WhoMay(o, hs+"channelLink.settleHTLC", w.RefsTo(w.Method("htlcswitch", "channelLink", "settleHTLC"), false), map[string]string{
				hs + "channelLink.processHtlcResolution": "invoice registry resolution",
			}, []string{hs + "channelLink.processHtlcResolution"})
			h := p.Func(hs + "channelLink.processHtlcResolution")
			for _, s := range h.Calls(an.CalleeIs(hs+"channelLink.settleHTLC"), false) {
				a := h.ArgCanon(s)
				o.Site("%s args=%v", s.String(), a)
				if !strings.HasSuffix(a[0], ".Preimage") {
					o.FailAt(h.ID+"#preimage-source", s.Where(), "the exit-hop preimage is %s, expected the settle resolution's Preimage", a[0])
				}
				guarded(o, h, s, an.TypeCaseIs("invoices.HtlcSettleResolution", true, "resolution is an HtlcSettleResolution"))
			}
			for _, name := range []string{"SettleHTLC", "ReceiveHTLCSettle"} {
				sf := p.Func(lw + "LightningChannel." + name)
				app := sf.Calls(an.CalleeIs(lw+"updateLog.appendUpdate"), false)
				if need(o, sf, "appendUpdate", app, 1) {
					// the hash compared is the one of the HTLC found in the log under the
					// given index, the preimage hashed is this call's
					logHtlc := canonTerm(`^\$recv\.updateLogs\.(Local|Remote)\.lookupHtlc\(\$p1\)\.RHash$`)
					guarded(o, sf, app[0], an.Cmp(logHtlc, an.EQ, an.CallTo("crypto/sha256.Sum256", nil, canonTerm(`^\$p0(\[:\])?$`)), "lookupHtlc(htlcIndex).RHash == sha256(preimage)"))
				}
			}
		})

	r.Obl("responses-forwarded-only-when-justified", "PATH",
		"a settle received from the outgoing peer is forwarded upstream (forwardBatch) only after channel.ReceiveHTLCSettle accepted its preimage, and carries that same preimage; fail packets for the incoming link are created only in processRemoteSettleFails, i.e. from a forwarding package; processRemoteSettleFails and processRemoteAdds are called only with the package returned by ReceiveRevocation or reloaded by resolveFwdPkg; the link's receipt of update_fail_htlc / update_fail_malformed_htlc forwards nothing",
		"an incoming HTLC must be failed back only once the outgoing HTLC is irrevocably removed; failing back on the mere receipt of update_fail lets the downstream peer still claim the HTLC", 10,
		func(o *an.Obl) {
			f := p.Func(hs + "channelLink.processRemoteUpdateFulfillHTLC")
			fb := f.Calls(an.CalleeIs(hs+"channelLink.forwardBatch"), false)
			rs := f.Calls(an.CalleeNamed("ReceiveHTLCSettle"), false)
			if need(o, f, "forwardBatch", fb, 1) && need(o, f, "ReceiveHTLCSettle", rs, 1) {
				mustPass(o, f, "ReceiveHTLCSettle", rs, an.OkErrNil, fb)
				a := f.ArgCanon(rs[0])
				if a[0] != "$p0.PaymentPreimage" || a[1] != "$p0.ID" {
					o.FailAt(f.ID+"#ReceiveHTLCSettle-args", rs[0].Where(), "ReceiveHTLCSettle must check the message's own preimage and id; got %v", a)
				}
				c := f.Canon(fb[0].Node.(*ast.CallExpr).Args[1])
				o.Site("forwarded settle packet: %s", c)
				if !strings.Contains(c, "PaymentPreimage: $p0.PaymentPreimage") || !strings.Contains(c, "outgoingHTLCID: $p0.ID") {
					o.FailAt(f.ID+"#forwarded-preimage", fb[0].Where(), "the settle forwarded upstream does not carry the verified preimage/id: %s", c)
				}
			}
			// where packets carrying a fail are built
			for _, fn := range p.Funcs(false, "htlcswitch") {
				if !strings.HasPrefix(fn.ID, hs+"channelLink.") || fn.Lit != nil {
					continue
				}
				for _, ref := range fn.Calls(an.CalleeIs(hs+"channelLink.forwardBatch"), true) {
					o.Site("forwardBatch called from %s", ref.String())
					switch fn.ID {
					case hs + "channelLink.processRemoteSettleFails", hs + "channelLink.processRemoteAdds", hs + "channelLink.processRemoteUpdateFulfillHTLC":
					default:
						o.FailAt("forwardBatch<-"+fn.ID, ref.Where(), "%s forwards packets to the switch; only forwarding-package processing and a verified upstream settle may", fn.ID)
					}
				}
			}
			for _, name := range []string{"processRemoteUpdateFailHTLC", "processRemoteUpdateFailMalformedHTLC"} {
				g := p.Func(hs + "channelLink." + name)
				if n := len(g.Calls(an.CalleeNamed("forwardBatch", "ForwardPackets", "Deliver"), true)); n != 0 {
					o.FailAt(g.ID+"#forwards", g.Where(g.Body.Pos()), "%s forwards a response before the removal is irrevocably committed", name)
				}
				o.Site("%s forwards nothing", name)
			}
			w := r.Wide()
			for _, m := range []string{"processRemoteSettleFails", "processRemoteAdds"} {
				w.WhoMay(o, hs+"channelLink."+m, w.RefsTo(w.Method("htlcswitch", "channelLink", m), false), map[string]string{
					hs + "channelLink.processRemoteRevokeAndAck": "package returned by ReceiveRevocation",
					hs + "channelLink.resolveFwdPkg":             "package reloaded from disk",
				}, nil)
			}
			rv := p.Func(hs + "channelLink.processRemoteRevokeAndAck")
			for _, s := range rv.Calls(an.CalleeIs(hs+"channelLink.processRemoteSettleFails", hs+"channelLink.processRemoteAdds"), false) {
				a := rv.ArgCanon(s)
				o.Site("%s arg=%s", s.String(), a[0])
				if !strings.Contains(a[0], ".ReceiveRevocation(") {
					o.FailAt(rv.ID+"#fwdpkg-source", s.Where(), "the forwarding package processed after a revocation is %s, expected the result of channel.ReceiveRevocation", a[0])
				}
				mustPass(o, rv, "ReceiveRevocation", rv.Calls(an.CalleeNamed("ReceiveRevocation"), false), an.OkErrNil, []an.Site{s})
			}
		})

	r.Obl("revocation-forwarding-filter", "GUARD",
		"ReceiveRevocation puts an Add into the forwarding package only if it is not yet forwarded, both add heights are non-zero, the remote tail just reached its remote add height and the local tail has reached its local add height; a Settle/Fail likewise on the remove heights; fee updates never; each packaged update is marked forwarded",
		"an update forwarded before it is locked into both commitments can still be rolled back by the peer; one forwarded twice doubles the HTLC", 6,
		func(o *an.Obl) {
			f := p.Func(lw + "LightningChannel.ReceiveRevocation")
			def := func(name string) string {
				for _, s := range f.Assigns(an.LocalNamed(name), false) {
					if as, ok := s.Node.(*ast.AssignStmt); ok && len(as.Rhs) == 1 {
						return f.Canon(as.Rhs[0])
					}
				}
				return ""
			}
			tail := `\(\$recv\.commitChains\.Remote\.tail\(\)\.height \+ 1\)`
			ltail := `\$recv\.commitChains\.Local\.tail\(\)\.height`
			want := map[string]string{
				"committedAdd": `^\(\(.*\.addCommitHeights\.Remote > 0\) && \(.*\.addCommitHeights\.Local > 0\)\)$`,
				"committedRmv": `^\(\(.*\.removeCommitHeights\.Remote > 0\) && \(.*\.removeCommitHeights\.Local > 0\)\)$`,
				"shouldFwdAdd": `^\(\(` + tail + ` == .*\.addCommitHeights\.Remote\) && \(` + ltail + ` >= .*\.addCommitHeights\.Local\)\)$`,
				"shouldFwdRmv": `^\(\(` + tail + ` == .*\.removeCommitHeights\.Remote\) && \(` + ltail + ` >= .*\.removeCommitHeights\.Local\)\)$`,
			}
			for name, re := range want {
				c := def(name)
				o.Site("%s := %s", name, c)
				if !reMatch(re, c) {
					o.FailAt(f.ID+"#"+name, f.Where(f.Body.Pos()), "the forwarding predicate %s is %s, expected /%s/", name, c, re)
				}
			}
			for list, preds := range map[string][]an.Fact{
				"addUpdatesToForward": {
					an.Truth(an.CallNamed("isAdd", nil), true, "pd.isAdd()"),
					an.Truth(an.LocalNamed("committedAdd"), true, "committedAdd"), an.Truth(an.LocalNamed("shouldFwdAdd"), true, "shouldFwdAdd")},
				"settleFailUpdatesToForward": {
					an.Truth(an.CallNamed("isAdd", nil), false, "!pd.isAdd()"),
					an.Truth(an.LocalNamed("committedRmv"), true, "committedRmv"), an.Truth(an.LocalNamed("shouldFwdRmv"), true, "shouldFwdRmv")},
			} {
				var app []an.Site
				for _, s := range f.Assigns(an.LocalNamed(list), false) {
					if as, ok := s.Node.(*ast.AssignStmt); ok && len(as.Rhs) == 1 && isAppend(f, as.Rhs[0]) {
						app = append(app, s)
					}
				}
				if len(app) != 1 {
					o.FailAt(f.ID+"#"+list, f.Where(f.Body.Pos()), "expected one append to %s, found %d", list, len(app))
					continue
				}
				guardedAll(o, f, app, preds...)
				guardedAll(o, f, app,
					an.Truth(an.FieldPath(nil, "isForwarded"), false, "!pd.isForwarded"),
					an.Cmp(an.FieldPath(nil, "EntryType"), an.NE, an.PkgVar("lnwallet", "FeeUpdate"), "pd.EntryType != FeeUpdate"))
				marks := f.Assigns(an.Field(lw+"paymentDescriptor", "isForwarded", nil), false)
				if len(marks) != 2 || !f.Before(marks, app[0]) {
					o.FailAt(f.ID+"#"+list+"-marked", app[0].Where(), "a packaged update is not marked forwarded before it is added to the package")
				}
			}
		})

	r.Obl("forwarding-decision-durable-first", "PATH",
		"processRemoteAdds hands the batch to the switch (forwardBatch) only after channel.SetFwdFilter succeeded whenever the package is still in the locked-in state; acks of add/settle-fail references and circuit closure are carried by the commit diff (C07 circuit-codec-and-commit-diff)",
		"if the decision is not durable, a restart re-evaluates the adds and can forward an HTLC that was already failed back, or the reverse", 2,
		func(o *an.Obl) {
			f := p.Func(hs + "channelLink.processRemoteAdds")
			fb := f.Calls(an.CalleeIs(hs+"channelLink.forwardBatch"), false)
			sf := f.Calls(an.CalleeNamed("SetFwdFilter"), false)
			if need(o, f, "forwardBatch", fb, 1) && need(o, f, "SetFwdFilter", sf, 1) {
				es, _ := f.UnionOk(sf, an.OkErrNil)
				for e := range f.EdgesOf(an.Cmp(an.FieldPath(an.Param(0), "State"), an.NE, an.PkgVar("chanstate", "FwdStateLockedIn"), "")) {
					es[e] = true
				}
				for e := range f.EdgesOf(an.Cmp(an.FieldPath(an.Param(0), "State"), an.NE, an.PkgVar("channeldb", "FwdStateLockedIn"), "")) {
					es[e] = true
				}
				o.Site("through %s", sf[0].String())
				o.Site("target %s", fb[0].String())
				if bad := f.MustPass(fb, es); len(bad) > 0 {
					o.FailAt(f.ID+"#fwdfilter-before-forward", fb[0].Where(), "packets of a locked-in package can reach the switch before the forwarding filter is durable: %s", bad[0])
				}
				a := f.ArgCanon(sf[0])
				if a[0] != "$p0.Height" || a[1] != "$p0.FwdFilter" {
					o.FailAt(f.ID+"#SetFwdFilter-args", sf[0].Where(), "SetFwdFilter must persist this package's height and filter; got %v", a)
				}
			}
		})

	r.Obl("response-acked-only-when-delivered-or-moot", "GUARD",
		"a settle/fail reference of an outgoing channel's forwarding package is acknowledged (AckSettleFails, ackSettleFail, queued in pendingSettleFails) only: by the switch when the circuit is unknown (already fully closed and deleted), by the switch for a locally initiated payment after its result was stored, by the ack ticker flushing that queue, and by a link cleaning up a spurious response after acking the incoming add",
		"acknowledging a response that merely sits in the incoming mailbox makes the restart skip its re-forwarding: the downstream settle is lost and the incoming HTLC dangles", 5,
		func(o *an.Obl) {
			n := 0
			for _, f := range p.Funcs(false, "htlcswitch") {
				// queue appends
				for _, s := range f.Assigns(an.Field(hs+"Switch", "pendingSettleFails", nil), false) {
					as := s.Node.(*ast.AssignStmt)
					if !isAppend(f, as.Rhs[0]) {
						// the flush `= s.pendingSettleFails[:0]`
						if f.ID != hs+"Switch.htlcForwarder" {
							o.FailAt(f.ID+"#queue-reset", s.Where(), "%s resets the pending settle/fail queue", f.ID)
						}
						continue
					}
					n++
					o.Site("%s", s.String())
					if f.ID != hs+"Switch.closeCircuit" {
						o.FailAt(f.ID+"#queues-ack", s.Where(), "%s queues a settle/fail acknowledgement", f.ID)
						continue
					}
					guarded(o, f, s, an.Cmp(an.LocalNamed("err"), an.EQ, an.PkgVar("htlcswitch", "ErrUnknownCircuit"), "err == ErrUnknownCircuit"))
					if c := f.Canon(as.Rhs[0]); !strings.HasSuffix(c, "*$p0.destRef)") {
						o.FailAt(f.ID+"#queued-ref", s.Where(), "the queued reference is %s, expected the packet's destRef", c)
					}
				}
				for _, s := range f.Calls(an.CalleeNamed("ackSettleFail", "AckSettleFails"), false) {
					if strings.HasSuffix(f.Root().ID, ".ackSettleFail") {
						continue
					}
					n++
					o.Site("%s", s.String())
					switch f.ID {
					case hs + "Switch.handleLocalResponse":
						mustPass(o, f, "networkResults.storeResult", f.Calls(an.CalleeNamed("storeResult"), false), an.OkErrNil, []an.Site{s})
					case hs + "Switch.htlcForwarder":
						if a := f.ArgCanon(s); a[0] != "$recv.pendingSettleFails" {
							o.FailAt(f.ID+"#flushes", s.Where(), "the ack ticker acknowledges %s", a[0])
						}
					case hs + "channelLink.cleanupSpuriousResponse":
						mustPass(o, f, "AckAddHtlcs", f.Calls(an.CalleeNamed("AckAddHtlcs"), false), an.OkErrNil, []an.Site{s})
					default:
						o.FailAt(f.ID+"#acks-response", s.Where(), "%s acknowledges a settle/fail reference; the site is not in the table", f.ID)
					}
				}
			}
			if n < 4 {
				o.FailAt("AckSettleFails#sites", "", "expected at least 4 acknowledgement sites, found %d", n)
			}
		})

	r.Obl("packets-carry-their-forwarding-references", "ROLE",
		"every switch packet built in htlcswitch carries the durable reference its handling depends on: an add built by the link from a forwarding package has sourceRef; a locally generated failure derived from an add packet (copying its incoming channel and HTLC id) copies that packet's sourceRef and circuit; a settle or fail re-created from a forwarding package's SettleFails has destRef; Switch.reforwardResponses scans every channel (FetchAllChannels, which includes channels waiting to close) that is not pending, and re-forwards the settle/fails of each of its forwarding packages",
		"a response without its reference is committed without acknowledging the add (the add is replayed and forwarded again after a restart) or without the downstream reference (the response is retransmitted forever); responses of a closing channel that are not re-forwarded leave the upstream HTLC unsettled although downstream was paid", 12,
		func(o *an.Obl) {
			T := p.LookupType("htlcswitch", "htlcPacket")
			n := 0
			for _, cl := range p.CompositeLitsOf(T) {
				if cl.Fn == nil {
					continue
				}
				lit := cl.Node.(*ast.CompositeLit)
				f := cl.Fn
				kv := map[string]ast.Expr{}
				for _, el := range lit.Elts {
					if k, ok := el.(*ast.KeyValueExpr); ok {
						kv[an.Text(k.Key)] = k.Value
					}
				}
				n++
				keys := []string{}
				for k := range kv {
					keys = append(keys, k)
				}
				sortStrings(keys)
				o.Site("%s in %s: %v", cl.Where, f.ID, keys)
				htlcT := ""
				if h, ok := kv["htlc"]; ok {
					htlcT = an.TypeID(f.Info().TypeOf(h))
				}
				// derived from another packet?
				if inc, ok := kv["incomingChanID"]; ok {
					if sel, ok := inc.(*ast.SelectorExpr); ok && sel.Sel.Name == "incomingChanID" {
						src := an.Text(sel.X)
						for _, need := range []string{"sourceRef", "circuit", "incomingHTLCID"} {
							v, has := kv[need]
							if !has || an.Text(v) != src+"."+need {
								o.FailAt(f.ID+"#derived-packet-"+need, cl.Where, "the packet derived from %s copies its incoming channel but not %s.%s", src, src, need)
							}
						}
					}
				}
				if strings.HasSuffix(htlcT, "UpdateAddHTLC") && strings.Contains(f.ID, "channelLink.") {
					if _, has := kv["sourceRef"]; !has {
						o.FailAt(f.ID+"#add-without-sourceRef", cl.Where, "an add handed to the switch has no sourceRef")
					}
				}
				if d, has := kv["htlc"]; has && an.Text(d) == "msg" {
					// re-created from a forwarding package entry
					if _, hasRef := kv["destRef"]; !hasRef {
						o.FailAt(f.ID+"#response-without-destRef", cl.Where, "a settle/fail re-created from a forwarding package has no destRef")
					}
				}
			}
			if n < 12 {
				o.FailAt("htlcPacket#literals", "", "expected at least 12 packet constructions, found %d", n)
			}
			f := p.Func(hs + "Switch.reforwardResponses")
			fa := f.Calls(an.CalleeNamed("FetchAllChannels"), false)
			if need(o, f, "cfg.FetchAllChannels", fa, 1) {
				loopVisitsAll(o, f, `FetchAllChannels|openChannels`)
				rs := f.Calls(an.CalleeIs(hs+"Switch.reforwardSettleFails"), false)
				ld := f.Calls(an.CalleeIs(hs+"Switch.loadChannelFwdPkgs"), false)
				if need(o, f, "reforwardSettleFails", rs, 1) && need(o, f, "loadChannelFwdPkgs", ld, 1) {
					mustPass(o, f, "loadChannelFwdPkgs", ld, an.OkErrNil, rs)
					// every non-pending channel with a real id is processed
					everyIterationOr(o, f, `FetchAllChannels|openChannels`, rs, an.AnyOf("pending channel or unassigned id",
						an.Truth(an.FieldPath(nil, "IsPending"), true, ""),
						an.Cmp(an.Any(), an.EQ, an.PkgVar("htlcswitch/hop", "Source"), "")), "reforwardSettleFails")
				}
			}
			for _, s := range f.AllCalls(false) {
				if id := an.CalleeID(f.Info(), s.Node.(*ast.CallExpr)); strings.HasSuffix(id, ".FetchAllOpenChannels") {
					o.FailAt(f.ID+"#open-only", s.Where(), "reforwardResponses scans only channels in the default state; responses of channels waiting to close must be re-forwarded too")
				}
			}
		})

	fwdPkgPositions(r)
}
