package spec

import (
	"fmt"
	"go/ast"
	"go/types"
	"regexp"
	"sort"
	"strings"

	"lndlint/internal/an"
	"lndlint/internal/flow"
)

// short renders a site without the enclosing function id.
func constructOf(f *an.Func, s an.Site) string {
	if s.Node == nil {
		return f.ID + "#implicit-return"
	}
	return f.ID + "#" + an.Text(s.Node)
}

// mustPass: every target in f is reachable only through a success edge of
// a call in `through`. Counts every through-site and target as a matched
// construct.
func mustPass(o *an.Obl, f *an.Func, what string, through []an.Site, mode an.OkMode, targets []an.Site) {
	if len(through) == 0 {
		o.FailAt(f.ID+"#no-"+what, f.Where(f.Body.Pos()), "no call of %s found in %s: the required step is gone", what, f.ID)
		return
	}
	for _, s := range through {
		o.Site("through %s", s.String())
	}
	for _, t := range targets {
		o.Site("target %s", t.String())
	}
	if len(targets) == 0 {
		o.FailAt(f.ID+"#no-targets-"+what, f.Where(f.Body.Pos()), "no target sites for rule %q in %s", what, f.ID)
		return
	}
	es, direct := f.UnionOk(through, mode)
	// every path must also execute one of the calls: the success edges are
	// recognised at the test of the call's result, which a path that skips
	// a conditional call would share
	stop := map[*flow.Vertex]bool{}
	for _, s := range through {
		stop[s.V] = true
	}
	skip := f.Graph().Reach(f.Graph().Entry, nil, stop)
	for _, t := range targets {
		if direct[t.V] {
			continue
		}
		if bad := f.MustPass([]an.Site{t}, es); len(bad) > 0 {
			o.FailAt(constructOf(f, t)+"<-"+what, t.Where(), "%s can be reached without a successful %s: %s", t.String(), what, bad[0])
			continue
		}
		if skip[t.V] && !stop[t.V] {
			o.FailAt(constructOf(f, t)+"<-skips-"+what, t.Where(), "%s can be reached on a path that never calls %s", t.String(), what)
		}
	}
}

// guarded: site s is reachable only via an edge establishing fact.
func guarded(o *an.Obl, f *an.Func, s an.Site, fact an.Fact) {
	ok, n := f.Guarded(s, fact)
	o.Site("%s guarded by [%s] (%d establishing edges)", s.String(), fact.Desc, n)
	if !ok {
		o.FailAt(constructOf(f, s)+"<-"+fact.Desc, s.Where(),
			"%s is not dominated by the guard [%s]; %d edges establish it in %s; guards that do hold here: %s",
			s.String(), fact.Desc, n, f.ID, strings.Join(f.GuardsAt(s), " ; "))
	}
}

// guardedAll applies guarded to every site and every fact.
func guardedAll(o *an.Obl, f *an.Func, sites []an.Site, facts ...an.Fact) {
	for _, s := range sites {
		for _, fc := range facts {
			guarded(o, f, s, fc)
		}
	}
}

// before: every b is preceded by one of a on all paths.
func before(o *an.Obl, f *an.Func, whatA string, a []an.Site, whatB string, b []an.Site) {
	if len(a) == 0 {
		o.FailAt(f.ID+"#no-"+whatA, f.Where(f.Body.Pos()), "no %s found in %s", whatA, f.ID)
		return
	}
	if len(b) == 0 {
		o.FailAt(f.ID+"#no-"+whatB, f.Where(f.Body.Pos()), "no %s found in %s", whatB, f.ID)
		return
	}
	for _, s := range b {
		o.Site("%s before %s", whatA, s.String())
		if !f.Before(a, s) {
			o.FailAt(constructOf(f, s)+"<-before-"+whatA, s.Where(), "%s can be reached without first executing %s", s.String(), whatA)
		}
	}
}

// exactlyCalls asserts the number of call sites.
func need(o *an.Obl, f *an.Func, what string, sites []an.Site, min int) bool {
	if len(sites) < min {
		o.FailAt(f.ID+"#missing-"+what, f.Where(f.Body.Pos()), "expected at least %d %s in %s, found %d", min, what, f.ID, len(sites))
		return false
	}
	return true
}

// theLit returns the single function literal passed to a call matching pred
// in f.
func theLit(f *an.Func, pred an.CallPred, what string) *an.Func {
	lits := f.LitArgs(pred)
	if len(lits) == 0 {
		panic(an.AnchorError{Msg: fmt.Sprintf("closure passed to %s in %s", what, f.ID)})
	}
	return lits[0]
}

// callArg returns the i-th argument of the call site.
func callArg(s an.Site, i int) ast.Expr {
	c := s.Node.(*ast.CallExpr)
	if i >= len(c.Args) {
		return nil
	}
	return c.Args[i]
}

var kvUpdate = an.CalleeIs("kvdb.Update", "kvdb.Batch")

// role describes the expected canonical argument forms (regular expressions,
// matched against an.Func.Canon output) of one call site.
type role struct {
	Fn   string         // enclosing function id (prefix match, so closures $n are covered)
	Name string         // role name for reports
	Args map[int]string // arg index -> regexp
	Nth  int            // if >0, the n-th (1-based) site of that function; 0 = any
}

// roleSites classifies every non-test call site of callee in pkgs by the
// role table. Unclassified sites and unmet expectations fail.
func roleSites(o *an.Obl, p *an.Prog, pkgs []string, callee string, roles []role, allowUnlisted map[string]string) {
	perFn := map[string]int{}
	used := make([]bool, len(roles))
	for _, f := range p.Funcs(false, pkgs...) {
		for _, s := range f.Calls(an.CalleeIs(callee), false) {
			perFn[f.ID]++
			args := f.ArgCanon(s)
			matched := false
			for ri, r := range roles {
				if !(f.ID == r.Fn || strings.HasPrefix(f.ID, r.Fn+"$")) {
					continue
				}
				if r.Nth > 0 && perFn[f.ID] != r.Nth {
					continue
				}
				matched = true
				used[ri] = true
				o.Site("%s in role %q: %s", callee, r.Name, s.String())
				idx := make([]int, 0, len(r.Args))
				for i := range r.Args {
					idx = append(idx, i)
				}
				sort.Ints(idx)
				for _, i := range idx {
					re := regexp.MustCompile(r.Args[i])
					got := "<missing>"
					if i < len(args) {
						got = args[i]
					}
					if !re.MatchString(got) {
						o.FailAt(fmt.Sprintf("%s@%s#role-%s-arg%d", callee, r.Fn, r.Name, i), s.Where(),
							"%s: call of %s in role %q passes argument %d = %s, expected /%s/", s.String(), callee, r.Name, i, got, r.Args[i])
					}
				}
				break
			}
			if !matched {
				if _, ok := allowUnlisted[f.Root().ID]; ok {
					o.Site("%s (tabled, out of scope: %s): %s", callee, allowUnlisted[f.Root().ID], s.String())
					continue
				}
				o.FailAt(callee+"@"+f.ID+"#unclassified", s.Where(), "unclassified call site of %s: %s with arguments %v — a new construction site must be reviewed and added to the role table", callee, s.String(), args)
			}
		}
	}
	for ri, r := range roles {
		if !used[ri] {
			o.FailAt(callee+"@"+r.Fn+"#role-missing-"+r.Name, "", "no call of %s found for role %q in %s", callee, r.Name, r.Fn)
		}
	}
}

// selectorConsistent checks the idiom
//
//	v := <local>; if party.IsRemote() { v = <remote> }   (or if/else, or the mirrored default)
//
// at a use site: there is no path on which party is Remote and the
// assignment in effect at the site is the local one, and vice versa.
func selectorConsistent(o *an.Obl, f *an.Func, site an.Site, v ast.Expr, party an.Term, local, remote an.Term, what string) {
	id, ok := an.Strip(f.Info(), v).(*ast.Ident)
	if !ok {
		o.FailAt(constructOf(f, site)+"#"+what+"-not-a-variable", site.Where(), "%s argument is not a variable: %s", what, an.Text(v))
		return
	}
	obj := f.Info().Uses[id]
	root := f
	for root.Parent != nil && !definesObj(root, obj) {
		root = root.Parent
	}
	var locals, remotes, others []an.Site
	objTerm := func(fn *an.Func, e ast.Expr) bool {
		i, ok := e.(*ast.Ident)
		return ok && (fn.Info().Uses[i] == obj || fn.Info().Defs[i] == obj)
	}
	for _, as := range root.Assigns(objTerm, false) {
		rhs := rhsFor(root, as, obj)
		switch {
		case rhs != nil && an.Match(root, local, rhs):
			locals = append(locals, as)
		case rhs != nil && an.Match(root, remote, rhs):
			remotes = append(remotes, as)
		default:
			others = append(others, as)
		}
	}
	if len(locals) == 0 || len(remotes) == 0 || len(others) > 0 {
		o.FailAt(constructOf(f, site)+"#"+what+"-selection", site.Where(), "%s: cannot classify the assignments of %s (local=%d remote=%d other=%d)", what, id.Name, len(locals), len(remotes), len(others))
		return
	}
	g := root.Graph()
	isLocal := an.AnyOf("party is Local",
		an.Truth(an.CallNamed("IsLocal", party), true, ""), an.Truth(an.CallNamed("IsRemote", party), false, ""),
		an.Cmp(party, an.EQ, an.PkgVar("lntypes", "Local"), ""), an.Cmp(party, an.NE, an.PkgVar("lntypes", "Remote"), ""))
	isRemote := an.AnyOf("party is Remote",
		an.Truth(an.CallNamed("IsRemote", party), true, ""), an.Truth(an.CallNamed("IsLocal", party), false, ""),
		an.Cmp(party, an.EQ, an.PkgVar("lntypes", "Remote"), ""), an.Cmp(party, an.NE, an.PkgVar("lntypes", "Local"), ""))
	target := site.V
	if root != f {
		// the use is inside a closure: the selection must be complete
		// before the closure is created; use the statement containing it
		target = root.Graph().Containing(f.Lit, true)
	}
	check := func(from []an.Site, stopAt []an.Site, cutFact an.Fact, desc string) {
		stop := map[*flow.Vertex]bool{}
		for _, s := range stopAt {
			stop[s.V] = true
		}
		cut := root.EdgesOf(cutFact)
		fromEntry := g.Reach(g.Entry, cut, nil)
		for _, a := range from {
			if !fromEntry[a.V] {
				continue // the assignment itself is only reached under the opposite party
			}
			reach := g.Reach(a.V, cut, stop)
			if target != nil && reach[target] && !stop[target] {
				o.FailAt(constructOf(f, site)+"#"+what+"-"+desc, a.Where(), "%s: the value assigned at %s can reach %s on a path where the %s", what, a.String(), site.String(), desc)
			}
		}
	}
	o.Site("%s: %s selected by party at %s (local defs %d, remote defs %d)", what, id.Name, site.String(), len(locals), len(remotes))
	// local value in effect while party is Remote: forbid paths that avoid
	// every "party is Local" edge
	check(locals, remotes, isLocal, "party is Remote")
	check(remotes, locals, isRemote, "party is Local")
}

func definesObj(f *an.Func, obj types.Object) bool {
	found := false
	ast.Inspect(f.Body, func(n ast.Node) bool {
		if id, ok := n.(*ast.Ident); ok && f.Info().Defs[id] == obj {
			found = true
		}
		return !found
	})
	return found
}

// rhsFor returns the expression assigned to obj by the assignment site.
func rhsFor(f *an.Func, s an.Site, obj types.Object) ast.Expr {
	as, ok := s.Node.(*ast.AssignStmt)
	if !ok || len(as.Lhs) != len(as.Rhs) {
		return nil
	}
	for i, l := range as.Lhs {
		if id, ok := ast.Unparen(l).(*ast.Ident); ok && (f.Info().Uses[id] == obj || f.Info().Defs[id] == obj) {
			return as.Rhs[i]
		}
	}
	return nil
}

// definitelyAssigned checks that the variable passed as argument argIdx of
// the call at site is assigned on every path from its declaration to the
// call that is consistent under some valuation of the conditions in between
// (each distinct canonical atom takes one truth value per valuation).
func definitelyAssigned(o *an.Obl, f *an.Func, site an.Site, argIdx int, what string) {
	c := site.Node.(*ast.CallExpr)
	id, ok := an.Strip(f.Info(), c.Args[argIdx]).(*ast.Ident)
	if !ok {
		o.FailAt(constructOf(f, site)+"#"+what+"-not-var", site.Where(), "%s is not a variable: %s", what, an.Text(c.Args[argIdx]))
		return
	}
	obj := f.Info().Uses[id]
	g := f.Graph()
	var decl *flow.Vertex
	stop := map[*flow.Vertex]bool{}
	for _, v := range g.V {
		for _, a := range assignedTo(f, v, obj) {
			if a == "decl" {
				decl = v
			} else {
				stop[v] = true
			}
		}
	}
	if decl == nil || len(stop) == 0 {
		o.FailAt(constructOf(f, site)+"#"+what+"-shape", site.Where(), "%s: cannot find the zero-value declaration and the assignments of %s", what, id.Name)
		return
	}
	// atoms between declaration and use
	between := g.Reach(decl, nil, map[*flow.Vertex]bool{site.V: true})
	atomSet := map[string]bool{}
	for v := range between {
		if (v.Kind == flow.KCond || v.Kind == flow.KCase) && g.BackReach(site.V, nil)[v] {
			atomSet[f.AtomCanon(v)] = true
		}
	}
	var atoms []string
	for a := range atomSet {
		atoms = append(atoms, a)
	}
	sort.Strings(atoms)
	if len(atoms) > 8 {
		o.FailAt(constructOf(f, site)+"#"+what+"-too-many-atoms", site.Where(), "%s: %d conditions between declaration and use; table too large", what, len(atoms))
		return
	}
	for _, val := range an.Valuations(atoms) {
		reach := f.ReachUnderStop(decl, an.ByCanon(val), stop)
		o.Site("%s: %s under %s", what, id.Name, an.ValString(atoms, val))
		if reach[site.V] {
			o.FailAt(constructOf(f, site)+"#"+what+"-unassigned", site.Where(), "%s: under %s the variable %s reaches %s with its zero value (no case assigns it)", what, an.ValString(atoms, val), id.Name, site.String())
		}
	}
}

// assignedTo reports how vertex v writes obj: "decl" for a declaration
// without value, "assign" for an assignment.
func assignedTo(f *an.Func, v *flow.Vertex, obj types.Object) []string {
	var out []string
	switch n := v.Node.(type) {
	case *ast.DeclStmt:
		if gd, ok := n.Decl.(*ast.GenDecl); ok {
			for _, sp := range gd.Specs {
				if vs, ok := sp.(*ast.ValueSpec); ok {
					for _, nm := range vs.Names {
						if f.Info().Defs[nm] == obj {
							if len(vs.Values) == 0 {
								out = append(out, "decl")
							} else {
								out = append(out, "assign")
							}
						}
					}
				}
			}
		}
	case *ast.AssignStmt:
		for _, l := range n.Lhs {
			if id, ok := ast.Unparen(l).(*ast.Ident); ok && (f.Info().Uses[id] == obj || f.Info().Defs[id] == obj) {
				out = append(out, "assign")
			}
		}
	}
	return out
}

// onlyGuards checks that every condition that dominates site matches one of
// the allowed patterns (on the printed guard): the site must not be
// restricted further than the table says.
func onlyGuards(o *an.Obl, f *an.Func, site an.Site, allowed []string, what string) {
	for _, g := range f.GuardsAt(site) {
		ok := false
		for _, re := range allowed {
			if reMatch(re, g) {
				ok = true
			}
		}
		o.Site("%s: guard %q at %s", what, g, site.String())
		if !ok {
			o.FailAt(constructOf(f, site)+"#"+what+"-extra-guard", site.Where(), "%s: %s is additionally restricted by %q; allowed guards are %v", what, site.String(), g, allowed)
		}
	}
}

func sortStrings(s []string) { sort.Strings(s) }

func regexpQuote(s string) string { return regexp.QuoteMeta(s) }

// everyIteration checks that each iteration of the range loop whose operand
// canon matches loopRe passes one of the sites before returning to the loop
// head. It returns false with the loop position when an iteration can skip
// all of them; loops not found are reported as anchors.
func everyIteration(o *an.Obl, f *an.Func, loopRe string, sites []an.Site, what string) {
	re := regexp.MustCompile(loopRe)
	var head *flow.Vertex
	for _, v := range f.Graph().V {
		if rs, ok := v.Node.(*ast.RangeStmt); ok && v.Kind == flow.KRange && re.MatchString(f.Canon(rs.X)) {
			head = v
		}
	}
	if head == nil {
		o.FailAt(f.ID+"#loop-"+what, f.Where(f.Body.Pos()), "cannot find the loop over %s in %s", loopRe, f.ID)
		return
	}
	stop := map[*flow.Vertex]bool{head: true}
	for _, s := range sites {
		stop[s.V] = true
	}
	var body *flow.Vertex
	for _, e := range head.Out {
		if e.Kind == flow.ERangeIn {
			body = e.To
		}
	}
	if body == nil {
		o.FailAt(f.ID+"#loop-body-"+what, f.Where(head.Pos()), "loop over %s has no body", loopRe)
		return
	}
	o.Site("%s: every iteration of the loop at %s passes %s", f.ID, f.Where(head.Pos()), what)
	if stop[body] && body != head {
		return
	}
	if f.Graph().Reach(body, nil, stop)[head] {
		o.FailAt(f.ID+"#iteration-skips-"+what, f.Where(head.Pos()), "an iteration of the loop over %s can complete without %s", f.Canon(head.Node.(*ast.RangeStmt).X), what)
	}
}

// everyIterationOr is everyIteration where an iteration may also skip the
// sites through an edge establishing the given fact.
func everyIterationOr(o *an.Obl, f *an.Func, loopRe string, sites []an.Site, skip an.Fact, what string) {
	re := regexp.MustCompile(loopRe)
	var head *flow.Vertex
	for _, v := range f.Graph().V {
		if rs, ok := v.Node.(*ast.RangeStmt); ok && v.Kind == flow.KRange && re.MatchString(f.Canon(rs.X)) {
			head = v
		}
	}
	if head == nil {
		o.FailAt(f.ID+"#loop-"+what, f.Where(f.Body.Pos()), "cannot find the loop over %s in %s", loopRe, f.ID)
		return
	}
	stop := map[*flow.Vertex]bool{head: true}
	for _, s := range sites {
		stop[s.V] = true
	}
	var body *flow.Vertex
	for _, e := range head.Out {
		if e.Kind == flow.ERangeIn {
			body = e.To
		}
	}
	cut := f.EdgesOf(skip)
	o.Site("%s: every iteration of the loop at %s passes %s unless %s", f.ID, f.Where(head.Pos()), what, skip.Desc)
	if body == nil || (stop[body] && body != head) {
		return
	}
	if f.Graph().Reach(body, cut, stop)[head] {
		o.FailAt(f.ID+"#iteration-skips-"+what, f.Where(head.Pos()), "an iteration of the loop over %s can skip %s other than by %s", f.Canon(head.Node.(*ast.RangeStmt).X), what, skip.Desc)
	}
}

// mustPassUnless is mustPass with alternatives: a target may also be reached
// through an edge establishing one of the unless facts. Every other path
// must execute one of the calls and leave it through a success edge.
func mustPassUnless(o *an.Obl, f *an.Func, what string, through []an.Site, mode an.OkMode, targets []an.Site, unless ...an.Fact) {
	if len(through) == 0 {
		o.FailAt(f.ID+"#no-"+what, f.Where(f.Body.Pos()), "no call of %s found in %s: the required step is gone", what, f.ID)
		return
	}
	if len(targets) == 0 {
		o.FailAt(f.ID+"#no-targets-"+what, f.Where(f.Body.Pos()), "no target sites for rule %q in %s", what, f.ID)
		return
	}
	es, direct := f.UnionOk(through, mode)
	alt := flow.EdgeSet{}
	var descs []string
	for _, u := range unless {
		descs = append(descs, u.Desc)
		for e := range f.EdgesOf(u) {
			alt[e] = true
		}
	}
	cut := flow.EdgeSet{}
	for e := range es {
		cut[e] = true
	}
	for e := range alt {
		cut[e] = true
	}
	stop := map[*flow.Vertex]bool{}
	for _, s := range through {
		stop[s.V] = true
		o.Site("through %s (unless %s)", s.String(), strings.Join(descs, " or "))
	}
	g := f.Graph()
	r1 := g.Reach(g.Entry, cut, nil)
	r2 := g.Reach(g.Entry, alt, stop)
	for _, t := range targets {
		o.Site("target %s", t.String())
		if direct[t.V] {
			continue
		}
		if r1[t.V] {
			o.FailAt(constructOf(f, t)+"<-"+what, t.Where(), "%s can be reached without a successful %s and without [%s]: %s", t.String(), what, strings.Join(descs, " or "), f.RenderPath(g.PathTo(g.Entry, t.V, cut)))
			continue
		}
		if r2[t.V] && !stop[t.V] {
			o.FailAt(constructOf(f, t)+"<-skips-"+what, t.Where(), "%s can be reached on a path that never calls %s and does not establish [%s]", t.String(), what, strings.Join(descs, " or "))
		}
	}
}

// mustDoUnless: every path from the entry of f to one of the targets passes
// one of the sites, except paths that take an edge establishing one of the
// allowed skip facts. This is the dual of `guarded`: an action that must
// happen unless a stated condition exempts it (an added condition around the
// action is reported).
func mustDoUnless(o *an.Obl, f *an.Func, what string, sites []an.Site, targets []an.Site, skips ...an.Fact) {
	mustDoUnlessFrom(o, f, nil, what, sites, targets, skips...)
}

// mustDoUnlessFrom is mustDoUnless for the paths that start at vertex from
// (nil = function entry); targets not reachable from there are ignored.
func mustDoUnlessFrom(o *an.Obl, f *an.Func, from *flow.Vertex, what string, sites []an.Site, targets []an.Site, skips ...an.Fact) {
	if len(sites) == 0 {
		o.FailAt(f.ID+"#no-"+what, f.Where(f.Body.Pos()), "%s not found in %s", what, f.ID)
		return
	}
	cut := flow.EdgeSet{}
	var descs []string
	for _, s := range skips {
		descs = append(descs, s.Desc)
		for e := range f.EdgesOf(s) {
			cut[e] = true
		}
	}
	stop := map[*flow.Vertex]bool{}
	for _, s := range sites {
		stop[s.V] = true
	}
	g := f.Graph()
	if from == nil {
		from = g.Entry
	}
	reach := g.Reach(from, cut, stop)
	after := g.Reach(from, nil, nil)
	for _, t := range targets {
		if !after[t.V] {
			continue
		}
		o.Site("%s happens before %s unless [%s]", what, t.String(), strings.Join(descs, " | "))
		if reach[t.V] && !stop[t.V] {
			o.FailAt(constructOf(f, t)+"<-skips-"+what, t.Where(), "%s can be reached without %s although none of [%s] holds", t.String(), what, strings.Join(descs, " | "))
		}
	}
}

// loopVisitsAll checks that the range loop of f whose operand canon matches
// loopRe is left only when the range is exhausted or through a failing
// return: no `break`, no successful `return` and no `goto` out of its body.
// Such a loop processes every element of its operand.
func loopVisitsAll(o *an.Obl, f *an.Func, loopRe string) {
	re := regexp.MustCompile(loopRe)
	g := f.Graph()
	found := 0
	for _, head := range g.V {
		rs, ok := head.Node.(*ast.RangeStmt)
		if !ok || head.Kind != flow.KRange || !re.MatchString(f.Canon(rs.X)) {
			continue
		}
		found++
		var body *flow.Vertex
		for _, e := range head.Out {
			if e.Kind == flow.ERangeIn {
				body = e.To
			}
		}
		if body == nil {
			continue
		}
		in := g.Reach(body, nil, map[*flow.Vertex]bool{head: true})
		// the code after the loop
		post := map[*flow.Vertex]bool{}
		for _, e := range head.Out {
			if e.Kind == flow.ERangeDone {
				post = g.Reach(e.To, nil, map[*flow.Vertex]bool{head: true})
			}
		}
		o.Site("%s: loop over %s at %s visits every element", f.ID, f.Canon(rs.X), f.Where(rs.Pos()))
		for v := range in {
			if v == head || post[v] || v == g.Exit || v == g.PanicExit {
				continue
			}
			for _, e := range v.Out {
				to := e.To
				if to == head || (in[to] && !post[to] && to != g.Exit) {
					continue
				}
				if to == g.PanicExit || v.Kind == flow.KPanic {
					continue
				}
				if rsn, isRet := v.Node.(*ast.ReturnStmt); isRet {
					s := an.Site{Fn: f, V: v, Node: rsn}
					if f.ClassifyReturn(s) == an.RetFailure {
						continue
					}
					o.FailAt(f.ID+"#loop-left-by-return", f.Where(v.Node.Pos()), "the loop over %s can be left by %s before every element was processed", f.Canon(rs.X), an.Text(rsn))
					continue
				}
				where := f.Where(rs.Pos())
				txt := "a jump"
				if v.Node != nil {
					where, txt = f.Where(v.Node.Pos()), an.Text(v.Node)
				}
				o.FailAt(f.ID+"#loop-left-early", where, "the loop over %s can be left at %s before every element was processed (break / goto)", f.Canon(rs.X), txt)
			}
		}
	}
	if found == 0 {
		o.FailAt(f.ID+"#loop-"+loopRe, f.Where(f.Body.Pos()), "cannot find the loop over %s in %s", loopRe, f.ID)
	}
}

// allLoopsVisitAll applies loopVisitsAll to every range loop of f (nested
// function literals excluded) except those whose operand canon matches a key
// of except (value = reason: e.g. a search loop that stops at the first hit).
func allLoopsVisitAll(o *an.Obl, f *an.Func, except map[string]string) int {
	n := 0
	seen := map[string]bool{}
	for _, head := range f.Graph().V {
		rs, ok := head.Node.(*ast.RangeStmt)
		if !ok || head.Kind != flow.KRange {
			continue
		}
		c := f.Canon(rs.X)
		if seen[c] {
			continue
		}
		seen[c] = true
		skip := false
		for re, why := range except {
			if regexp.MustCompile(re).MatchString(c) {
				o.Site("%s: loop over %s exempt (%s)", f.ID, c, why)
				skip = true
			}
		}
		if skip {
			continue
		}
		n++
		loopVisitsAll(o, f, "^"+regexp.QuoteMeta(c)+"$")
	}
	return n
}

// failureStops: when one of the calls fails (the edge that is not an ok-edge
// of its error test is taken) none of the forbidden sites can be reached any
// more: the failure is handed out, not swallowed by a `break`, a `continue`
// or a log statement.
func failureStops(o *an.Obl, f *an.Func, what string, calls []an.Site, mode an.OkMode, forbidden []an.Site, whatForbidden string) {
	if len(calls) == 0 {
		o.FailAt(f.ID+"#no-"+what, f.Where(f.Body.Pos()), "%s not found in %s", what, f.ID)
		return
	}
	ok, _ := f.UnionOk(calls, mode)
	g := f.Graph()
	seen := map[*flow.Vertex]bool{}
	for e := range ok {
		src := e.From
		if seen[src] {
			continue
		}
		seen[src] = true
		for _, out := range src.Out {
			if ok[out] {
				continue
			}
			reach := g.Reach(out.To, nil, nil)
			o.Site("failure edge of %s at %s", what, f.Where(src.Pos()))
			for _, t := range forbidden {
				if reach[t.V] {
					o.FailAt(constructOf(f, t)+"<-after-failed-"+what, t.Where(), "%s is still reachable after %s failed (the failure at %s is swallowed)", whatForbidden, what, f.Where(src.Pos()))
				}
			}
		}
	}
}

// reSub replaces every match of re in s by repl.
func reSub(re, repl, s string) string { return regexp.MustCompile(re).ReplaceAllString(s, repl) }

// notReassigned: the named parameters / locals of f (and of its closures) are
// never assigned after their definition (no `=`, `op=`, `++`, `--` with the
// name on the left).  Used where a rule identifies a value by its parameter
// position or by a uniquely defined local: an edit like `currentHeight++` or
// `inputs = inputs[:n]` on entry would keep the canonical form and change the
// value.
func notReassigned(o *an.Obl, f *an.Func, names ...string) {
	info := f.Info()
	want := map[string]bool{}
	for _, n := range names {
		want[n] = true
	}
	report := func(id *ast.Ident, st ast.Node) {
		if !want[id.Name] {
			return
		}
		if _, isVar := info.Uses[id].(*types.Var); !isVar {
			return // a definition (:=) is recorded in Defs, not Uses
		}
		o.FailAt(f.ID+"#reassigned-"+id.Name, f.Where(st.Pos()), "%s overwrites %s (%s); the rules of this obligation identify that value by its parameter position / single definition", f.ID, id.Name, an.Text(st))
	}
	ast.Inspect(f.Body, func(n ast.Node) bool {
		switch x := n.(type) {
		case *ast.AssignStmt:
			for _, l := range x.Lhs {
				if id, ok := ast.Unparen(l).(*ast.Ident); ok {
					report(id, x)
				}
			}
		case *ast.IncDecStmt:
			if id, ok := ast.Unparen(x.X).(*ast.Ident); ok {
				report(id, x)
			}
		}
		return true
	})
	o.Site("%s: %v are not reassigned", f.ID, names)
}

// needExactly is need with an exact count: a rule that goes on to inspect
// sites[0] must not silently ignore a second site.
func needExactly(o *an.Obl, f *an.Func, what string, sites []an.Site, n int) bool {
	if len(sites) != n {
		o.FailAt(f.ID+"#count-"+what, f.Where(f.Body.Pos()), "expected exactly %d %s in %s, found %d", n, what, f.ID, len(sites))
		return false
	}
	for _, s := range sites {
		o.Site("%s", s.String())
	}
	return true
}

// resultUsed: the value bound to the idx-th result of the call at site s is
// used somewhere in f other than in a blank assignment (`_ = x`): a computed
// signature, secret or message that is dropped on the floor satisfies every
// "the call happens" rule and changes what is sent or stored.
func resultUsed(o *an.Obl, f *an.Func, s an.Site, idx int, what string) {
	info := f.Info()
	var obj types.Object
	ast.Inspect(f.Body, func(n ast.Node) bool {
		as, ok := n.(*ast.AssignStmt)
		if !ok || len(as.Rhs) != 1 || ast.Unparen(as.Rhs[0]) != s.Node {
			return true
		}
		if idx < len(as.Lhs) {
			if id, ok := as.Lhs[idx].(*ast.Ident); ok && id.Name != "_" {
				obj = info.Defs[id]
				if obj == nil {
					obj = info.Uses[id]
				}
			}
		}
		return true
	})
	if obj == nil {
		o.FailAt(constructOf(f, s)+"#result-unbound", s.Where(), "the %s returned by %s is not bound to a variable", what, s.String())
		return
	}
	used := false
	ast.Inspect(f.Body, func(n ast.Node) bool {
		if as, ok := n.(*ast.AssignStmt); ok && len(as.Lhs) == 1 {
			if l, ok := as.Lhs[0].(*ast.Ident); ok && l.Name == "_" {
				return false // `_ = x` is not a use
			}
		}
		if id, ok := n.(*ast.Ident); ok && info.Uses[id] == obj {
			used = true
		}
		return true
	})
	o.Site("%s: %s is used", s.String(), what)
	if !used {
		o.FailAt(constructOf(f, s)+"#result-discarded", s.Where(), "the %s returned by %s is never used", what, s.String())
	}
}
