package lnwallet

import (
	"testing"

	"github.com/lightningnetwork/lnd/channeldb"
	"github.com/lightningnetwork/lnd/lnwallet/chainfee"
	"github.com/stretchr/testify/require"
)

func TestProbeFreshFee(t *testing.T) {
	aliceChannel, bobChannel, err := CreateTestChannels(
		t, channeldb.SingleFunderTweaklessBit,
	)
	require.NoError(t, err)

	newFeeRate := chainfee.SatPerKWeight(
		aliceChannel.channelState.LocalCommitment.FeePerKw,
	) * 2
	require.NoError(t, aliceChannel.UpdateFee(newFeeRate))
	require.NoError(t, bobChannel.ReceiveUpdateFee(newFeeRate))

	aliceNewCommit, err := aliceChannel.SignNextCommitment(ctxb)
	require.NoError(t, err)
	err = bobChannel.ReceiveNewCommitment(aliceNewCommit.CommitSigs)
	require.NoError(t, err)
	bobRevocation, _, _, err := bobChannel.RevokeCurrentCommitment()
	require.NoError(t, err)
	_, _, err = aliceChannel.ReceiveRevocation(bobRevocation)
	require.NoError(t, err)

	aliceChannel, err = restartChannel(aliceChannel)
	require.NoError(t, err)

	bobNewCommit, err := bobChannel.SignNextCommitment(ctxb)
	require.NoError(t, err)
	err = aliceChannel.ReceiveNewCommitment(bobNewCommit.CommitSigs)
	require.NoError(t, err)
}
