package spec

import (
	"go/ast"
	"go/token"
	"go/types"
	"strings"

	"lndlint/internal/an"
)

// fwdPkgPositions: the forwarding package keys its references and filters by
// the position of an update inside the package (FwdPkg.Adds for SourceRef,
// FwdFilter and AckFilter; FwdPkg.SettleFails for DestRef and
// SettleFailFilter).  Every position handed to them in htlcswitch must be
// that position and not the position inside a derived (filtered) slice.
func fwdPkgPositions(r *an.Run) {
	p := r.Prog
	r.Obl("fwdpkg-positions-are-package-indexes", "ROLE",
		"in htlcswitch every position passed to FwdPkg.SourceRef, FwdFilter.Contains/Set and AckFilter.Contains is uint16 of the key of a range over that package's Adds, and every position passed to FwdPkg.DestRef and SettleFailFilter.Contains is uint16 of the key of a range over that package's SettleFails; an AddRef / SettleFailRef written out as a literal names the package's Source and Height and such a position as Index; the range keys involved are never written in the loop, and the reference returned by SourceRef/DestRef is not modified afterwards; when the loop runs over a filtered copy, the position is read from a companion slice that is appended to directly next to the append to the copy (same block, no jump in between) and only with uint16 of the key of the range over the package's list, both slices starting empty and being touched by nothing but these appends, reads of elements, len/cap and range",
		"AddRefs, SettleFailRefs and the three filters are how acks, the forwarded set and garbage collection of a package are keyed; the position within a filtered slice names a different update as soon as an earlier one was skipped (replay of a partially acked package after a restart)", 8,
		func(o *an.Obl) {
			n, refLits := 0, 0
			for _, f := range p.Funcs(false, "htlcswitch") {
				if f.Lit != nil {
					continue
				}
				for _, s := range f.AllCalls(true) {
					call := s.Node.(*ast.CallExpr)
					sel, ok := ast.Unparen(call.Fun).(*ast.SelectorExpr)
					if !ok || len(call.Args) != 1 {
						continue
					}
					id := an.CalleeID(s.Fn.Info(), call)
					var base ast.Expr
					list := ""
					switch {
					case strings.HasSuffix(id, "FwdPkg.SourceRef"):
						base, list = sel.X, "Adds"
					case strings.HasSuffix(id, "FwdPkg.DestRef"):
						base, list = sel.X, "SettleFails"
					case strings.HasSuffix(id, "PkgFilter.Contains"), strings.HasSuffix(id, "PkgFilter.Set"):
						fs, ok := ast.Unparen(sel.X).(*ast.SelectorExpr)
						if !ok {
							continue
						}
						switch fs.Sel.Name {
						case "FwdFilter", "AckFilter":
							base, list = fs.X, "Adds"
						case "SettleFailFilter":
							base, list = fs.X, "SettleFails"
						default:
							continue
						}
					default:
						continue
					}
					n++
					fn := s.Fn
					want := "uint16($key(" + fn.Canon(base) + "." + list + "))"
					got := c08Canon(fn, call.Args[0])
					o.Site("%s %s.%s(%s)", s.Where(), an.Text(sel.X), sel.Sel.Name, got)
					if got != want {
						if why := companionIndex(fn, call.Args[0], want); why != "" {
							o.FailAt(fn.Root().ID+"#"+sel.Sel.Name+"-position", s.Where(), "%s.%s is given %s, expected %s (the update's position in the package): %s", an.Text(sel.X), sel.Sel.Name, got, want, why)
						}
					}
					if w := c08KeyWritten(fn, call.Args[0]); w != "" {
						o.FailAt(fn.Root().ID+"#"+sel.Sel.Name+"-key-written", s.Where(), "the position handed to %s.%s depends on a range key that is written inside the function: %s", an.Text(sel.X), sel.Sel.Name, w)
					}
					if list != "" && (sel.Sel.Name == "SourceRef" || sel.Sel.Name == "DestRef") {
						if w := c08RefModified(fn, call); w != "" {
							o.FailAt(fn.Root().ID+"#"+sel.Sel.Name+"-modified", s.Where(), "the reference returned by %s.%s is modified afterwards: %s", an.Text(sel.X), sel.Sel.Name, w)
						}
					}
				}
				// references written out as literals
				root := f
				for _, fn := range append([]*an.Func{f}, f.Lits...) {
					ast.Inspect(fn.Body, func(m ast.Node) bool {
						if _, isLit := m.(*ast.FuncLit); isLit {
							return false // visited as its own function
						}
						cl, ok := m.(*ast.CompositeLit)
						if !ok {
							return true
						}
						list := ""
						switch an.TypeID(fn.Info().TypeOf(cl)) {
						case "chanstate.AddRef", "channeldb.AddRef":
							list = "Adds"
						case "chanstate.SettleFailRef", "channeldb.SettleFailRef":
							list = "SettleFails"
						default:
							return true
						}
						refLits++
						kv := map[string]ast.Expr{}
						for _, el := range cl.Elts {
							if k, ok := el.(*ast.KeyValueExpr); ok {
								kv[an.Text(k.Key)] = k.Value
							}
						}
						where := fn.Where(cl.Pos())
						o.Site("%s %s", where, fn.Canon(cl))
						if kv["Source"] == nil || kv["Height"] == nil || kv["Index"] == nil {
							o.FailAt(root.ID+"#ref-literal-shape", where, "the reference literal %s does not name Source, Height and Index by key", an.Text(cl))
							return true
						}
						src := fn.Canon(kv["Source"])
						base := strings.TrimSuffix(src, ".Source")
						if base == src {
							o.FailAt(root.ID+"#ref-literal-source", where, "the reference literal takes its Source from %s, expected the Source of a forwarding package", src)
							return true
						}
						if h := fn.Canon(kv["Height"]); h != base+".Height" {
							o.FailAt(root.ID+"#ref-literal-height", where, "the reference literal takes its Height from %s, expected %s.Height (the package its Source names)", h, base)
						}
						want := "uint16($key(" + base + "." + list + "))"
						if got := c08Canon(fn, kv["Index"]); got != want {
							o.FailAt(root.ID+"#ref-literal-position", where, "the reference literal has Index %s, expected %s (the update's position in the package)", got, want)
						}
						if w := c08KeyWritten(fn, kv["Index"]); w != "" {
							o.FailAt(root.ID+"#ref-literal-key-written", where, "the Index of the reference literal depends on a range key that is written inside the function: %s", w)
						}
						return true
					})
				}
			}
			o.Site("%d reference literals", refLits)
			if n < 8 {
				o.FailAt("fwdpkg-positions#sites", "", "expected at least 8 position uses, found %d", n)
			}
		})
}

// c08ObjOf resolves an identifier to the object it uses or defines.
func c08ObjOf(info *types.Info, id *ast.Ident) types.Object {
	if o := info.Uses[id]; o != nil {
		return o
	}
	return info.Defs[id]
}

// c08RootIdent strips selectors, indexing, slicing, dereferences and
// parentheses: the variable an lvalue is a part of.
func c08RootIdent(e ast.Expr) *ast.Ident {
	for {
		switch x := e.(type) {
		case *ast.ParenExpr:
			e = x.X
		case *ast.SelectorExpr:
			e = x.X
		case *ast.IndexExpr:
			e = x.X
		case *ast.SliceExpr:
			e = x.X
		case *ast.StarExpr:
			e = x.X
		case *ast.Ident:
			return x
		default:
			return nil
		}
	}
}

// c08WritesOf lists the statements of the root function of f (closures included)
// that write the variable obj or a part of it after its definition: `=`,
// `op=`, `++`/`--`, a range clause assigning to it, and `&obj` bound to a
// variable (an alias through which it can be written).  partial=false limits
// the search to writes of the variable as a whole.
func c08WritesOf(f *an.Func, obj types.Object, partial bool) []string {
	root := f.Root()
	info := root.Info()
	var out []string
	hit := func(e ast.Expr) bool {
		if e == nil {
			return false
		}
		var id *ast.Ident
		if partial {
			id = c08RootIdent(e)
		} else {
			id, _ = ast.Unparen(e).(*ast.Ident)
		}
		return id != nil && info.Uses[id] == obj // a definition is in Defs
	}
	addrOf := func(e ast.Expr) bool {
		u, ok := ast.Unparen(e).(*ast.UnaryExpr)
		return ok && u.Op == token.AND && hit(u.X)
	}
	ast.Inspect(root.Body, func(n ast.Node) bool {
		switch x := n.(type) {
		case *ast.AssignStmt:
			for _, l := range x.Lhs {
				if hit(l) {
					out = append(out, root.Where(x.Pos())+" "+an.Text(x))
				}
			}
			for i, r := range x.Rhs {
				if addrOf(r) {
					if x.Tok == token.DEFINE && len(x.Lhs) == len(x.Rhs) {
						if li, ok := x.Lhs[i].(*ast.Ident); ok && c08PassThroughAlias(root, li) {
							continue // travels into a literal as `Field: &obj` would
						}
					}
					out = append(out, root.Where(x.Pos())+" "+an.Text(x)+" (address bound to a variable)")
				}
			}
		case *ast.ValueSpec:
			for i, r := range x.Values {
				if addrOf(r) {
					if len(x.Names) == len(x.Values) && c08PassThroughAlias(root, x.Names[i]) {
						continue // travels into a literal as `Field: &obj` would
					}
					out = append(out, root.Where(x.Pos())+" "+an.Text(x)+" (address bound to a variable)")
				}
			}
		case *ast.IncDecStmt:
			if hit(x.X) {
				out = append(out, root.Where(x.Pos())+" "+an.Text(x))
			}
		case *ast.RangeStmt:
			if x.Tok == token.ASSIGN && (hit(x.Key) || hit(x.Value)) {
				out = append(out, root.Where(x.Pos())+" range clause assigns it")
			}
		}
		return true
	})
	return out
}

// c08KeyWritten: the range keys the expression depends on (directly or
// through uniquely defined locals) are written nowhere in the function: the
// canonical form $key(X) names the loop, not the value after `i++`.
func c08KeyWritten(f *an.Func, e ast.Expr) string {
	info := f.Info()
	seen := map[types.Object]bool{}
	why := ""
	var visit func(e ast.Expr, depth int)
	visit = func(e ast.Expr, depth int) {
		ast.Inspect(e, func(n ast.Node) bool {
			id, ok := n.(*ast.Ident)
			if !ok {
				return true
			}
			v, ok := info.Uses[id].(*types.Var)
			if !ok || v.IsField() || seen[v] {
				return true
			}
			seen[v] = true
			if c08IsIndexLoopKey(f, v) {
				// validated: written by nothing but the loop's own post statement
				return true
			}
			if c08IsRangeKey(f, v) {
				if w := c08WritesOf(f, v, true); len(w) > 0 && why == "" {
					why = id.Name + " is written at " + w[0]
				}
				return true
			}
			if d := f.UniqueDef(id); d != nil && depth < 5 {
				visit(d, depth+1)
			}
			return true
		})
	}
	visit(e, 0)
	return why
}

// c08IsRangeKey: v is declared as the key of a range statement of the root
// function.
func c08IsRangeKey(f *an.Func, v types.Object) bool {
	root := f.Root()
	info := root.Info()
	found := false
	ast.Inspect(root.Body, func(n ast.Node) bool {
		if rs, ok := n.(*ast.RangeStmt); ok && rs.Tok == token.DEFINE {
			if k, ok := rs.Key.(*ast.Ident); ok && info.Defs[k] == v {
				found = true
			}
		}
		return !found
	})
	return found
}

// c08RefModified: when the result of the SourceRef/DestRef call is bound to a
// local, neither that local nor one of its fields is written later.
func c08RefModified(f *an.Func, call *ast.CallExpr) string {
	root := f.Root()
	info := root.Info()
	var obj types.Object
	ast.Inspect(root.Body, func(n ast.Node) bool {
		switch x := n.(type) {
		case *ast.AssignStmt:
			if len(x.Lhs) == 1 && len(x.Rhs) == 1 && ast.Unparen(x.Rhs[0]) == call {
				if id, ok := x.Lhs[0].(*ast.Ident); ok {
					obj = c08ObjOf(info, id)
				}
			}
		case *ast.ValueSpec:
			if len(x.Names) == 1 && len(x.Values) == 1 && ast.Unparen(x.Values[0]) == call {
				obj = c08ObjOf(info, x.Names[0])
			}
		}
		return obj == nil
	})
	if obj == nil {
		return ""
	}
	var ws []string
	for _, w := range c08WritesOf(f, obj, true) {
		ws = append(ws, w)
	}
	// the binding itself, when it is a plain assignment to a declared variable
	n := 0
	for _, w := range ws {
		if strings.Contains(w, an.Text(call)) && !strings.Contains(w, "address bound") {
			n++
			continue
		}
		return w
	}
	if n > 1 {
		return "bound more than once"
	}
	return ""
}

// companionIndex accepts `S[k]` (possibly through one unique local
// definition) where k is the key of a range over a local slice T, and S and T
// are filled only by appends that sit pairwise next to each other in the same
// block, S receiving exactly `want`, and are otherwise only read (element
// reads, len, cap, range).  It returns "" when the shape holds and the reason
// when not.
func companionIndex(f *an.Func, arg ast.Expr, want string) string {
	arg = ast.Unparen(arg)
	if id, ok := arg.(*ast.Ident); ok {
		if d := f.UniqueDef(id); d != nil {
			arg = ast.Unparen(d)
		}
	}
	ix, ok := arg.(*ast.IndexExpr)
	if !ok {
		return "not the package position and not read from a companion slice"
	}
	sID, ok := ast.Unparen(ix.X).(*ast.Ident)
	if !ok {
		return "indexed value is not a local slice"
	}
	kc := f.Canon(ix.Index)
	if !strings.HasPrefix(kc, "$key(") {
		return "companion slice is not indexed by a range key"
	}
	root := f.Root()
	info := root.Info()
	sObj := info.Uses[sID]
	// the ranged slice T
	var tObj types.Object
	ast.Inspect(root.Body, func(n ast.Node) bool {
		if rs, ok := n.(*ast.RangeStmt); ok {
			if k, ok := rs.Key.(*ast.Ident); ok && info.Defs[k] != nil {
				if ki, ok := ast.Unparen(ix.Index).(*ast.Ident); ok && info.Uses[ki] == info.Defs[k] {
					if t, ok := ast.Unparen(rs.X).(*ast.Ident); ok {
						tObj = info.Uses[t]
					}
				}
			}
		}
		return true
	})
	if tObj == nil {
		return "the range key does not run over a local slice"
	}
	if sObj == nil || sObj == tObj {
		return "the companion slice is not a local of its own"
	}
	// every occurrence of S and T, classified by its context
	sApp := map[*ast.BlockStmt][]int{}
	tApp := map[*ast.BlockStmt][]int{}
	defined := map[types.Object]int{}
	why := ""
	fail := func(n ast.Node, msg string) {
		if why == "" {
			why = msg + " (" + root.Where(n.Pos()) + ")"
		}
	}
	var stack []ast.Node
	parent := func(up int) ast.Node {
		if len(stack)-1-up < 0 {
			return nil
		}
		return stack[len(stack)-1-up]
	}
	isBuiltin := func(c *ast.CallExpr, names ...string) bool {
		id := an.CalleeID(info, c)
		for _, n := range names {
			if id == "builtin."+n {
				return true
			}
		}
		return false
	}
	// allowedAppend: `obj = append(obj, v)` as a statement of a block
	appendStmt := func(as *ast.AssignStmt, obj types.Object) (*ast.CallExpr, bool) {
		if as.Tok != token.ASSIGN || len(as.Lhs) != 1 || len(as.Rhs) != 1 {
			return nil, false
		}
		l, ok := ast.Unparen(as.Lhs[0]).(*ast.Ident)
		if !ok || c08ObjOf(info, l) != obj {
			return nil, false
		}
		c, ok := ast.Unparen(as.Rhs[0]).(*ast.CallExpr)
		if !ok || !isBuiltin(c, "append") || len(c.Args) != 2 || c.Ellipsis.IsValid() {
			return nil, false
		}
		a0, ok := ast.Unparen(c.Args[0]).(*ast.Ident)
		if !ok || c08ObjOf(info, a0) != obj {
			return nil, false
		}
		return c, true
	}
	ast.Inspect(root.Body, func(n ast.Node) bool {
		if n == nil {
			stack = stack[:len(stack)-1]
			return true
		}
		stack = append(stack, n)
		id, ok := n.(*ast.Ident)
		if !ok {
			return true
		}
		obj := c08ObjOf(info, id)
		if obj == nil || (obj != sObj && obj != tObj) {
			return true
		}
		name := id.Name
		// skip parentheses
		up := 1
		for {
			if _, isParen := parent(up).(*ast.ParenExpr); !isParen {
				break
			}
			up++
		}
		child := parent(up - 1)
		switch pn := parent(up).(type) {
		case *ast.AssignStmt:
			onLhs := false
			for _, l := range pn.Lhs {
				if l == child {
					onLhs = true
				}
			}
			if !onLhs {
				fail(pn, "the slice "+name+" is copied to another variable")
				return true
			}
			if pn.Tok == token.DEFINE && len(pn.Lhs) == 1 && len(pn.Rhs) == 1 {
				defined[obj]++
				if c, ok := ast.Unparen(pn.Rhs[0]).(*ast.CallExpr); ok && isBuiltin(c, "make") && len(c.Args) >= 2 && root.Canon(c.Args[1]) == "0" {
					return true
				}
				fail(pn, "the slice "+name+" does not start as an empty make(…, 0, …)")
				return true
			}
			c, ok := appendStmt(pn, obj)
			if !ok {
				fail(pn, "the slice "+name+" is assigned other than by `"+name+" = append("+name+", x)`")
				return true
			}
			blk, _ := parent(up + 1).(*ast.BlockStmt)
			pos := -1
			if blk != nil {
				for i, st := range blk.List {
					if st == ast.Stmt(pn) {
						pos = i
					}
				}
			}
			if pos < 0 {
				fail(pn, "the append to "+name+" is not a statement of a block")
				return true
			}
			if obj == sObj {
				if got := root.Canon(c.Args[1]); got != want {
					fail(pn, "the companion slice receives "+got+", expected "+want)
				}
				if w := c08KeyWritten(root, c.Args[1]); w != "" {
					fail(pn, "the companion slice receives a range key that is written in the loop: "+w)
				}
				sApp[blk] = append(sApp[blk], pos)
			} else {
				tApp[blk] = append(tApp[blk], pos)
			}
		case *ast.ValueSpec:
			fail(pn, "the slice "+name+" is declared other than by := make(…, 0, …)")
		case *ast.CallExpr:
			if isBuiltin(pn, "len", "cap") {
				return true
			}
			if isBuiltin(pn, "append") && len(pn.Args) > 0 && pn.Args[0] == child {
				if as, ok := parent(up + 1).(*ast.AssignStmt); ok {
					if _, ok := appendStmt(as, obj); ok {
						return true
					}
				}
			}
			fail(pn, "the slice "+name+" is handed to "+an.Text(pn.Fun))
		case *ast.RangeStmt:
			if pn.X != child {
				fail(pn, "the slice "+name+" is assigned by a range clause")
			}
		case *ast.IndexExpr:
			if pn.X != child {
				fail(pn, "the slice "+name+" is used as an index")
				return true
			}
			// an element read: not the target of an assignment, ++/--, &
			up2 := up + 1
			for {
				if _, isParen := parent(up2).(*ast.ParenExpr); !isParen {
					break
				}
				up2++
			}
			elem := parent(up2 - 1)
			switch gp := parent(up2).(type) {
			case *ast.AssignStmt:
				for _, l := range gp.Lhs {
					if l == elem {
						fail(gp, "an element of "+name+" is overwritten")
					}
				}
			case *ast.IncDecStmt:
				fail(gp, "an element of "+name+" is overwritten")
			case *ast.UnaryExpr:
				if gp.Op == token.AND {
					fail(gp, "the address of an element of "+name+" is taken")
				}
			case *ast.RangeStmt:
				if gp.Key == elem || gp.Value == elem {
					fail(gp, "an element of "+name+" is assigned by a range clause")
				}
			}
		default:
			fail(n, "the slice "+name+" is used other than by append, element read, len, cap or range: "+an.Text(parent(up)))
		}
		return true
	})
	if why != "" {
		return why
	}
	if defined[sObj] != 1 || defined[tObj] != 1 {
		return "a companion slice is not defined exactly once by make(…, 0, …)"
	}
	if len(sApp) == 0 {
		return "the companion slice is never appended to"
	}
	for b, c := range sApp {
		if len(tApp[b]) != len(c) {
			return "the companion slice and the ranged slice are not appended to pairwise in the same block"
		}
	}
	for b, c := range tApp {
		if len(sApp[b]) != len(c) {
			return "the companion slice and the ranged slice are not appended to pairwise in the same block"
		}
	}
	// nothing between the two appends of a pair can leave the block
	for b, sp := range sApp {
		tp := tApp[b]
		for i := range sp {
			lo, hi := sp[i], tp[i]
			if lo > hi {
				lo, hi = hi, lo
			}
			for _, st := range b.List[lo+1 : hi] {
				jump := ""
				ast.Inspect(st, func(m ast.Node) bool {
					switch x := m.(type) {
					case *ast.FuncLit:
						return false
					case *ast.BranchStmt:
						jump = an.Text(x)
					case *ast.ReturnStmt:
						jump = "return"
					case *ast.CallExpr:
						if an.NoReturnCall(info, x) {
							jump = an.Text(x)
						}
					}
					return jump == ""
				})
				if jump != "" {
					return "between the append to the ranged slice and the append to the companion slice the block can be left (" + jump + " at " + root.Where(st.Pos()) + "): the two slices get out of step"
				}
			}
		}
	}
	return ""
}
