package chancloser

import (
	"bytes"
	"testing"

	"github.com/btcsuite/btcd/btcutil/v2"
	"github.com/btcsuite/btcd/txscript/v2"
	"github.com/btcsuite/btcd/wire/v2"
	"github.com/lightningnetwork/lnd/channeldb"
	"github.com/lightningnetwork/lnd/lnwallet"
	"github.com/lightningnetwork/lnd/lnwallet/chainfee"
	"github.com/lightningnetwork/lnd/lnwire"
	"github.com/stretchr/testify/require"
)

func probe4Script(b byte) []byte {
	return append(
		[]byte{txscript.OP_0, txscript.OP_DATA_20},
		bytes.Repeat([]byte{b}, 20)...,
	)
}

// probe4SetOpenerBalance moves funds between the two sides, on every
// commitment both nodes hold, so that Alice (the opener) is left with
// openerBal of raw commitment balance.
func probe4SetOpenerBalance(alice, bob *lnwallet.LightningChannel,
	openerBal lnwire.MilliSatoshi) {

	aliceState, bobState := alice.State(), bob.State()
	delta := aliceState.LocalCommitment.LocalBalance - openerBal

	aliceState.LocalCommitment.LocalBalance -= delta
	aliceState.LocalCommitment.RemoteBalance += delta
	aliceState.RemoteCommitment.LocalBalance -= delta
	aliceState.RemoteCommitment.RemoteBalance += delta
	bobState.LocalCommitment.RemoteBalance -= delta
	bobState.LocalCommitment.LocalBalance += delta
	bobState.RemoteCommitment.RemoteBalance -= delta
	bobState.RemoteCommitment.LocalBalance += delta
}

// probe4AssertFeeBaseline runs the legacy closer's initFeeBaseline for the
// given channel and checks that the ideal fee was computed for the outputs the
// wallet really puts into the closing transaction at that fee.
func probe4AssertFeeBaseline(t *testing.T, name string,
	ch *lnwallet.LightningChannel, localScript, remoteScript []byte) {

	feeRate := chainfee.SatPerKVByte(10_000).FeePerKWeight()

	closer := &ChanCloser{
		cfg: ChanCloseCfg{
			Channel:      ch,
			FeeEstimator: &SimpleCoopFeeEstimator{},
		},
		idealFeeRate:         feeRate,
		localDeliveryScript:  localScript,
		remoteDeliveryScript: remoteScript,
	}
	closer.initFeeBaseline()

	_, closeTx, _, err := ch.CreateCloseProposal(
		closer.idealFeeSat, localScript, remoteScript,
	)
	require.NoError(t, err)

	var localOut, remoteOut *wire.TxOut
	for _, txOut := range closeTx.TxOut {
		switch {
		case bytes.Equal(txOut.PkScript, localScript):
			localOut = txOut
		case bytes.Equal(txOut.PkScript, remoteScript):
			remoteOut = txOut
		}
	}

	localDust, _ := ch.LocalBalanceDust()
	remoteDust, _ := ch.RemoteBalanceDust()
	t.Logf("%s: LocalBalanceDust=%v RemoteBalanceDust=%v, close tx has "+
		"local output=%v remote output=%v", name, localDust,
		remoteDust, localOut != nil, remoteOut != nil)

	wantFee := calcCoopCloseFee(0, localOut, remoteOut, feeRate)
	require.Equal(
		t, wantFee, closer.idealFeeSat, "%s: ideal fee was not "+
			"computed for the outputs of the close tx", name,
	)
	require.Equal(t, localOut == nil, localDust, "%s: LocalBalanceDust",
		name)
	require.Equal(t, remoteOut == nil, remoteDust, "%s: RemoteBalanceDust",
		name)
}

// TestProbeDustPredicateAtTheBoundary: a balance exactly equal to the dust
// limit is kept by CreateCooperativeCloseTx (>= dust) but reported as dust by
// LocalBalanceDust/RemoteBalanceDust (<= dust), so the legacy closer computes
// its ideal and max fee for a transaction with one output less than the one
// it then signs.
func TestProbeDustPredicateAtTheBoundary(t *testing.T) {
	t.Parallel()

	aliceChan, bobChan, err := lnwallet.CreateTestChannels(
		t, channeldb.SingleFunderTweaklessBit,
	)
	require.NoError(t, err)

	// Bob is not the opener, so his output is exactly his balance. Make
	// that balance equal to his dust limit.
	bobDust := bobChan.State().LocalChanCfg.DustLimit
	total := aliceChan.State().LocalCommitment.LocalBalance +
		aliceChan.State().LocalCommitment.RemoteBalance
	probe4SetOpenerBalance(
		aliceChan, bobChan, total-lnwire.NewMSatFromSatoshis(bobDust),
	)
	require.Equal(
		t, bobDust,
		bobChan.State().LocalCommitment.LocalBalance.ToSatoshis(),
	)

	aliceScript, bobScript := probe4Script(0xa1), probe4Script(0xb0)
	probe4AssertFeeBaseline(t, "opener", aliceChan, aliceScript, bobScript)
	probe4AssertFeeBaseline(t, "acceptor", bobChan, bobScript, aliceScript)
}

// TestProbeDustPredicateCreditsTheCommitFee: the opener's raw balance is below
// its dust limit, but the commitment fee it gets back on a cooperative close
// lifts its output far above dust. LocalBalanceDust/RemoteBalanceDust leave
// the commitment fee out and call the output dust.
func TestProbeDustPredicateCreditsTheCommitFee(t *testing.T) {
	t.Parallel()

	aliceChan, bobChan, err := lnwallet.CreateTestChannels(
		t, channeldb.SingleFunderTweaklessBit,
	)
	require.NoError(t, err)

	aliceDust := aliceChan.State().LocalChanCfg.DustLimit
	openerBal := btcutil.Amount(100)
	require.Less(t, openerBal, aliceDust)
	require.Greater(t, aliceChan.CommitFee(), 10*aliceDust)
	probe4SetOpenerBalance(
		aliceChan, bobChan, lnwire.NewMSatFromSatoshis(openerBal),
	)

	aliceScript, bobScript := probe4Script(0xa1), probe4Script(0xb0)
	probe4AssertFeeBaseline(t, "opener", aliceChan, aliceScript, bobScript)
	probe4AssertFeeBaseline(t, "acceptor", bobChan, bobScript, aliceScript)
}
