//go:build c14_unrepaired

package channeldb

// This file documents a HeightHintCache behaviour that was reported as a
// suspected defect against property C14 ("height hints that are persisted
// never exceed the height of the event they are for") and was deliberately NOT
// repaired. It is behind a build tag because the test FAILS on the current
// code:
//
//	go test -tags c14_unrepaired -run TestC14Unrepaired ./channeldb/
//
// What happens: confHintKey indexes a txid-based confirmation request by its
// txid alone, while the TxNotifier treats (txid, script) as the identity of a
// request. Two requests for the same txid with different scripts therefore
// share one persisted hint.
//
// Why it is not repaired here:
//
//   - It only does harm when one of the two requests confirms and the other
//     does not. For the same txid that needs a request whose script is not an
//     output of the transaction, which ConfRequest rules out ("PkScript is the
//     public key script of an outpoint created in this transaction"). Two
//     requests for two real outputs of one transaction always confirm in the
//     same block and want the same hint. (The wrong-script request is
//     reachable for an RPC caller of chainrpc.RegisterConfirmationsNtfn, which
//     accepts any txid/script pair, so the exposure is "a buggy or hostile
//     holder of a chain-notifier macaroon can make another subsystem's request
//     for the same txid miss its confirmation after a restart".)
//   - The repair is to key the hint by txid||script. That changes the on-disk
//     key format of the confirm-hints bucket: every hint written by earlier
//     versions stops being found (safe, it only costs longer rescans once) and
//     stays behind as garbage unless a migration rewrites or drops the bucket.
//     That is a persistence-format change for a maintainer to schedule, not a
//     local fix.

import (
	"testing"

	"github.com/btcsuite/btcd/btcutil/v2"
	"github.com/btcsuite/btcd/wire/v2"
	"github.com/lightningnetwork/lnd/chainntnfs"
	"github.com/stretchr/testify/require"
)

// TestC14UnrepairedConfHintKeyCollision: request A (txid, scriptA) confirms at
// height 11. Request B (same txid, scriptB, not an output of the transaction)
// can never confirm, so on every new block the notifier persists the tip
// height for it, under the key it shares with A. After three more blocks the
// hint stored for A is 14: a restarted node would rescan from 14 and never see
// the confirmation at 11.
func TestC14UnrepairedConfHintKeyCollision(t *testing.T) {
	hintCache := initHintCache(t)

	scriptA := []byte{0x00, 0x14, 1, 2, 3, 4, 5, 6, 7, 8, 9, 10, 11, 12,
		13, 14, 15, 16, 17, 18, 19, 20}
	scriptB := []byte{0x00, 0x14, 20, 19, 18, 17, 16, 15, 14, 13, 12, 11,
		10, 9, 8, 7, 6, 5, 4, 3, 2, 1}

	tx := wire.MsgTx{Version: 2}
	tx.AddTxOut(&wire.TxOut{PkScript: scriptA})
	txHash := tx.TxHash()

	n := chainntnfs.NewTxNotifier(
		10, chainntnfs.ReorgSafetyLimit, hintCache, hintCache,
	)

	regA, err := n.RegisterConf(&txHash, scriptA, 1, 1)
	require.NoError(t, err)
	require.NoError(t, n.UpdateConfDetails(
		regA.HistoricalDispatch.ConfRequest, nil,
	))
	regB, err := n.RegisterConf(&txHash, scriptB, 1, 1)
	require.NoError(t, err)
	require.NoError(t, n.UpdateConfDetails(
		regB.HistoricalDispatch.ConfRequest, nil,
	))

	block := btcutil.NewBlock(&wire.MsgBlock{
		Transactions: []*wire.MsgTx{&tx},
	})
	require.NoError(t, n.ConnectTip(block, 11))
	require.NoError(t, n.NotifyHeight(11))
	<-regA.Event.Confirmed

	for h := uint32(12); h < 15; h++ {
		require.NoError(t, n.ConnectTip(
			btcutil.NewBlock(&wire.MsgBlock{}), h,
		))
	}

	reqA, err := chainntnfs.NewConfRequest(&txHash, scriptA)
	require.NoError(t, err)
	hint, err := hintCache.QueryConfirmHint(reqA)
	require.NoError(t, err)
	require.LessOrEqual(t, hint, uint32(11), "hint persisted for the "+
		"request that confirmed at height 11")
}
