package peer

import (
	"bytes"
	"fmt"
	"testing"

	"github.com/btcsuite/btcd/btcutil/v2"
	"github.com/btcsuite/btcd/chaincfg/v2"
	"github.com/btcsuite/btcd/wire/v2"
	"github.com/lightningnetwork/lnd/channeldb"
	"github.com/lightningnetwork/lnd/lntypes"
	"github.com/lightningnetwork/lnd/lnwallet"
	"github.com/lightningnetwork/lnd/lnwallet/chainfee"
	"github.com/lightningnetwork/lnd/lnwallet/chancloser"
	"github.com/lightningnetwork/lnd/lnwire"
	"github.com/lightningnetwork/lnd/protofsm"
	"github.com/stretchr/testify/mock"
	"github.com/stretchr/testify/require"
)

// probeParty is one side of an RBF co-op close: the real closing
// negotiation state of the rbf state machine, driven by hand, on top of a
// real lnwallet channel that does all the signing.
type probeParty struct {
	t *testing.T

	env   *chancloser.Environment
	state *chancloser.ClosingNegotiation
}

// probeP2WPKH returns a well formed P2WPKH delivery script.
func probeP2WPKH(fill byte) []byte {
	return append([]byte{0x00, 0x14}, bytes.Repeat([]byte{fill}, 20)...)
}

// probeP2TR returns a well formed P2TR delivery script.
func probeP2TR(fill byte) []byte {
	return append([]byte{0x51, 0x20}, bytes.Repeat([]byte{fill}, 32)...)
}

// newProbeParty creates the negotiation state a party is in right after the
// channel got flushed, exactly as ChannelFlushing creates it.
func newProbeParty(t *testing.T, channel *lnwallet.LightningChannel,
	localScript, remoteScript []byte) *probeParty {

	chanObserver := &mockChanObserver{}
	chanObserver.On(
		"MarkCoopBroadcasted", mock.Anything, mock.Anything,
	).Return(nil)

	chanState := channel.State()
	env := &chancloser.Environment{
		ChainParams: chaincfg.RegressionNetParams,
		ChanPeer:    *chanState.IdentityPub,
		ChanPoint:   channel.ChannelPoint(),
		ChanID: lnwire.NewChanIDFromOutPoint(
			channel.ChannelPoint(),
		),
		Scid:           channel.ShortChanID(),
		ChanType:       channel.ChanType(),
		BlockHeight:    1000,
		DefaultFeeRate: chainfee.SatPerVByte(10),
		FeeEstimator:   &chancloser.SimpleCoopFeeEstimator{},
		ChanObserver:   chanObserver,
		CloseSigner:    channel,
	}

	// The balances are the ones the peer hands to the state machine once
	// the channel is flushed.
	terms := &chancloser.CloseChannelTerms{
		ShutdownScripts: chancloser.ShutdownScripts{
			LocalDeliveryScript:  localScript,
			RemoteDeliveryScript: remoteScript,
		},
		ShutdownBalances: coopCloseBalances(
			channel.ChanType(), channel.IsInitiator(),
			channel.StateSnapshot(),
		),
	}

	return &probeParty{
		t:   t,
		env: env,
		state: &chancloser.ClosingNegotiation{
			PeerState: lntypes.Dual[chancloser.AsymmetricPeerState]{
				Local: &chancloser.LocalCloseStart{
					CloseChannelTerms: terms,
				},
				Remote: &chancloser.RemoteCloseStart{
					CloseChannelTerms: terms,
				},
			},
			CloseChannelTerms: terms,
		},
	}
}

// process feeds an event into the negotiation state (and any internal events
// it emits in turn) and returns the messages to send and the transactions to
// broadcast that came out of it.
func (p *probeParty) process(event chancloser.ProtocolEvent) (
	[]lnwire.Message, []*wire.MsgTx, error) {

	var (
		msgs []lnwire.Message
		txns []*wire.MsgTx
	)

	queue := []chancloser.ProtocolEvent{event}
	for len(queue) > 0 {
		next := queue[0]
		queue = queue[1:]

		transition, err := p.state.ProcessEvent(next, p.env)
		if err != nil {
			return nil, nil, err
		}

		newState, ok := transition.NextState.(*chancloser.ClosingNegotiation)
		require.True(p.t, ok, "unexpected state %T",
			transition.NextState)
		p.state = newState

		transition.NewEvents.WhenSome(func(e chancloser.RbfEvent) {
			queue = append(queue, e.InternalEvent...)

			for _, ext := range e.ExternalEvents {
				switch ev := ext.(type) {
				case *protofsm.SendMsgEvent[chancloser.ProtocolEvent]: //nolint:ll
					msgs = append(msgs, ev.Msgs...)

				case *protofsm.BroadcastTxn:
					txns = append(txns, ev.Tx)
				}
			}
		})
	}

	return msgs, txns, nil
}

// probeSetBalances rewrites the (HTLC free) commitment balances of both
// channel ends so that the non-opener owns exactly bobSat.
func probeSetBalances(alice, bob *lnwallet.LightningChannel,
	bobSat btcutil.Amount) {

	aliceState, bobState := alice.State(), bob.State()

	total := aliceState.LocalCommitment.LocalBalance +
		aliceState.LocalCommitment.RemoteBalance
	bobBal := lnwire.NewMSatFromSatoshis(bobSat)
	aliceBal := total - bobBal

	aliceState.LocalCommitment.LocalBalance = aliceBal
	aliceState.LocalCommitment.RemoteBalance = bobBal
	aliceState.RemoteCommitment.LocalBalance = aliceBal
	aliceState.RemoteCommitment.RemoteBalance = bobBal

	bobState.LocalCommitment.LocalBalance = bobBal
	bobState.LocalCommitment.RemoteBalance = aliceBal
	bobState.RemoteCommitment.LocalBalance = bobBal
	bobState.RemoteCommitment.RemoteBalance = aliceBal
}

// witnessV2Script23 is a segwit v2 program of 21 bytes: a valid delivery
// script (ValidateUpfrontShutdown accepts any v1-v16 witness program) whose
// serialized size, 23 bytes, is the size of a P2SH script.
func witnessV2Script23(fill byte) []byte {
	return append([]byte{0x52, 0x15}, bytes.Repeat([]byte{fill}, 21)...)
}

// TestProbeRbfCloserLabelVsBuilder: the closer labels its signature
// closee_output_only ("my own output is gone") by comparing its balance after
// fees with DustLimitForSize(len(script)), but the transaction it signs keeps
// its output as long as the balance is >= LocalChanCfg.DustLimit. With the
// default dust limit of 354 sat the two disagree for delivery scripts whose
// size-derived dust limit is larger than 354: DustLimitForSize prices any
// 23 byte script as P2SH (540 sat) and any 25 byte script as P2PKH (546 sat),
// which also covers perfectly valid future-segwit programs of 21/23 bytes. The
// closee then builds the transaction without the closer's output, and the
// closer's signature doesn't verify.
func TestProbeRbfCloserLabelVsBuilder(t *testing.T) {
	aliceChan, bobChan, err := lnwallet.CreateTestChannels(
		t, channeldb.SingleFunderTweaklessBit,
	)
	require.NoError(t, err)

	// Production dust limits.
	const dust = btcutil.Amount(354)
	aliceChan.State().LocalChanCfg.DustLimit = dust
	aliceChan.State().RemoteChanCfg.DustLimit = dust
	bobChan.State().LocalChanCfg.DustLimit = dust
	bobChan.State().RemoteChanCfg.DustLimit = dust

	aliceScript := witnessV2Script23(0xa1)
	require.True(t, lnwallet.ValidateUpfrontShutdown(
		aliceScript, &chaincfg.RegressionNetParams,
	))
	bobScript := probeP2WPKH(0xb0)

	// Alice (opener, closer) will be left with 450 sat after paying the
	// fee: above the channel dust limit, below DustLimitForSize(23)=540.
	alice0 := newProbeParty(t, aliceChan, aliceScript, bobScript)
	_ = alice0
	feeRate := chainfee.SatPerVByte(60)
	localOut, remoteOut := alice0.state.DeriveCloseTxOuts()
	fee := alice0.env.FeeEstimator.EstimateFee(
		alice0.env.ChanType, localOut, remoteOut,
		feeRate.FeePerKWeight(),
	)
	aliceCommit := aliceChan.State().LocalCommitment
	total := (aliceCommit.LocalBalance + aliceCommit.RemoteBalance).
		ToSatoshis()
	aliceRaw := fee + 450 - aliceCommit.CommitFee
	require.Greater(t, aliceRaw, btcutil.Amount(0))
	probeSetBalances(aliceChan, bobChan, total-aliceRaw)

	alice := newProbeParty(t, aliceChan, aliceScript, bobScript)
	bob := newProbeParty(t, bobChan, bobScript, aliceScript)
	t.Logf("alice balance=%v fee=%v", alice.state.LocalBalance, fee)

	msgs, _, err := alice.process(&chancloser.SendOfferEvent{
		TargetFeeRate: feeRate,
	})
	require.NoError(t, err)
	closingComplete := msgs[0].(*lnwire.ClosingComplete)
	require.Equal(t, fee, closingComplete.FeeSatoshis)
	t.Logf("closer_and_closee=%v closee_only=%v closer_only=%v",
		closingComplete.ClosingSigs.CloserAndClosee.IsSome(),
		closingComplete.ClosingSigs.NoCloserClosee.IsSome(),
		closingComplete.ClosingSigs.CloserNoClosee.IsSome())

	_, _, err = bob.process(&chancloser.OfferReceivedEvent{
		SigMsg: *closingComplete,
	})
	require.NoError(t, err, "honest closee can't counter sign")
}

// TestProbeRbfLabelSaysCloseeButTxOmitsIt: closee balance between the script
// dust limit (294 for P2WPKH) and the channel dust limit (354): the closer
// sends closer_and_closee (it judges by script size), but both lnd nodes build
// a transaction without the closee output (they judge by the channel's dust
// limit). Two lnd nodes agree with each other, but the message claims a
// transaction shape that isn't the one signed.
func TestProbeRbfLabelSaysCloseeButTxOmitsIt(t *testing.T) {
	aliceChan, bobChan, err := lnwallet.CreateTestChannels(
		t, channeldb.SingleFunderTweaklessBit,
	)
	require.NoError(t, err)

	const dust = btcutil.Amount(354)
	aliceChan.State().LocalChanCfg.DustLimit = dust
	aliceChan.State().RemoteChanCfg.DustLimit = dust
	bobChan.State().LocalChanCfg.DustLimit = dust
	bobChan.State().RemoteChanCfg.DustLimit = dust

	probeSetBalances(aliceChan, bobChan, 320)

	aliceScript := probeP2TR(0xa1)
	bobScript := probeP2WPKH(0xb0)
	alice := newProbeParty(t, aliceChan, aliceScript, bobScript)
	bob := newProbeParty(t, bobChan, bobScript, aliceScript)

	msgs, _, err := alice.process(&chancloser.SendOfferEvent{
		TargetFeeRate: chainfee.SatPerVByte(10),
	})
	require.NoError(t, err)
	closingComplete := msgs[0].(*lnwire.ClosingComplete)

	_, txns, err := bob.process(&chancloser.OfferReceivedEvent{
		SigMsg: *closingComplete,
	})
	require.NoError(t, err)

	hasCloseeOut := false
	for _, txOut := range txns[0].TxOut {
		if bytes.Equal(txOut.PkScript, bobScript) {
			hasCloseeOut = true
		}
	}
	require.Equal(
		t, closingComplete.ClosingSigs.CloserAndClosee.IsSome(), hasCloseeOut,
		"closing_complete carries closer_and_closee=%v but the "+
			"signed tx has closee output=%v",
		closingComplete.ClosingSigs.CloserAndClosee.IsSome(), hasCloseeOut,
	)
}

// probeScripts are delivery scripts ValidateUpfrontShutdown accepts, one per
// dust limit DustLimitForSize knows about (294, 330, 330, 540, 546, 354).
func probeScripts(fill byte) map[string][]byte {
	rep := func(n int) []byte {
		return bytes.Repeat([]byte{fill}, n)
	}

	return map[string][]byte{
		"p2wpkh": probeP2WPKH(fill),
		"p2wsh":  append([]byte{0x00, 0x20}, rep(32)...),
		"p2tr":   probeP2TR(fill),
		"wv2-23": witnessV2Script23(fill),
		"wv3-25": append([]byte{0x53, 0x17}, rep(23)...),
		"wv2-42": append([]byte{0x52, 0x28}, rep(40)...),
	}
}

// TestProbeRbfLabelTxSweep runs a full closing_complete/closing_sig round for
// small closer and closee balances around every dust limit in play (script
// size limits 294..546, channel dust limits 354 and 546) and asserts that the
// round completes on both ends, that both ends broadcast the same
// transaction, and that the transaction carries exactly the outputs the
// closing_complete label promises.
func TestProbeRbfLabelTxSweep(t *testing.T) {
	type dustCfg struct{ alice, bob btcutil.Amount }
	dustCfgs := []dustCfg{{354, 354}, {354, 546}, {573, 354}}

	smallBalances := []btcutil.Amount{
		250, 293, 294, 320, 329, 330, 353, 354, 400, 539, 540, 545,
		546, 572, 573, 600,
	}

	hasOut := func(tx *wire.MsgTx, script []byte) bool {
		for _, txOut := range tx.TxOut {
			if bytes.Equal(txOut.PkScript, script) {
				return true
			}
		}

		return false
	}

	// smallIsCloser: the small balance belongs to alice (the opener), who
	// sends closing_complete and pays the fee out of it. Otherwise the
	// small balance belongs to bob, the closee.
	run := func(t *testing.T, cfg dustCfg, name string, small btcutil.Amount,
		smallIsCloser bool) {

		aliceChan, bobChan, err := lnwallet.CreateTestChannels(
			t, channeldb.SingleFunderTweaklessBit,
		)
		require.NoError(t, err)

		aliceChan.State().LocalChanCfg.DustLimit = cfg.alice
		aliceChan.State().RemoteChanCfg.DustLimit = cfg.bob
		bobChan.State().LocalChanCfg.DustLimit = cfg.bob
		bobChan.State().RemoteChanCfg.DustLimit = cfg.alice

		smallScript := probeScripts(0xa1)[name]
		require.True(t, lnwallet.ValidateUpfrontShutdown(
			smallScript, &chaincfg.RegressionNetParams,
		))
		bigScript := probeP2TR(0xb0)

		// The commit fee of the test channel is credited to alice, so
		// the closing fee needs to exceed it for her to end up with a
		// small balance.
		feeRate := chainfee.SatPerVByte(60)

		aliceCommit := aliceChan.State().LocalCommitment
		total := (aliceCommit.LocalBalance + aliceCommit.RemoteBalance).
			ToSatoshis()

		var aliceScript, bobScript []byte
		if smallIsCloser {
			aliceScript, bobScript = smallScript, bigScript

			// Work out the fee alice will pay, so that she's left
			// with exactly the small balance afterwards.
			probeSetBalances(aliceChan, bobChan, total-5000)
			tmp := newProbeParty(
				t, aliceChan, aliceScript, bobScript,
			)
			lOut, rOut := tmp.state.DeriveCloseTxOuts()
			fee := tmp.env.FeeEstimator.EstimateFee(
				tmp.env.ChanType, lOut, rOut,
				feeRate.FeePerKWeight(),
			)
			aliceRaw := fee + small - aliceCommit.CommitFee
			require.Greater(t, aliceRaw, btcutil.Amount(0))
			probeSetBalances(aliceChan, bobChan, total-aliceRaw)
		} else {
			aliceScript, bobScript = bigScript, smallScript
			probeSetBalances(aliceChan, bobChan, small)
		}

		alice := newProbeParty(t, aliceChan, aliceScript, bobScript)
		bob := newProbeParty(t, bobChan, bobScript, aliceScript)

		msgs, _, err := alice.process(&chancloser.SendOfferEvent{
			TargetFeeRate: feeRate,
		})
		require.NoError(t, err)
		require.Len(t, msgs, 1)
		cc := msgs[0].(*lnwire.ClosingComplete)

		closerAfterFee := alice.state.LocalBalance.ToSatoshis() -
			cc.FeeSatoshis
		closeeBal := alice.state.RemoteBalance.ToSatoshis()

		bobMsgs, bobTxns, err := bob.process(
			&chancloser.OfferReceivedEvent{SigMsg: *cc},
		)
		require.NoError(t, err, "closee can't counter sign: "+
			"closer_after_fee=%v closee=%v", closerAfterFee,
			closeeBal)
		require.Len(t, bobMsgs, 1)
		require.Len(t, bobTxns, 1)

		_, aliceTxns, err := alice.process(
			&chancloser.LocalSigReceived{
				SigMsg: *bobMsgs[0].(*lnwire.ClosingSig),
			},
		)
		require.NoError(t, err, "closer can't complete: "+
			"closer_after_fee=%v closee=%v", closerAfterFee,
			closeeBal)
		require.Len(t, aliceTxns, 1)
		require.Equal(t, bobTxns[0].TxHash(), aliceTxns[0].TxHash())

		tx := aliceTxns[0]
		sigs := cc.ClosingSigs
		nSet := 0
		for _, set := range []bool{
			sigs.CloserAndClosee.IsSome(),
			sigs.CloserNoClosee.IsSome(),
			sigs.NoCloserClosee.IsSome(),
		} {
			if set {
				nSet++
			}
		}
		require.Equal(t, 1, nSet)

		// The label and the transaction agree.
		require.Equal(
			t, !sigs.NoCloserClosee.IsSome(), hasOut(tx, aliceScript),
			"closer output: label vs tx, closer_after_fee=%v",
			closerAfterFee,
		)
		require.Equal(
			t, !sigs.CloserNoClosee.IsSome(), hasOut(tx, bobScript),
			"closee output: label vs tx, closee=%v", closeeBal,
		)

		// And both follow the dust limit of the delivery script.
		require.Equal(
			t,
			closerAfterFee >= lnwallet.DustLimitForSize(
				len(aliceScript),
			),
			hasOut(tx, aliceScript), "closer output vs script "+
				"dust, closer_after_fee=%v", closerAfterFee,
		)
		require.Equal(
			t,
			closeeBal >= lnwallet.DustLimitForSize(len(bobScript)),
			hasOut(tx, bobScript), "closee output vs script "+
				"dust, closee=%v", closeeBal,
		)
	}

	for _, cfg := range dustCfgs {
		for name := range probeScripts(0) {
			for _, small := range smallBalances {
				for _, smallIsCloser := range []bool{true, false} {
					tName := fmt.Sprintf(
						"dust=%d/%d/%s/%d/closer=%v",
						cfg.alice, cfg.bob, name, small,
						smallIsCloser,
					)
					t.Run(tName, func(t *testing.T) {
						run(
							t, cfg, name, small,
							smallIsCloser,
						)
					})
				}
			}
		}
	}
}
