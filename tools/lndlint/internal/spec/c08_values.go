package spec

import (
	"go/ast"
	"go/token"
	"go/types"

	"lndlint/internal/an"
)

// c08LitFields returns the key -> value map of the composite literal that e
// is: directly, behind `&`, or through the unique definition of a local.
// nil when e is nothing of the kind.
func c08LitFields(f *an.Func, e ast.Expr) map[string]ast.Expr {
	for depth := 0; depth < 4; depth++ {
		e = ast.Unparen(e)
		switch x := e.(type) {
		case *ast.Ident:
			d := f.UniqueDef(x)
			if d == nil {
				return nil
			}
			e = d
		case *ast.UnaryExpr:
			if x.Op != token.AND {
				return nil
			}
			e = x.X
		case *ast.CompositeLit:
			kv := map[string]ast.Expr{}
			for _, el := range x.Elts {
				k, ok := el.(*ast.KeyValueExpr)
				if !ok {
					return nil
				}
				kv[an.Text(k.Key)] = k.Value
			}
			return kv
		default:
			return nil
		}
	}
	return nil
}

// c08UnwrittenBefore: the canonical forms $pN of the rules name "the value
// the caller handed in".  That holds at site only if no statement from which
// site can be reached writes the parameter, one of the listed fields of it
// (all parts when no field is listed), copies into it or binds its address.
func c08UnwrittenBefore(o *an.Obl, f *an.Func, site an.Site, vars []*types.Var, fields ...string) {
	info := f.Info()
	g := f.Graph()
	want := map[types.Object]bool{}
	for _, v := range vars {
		want[v] = true
	}
	relevant := func(e ast.Expr) *ast.Ident {
		id := c08RootIdent(e)
		if id == nil || !want[info.Uses[id]] {
			return nil
		}
		if len(fields) == 0 {
			return id
		}
		// the selector applied to the variable itself
		var first *ast.SelectorExpr
		for x := ast.Unparen(e); ; {
			switch y := x.(type) {
			case *ast.SelectorExpr:
				if in, ok := ast.Unparen(y.X).(*ast.Ident); ok && in == id {
					first = y
				}
				x = ast.Unparen(y.X)
				continue
			case *ast.IndexExpr:
				x = ast.Unparen(y.X)
				continue
			case *ast.SliceExpr:
				x = ast.Unparen(y.X)
				continue
			case *ast.StarExpr:
				x = ast.Unparen(y.X)
				continue
			}
			break
		}
		if first == nil {
			return id // the variable as a whole (or *v)
		}
		for _, fl := range fields {
			if first.Sel.Name == fl {
				return id
			}
		}
		return nil
	}
	for _, v := range g.V {
		if v == site.V {
			continue
		}
		var hits []string
		v.Inspect(false, func(n ast.Node) bool {
			switch x := n.(type) {
			case *ast.AssignStmt:
				for _, l := range x.Lhs {
					if id := relevant(l); id != nil && info.Uses[id] != nil {
						hits = append(hits, an.Text(x))
					}
				}
			case *ast.IncDecStmt:
				if relevant(x.X) != nil {
					hits = append(hits, an.Text(x))
				}
			case *ast.RangeStmt:
				if x.Tok == token.ASSIGN && ((x.Key != nil && relevant(x.Key) != nil) || (x.Value != nil && relevant(x.Value) != nil)) {
					hits = append(hits, "range clause")
				}
			case *ast.UnaryExpr:
				if x.Op == token.AND && relevant(x.X) != nil {
					hits = append(hits, an.Text(x)+" (address taken)")
				}
			case *ast.CallExpr:
				switch an.CalleeID(info, x) {
				case "builtin.copy", "builtin.clear":
					if len(x.Args) > 0 && relevant(x.Args[0]) != nil {
						hits = append(hits, an.Text(x))
					}
				}
			}
			return true
		})
		if len(hits) == 0 {
			continue
		}
		if g.Reach(v, nil, nil)[site.V] {
			o.FailAt(constructOf(f, site)+"#input-overwritten", f.Where(v.Pos()), "%s: %s is executed before %s and changes a value the rule identifies by its parameter position", f.ID, hits[0], site.String())
		}
	}
	var names []string
	for _, v := range vars {
		names = append(names, v.Name())
	}
	o.Site("%s: %v %v unwritten on the way to %s", f.ID, names, fields, site.String())
}

// c08FuncAt returns the function (root or nested literal) whose body
// directly contains n.
func c08FuncAt(root *an.Func, n ast.Node) *an.Func {
	best := root
	for _, l := range root.Lits {
		if l.Body.Pos() <= n.Pos() && n.End() <= l.Body.End() && l.Body.Pos() >= best.Body.Pos() {
			best = l
		}
	}
	return best
}

// c08SwitchSubject: the canonical form of e, or, when e is the variable bound
// by `switch v := X.(type)`, the canonical form of X.
func c08SwitchSubject(f *an.Func, e ast.Expr) string {
	id, ok := ast.Unparen(e).(*ast.Ident)
	if !ok {
		return c08Canon(f, e)
	}
	info := f.Info()
	obj := info.Uses[id]
	out := ""
	ast.Inspect(f.Body, func(n ast.Node) bool {
		ts, ok := n.(*ast.TypeSwitchStmt)
		if !ok || out != "" {
			return out == ""
		}
		as, ok := ts.Assign.(*ast.AssignStmt)
		if !ok || len(as.Rhs) != 1 {
			return true
		}
		ta, ok := ast.Unparen(as.Rhs[0]).(*ast.TypeAssertExpr)
		if !ok {
			return true
		}
		// the symbol is declared implicitly once per clause
		for _, cc := range ts.Body.List {
			if info.Implicits[cc] == obj && obj != nil {
				out = c08Canon(f, ta.X)
			}
		}
		return true
	})
	if out == "" {
		return c08Canon(f, e)
	}
	return out
}

// c08ValuesTaken lists the places in f (closures included) where a function
// or method with one of the names is referenced other than as the callee of
// a call.
func c08ValuesTaken(f *an.Func, names ...string) []string {
	info := f.Info()
	called := map[*ast.Ident]bool{}
	ast.Inspect(f.Body, func(n ast.Node) bool {
		if c, ok := n.(*ast.CallExpr); ok {
			switch fn := ast.Unparen(c.Fun).(type) {
			case *ast.Ident:
				called[fn] = true
			case *ast.SelectorExpr:
				called[fn.Sel] = true
			}
		}
		return true
	})
	var out []string
	ast.Inspect(f.Body, func(n ast.Node) bool {
		id, ok := n.(*ast.Ident)
		if !ok || called[id] {
			return true
		}
		if _, isFn := info.Uses[id].(*types.Func); !isFn {
			return true
		}
		for _, nm := range names {
			if id.Name == nm {
				out = append(out, f.Where(id.Pos()))
			}
		}
		return true
	})
	return out
}

// c08ErrorAsUnknownIndex matches lnutils.ErrorAs[lnwallet.ErrUnknownHtlcIndex](x).
func c08ErrorAsUnknownIndex(f *an.Func, e ast.Expr) bool {
	c, ok := ast.Unparen(e).(*ast.CallExpr)
	if !ok || len(c.Args) != 1 {
		return false
	}
	ix, ok := ast.Unparen(c.Fun).(*ast.IndexExpr)
	if !ok {
		return false
	}
	var id *ast.Ident
	switch x := ast.Unparen(ix.X).(type) {
	case *ast.Ident:
		id = x
	case *ast.SelectorExpr:
		id = x.Sel
	}
	if id == nil {
		return false
	}
	fn, ok := f.Info().Uses[id].(*types.Func)
	if !ok || an.FuncID(fn.Origin()) != "lnutils.ErrorAs" {
		return false
	}
	inst, ok := f.Info().Instances[id]
	return ok && inst.TypeArgs.Len() == 1 && an.TypeID(inst.TypeArgs.At(0)) == "lnwallet.ErrUnknownHtlcIndex"
}

// c08AfterFailureOf: target is reached only through the failure edge of the
// error test of one of calls, and the variable holding that error is not
// written between the test and the target.
func c08AfterFailureOf(o *an.Obl, f *an.Func, calls []an.Site, target an.Site, what string) {
	ok, _ := f.UnionOk(calls, an.OkErrNil)
	fail := an.FlowEdgeSet{}
	seen := map[*an.FlowVertex]bool{}
	for e := range ok {
		if seen[e.From] {
			continue
		}
		seen[e.From] = true
		for _, out := range e.From.Out {
			if !ok[out] {
				fail[out] = true
			}
		}
	}
	o.Site("%s only after %s failed (%d failure edges)", target.String(), what, len(fail))
	if len(fail) == 0 {
		o.FailAt(constructOf(f, target)+"<-failed-"+what, target.Where(), "the result of %s is never tested in %s", what, f.ID)
		return
	}
	if bad := f.MustPass([]an.Site{target}, fail); len(bad) > 0 {
		o.FailAt(constructOf(f, target)+"<-failed-"+what, target.Where(), "%s can be reached other than through the failure of %s: %s", target.String(), what, bad[0])
	}
	// the error variable
	var errObj types.Object
	info := f.Info()
	ast.Inspect(f.Body, func(n ast.Node) bool {
		as, isAs := n.(*ast.AssignStmt)
		if !isAs || len(as.Rhs) != 1 || ast.Unparen(as.Rhs[0]) != calls[0].Node {
			return true
		}
		if id, isID := as.Lhs[len(as.Lhs)-1].(*ast.Ident); isID {
			errObj = c08ObjOf(info, id)
		}
		return true
	})
	if errObj == nil {
		return
	}
	g := f.Graph()
	back := g.BackReach(target.V, nil)
	for e := range fail {
		for v := range g.Reach(e.To, nil, map[*an.FlowVertex]bool{target.V: true}) {
			if !back[v] || v == target.V {
				continue
			}
			v.Inspect(false, func(n ast.Node) bool {
				switch x := n.(type) {
				case *ast.AssignStmt:
					for _, l := range x.Lhs {
						if id, isID := ast.Unparen(l).(*ast.Ident); isID && info.Uses[id] == errObj {
							o.FailAt(constructOf(f, target)+"<-error-rewritten", f.Where(x.Pos()), "the error of %s is overwritten (%s) before %s examines it", what, an.Text(x), target.String())
						}
					}
				}
				return true
			})
		}
	}
}

// c08RefCanon is Canon for the value of a reference field: for `&x` with x a
// local that is defined once and never assigned again, the canonical form of
// its definition behind "&" (Canon does not look through a variable whose
// address is taken).
func c08RefCanon(f *an.Func, e ast.Expr) string {
	return c08RefCanonD(f, e, 0)
}

func c08RefCanonD(f *an.Func, e ast.Expr, depth int) string {
	if e == nil {
		return "<absent>"
	}
	// a local holding the reference value (`p := &x` … `sourceRef: p`, what
	// the loader leaves of a helper that builds the packet): its definition
	if pid, isID := ast.Unparen(e).(*ast.Ident); isID && depth < 4 {
		if d := f.UniqueDef(pid); d != nil {
			return c08RefCanonD(f, d, depth+1)
		}
	}
	u, ok := ast.Unparen(e).(*ast.UnaryExpr)
	if !ok || u.Op != token.AND {
		return c08Canon(f, e)
	}
	id, ok := ast.Unparen(u.X).(*ast.Ident)
	if !ok {
		return c08Canon(f, e)
	}
	root := f.Root()
	info := root.Info()
	obj := info.Uses[id]
	if obj == nil || len(c08WritesOf(f, obj, true)) > 0 {
		return c08Canon(f, e)
	}
	var def ast.Expr
	n := 0
	ast.Inspect(root.Body, func(m ast.Node) bool {
		switch x := m.(type) {
		case *ast.AssignStmt:
			if x.Tok == token.DEFINE && len(x.Lhs) == len(x.Rhs) {
				for i, l := range x.Lhs {
					if li, ok := l.(*ast.Ident); ok && info.Defs[li] == obj {
						def = x.Rhs[i]
						n++
					}
				}
			}
		case *ast.ValueSpec:
			for i, nm := range x.Names {
				if info.Defs[nm] == obj && len(x.Values) == len(x.Names) {
					def = x.Values[i]
					n++
				}
			}
		}
		return true
	})
	if n != 1 || def == nil {
		return c08Canon(f, e)
	}
	return "&" + c08Canon(f, def)
}

// c08OneDirect: sites (collected with closures included) is exactly one call
// and it sits in f itself, not in a function literal of f: the path and
// argument rules that follow are about f's own flow graph.
func c08OneDirect(o *an.Obl, f *an.Func, what string, sites []an.Site) bool {
	if !needExactly(o, f, what, sites, 1) {
		return false
	}
	if sites[0].Fn != f {
		o.FailAt(f.ID+"#in-closure-"+what, sites[0].Where(), "the %s of %s sits in a function literal; its place in the control flow of %s cannot be decided", what, f.ID, f.ID)
		return false
	}
	return true
}
