package spec

import (
	"fmt"
	"os"
	"path/filepath"
	"strings"
	"sync"
	"syscall"
	"time"

	"lndlint/internal/an"
)

// MutantResult is the outcome of one witness mutant.
type MutantResult struct {
	Name     string   `json:"name"`
	File     string   `json:"file"`
	Expect   string   `json:"expect_obligation"`
	Status   string   `json:"status"` // killed | SURVIVED | stale | load-error
	KilledBy []string `json:"killed_by,omitempty"`
	Detail   string   `json:"detail,omitempty"`
}

// RunMutants applies each witness mutant of s in memory and re-runs the
// property's obligations on the mutated program.
// MutantKnownPath is the known-findings file applied while judging mutants.
var MutantKnownPath string

func RunMutants(s *Spec, repo string, load LoadFn, only string) []MutantResult {
	return runMutantList(s, s.Mutants, repo, load, only)
}

// RunGaps runs the not-yet-closed reported gaps of s.
func RunGaps(s *Spec, repo string, load LoadFn, only string) []MutantResult {
	return runMutantList(s, s.Gaps, repo, load, only)
}

// mutantSlot takes one of three machine-wide slots (advisory file locks in the
// temporary directory) for the duration of a mutant run: every mutant is a
// from-source load of the spec's packages with their dependencies, six of them
// in parallel need about 9 GB, and twenty thorough checks started together
// would not fit into memory. The lock files are created on demand.
func mutantSlot() func() {
	if os.Getenv("LNDLINT_NO_SLOT") != "" {
		return func() {}
	}
	var files []*os.File
	for k := 0; k < 3; k++ {
		f, err := os.OpenFile(filepath.Join(os.TempDir(), fmt.Sprintf("lndlint-mutants.%d.lock", k)), os.O_CREATE|os.O_RDWR, 0o666)
		if err != nil {
			continue
		}
		files = append(files, f)
	}
	if len(files) == 0 {
		return func() {}
	}
	for {
		for _, f := range files {
			if syscall.Flock(int(f.Fd()), syscall.LOCK_EX|syscall.LOCK_NB) == nil {
				return func() {
					syscall.Flock(int(f.Fd()), syscall.LOCK_UN)
					for _, g := range files {
						g.Close()
					}
				}
			}
		}
		time.Sleep(2 * time.Second)
	}
}

func runMutantList(s *Spec, list []Mutant, repo string, load LoadFn, only string) []MutantResult {
	defer mutantSlot()()
	var sel []Mutant
	for _, m := range list {
		if only == "" || strings.Contains(m.Name, only) {
			sel = append(sel, m)
		}
	}
	out := make([]MutantResult, len(sel))
	sem := make(chan struct{}, 6)
	var wg sync.WaitGroup
	for i, m := range sel {
		wg.Add(1)
		go func(i int, m Mutant) {
			defer wg.Done()
			sem <- struct{}{}
			defer func() { <-sem }()
			out[i] = runMutant(s, repo, load, m)
		}(i, m)
	}
	wg.Wait()
	return out
}

func runMutant(s *Spec, repo string, load LoadFn, m Mutant) (res MutantResult) {
	res = MutantResult{Name: m.Name, File: m.File, Expect: m.Expect}
	defer func() {
		if x := recover(); x != nil {
			res.Status, res.Detail = "load-error", fmt.Sprint("panic: ", x)
		}
	}()
	path := filepath.Join(repo, m.File)
	src, err := os.ReadFile(path)
	if err != nil {
		res.Status, res.Detail = "stale", err.Error()
		return
	}
	if n := strings.Count(string(src), m.Old); n != 1 {
		res.Status, res.Detail = "stale", fmt.Sprintf("anchor text occurs %d times", n)
		return
	}
	mut := strings.Replace(string(src), m.Old, m.New, 1)
	prog, _, err := load(repo, s, nil, nil, map[string][]byte{path: []byte(mut)})
	if err != nil {
		res.Status, res.Detail = "load-error", err.Error()
		return
	}
	// known findings of the unchanged tree do not count as a kill
	run, _ := an.NewRun(s.ID, "mutant", prog, MutantKnownPath)
	s.Run(run)
	for _, o := range run.Obls {
		if o.Status == "VIOLATED" {
			res.KilledBy = append(res.KilledBy, o.ID)
		}
	}
	res.Status = "SURVIVED"
	for _, k := range res.KilledBy {
		if strings.Contains(k, m.Expect) {
			res.Status = "killed"
		}
	}
	if res.Status == "SURVIVED" && len(res.KilledBy) > 0 {
		res.Detail = "violations reported, but not by the expected obligation"
	}
	return
}

func init() {
	Thorough = func(r *an.Run, s *Spec, repo string, load LoadFn) {
		// 1. witness mutants: checker validation
		results := RunMutants(s, repo, load, "")
		r.Extra["witness_mutants"] = results
		r.Obl("witness-mutants", "META",
			"every witness mutant (an in-memory edit that breaks one obligation while still type-checking) is reported by the obligation it targets; a stale mutant (anchor text changed) is listed, not failed",
			"a rule that cannot see a planted defect certifies nothing", 0,
			func(o *an.Obl) {
				for _, m := range results {
					o.Site("%s: %s %v", m.Name, m.Status, m.KilledBy)
					if m.Status == "SURVIVED" {
						o.FailAt("mutant-"+m.Name, m.File, "witness mutant %s was not reported by an obligation matching %q (%s)", m.Name, m.Expect, m.Detail)
					}
				}
			})
		// 2. build configuration matrix
		var cfgs []map[string]any
		for _, tags := range s.TagMatrix {
			env := []string{}
			var realTags []string
			for _, t := range tags {
				if strings.Contains(t, "=") {
					env = append(env, t)
				} else {
					realTags = append(realTags, t)
				}
			}
			prog, meta, err := load(repo, s, realTags, env, nil)
			entry := map[string]any{"config": tags}
			if err != nil {
				entry["error"] = err.Error()
				cfgs = append(cfgs, entry)
				r.Obl("config-"+strings.Join(tags, "+"), "META", "the tree loads and type-checks under this build configuration", "", 0, func(o *an.Obl) {
					o.FailAt("load-"+strings.Join(tags, "+"), "", "cannot load under %v: %v", tags, err)
				})
				continue
			}
			// known findings apply in every configuration
			sub2, _ := an.NewRun(s.ID, "config", prog, r.KnownPath)
			s.Run(sub2)
			nviol := 0
			for _, o := range sub2.Obls {
				if o.Status == "VIOLATED" {
					nviol++
					o.ID = o.ID + "@" + strings.Join(tags, "+")
					for i := range o.Failures {
						o.Failures[i].Key += "@" + strings.Join(tags, "+")
					}
					r.Obls = append(r.Obls, o)
				}
			}
			entry["loads"] = meta
			entry["obligations"] = len(sub2.Obls)
			entry["violated"] = nviol
			cfgs = append(cfgs, entry)
		}
		r.Extra["build_configs"] = cfgs
	}
}
