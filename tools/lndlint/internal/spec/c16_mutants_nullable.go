package spec

// The two reported gaps of C16 (tools/scripts/gaps/advB3-gaps-c16.txt) that needed the
// nullable engine to follow a payload through local definitions.
func init() {
	registry["C16"].Mutants = append(registry["C16"].Mutants, []Mutant{
		{Name: "closed-null-fail-reason-laundered-through-local", File: "payments/db/sql_store.go",
			Old:    "\tif failReason.Valid {\n\t\treason := FailureReason(failReason.Int32)",
			New:    "\tif code := failReason.Int32; code != 0 {\n\t\treason := FailureReason(code)",
			Expect: "nullable-columns-tested-by-presence"},
		{Name: "closed-null-resolution-type-switch-on-copied-payload", File: "payments/db/sql_store.go",
			Old:    "\t\tif !resType.Valid {\n\t\t\t// NULL resolution_type means in-flight (no Settle, no\n\t\t\t// Failure).\n\t\t\tcontinue\n\t\t}\n\n\t\tswitch HTLCAttemptResolutionType(resType.Int32) {",
			New:    "\t\tkind := HTLCAttemptResolutionType(resType.Int32)\n\t\tif kind == 0 {\n\t\t\t// No resolution recorded: in flight.\n\t\t\tcontinue\n\t\t}\n\n\t\tswitch kind {",
			Expect: "nullable-columns-tested-by-presence"},
	}...)
}
