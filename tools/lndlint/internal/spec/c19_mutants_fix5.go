package spec

// Witnesses restoring the shapes the repairs 4486351 (outgoing channel
// restriction relative to the source of the search), 7f5898b (BuildRoute
// re-checks the built route), 103e77f (outbound fee without wrapping) and
// 7d3042d (final delta plus padding within 16 bits) removed, close variants of
// them, and the round-4 seeds C19/g and C19/h.
func init() {
	const (
		restrOb = "outgoing-channel-restriction"
		srcOb   = "outgoing-channel-restriction-follows-the-source-of-the-search"
		buildOb = "build-route-rechecks-the-amounts-the-built-route-carries"
		feeOb   = "outbound-fee-is-computed-without-wrapping"
		padOb   = "final-delta-plus-padding-does-not-wrap-16-bits"
		edgeOb  = "unified-edge-fields-come-from-the-one-adopted-candidate"
		backOb  = "backward-pass-selects-each-edge-for-the-amount-it-will-carry"

		setNode = "\t\tu.outChanRestrNode = source\n"

		recheck  = "\tif amt.IsNone() {\n\t\thopAmt := rt.TotalAmount\n\t\tfor i, edge := range pathEdges {\n\t\t\tif !edge.amtInRange(hopAmt) {\n\t\t\t\tlog.Errorf(\"Amount %v not in range for hop \"+\n\t\t\t\t\t\"index %v\", hopAmt, i)\n\n\t\t\t\treturn nil, ErrNoChannel{position: i}\n\t\t\t}\n\n\t\t\thopAmt = rt.Hops[i].AmtToForward\n\t\t}\n\t}\n\n"
		seedGOld = "\t\tmaxCapMsat       lnwire.MilliSatoshi\n\t\thopPayloadSizeFn PayloadSizeFunc\n\t)\n\n\tfor _, edge := range u.edges {\n\t\t// Calculate the inbound fee charged at the receiving node.\n\t\tinboundFee := calcCappedInboundFee(\n\t\t\tedge, netAmtReceived, nextOutFee,\n\t\t)\n\n\t\t// Add inbound fee to get to the amount that is sent over the\n\t\t// channel.\n\t\tamt := netAmtReceived + lnwire.MilliSatoshi(inboundFee)\n\n\t\t// Check valid amount range for the channel.\n\t\tif !edge.amtInRange(amt) {\n\t\t\tlog.Debugf(\"Amount %v not in range for edge %v\",\n\t\t\t\tamt, edge.policy.ChannelID)\n\t\t\tcontinue\n\t\t}\n\n\t\t// For network channels, skip the disabled ones.\n\t\tif edge.policy.IsDisabled {\n\t\t\tlog.Debugf(\"Skipped edge %v due to it being disabled\",\n\t\t\t\tedge.policy.ChannelID)\n\t\t\tcontinue\n\t\t}\n\n\t\t// Track the maximal capacity for usable channels. If we don't\n\t\t// know the capacity, we fall back to MaxHTLC.\n\t\tcapMsat := lnwire.NewMSatFromSatoshis(edge.capacity)\n\t\tif capMsat == 0 && edge.policy.HasMaxHTLC {\n\t\t\tlog.Tracef(\"No capacity available for channel %v, \"+\n\t\t\t\t\"using MaxHtlcMsat (%v) as a fallback.\",\n\t\t\t\tedge.policy.ChannelID, edge.policy.MaxHTLC)\n\n\t\t\tcapMsat = edge.policy.MaxHTLC\n\t\t}\n\t\tmaxCapMsat = max(capMsat, maxCapMsat)\n\n\t\t// Track the maximum time lock of all channels that are\n\t\t// candidate for non-strict forwarding at the routing node.\n\t\tmaxTimelock = max(maxTimelock, edge.policy.TimeLockDelta)\n\n\t\toutboundFee := int64(edge.policy.ComputeFee(amt))\n\t\tfee := outboundFee + inboundFee\n\n\t\t// Use the policy that results in the highest fee for this\n\t\t// specific amount.\n\t\tif fee < maxFee {\n\t\t\tlog.Debugf(\"Skipped edge %v due to it produces less \"+\n\t\t\t\t\"fee: fee=%v, maxFee=%v\",\n\t\t\t\tedge.policy.ChannelID, fee, maxFee)\n\n\t\t\tcontinue\n\t\t}\n\t\tmaxFee = fee\n\n\t\tbestPolicy = newUnifiedEdge(\n\t\t\tedge.policy, 0, edge.inboundFees, nil,\n\t\t\tedge.blindedPayment,\n\t\t)\n\n\t\t// The payload size function for edges to a connected peer is\n\t\t// always the same hence there is not need to find the maximum.\n\t\t// This also counts for blinded edges where we only have one\n\t\t// edge to a blinded peer.\n\t\thopPayloadSizeFn = edge.hopPayloadSizeFn\n\t}\n\n\t// Return early if no channel matches.\n\tif bestPolicy == nil {\n\t\treturn nil\n\t}\n\n\t// We have already picked the highest fee that could be required for\n\t// non-strict forwarding. To also cover the case where a lower fee\n\t// channel requires a longer time lock, we modify the policy by setting\n\t// the maximum encountered time lock. Note that this results in a\n\t// synthetic policy that is not actually present on the routing node.\n\t//\n\t// The reason we do this, is that we try to maximize the chance that we\n\t// get forwarded. Because we penalize pair-wise, there won't be a second\n\t// chance for this node pair. But this is all only needed for nodes that\n\t// have distinct policies for channels to the same peer.\n\tpolicyCopy := *bestPolicy.policy\n\tpolicyCopy.TimeLockDelta = maxTimelock\n\tmodifiedEdge := newUnifiedEdge(\n\t\t&policyCopy, maxCapMsat.ToSatoshis(), bestPolicy.inboundFees,\n"
		seedGNew = "\t\tmaxCapMsat       lnwire.MilliSatoshi\n\t\tinboundFees      models.InboundFee\n\t\thopPayloadSizeFn PayloadSizeFunc\n\t)\n\n\tfor _, edge := range u.edges {\n\t\t// Calculate the inbound fee charged at the receiving node.\n\t\tinboundFee := calcCappedInboundFee(\n\t\t\tedge, netAmtReceived, nextOutFee,\n\t\t)\n\n\t\t// Add inbound fee to get to the amount that is sent over the\n\t\t// channel.\n\t\tamt := netAmtReceived + lnwire.MilliSatoshi(inboundFee)\n\n\t\t// Check valid amount range for the channel.\n\t\tif !edge.amtInRange(amt) {\n\t\t\tlog.Debugf(\"Amount %v not in range for edge %v\",\n\t\t\t\tamt, edge.policy.ChannelID)\n\t\t\tcontinue\n\t\t}\n\n\t\t// For network channels, skip the disabled ones.\n\t\tif edge.policy.IsDisabled {\n\t\t\tlog.Debugf(\"Skipped edge %v due to it being disabled\",\n\t\t\t\tedge.policy.ChannelID)\n\t\t\tcontinue\n\t\t}\n\n\t\t// Track the maximal capacity for usable channels. If we don't\n\t\t// know the capacity, we fall back to MaxHTLC.\n\t\tcapMsat := lnwire.NewMSatFromSatoshis(edge.capacity)\n\t\tif capMsat == 0 && edge.policy.HasMaxHTLC {\n\t\t\tlog.Tracef(\"No capacity available for channel %v, \"+\n\t\t\t\t\"using MaxHtlcMsat (%v) as a fallback.\",\n\t\t\t\tedge.policy.ChannelID, edge.policy.MaxHTLC)\n\n\t\t\tcapMsat = edge.policy.MaxHTLC\n\t\t}\n\t\tmaxCapMsat = max(capMsat, maxCapMsat)\n\n\t\t// Track the maximum time lock of all channels that are\n\t\t// candidate for non-strict forwarding at the routing node.\n\t\tmaxTimelock = max(maxTimelock, edge.policy.TimeLockDelta)\n\n\t\t// The inbound fee is what the receiving node charges on this\n\t\t// connection, keep it for the unified edge.\n\t\tinboundFees = edge.inboundFees\n\n\t\toutboundFee := int64(edge.policy.ComputeFee(amt))\n\t\tfee := outboundFee + inboundFee\n\n\t\t// Use the policy that results in the highest fee for this\n\t\t// specific amount.\n\t\tif fee < maxFee {\n\t\t\tlog.Debugf(\"Skipped edge %v due to it produces less \"+\n\t\t\t\t\"fee: fee=%v, maxFee=%v\",\n\t\t\t\tedge.policy.ChannelID, fee, maxFee)\n\n\t\t\tcontinue\n\t\t}\n\t\tmaxFee = fee\n\n\t\tbestPolicy = newUnifiedEdge(\n\t\t\tedge.policy, 0, edge.inboundFees, nil,\n\t\t\tedge.blindedPayment,\n\t\t)\n\n\t\t// The payload size function for edges to a connected peer is\n\t\t// always the same hence there is not need to find the maximum.\n\t\t// This also counts for blinded edges where we only have one\n\t\t// edge to a blinded peer.\n\t\thopPayloadSizeFn = edge.hopPayloadSizeFn\n\t}\n\n\t// Return early if no channel matches.\n\tif bestPolicy == nil {\n\t\treturn nil\n\t}\n\n\t// We have already picked the highest fee that could be required for\n\t// non-strict forwarding. To also cover the case where a lower fee\n\t// channel requires a longer time lock, we modify the policy by setting\n\t// the maximum encountered time lock. Note that this results in a\n\t// synthetic policy that is not actually present on the routing node.\n\t//\n\t// The reason we do this, is that we try to maximize the chance that we\n\t// get forwarded. Because we penalize pair-wise, there won't be a second\n\t// chance for this node pair. But this is all only needed for nodes that\n\t// have distinct policies for channels to the same peer.\n\tpolicyCopy := *bestPolicy.policy\n\tpolicyCopy.TimeLockDelta = maxTimelock\n\tmodifiedEdge := newUnifiedEdge(\n\t\t&policyCopy, maxCapMsat.ToSatoshis(), inboundFees,\n"
		seedHOld = "\t\tnetAmount := incomingAmt + outboundFee\n\n\t\t// We need to select an edge that can forward the requested\n\t\t// amount.\n\t\tedge = edgeUnifier.getEdge(\n\t\t\tnetAmount, bandwidthHints, outboundFee,\n\t\t)\n\t\tif edge == nil {\n\t\t\treturn nil, 0, ErrNoChannel{position: i}\n\t\t}\n\n\t\t// The fee paid to B depends on the current hop's inbound fee\n\t\t// policy and on the outbound fee for the next hop as any\n\t\t// inbound fee discount is capped by the outbound fee such that\n\t\t// the total fee for B can't become negative.\n\t\tinboundFee := calcCappedInboundFee(edge, netAmount, outboundFee)\n"
		seedHNew = "\t\t// We need to select an edge that can forward the requested\n\t\t// amount.\n\t\tedge = edgeUnifier.getEdge(\n\t\t\tincomingAmt, bandwidthHints, outboundFee,\n\t\t)\n\t\tif edge == nil {\n\t\t\treturn nil, 0, ErrNoChannel{position: i}\n\t\t}\n\n\t\t// The fee paid to B depends on the current hop's inbound fee\n\t\t// policy and on the outbound fee for the next hop as any\n\t\t// inbound fee discount is capped by the outbound fee such that\n\t\t// the total fee for B can't become negative.\n\t\tnetAmount := incomingAmt + outboundFee\n\t\tinboundFee := calcCappedInboundFee(edge, netAmount, outboundFee)\n"

		cachedFee = "\treturn computeFee(c.FeeBaseMSat, c.FeeProportionalMillionths, amt)\n}\n\n// NewCachedPolicy"
		policyFee = "\treturn computeFee(c.FeeBaseMSat, c.FeeProportionalMillionths, amt)\n}\n\n// String returns"
		plainFee  = "\treturn c.FeeBaseMSat + (amt*c.FeeProportionalMillionths)/feeRateParts\n}\n\n"

		fitTest = "\tif finalCltvDelta > math.MaxUint16-BlockPadding {\n\t\treturn nil, errNoPathFound\n\t}\n"
		widened = "\tminLimit := uint32(delta)\n\tif includePad {\n\t\tminLimit += uint32(BlockPadding)\n\t}\n"
	)
	registry["C19"].Mutants = append(registry["C19"].Mutants, []Mutant{
		// 4486351
		{Name: "fixrev-restriction-filters-the-channels-of-self", File: "routing/unified_edges.go",
			Old:    "\tif fromNode == u.outChanRestrNode && u.outChanRestr != nil {",
			New:    "\tif localChan && u.outChanRestr != nil {",
			Expect: restrOb},
		{Name: "fixrev-find-path-leaves-the-restriction-with-self", File: "routing/pathfind.go",
			Old: setNode, New: "", Expect: srcOb},
		{Name: "f5-find-path-ties-the-restriction-to-self", File: "routing/pathfind.go",
			Old: setNode, New: "\t\tu.outChanRestrNode = self\n", Expect: srcOb},
		{Name: "f5-find-path-sets-the-restriction-node-after-the-graph-policies", File: "routing/pathfind.go",
			Old:    setNode + "\n\t\terr := u.addGraphPolicies(g.graph)\n\t\tif err != nil {\n\t\t\treturn nil, 0, err\n\t\t}\n",
			New:    "\t\terr := u.addGraphPolicies(g.graph)\n\t\tif err != nil {\n\t\t\treturn nil, 0, err\n\t\t}\n" + setNode,
			Expect: srcOb},
		{Name: "f5-find-path-sets-the-restriction-node-for-the-exit-hop-only", File: "routing/pathfind.go",
			Old: setNode, New: "\t\tif isExitHop {\n\t" + setNode + "\t\t}\n", Expect: srcOb},
		{Name: "f5-new-unifier-restricts-the-target-node", File: "routing/unified_edges.go",
			Old:    "\t\toutChanRestrNode: sourceNode,\n",
			New:    "\t\toutChanRestrNode: toNode,\n",
			Expect: srcOb},
		{Name: "f5-build-route-unifier-restricts-the-hop-itself", File: "routing/router.go",
			Old:    "\t\terr := u.addGraphPolicies(graph)\n\t\tif err != nil {\n\t\t\treturn nil, err\n\t\t}\n\n\t\t// Exit if there are no channels.",
			New:    "\t\tu.outChanRestrNode = fromNode\n\t\terr := u.addGraphPolicies(graph)\n\t\tif err != nil {\n\t\t\treturn nil, err\n\t\t}\n\n\t\t// Exit if there are no channels.",
			Expect: srcOb},
		{Name: "f5-restriction-membership-read-from-the-unifier-map", File: "routing/unified_edges.go",
			Old:    "\t\tif _, ok := u.outChanRestr[edge.ChannelID]; !ok {",
			New:    "\t\tif _, ok := u.edgeUnifiers[fromNode]; !ok {",
			Expect: restrOb},

		// 7f5898b
		{Name: "fixrev-build-route-returns-the-route-unchecked", File: "routing/router.go",
			Old: recheck, New: "", Expect: buildOb},
		{Name: "f5-build-route-rechecks-only-when-an-amount-was-given", File: "routing/router.go",
			Old:    "\tif amt.IsNone() {\n\t\thopAmt := rt.TotalAmount\n",
			New:    "\tif amt.IsSome() {\n\t\thopAmt := rt.TotalAmount\n",
			Expect: buildOb},
		{Name: "f5-build-route-recheck-starts-at-the-receiver-amount", File: "routing/router.go",
			Old:    "\t\thopAmt := rt.TotalAmount\n",
			New:    "\t\thopAmt := rt.ReceiverAmt()\n",
			Expect: buildOb},
		{Name: "f5-build-route-recheck-skips-the-first-edge", File: "routing/router.go",
			Old:    "\t\t\tif !edge.amtInRange(hopAmt) {\n\t\t\t\tlog.Errorf(\"Amount %v not in range for hop \"+\n\t\t\t\t\t\"index",
			New:    "\t\t\tif i > 0 && !edge.amtInRange(hopAmt) {\n\t\t\t\tlog.Errorf(\"Amount %v not in range for hop \"+\n\t\t\t\t\t\"index",
			Expect: buildOb},
		{Name: "f5-build-route-recheck-only-logs", File: "routing/router.go",
			Old:    "\t\t\t\t\t\"index %v\", hopAmt, i)\n\n\t\t\t\treturn nil, ErrNoChannel{position: i}\n",
			New:    "\t\t\t\t\t\"index %v\", hopAmt, i)\n",
			Expect: buildOb},
		{Name: "f5-build-route-recheck-stops-after-the-first-edge", File: "routing/router.go",
			Old:    "\t\t\thopAmt = rt.Hops[i].AmtToForward\n",
			New:    "\t\t\thopAmt = rt.Hops[i].AmtToForward\n\t\t\tbreak\n",
			Expect: buildOb},
		{Name: "f5-build-route-recheck-tests-each-edge-for-what-its-hop-forwards", File: "routing/router.go",
			Old:    "\t\t\tif !edge.amtInRange(hopAmt) {\n\t\t\t\tlog.Errorf(\"Amount %v not in range for hop \"+\n\t\t\t\t\t\"index",
			New:    "\t\t\thopAmt = rt.Hops[i].AmtToForward\n\t\t\tif !edge.amtInRange(hopAmt) {\n\t\t\t\tlog.Errorf(\"Amount %v not in range for hop \"+\n\t\t\t\t\t\"index",
			Expect: buildOb},

		// 103e77f
		{Name: "fixrev-cached-policy-fee-is-a-plain-product", File: "graph/db/models/cached_edge_policy.go",
			Old: cachedFee, New: plainFee + "// NewCachedPolicy", Expect: feeOb},
		{Name: "fixrev-channel-policy-fee-is-a-plain-product", File: "graph/db/models/channel_edge_policy.go",
			Old: policyFee, New: plainFee + "// String returns", Expect: feeOb},
		{Name: "f5-compute-fee-divides-whatever-the-high-word", File: "graph/db/models/cached_edge_policy.go",
			Old:    "\tif hi >= feeRateParts {\n\t\treturn maxFee\n\t}\n\n\tpropFee, _ :=",
			New:    "\tif hi >= feeRateParts {\n\t\thi = feeRateParts - 1\n\t}\n\n\tpropFee, _ :=",
			Expect: feeOb},
		{Name: "f5-compute-fee-ignores-the-carry", File: "graph/db/models/cached_edge_policy.go",
			Old:    "\tif carry != 0 || fee > uint64(maxFee) {",
			New:    "\t_ = carry\n\tif fee > uint64(maxFee) {",
			Expect: feeOb},
		{Name: "f5-compute-fee-saturates-above-int64", File: "graph/db/models/cached_edge_policy.go",
			Old:    "\tmaxFee = lnwire.MilliSatoshi(btcutil.MaxSatoshi * 1000)\n",
			New:    "\tmaxFee = lnwire.MilliSatoshi(btcutil.MaxSatoshi * 1000 * 8)\n",
			Expect: feeOb},
		{Name: "f5-compute-fee-base-and-rate-swapped", File: "graph/db/models/channel_edge_policy.go",
			Old:    "\treturn computeFee(c.FeeBaseMSat, c.FeeProportionalMillionths, amt)\n",
			New:    "\treturn computeFee(c.FeeProportionalMillionths, c.FeeBaseMSat, amt)\n",
			Expect: feeOb},
		{Name: "f5-compute-fee-product-of-rate-and-base", File: "graph/db/models/cached_edge_policy.go",
			Old:    "\thi, lo := bits.Mul64(uint64(amt), uint64(rate))\n",
			New:    "\thi, lo := bits.Mul64(uint64(base), uint64(rate))\n\t_ = amt\n",
			Expect: feeOb},

		// 7d3042d
		{Name: "fixrev-validate-cltv-limit-pads-in-16-bits", File: "routing/payment_session.go",
			Old:    widened,
			New:    "\tif includePad {\n\t\tdelta += BlockPadding\n\t}\n\tminLimit := uint32(delta)\n",
			Expect: padOb},
		{Name: "fixrev-request-route-pads-without-the-fit-test", File: "routing/payment_session.go",
			Old: fitTest, New: "\t_ = math.MaxUint16\n", Expect: padOb},
		{Name: "f5-request-route-fit-test-forgets-the-padding", File: "routing/payment_session.go",
			Old:    "\tif finalCltvDelta > math.MaxUint16-BlockPadding {\n",
			New:    "\tif finalCltvDelta > math.MaxUint16-1 {\n",
			Expect: padOb},
		{Name: "f5-request-route-fit-test-only-logs", File: "routing/payment_session.go",
			Old:    fitTest,
			New:    "\tif finalCltvDelta > math.MaxUint16-BlockPadding {\n\t\tlog.Warnf(\"final cltv delta %v too large\", finalCltvDelta)\n\t}\n",
			Expect: padOb},
		{Name: "f5-validate-cltv-limit-widens-after-the-padding", File: "routing/payment_session.go",
			Old:    widened,
			New:    "\tminLimit := uint32(delta)\n\tif includePad {\n\t\tminLimit = uint32(delta + BlockPadding)\n\t}\n",
			Expect: padOb},
		{Name: "f5-validate-cltv-limit-pads-only-a-zero-limit", File: "routing/payment_session.go",
			Old:    "\tif includePad {\n\t\tminLimit += uint32(BlockPadding)\n",
			New:    "\tif includePad && limit == 0 {\n\t\tminLimit += uint32(BlockPadding)\n",
			Expect: padOb},
		{Name: "f5-validate-cltv-limit-accepts-a-limit-equal-to-the-bound", File: "routing/payment_session.go",
			Old:    "\tif limit <= minLimit {\n",
			New:    "\tif limit < minLimit {\n",
			Expect: padOb},

		// seed C19/g
		{Name: "seed4-C19-g-unified-edge-carries-the-last-candidates-inbound-fee", File: "routing/unified_edges.go",
			Old: seedGOld, New: seedGNew, Expect: edgeOb},
		{Name: "f5-adopted-edge-takes-over-each-later-candidates-inbound-fee", File: "routing/unified_edges.go",
			Old:    "\t\toutboundFee := int64(edge.policy.ComputeFee(amt))\n\t\tfee := outboundFee + inboundFee\n",
			New:    "\t\tif bestPolicy != nil {\n\t\t\tbestPolicy.inboundFees = edge.inboundFees\n\t\t}\n\t\toutboundFee := int64(edge.policy.ComputeFee(amt))\n\t\tfee := outboundFee + inboundFee\n",
			Expect: edgeOb},
		{Name: "f5-unified-edge-payload-size-fn-of-the-last-usable-candidate", File: "routing/unified_edges.go",
			Old:    "\t\toutboundFee := int64(edge.policy.ComputeFee(amt))\n\t\tfee := outboundFee + inboundFee\n",
			New:    "\t\thopPayloadSizeFn = edge.hopPayloadSizeFn\n\t\toutboundFee := int64(edge.policy.ComputeFee(amt))\n\t\tfee := outboundFee + inboundFee\n",
			Expect: edgeOb},
		{Name: "f5-local-edge-adopted-without-its-inbound-fee", File: "routing/unified_edges.go",
			Old:    "\t\t\tedge.policy, edge.capacity, edge.inboundFees,\n",
			New:    "\t\t\tedge.policy, edge.capacity, models.InboundFee{},\n",
			Expect: edgeOb},
		{Name: "f5-unified-edge-blinded-payment-dropped", File: "routing/unified_edges.go",
			Old:    "\t\thopPayloadSizeFn, bestPolicy.blindedPayment,\n",
			New:    "\t\thopPayloadSizeFn, nil,\n",
			Expect: edgeOb},

		// seed C19/h
		{Name: "seed4-C19-h-backward-pass-selects-the-edge-without-the-outbound-fee", File: "routing/router.go",
			Old: seedHOld, New: seedHNew, Expect: backOb},
		{Name: "f5-backward-pass-selects-with-no-next-hop-fee", File: "routing/router.go",
			Old:    "\t\t\tnetAmount, bandwidthHints, outboundFee,\n",
			New:    "\t\t\tnetAmount, bandwidthHints, 0,\n",
			Expect: backOb},
		{Name: "f5-backward-pass-fee-of-the-edge-being-selected", File: "routing/router.go",
			Old:    "\t\toutboundFee := unifiedEdges[i+1].policy.ComputeFee(\n",
			New:    "\t\toutboundFee := unifiedEdges[len(unifiers)-1].policy.ComputeFee(\n",
			Expect: backOb},
		{Name: "f5-backward-pass-min-htlc-bump-after-the-fee", File: "routing/router.go",
			Old:    "\t\tnetAmount := incomingAmt + outboundFee\n\n",
			New:    "\t\tif min := edgeUnifier.minAmt(); min > incomingAmt {\n\t\t\tincomingAmt = min\n\t\t}\n\t\tnetAmount := incomingAmt + outboundFee\n\n",
			Expect: backOb},
	}...)
}
