package spec

// Witnesses restoring the shape the repairs e2a7867, b0eb28f, f96f99b,
// 729b294 removed.
func init() {
	registry["C13"].Mutants = append(registry["C13"].Mutants, []Mutant{
		{Name: "fixrev-restored-resolved-contract-stays-in-log", File: "contractcourt/channel_arbitrator.go",
			Old:    "\tif currentContract.IsResolved() {\n\t\tlog.Debugf(\"ChannelArbitrator(%v): contract %T was already \"+",
			New:    "\tif currentContract.IsResolved() && c.cfg.ChanPoint.Index > 1<<30 {\n\t\tlog.Debugf(\"ChannelArbitrator(%v): contract %T was already \"+",
			Expect: "restored-state-is-resumed-not-stranded"},
		{Name: "fixrev-success-resolver-resolution-overwritten", File: "contractcourt/channel_arbitrator.go",
			Old:    "\tcase *htlcSuccessResolver:\n\t\t//nolint:ll\n\t\thtlcResolutions := contractResolutions.HtlcResolutions.IncomingHTLCs\n\t\tfor _, htlcRes := range htlcResolutions {\n\n\t\t\tif r.htlcResolution.ClaimOutpoint ==\n\t\t\t\thtlcRes.ClaimOutpoint {\n\n\t\t\t\tr.htlcResolution = augmentIncomingResolution(\n\t\t\t\t\tr.htlcResolution, htlcRes,\n\t\t\t\t)",
			New:    "\tcase *htlcSuccessResolver:\n\t\t//nolint:ll\n\t\thtlcResolutions := contractResolutions.HtlcResolutions.IncomingHTLCs\n\t\tfor _, htlcRes := range htlcResolutions {\n\n\t\t\tif r.htlcResolution.ClaimOutpoint ==\n\t\t\t\thtlcRes.ClaimOutpoint {\n\n\t\t\t\tr.htlcResolution = htlcRes",
			Expect: "restored-state-is-resumed-not-stranded"},
		{Name: "augmentation-drops-the-restored-preimage", File: "contractcourt/channel_arbitrator.go",
			Old:    "\tonDisk.Preimage = restored.Preimage\n",
			New:    "\tonDisk.Preimage = onDisk.Preimage\n",
			Expect: "restored-state-is-resumed-not-stranded"},
		{Name: "fixrev-late-promoted-output-waits-for-restart", File: "contractcourt/utxonursery.go",
			Old:    "\tif maturityHeight > bestHeight {\n\t\treturn\n\t}\n",
			New:    "\tif maturityHeight > bestHeight || maturityHeight > 0 {\n\t\treturn\n\t}\n",
			Expect: "restored-state-is-resumed-not-stranded"},
		{Name: "best-height-read-after-the-store-call", File: "contractcourt/utxonursery.go",
			Old:    "\tbestHeight := atomic.LoadUint32(&u.bestHeight)\n\n\terr := u.cfg.Store.CribToKinder(baby)\n\tif err != nil {\n\t\tutxnLog.Errorf(\"Unable to move htlc output from \"+\n\t\t\t\"crib to kindergarten bucket: %v\", err)\n\t\treturn\n\t}\n",
			New:    "\terr := u.cfg.Store.CribToKinder(baby)\n\tif err != nil {\n\t\tutxnLog.Errorf(\"Unable to move htlc output from \"+\n\t\t\t\"crib to kindergarten bucket: %v\", err)\n\t\treturn\n\t}\n\tbestHeight := atomic.LoadUint32(&u.bestHeight)\n",
			Expect: "restored-state-is-resumed-not-stranded"},
		{Name: "fixrev-anchor-resolver-supplemented-with-nil", File: "contractcourt/channel_arbitrator.go",
			Old:    "\t\tif chanState != nil {\n\t\t\tanchorResolver.SupplementState(chanState)\n\t\t}\n\n\t\tunresolvedContracts",
			New:    "\t\tanchorResolver.SupplementState(chanState)\n\n\t\tunresolvedContracts",
			Expect: "restored-state-is-resumed-not-stranded"},
	}...)
}
