package chainntnfs_test

import (
	"testing"

	"github.com/btcsuite/btcd/btcutil/v2"
	"github.com/btcsuite/btcd/wire/v2"
	"github.com/lightningnetwork/lnd/chainntnfs"
	"github.com/stretchr/testify/require"
)

func probeBlock(nonce uint32, txs ...*wire.MsgTx) *btcutil.Block {
	return btcutil.NewBlock(&wire.MsgBlock{
		Header:       wire.BlockHeader{Nonce: nonce},
		Transactions: txs,
	})
}

// Suspicion 1: historical conf details that arrive while the set has no client
// (the only one cancelled while the rescan ran) are cached in confSet.details
// but never entered into confsByInitialHeight (that happens per client in
// dispatchConfDetails). When the block is disconnected the cached details
// survive: the confirm hint stays above the height of the real event, the
// re-confirmation at tip is ignored as "address reuse" and a later client is
// served the stale block.
func TestProbe1HistoricalConfDetailsWithoutClientsSurviveReorg(t *testing.T) {
	hintCache := newMockHintCache()
	n := chainntnfs.NewTxNotifier(
		10, chainntnfs.ReorgSafetyLimit, hintCache, hintCache,
	)

	tx := wire.MsgTx{Version: 21}
	tx.AddTxOut(&wire.TxOut{PkScript: testRawScript})
	txHash := tx.TxHash()
	block10 := probeBlock(10, &tx)

	reg1, err := n.RegisterConf(&txHash, testRawScript, 1, 5)
	require.NoError(t, err)
	require.NotNil(t, reg1.HistoricalDispatch)
	req := reg1.HistoricalDispatch.ConfRequest

	// Client goes away while the rescan is running.
	reg1.Event.Cancel()

	// Rescan finds the tx in the tip block 10.
	require.NoError(t, n.UpdateConfDetails(req, &chainntnfs.TxConfirmation{
		Tx:          &tx,
		BlockHash:   block10.Hash(),
		BlockHeight: 10,
	}))

	// Blocks 10 and 9 are reorged out.
	require.NoError(t, n.DisconnectTip(10))
	require.NoError(t, n.DisconnectTip(9))

	hint, err := hintCache.QueryConfirmHint(req)
	require.NoError(t, err)
	require.LessOrEqual(t, hint, uint32(8), "confirm hint while the tx "+
		"is unconfirmed at height 8")

	// The tx is mined again in 9', 10' is empty.
	block9 := probeBlock(1009, &tx)
	require.NoError(t, n.ConnectTip(block9, 9))
	require.NoError(t, n.NotifyHeight(9))
	require.NoError(t, n.ConnectTip(probeBlock(1010), 10))
	require.NoError(t, n.NotifyHeight(10))

	hint, err = hintCache.QueryConfirmHint(req)
	require.NoError(t, err)
	require.LessOrEqual(t, hint, uint32(9), "confirm hint exceeds the "+
		"height the tx confirmed at")

	reg2, err := n.RegisterConf(&txHash, testRawScript, 1, 5)
	require.NoError(t, err)
	select {
	case conf := <-reg2.Event.Confirmed:
		require.Equal(t, uint32(9), conf.BlockHeight)
		require.Equal(t, *block9.Hash(), *conf.BlockHash)
	default:
		t.Fatalf("second client not told of the confirmation in 9'")
	}
}

// Same, the tx does not come back: a later client must not be served the
// disconnected block.
func TestProbe1StaleConfServedToLaterClient(t *testing.T) {
	hintCache := newMockHintCache()
	n := chainntnfs.NewTxNotifier(
		10, chainntnfs.ReorgSafetyLimit, hintCache, hintCache,
	)

	tx := wire.MsgTx{Version: 21}
	tx.AddTxOut(&wire.TxOut{PkScript: testRawScript})
	txHash := tx.TxHash()
	block10 := probeBlock(10, &tx)

	reg1, err := n.RegisterConf(&txHash, testRawScript, 1, 5)
	require.NoError(t, err)
	reg1.Event.Cancel()
	require.NoError(t, n.UpdateConfDetails(
		reg1.HistoricalDispatch.ConfRequest, &chainntnfs.TxConfirmation{
			Tx:          &tx,
			BlockHash:   block10.Hash(),
			BlockHeight: 10,
		},
	))

	require.NoError(t, n.DisconnectTip(10))
	require.NoError(t, n.ConnectTip(probeBlock(1010), 10))
	require.NoError(t, n.NotifyHeight(10))

	reg2, err := n.RegisterConf(&txHash, testRawScript, 1, 5)
	require.NoError(t, err)
	select {
	case conf := <-reg2.Event.Confirmed:
		t.Fatalf("second client told tx confirmed in stale block %v "+
			"height %d", conf.BlockHash, conf.BlockHeight)
	default:
	}
}

// A request whose details were adopted without clients is pruned once its
// block is reorg safe, like any other.
func TestProbe1ClientlessConfSetIsPruned(t *testing.T) {
	hintCache := newMockHintCache()
	n := chainntnfs.NewTxNotifier(10, 5, hintCache, hintCache)

	tx := wire.MsgTx{Version: 21}
	tx.AddTxOut(&wire.TxOut{PkScript: testRawScript})
	txHash := tx.TxHash()

	reg1, err := n.RegisterConf(&txHash, testRawScript, 1, 5)
	require.NoError(t, err)
	req := reg1.HistoricalDispatch.ConfRequest
	reg1.Event.Cancel()
	require.NoError(t, n.UpdateConfDetails(req, &chainntnfs.TxConfirmation{
		Tx:          &tx,
		BlockHash:   probeBlock(10, &tx).Hash(),
		BlockHeight: 10,
	}))

	for h := uint32(11); h <= 15; h++ {
		require.NoError(t, n.ConnectTip(probeBlock(h), h))
		require.NoError(t, n.NotifyHeight(h))
	}

	// The set is gone: UpdateConfDetails reports the request as unknown.
	require.Error(t, n.UpdateConfDetails(req, nil))
}
