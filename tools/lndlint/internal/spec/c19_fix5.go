package spec

import (
	"go/ast"
	"go/constant"
	"go/token"
	"go/types"
	"math"
	"strings"

	"lndlint/internal/an"
	"lndlint/internal/flow"
)

func init() {
	specExtras["C19"] = append(specExtras["C19"], c19f5Repairs)
}

// c19f5FieldWritesIn lists, per function of the given packages, the statements
// that write the field named field of a value of the named type owner (an
// assignment, op-assignment or inc/dec whose left side selects the field).
func c19f5FieldWritesIn(p *an.Prog, owner, field string, pkgs ...string) []an.Site {
	var out []an.Site
	for _, f := range p.Funcs(false, pkgs...) {
		out = append(out, f.Assigns(an.Field(owner, field, nil), false)...)
	}
	return out
}

// c19f5BaseObj returns the variable x of a left side `x.field`.
func c19f5BaseObj(f *an.Func, lhs ast.Expr) types.Object {
	sel, ok := ast.Unparen(lhs).(*ast.SelectorExpr)
	if !ok {
		return nil
	}
	return c19VarObj(f, an.Strip(f.Info(), sel.X))
}

func c19f5Repairs(r *an.Run) {
	p := r.Prog

	// repair 4486351
	r.Obl("outgoing-channel-restriction-follows-the-source-of-the-search", "WHO",
		"the node an outgoing-channel restriction applies to (nodeEdgeUnifier.outChanRestrNode) starts, in newNodeEdgeUnifier, as the unifier's source node (the same parameter that fills sourceNode) next to the restriction map handed in; the only other writer of that field in routing is findPath, which sets it, for every unifier it creates, to its own source parameter (never reassigned) before the unifier receives a policy or is read; the fields sourceNode and outChanRestr are written nowhere but in the constructor's literal",
		"findPath searches from a source that is not necessarily self (QueryRoutes with a source key): a restriction tied to self does not constrain the first hop of such a route at all and removes self's other channels from the middle of it; a restriction node set after the policies were added, or overwritten by somebody else, filters the wrong node's channels", 10,
		func(o *an.Obl) {
			const ut = "routing.nodeEdgeUnifier"
			ctor := p.Func(rt + "newNodeEdgeUnifier")
			notReassigned(o, ctor, "sourceNode", "toNode", "outChanRestr")
			nLit := 0
			for _, cl := range p.CompositeLitsOf(p.LookupType("routing", "nodeEdgeUnifier")) {
				if cl.Fn == nil {
					continue
				}
				lit := cl.Node.(*ast.CompositeLit)
				if cl.Fn.Root().ID != ctor.ID {
					o.FailAt(cl.Fn.Root().ID+"#unifier-built-outside-the-constructor", cl.Where, "a nodeEdgeUnifier is built outside newNodeEdgeUnifier: the node its restriction applies to is not known to be its source")
					continue
				}
				nLit++
				for k, want := range map[string]string{"sourceNode": "$p0", "outChanRestrNode": "$p0", "outChanRestr": "$p3", "toNode": "$p1"} {
					got := ""
					if v := c19f4KV(lit, k); v != nil {
						got = ctor.Canon(v)
					}
					o.Site("newNodeEdgeUnifier: %s: %s", k, got)
					if got != want {
						o.FailAt(ctor.ID+"#"+k, cl.Where, "a new unifier's %s is %q, expected the constructor's parameter %s", k, got, want)
					}
				}
			}
			if nLit != 1 {
				o.FailAt(ctor.ID+"#literal", ctor.Where(ctor.Body.Pos()), "expected one nodeEdgeUnifier literal in newNodeEdgeUnifier, found %d", nLit)
			}
			for _, fld := range []string{"sourceNode", "outChanRestr"} {
				for _, w := range c19f5FieldWritesIn(p, ut, fld, "routing") {
					o.FailAt(w.Fn.Root().ID+"#writes-"+fld, w.Where(), "%s rewrites the unifier's %s after construction", w.String(), fld)
				}
			}

			fp := p.Func(rt + "findPath")
			notReassigned(o, fp, "source", "self")
			ws := c19f5FieldWritesIn(p, ut, "outChanRestrNode", "routing")
			byObj := map[types.Object][]an.Site{}
			for _, w := range ws {
				as, ok := w.Node.(*ast.AssignStmt)
				if w.Fn != fp || !ok || as.Tok != token.ASSIGN || len(as.Lhs) != 1 || len(as.Rhs) != 1 {
					o.FailAt(w.Fn.Root().ID+"#writes-outChanRestrNode", w.Where(), "%s writes the node the outgoing channel restriction applies to; only findPath (to its source) and the constructor (to the unifier's source node) may", w.String())
					continue
				}
				o.Site("findPath: %s", an.Text(as))
				if c := fp.Canon(as.Rhs[0]); c != "$p4" {
					o.FailAt(fp.ID+"#restriction-node", w.Where(), "findPath ties the outgoing channel restriction to %s, expected the source of the search (the node the first hop leaves)", c)
				}
				if obj := c19f5BaseObj(fp, as.Lhs[0]); obj != nil {
					byObj[obj] = append(byObj[obj], w)
				} else {
					o.FailAt(fp.ID+"#restriction-node-target", w.Where(), "%s: cannot tell which unifier is written", an.Text(as))
				}
			}
			nUnifiers := 0
			for _, s := range fp.Calls(an.CalleeIs(rt+"newNodeEdgeUnifier"), false) {
				nUnifiers++
				// the variable the unifier is bound to
				var obj types.Object
				ast.Inspect(fp.Body, func(n ast.Node) bool {
					if as, ok := n.(*ast.AssignStmt); ok && len(as.Lhs) == 1 && len(as.Rhs) == 1 && ast.Unparen(as.Rhs[0]) == s.Node {
						obj = c19VarObj(fp, as.Lhs[0])
					}
					return true
				})
				if obj == nil {
					o.FailAt(fp.ID+"#unifier-unbound", s.Where(), "%s is not bound to a variable", s.String())
					continue
				}
				sets := byObj[obj]
				if len(sets) == 0 {
					o.FailAt(fp.ID+"#restriction-node-not-set", s.Where(), "findPath does not tie the restriction of the unifier created at %s to the source of the search: it stays with %s, the node local channels belong to", s.Where(), an.Text(callArg(s, 0)))
					continue
				}
				// every use of the unifier comes after
				var uses []an.Site
				for _, v := range fp.Graph().V {
					v.Inspect(false, func(n ast.Node) bool {
						sel, ok := n.(*ast.SelectorExpr)
						if !ok || c19VarObj(fp, an.Strip(fp.Info(), sel.X)) != obj || sel.Sel.Name == "outChanRestrNode" {
							return true
						}
						uses = append(uses, an.Site{Fn: fp, V: v, Node: sel})
						return true
					})
				}
				before(o, fp, "the restriction node being set to the source", sets, "use of the unifier", uses)
			}
			if nUnifiers < 1 {
				o.FailAt(fp.ID+"#unifier", fp.Where(fp.Body.Pos()), "findPath creates no edge unifier")
			}
		})

	c19f5BuildRoute(r)
	c19f5OutboundFee(r)
	c19f5PaddedDelta(r)
	c19f5UnifiedEdge(r)
	c19f5BackwardPass(r)
}

// c19f5Ident returns the identifier an expression is once parentheses and
// conversions are removed, with the variable it names.
func c19f5Ident(f *an.Func, e ast.Expr) (*ast.Ident, types.Object) {
	if e == nil {
		return nil, nil
	}
	id, ok := an.Strip(f.Info(), e).(*ast.Ident)
	if !ok {
		return nil, nil
	}
	return id, c19VarObj(f, id)
}

// c19f5Var is the term "the variable obj".
func c19f5Var(obj types.Object) an.Term {
	return func(f *an.Func, e ast.Expr) bool {
		id, ok := e.(*ast.Ident)
		return ok && obj != nil && c19VarObj(f, id) == obj
	}
}

// c19f5BoundTo returns the variables the results of the call at s are bound
// to (`a, b := call` / `a, b = call` / `var a, b = call`).
func c19f5BoundTo(f *an.Func, s an.Site) []types.Object {
	var out []types.Object
	ast.Inspect(f.Body, func(n ast.Node) bool {
		switch x := n.(type) {
		case *ast.AssignStmt:
			if len(x.Rhs) == 1 && ast.Unparen(x.Rhs[0]) == s.Node {
				for _, l := range x.Lhs {
					out = append(out, c19VarObj(f, l))
				}
			}
		case *ast.ValueSpec:
			if len(x.Values) == 1 && ast.Unparen(x.Values[0]) == s.Node {
				for _, l := range x.Names {
					out = append(out, c19VarObj(f, l))
				}
			}
		}
		return true
	})
	return out
}

// c19f5RangeHead returns the flow vertex of the range statement and the first
// vertex of its body.
func c19f5RangeHead(f *an.Func, rs *ast.RangeStmt) (head, body *an.FlowVertex) {
	for _, v := range f.Graph().V {
		if v.Kind == flow.KRange && v.Node == rs {
			head = v
			for _, e := range v.Out {
				if e.Kind == flow.ERangeIn {
					body = e.To
				}
			}
		}
	}
	return head, body
}

// repair 7f5898b
func c19f5BuildRoute(r *an.Run) {
	p := r.Prog
	r.Obl("build-route-rechecks-the-amounts-the-built-route-carries", "PATH",
		"ChannelRouter.BuildRoute returns the route newRoute built (bound to one variable, never reassigned) only below `an amount was given` (amt.IsNone() false) or after a loop over the very edges newRoute was handed ran to exhaustion; every iteration of that loop reaches the next one only through a true edge of <that edge>.amtInRange(running amount); the loop is left early by a failing return only; the running amount is one local that starts as the route's TotalAmount and, after the check of edge i, becomes Hops[i].AmtToForward of the same route (i being the loop's key): edge 0 is tested for the route total, edge i for what hop i-1 forwards; the edge list is not reassigned between newRoute and the loop",
		"without a fixed amount the route is produced by a third pass (newRoute on the rounded receiver amount of the forward pass) that can end 1 msat above what the backward and forward passes checked: a hop of the returned route then exceeds the max_htlc (or capacity) of its channel and the payment fails there", 10,
		func(o *an.Obl) {
			f := p.Func("routing.ChannelRouter.BuildRoute")
			key := f.ID
			nr := f.Calls(an.CalleeIs("routing.newRoute"), false)
			if !needExactly(o, f, "newRoute call", nr, 1) {
				return
			}
			bound := c19f5BoundTo(f, nr[0])
			if len(bound) != 2 || bound[0] == nil {
				o.FailAt(key+"#route-returned-unchecked", nr[0].Where(), "the route newRoute builds is not bound to a variable: it is handed out with the amounts nobody compared with the channels' limits")
				return
			}
			rtObj := bound[0]
			for _, d := range c19f4ValueDefs(f, rtObj) {
				if as, ok := d.Node.(*ast.AssignStmt); !ok || len(as.Rhs) != 1 || ast.Unparen(as.Rhs[0]) != nr[0].Node {
					o.FailAt(key+"#route-reassigned", f.Where(d.Node.Pos()), "%s %s replaces the route that is checked below", rtObj.Name(), d.form())
				}
			}
			_, edgesObj := c19f5Ident(f, callArg(nr[0], 1))
			if edgesObj == nil {
				o.FailAt(key+"#edges", nr[0].Where(), "newRoute is handed %s: expected the edge list as a variable", an.Text(callArg(nr[0], 1)))
				return
			}
			// the loop over those edges
			var loops []*ast.RangeStmt
			ast.Inspect(f.Body, func(n ast.Node) bool {
				if _, isLit := n.(*ast.FuncLit); isLit {
					return false
				}
				if rs, ok := n.(*ast.RangeStmt); ok {
					if _, xo := c19f5Ident(f, rs.X); xo == edgesObj && ast.Unparen(rs.X) == an.Strip(f.Info(), rs.X) {
						loops = append(loops, rs)
					}
				}
				return true
			})
			if len(loops) != 1 {
				o.FailAt(key+"#recheck-loop", nr[0].Where(), "expected one loop over %s (the edges of the built route) after newRoute, found %d: the amounts the route really carries are not compared with the channels' limits", edgesObj.Name(), len(loops))
				return
			}
			loop := loops[0]
			head, body := c19f5RangeHead(f, loop)
			if head == nil || body == nil {
				o.FailAt(key+"#recheck-loop-shape", f.Where(loop.Pos()), "cannot find the loop in the flow graph")
				return
			}
			o.Site("BuildRoute: loop over %s at %s", an.Text(loop.X), f.Where(loop.Pos()))
			if !f.Before(nr, an.Site{Fn: f, V: head, Node: loop}) {
				o.FailAt(key+"#loop-before-the-route", f.Where(loop.Pos()), "the loop runs before newRoute built the route")
			}
			g := f.Graph()
			for _, d := range c19f4ValueDefs(f, edgesObj) {
				if ds := d.site(); ds.V != nil && g.Reach(nr[0].V, nil, nil)[ds.V] {
					o.FailAt(key+"#edges-reassigned", ds.Where(), "%s changes the edge list after newRoute used it: the loop tests other edges than the route's", ds.String())
				}
			}
			_, keyObj := c19f5Ident(f, loop.Key)
			_, elemObj := c19f5Ident(f, loop.Value)
			var checks []an.Site
			for _, s := range f.Calls(an.CalleeIs(rt+"unifiedEdge.amtInRange"), false) {
				if s.Node.Pos() >= loop.Body.Pos() && s.Node.End() <= loop.Body.End() {
					checks = append(checks, s)
				}
			}
			if !needExactly(o, f, "amtInRange call in the loop", checks, 1) {
				return
			}
			chk := checks[0]
			sel, _ := ast.Unparen(chk.Node.(*ast.CallExpr).Fun).(*ast.SelectorExpr)
			if sel == nil || elemObj == nil || c19VarObj(f, ast.Unparen(sel.X)) != elemObj {
				o.FailAt(key+"#checked-edge", chk.Where(), "%s: expected the range check of the edge of this iteration", an.Text(chk.Node))
			}
			_, amtObj := c19f5Ident(f, callArg(chk, 0))
			if amtObj == nil || ast.Unparen(callArg(chk, 0)) != an.Strip(f.Info(), callArg(chk, 0)) {
				o.FailAt(key+"#checked-amount", chk.Where(), "%s: expected the running amount (a local) unchanged", an.Text(chk.Node))
				return
			}
			// the running amount
			isRouteField := func(e ast.Expr, field string) bool {
				s, ok := ast.Unparen(e).(*ast.SelectorExpr)
				return ok && s.Sel.Name == field && c19VarObj(f, ast.Unparen(s.X)) == rtObj
			}
			nStart, nNext := 0, 0
			for _, d := range c19f4ValueDefs(f, amtObj) {
				ds := d.site()
				inLoop := d.Node.Pos() >= loop.Body.Pos() && d.Node.End() <= loop.Body.End()
				simple := d.Rhs != nil && (d.Tok == "=" || d.Tok == ":=" || d.Tok == "var") && d.Fn == f && ds.V != nil
				o.Site("BuildRoute: running amount %s %s (in loop: %v)", amtObj.Name(), d.form(), inLoop)
				switch {
				case simple && !inLoop && isRouteField(d.Rhs, "TotalAmount"):
					nStart++
					before(o, f, "the running amount starting as the route total", []an.Site{ds}, "the range check", checks)
				case simple && inLoop:
					// <rt>.Hops[<key>].AmtToForward
					ok := false
					if s, isSel := ast.Unparen(d.Rhs).(*ast.SelectorExpr); isSel && s.Sel.Name == "AmtToForward" {
						if ix, isIx := ast.Unparen(s.X).(*ast.IndexExpr); isIx && isRouteField(ix.X, "Hops") {
							_, io := c19f5Ident(f, ix.Index)
							ok = io != nil && io == keyObj && ast.Unparen(ix.Index) == an.Strip(f.Info(), ix.Index)
						}
					}
					if !ok {
						o.FailAt(key+"#next-amount", ds.Where(), "%s %s: after edge i was checked the running amount must become what hop i of the built route forwards", amtObj.Name(), d.form())
						continue
					}
					nNext++
					// the check of this edge sees the previous hop's amount
					if g.Reach(body, nil, map[*an.FlowVertex]bool{chk.V: true, head: true})[ds.V] {
						o.FailAt(key+"#amount-moved-before-the-check", ds.Where(), "%s can run before %s in one iteration: edge i would be tested for the amount hop i forwards over the next edge", ds.String(), an.Text(chk.Node))
					}
					if g.Reach(body, nil, map[*an.FlowVertex]bool{ds.V: true, head: true})[head] {
						o.FailAt(key+"#amount-not-moved", ds.Where(), "an iteration can complete without %s: the next edge is tested for a stale amount", ds.String())
					}
				default:
					o.FailAt(key+"#running-amount", f.Where(d.Node.Pos()), "%s %s: the running amount is expected to start as the route's TotalAmount and to become Hops[i].AmtToForward in the loop, nothing else", amtObj.Name(), d.form())
				}
			}
			if nStart != 1 || nNext != 1 {
				o.FailAt(key+"#running-amount-defs", chk.Where(), "the running amount %s starts as the route total %d times and moves on to the hop's forwarded amount %d times, expected 1 and 1", amtObj.Name(), nStart, nNext)
			}
			// an iteration continues only with an amount in range
			okEdges := f.EdgesOf(an.Truth(an.CallTo(rt+"unifiedEdge.amtInRange", c19f5Var(elemObj), c19f5Var(amtObj)), true, "amount in range"))
			o.Site("BuildRoute: %d edges establish `the amount is in range`", len(okEdges))
			if len(okEdges) == 0 || g.Reach(body, okEdges, map[*an.FlowVertex]bool{head: true})[head] {
				o.FailAt(key+"#iteration-without-range-check", chk.Where(), "an iteration of the loop over the route's edges can complete although %s did not hold", an.Text(chk.Node))
			}
			loopVisitsAll(o, f, "^"+regexpQuote(f.Canon(loop.X))+"$")
			// the route is handed out only checked
			done := an.Fact{Desc: "every edge of the route was checked", Hold: func(_ *an.Func, e *flow.Edge) bool {
				return e.From == head && e.Kind == flow.ERangeDone
			}}
			given := an.Truth(an.CallNamed("IsNone", an.Param(0)), false, "an amount was given")
			nRet := 0
			for _, s := range f.Returns() {
				rs, ok := s.Node.(*ast.ReturnStmt)
				if !ok || len(rs.Results) != 2 || an.IsNilIdent(f.Info(), rs.Results[0]) {
					continue
				}
				nRet++
				if _, ro := c19f5Ident(f, rs.Results[0]); ro != rtObj {
					o.FailAt(key+"#returned-route", s.Where(), "BuildRoute returns %s, which is not the route that was checked", an.Text(rs.Results[0]))
					continue
				}
				guarded(o, f, s, an.AnyOf("an amount was given, or every edge of the route was checked", given, done))
			}
			if nRet == 0 {
				o.FailAt(key+"#no-route-returned", f.Where(f.Body.Pos()), "cannot find the return of the built route")
			}
			notReassigned(o, f, "amt")
		})
}

// repair 103e77f
func c19f5OutboundFee(r *an.Run) {
	p := r.Prog
	r.Obl("outbound-fee-is-computed-without-wrapping", "BOUND",
		"CachedEdgePolicy.ComputeFee and ChannelEdgePolicy.ComputeFee return models.computeFee(own FeeBaseMSat, own FeeProportionalMillionths, amt); computeFee takes the product of amount and rate with bits.Mul64, divides the 128-bit product by feeRateParts with bits.Div64 only below high word < feeRateParts, adds the base fee with bits.Add64 and returns that sum only below carry == 0 and sum <= the saturation value; every other return is the saturation constant, which is at least the total supply in msat and at most MaxInt64 (callers convert fees to int64); graph/db/models holds no other non-constant integer product",
		"the fee rate is a 32-bit value set by the remote node: amt*rate in 64 bits wraps for large amounts or rates and yields a fee far below what the hop's policy demands, so the returned route underpays that node", 11,
		func(o *an.Obl) {
			const models = "graph/db/models"
			for _, id := range []string{models + ".CachedEdgePolicy.ComputeFee", models + ".ChannelEdgePolicy.ComputeFee"} {
				g := p.Func(id)
				rets := g.Returns()
				need(o, g, "return", rets, 1)
				for _, s := range rets {
					rs, ok := s.Node.(*ast.ReturnStmt)
					c := ""
					if ok && len(rs.Results) == 1 {
						c = g.Canon(rs.Results[0])
					}
					o.Site("%s returns %s", id, c)
					if c != models+".computeFee($recv.FeeBaseMSat, $recv.FeeProportionalMillionths, $p0)" {
						o.FailAt(id+"#fee", s.Where(), "%s returns %s, expected the shared saturating computeFee(base, rate, amt) on its own policy terms", id, c)
					}
				}
			}
			// no plain product left
			for _, g := range p.Funcs(false, models) {
				info := g.Info()
				isInt := func(e ast.Expr) bool {
					t := info.TypeOf(e)
					if t == nil {
						return false
					}
					b, ok := t.Underlying().(*types.Basic)
					return ok && b.Info()&types.IsInteger != 0
				}
				ast.Inspect(g.Body, func(n ast.Node) bool {
					switch x := n.(type) {
					case *ast.BinaryExpr:
						if tv := info.Types[x]; x.Op == token.MUL && tv.Value == nil && isInt(x) {
							o.FailAt(g.Root().ID+"#plain-product", g.Where(x.Pos()), "%s multiplies in the width of its operands: a product of an amount and a rate wraps around (use bits.Mul64 and saturate)", an.Text(x))
						}
					case *ast.AssignStmt:
						if x.Tok == token.MUL_ASSIGN && isInt(x.Lhs[0]) {
							o.FailAt(g.Root().ID+"#plain-product", g.Where(x.Pos()), "%s multiplies in the width of its operands", an.Text(x))
						}
					}
					return true
				})
			}
			cf := p.Func(models + ".computeFee")
			key := cf.ID
			var names []string
			for _, pv := range cf.Params(false) {
				names = append(names, pv.Name())
			}
			notReassigned(o, cf, names...)
			one := func(id string) (an.Site, bool) {
				cs := cf.Calls(an.CalleeIs(id), false)
				if !needExactly(o, cf, id, cs, 1) {
					return an.Site{}, false
				}
				return cs[0], true
			}
			mul, ok1 := one("math/bits.Mul64")
			div, ok2 := one("math/bits.Div64")
			add, ok3 := one("math/bits.Add64")
			if !ok1 || !ok2 || !ok3 {
				return
			}
			strip := func(e ast.Expr) string { return cf.Canon(an.Strip(cf.Info(), e)) }
			if a, b := strip(callArg(mul, 0)), strip(callArg(mul, 1)); !(a == "$p2" && b == "$p1") && !(a == "$p1" && b == "$p2") {
				o.FailAt(key+"#product", mul.Where(), "the 128-bit product is taken of (%s, %s), expected the amount and the rate", a, b)
			}
			prod := c19f5BoundTo(cf, mul)
			if len(prod) != 2 || prod[0] == nil || prod[1] == nil {
				o.FailAt(key+"#product-unbound", mul.Where(), "both words of the product must be kept")
				return
			}
			parts := p.LookupObj(models, "feeRateParts").(*types.Const)
			partsVal, _ := constant.Int64Val(constant.ToInt(parts.Val()))
			_, d0 := c19f5Ident(cf, callArg(div, 0))
			_, d1 := c19f5Ident(cf, callArg(div, 1))
			if d0 != prod[0] || d1 != prod[1] || !an.IntConst(partsVal)(cf, callArg(div, 2)) {
				o.FailAt(key+"#quotient", div.Where(), "%s: expected the product's high and low word divided by feeRateParts", an.Text(div.Node))
			}
			guarded(o, cf, div, an.CmpX(c19f5Var(prod[0]), an.LT, an.IntConst(partsVal), "high word < feeRateParts (the quotient fits 64 bits)"))
			quo := c19f5BoundTo(cf, div)
			sum := c19f5BoundTo(cf, add)
			if len(quo) != 2 || quo[0] == nil || len(sum) != 2 || sum[0] == nil || sum[1] == nil {
				o.FailAt(key+"#sum-unbound", add.Where(), "the quotient, the sum and its carry must be kept")
				return
			}
			_, a1 := c19f5Ident(cf, callArg(add, 1))
			if strip(callArg(add, 0)) != "$p0" || a1 != quo[0] || !an.IntConst(0)(cf, callArg(add, 2)) {
				o.FailAt(key+"#sum", add.Where(), "%s: expected the base fee plus the proportional fee with no carry in", an.Text(add.Node))
			}
			// returns
			supply := constant.MakeInt64(int64(c19f5MaxSatoshi) * 1000)
			maxI64 := constant.MakeInt64(math.MaxInt64)
			var sat constant.Value
			nSum := 0
			for _, s := range cf.Returns() {
				rs, ok := s.Node.(*ast.ReturnStmt)
				if !ok || len(rs.Results) != 1 {
					continue
				}
				if tv := cf.Info().Types[rs.Results[0]]; tv.Value != nil {
					v := constant.ToInt(tv.Value)
					o.Site("computeFee saturates at %s", v.ExactString())
					if constant.Compare(v, token.LSS, supply) || constant.Compare(v, token.GTR, maxI64) {
						o.FailAt(key+"#saturation-value", s.Where(), "computeFee saturates at %s: expected a value of at least the total supply in msat (no payable fee is cut) and at most MaxInt64 (callers convert fees to int64)", v.ExactString())
					}
					if sat != nil && !constant.Compare(sat, token.EQL, v) {
						o.FailAt(key+"#saturation-values-differ", s.Where(), "computeFee saturates at two different values")
					}
					sat = v
					continue
				}
				_, ro := c19f5Ident(cf, rs.Results[0])
				if ro != sum[0] {
					o.FailAt(key+"#result", s.Where(), "computeFee returns %s, expected the checked sum or the saturation value", an.Text(rs.Results[0]))
					continue
				}
				nSum++
				guarded(o, cf, s, an.CmpX(c19f5Var(sum[1]), an.EQ, an.IntConst(0), "carry == 0"))
				if sat != nil {
					sv, _ := constant.Int64Val(sat)
					guarded(o, cf, s, an.CmpX(c19f5Var(sum[0]), an.LE, an.IntConst(sv), "sum <= saturation value"))
				}
			}
			if nSum != 1 || sat == nil {
				o.FailAt(key+"#returns", cf.Where(cf.Body.Pos()), "expected one return of the checked sum and saturating returns in computeFee, found %d", nSum)
			}
		})
}

// btcutil.MaxSatoshi: the total supply in satoshis.
const c19f5MaxSatoshi = 21e6 * 1e8

// repair 7d3042d
func c19f5PaddedDelta(r *an.Run) {
	p := r.Prog
	r.Obl("final-delta-plus-padding-does-not-wrap-16-bits", "BOUND",
		"routing.ValidateCLTVLimit succeeds only below limit > bound, where bound is one 32-bit local that starts as the delta widened to uint32 and grows by BlockPadding (widened) exactly when includePad is set; the function holds no non-constant 16-bit addition and does not reassign its parameters; every non-constant 16-bit addition with BlockPadding as an operand in routing and lnrpc/routerrpc is dominated by `other operand <= MaxUint16 - BlockPadding`, and the operand is not changed between that test and the addition",
		"final_cltv_delta comes from the invoice: 65533..65535 plus the padding of 3 wraps to 0..2, so the limit validation passes for a limit the padded delta exceeds and RequestRoute hands the final hop next to no blocks while reserving next to nothing below the payment's CLTV limit", 8,
		func(o *an.Obl) {
			pad, _ := p.LookupObj("routing", "BlockPadding").(*types.Const)
			if pad == nil {
				o.FailAt("routing.BlockPadding#const", "", "routing.BlockPadding is not a constant any more")
				return
			}
			padVal, _ := constant.Int64Val(constant.ToInt(pad.Val()))
			isU16 := func(g *an.Func, e ast.Expr) bool {
				t := g.Info().TypeOf(e)
				if t == nil {
					return false
				}
				b, ok := t.Underlying().(*types.Basic)
				return ok && b.Kind() == types.Uint16
			}
			isPad := func(g *an.Func, e ast.Expr) bool {
				id, _ := c19f5Ident(g, e)
				if sel, ok := an.Strip(g.Info(), e).(*ast.SelectorExpr); ok {
					id = sel.Sel
				}
				return id != nil && g.Info().Uses[id] == pad
			}
			// 16-bit additions: (function, node, operands)
			type add16 struct {
				g    *an.Func
				n    ast.Node
				x, y ast.Expr
			}
			adds := func(g *an.Func) []add16 {
				var out []add16
				ast.Inspect(g.Body, func(n ast.Node) bool {
					switch x := n.(type) {
					case *ast.FuncLit:
						return false
					case *ast.BinaryExpr:
						if tv := g.Info().Types[x]; x.Op == token.ADD && tv.Value == nil && isU16(g, x) {
							out = append(out, add16{g, x, x.X, x.Y})
						}
					case *ast.AssignStmt:
						if x.Tok == token.ADD_ASSIGN && isU16(g, x.Lhs[0]) {
							out = append(out, add16{g, x, x.Lhs[0], x.Rhs[0]})
						}
					case *ast.IncDecStmt:
						if x.Tok == token.INC && isU16(g, x.X) {
							out = append(out, add16{g, x, x.X, nil})
						}
					}
					return true
				})
				return out
			}

			v := p.Func("routing.ValidateCLTVLimit")
			notReassigned(o, v, "limit", "delta", "includePad")
			for _, a := range adds(v) {
				o.FailAt(v.ID+"#16-bit-addition", v.Where(a.n.Pos()), "%s adds in 16 bits: a delta close to the maximum wraps around to a small value and the limit test passes", an.Text(a.n))
			}
			// the bound the limit is compared with
			var boundObj types.Object
			nCmp := 0
			for _, fv := range v.Graph().V {
				be, ok := fv.Node.(*ast.BinaryExpr)
				if !ok || fv.Kind != flow.KCond {
					continue
				}
				for _, pair := range [][2]ast.Expr{{be.X, be.Y}, {be.Y, be.X}} {
					if an.Param(0)(v, ast.Unparen(pair[0])) {
						nCmp++
						_, boundObj = c19f5Ident(v, pair[1])
						if boundObj != nil && ast.Unparen(pair[1]) != an.Strip(v.Info(), pair[1]) {
							boundObj = nil // a narrowing conversion around the bound
						}
					}
				}
			}
			if nCmp != 1 || boundObj == nil {
				o.FailAt(v.ID+"#comparison", v.Where(v.Body.Pos()), "expected one comparison of the limit with a local bound in ValidateCLTVLimit, found %d", nCmp)
				return
			}
			if b, ok := boundObj.Type().Underlying().(*types.Basic); !ok || b.Kind() != types.Uint32 {
				o.FailAt(v.ID+"#bound-width", v.Where(boundObj.Pos()), "the bound %s has type %s, expected uint32 (the width of the limit)", boundObj.Name(), boundObj.Type())
			}
			var pads []an.Site
			nStart := 0
			for _, d := range c19f4ValueDefs(v, boundObj) {
				ds := d.site()
				o.Site("ValidateCLTVLimit: bound %s %s", boundObj.Name(), d.form())
				wide := d.Rhs != nil && !isU16(v, d.Rhs)
				switch {
				case d.Rhs != nil && d.Tok != "+=" && wide && v.Canon(an.Strip(v.Info(), d.Rhs)) == "$p1":
					nStart++
				case d.Rhs != nil && d.Tok == "+=" && wide && isPad(v, d.Rhs):
					pads = append(pads, ds)
					guarded(o, v, ds, an.Truth(an.Param(2), true, "includePad"))
				default:
					o.FailAt(v.ID+"#bound", v.Where(d.Node.Pos()), "%s %s: the bound must start as the widened delta and grow by the widened BlockPadding only", boundObj.Name(), d.form())
				}
			}
			if nStart != 1 || len(pads) != 1 {
				o.FailAt(v.ID+"#bound-defs", v.Where(v.Body.Pos()), "the bound starts as the delta %d times and receives the padding %d times, expected 1 and 1", nStart, len(pads))
			}
			var succ []an.Site
			for _, s := range v.Returns() {
				if rs, ok := s.Node.(*ast.ReturnStmt); ok && len(rs.Results) == 1 && an.IsNilIdent(v.Info(), rs.Results[0]) {
					succ = append(succ, s)
				}
			}
			if need(o, v, "success return", succ, 1) {
				for _, s := range succ {
					guarded(o, v, s, an.CmpX(an.Param(0), an.GT, c19f5Var(boundObj), "limit > bound"))
				}
				if len(pads) > 0 {
					mustDoUnless(o, v, "adding the padding to the bound", pads, succ, an.Truth(an.Param(2), false, "padding not asked for"))
				}
			}

			// padded 16-bit deltas elsewhere
			nPadded := 0
			for _, g := range p.Funcs(false, "routing", "lnrpc/routerrpc") {
				if g.Root().ID == v.ID {
					continue
				}
				for _, a := range adds(g) {
					var other ast.Expr
					switch {
					case a.y != nil && isPad(g, a.y):
						other = a.x
					case a.y != nil && isPad(g, a.x):
						other = a.y
					default:
						continue
					}
					nPadded++
					st := c19SiteFor(g, a.n)
					o.Site("%s: %s", g.ID, an.Text(a.n))
					_, oo := c19f5Ident(g, other)
					if st.V == nil {
						continue
					}
					var term an.Term = c19f4Same(other)
					if oo != nil {
						term = c19f5Var(oo)
					}
					fits := an.CmpX(term, an.LE, an.IntConst(math.MaxUint16-padVal), "delta <= MaxUint16 - BlockPadding")
					guarded(o, g, st, fits)
					if oo == nil {
						continue
					}
					es := g.EdgesOf(fits)
					for _, d := range c19f4ValueDefs(g, oo) {
						ds := d.site()
						if ds.V == nil || ds.V == st.V || d.Fn != g {
							continue
						}
						// a definition after the test that still reaches the addition
						for e := range es {
							if g.Graph().Reach(e.To, nil, map[*an.FlowVertex]bool{st.V: true})[ds.V] && g.Graph().Reach(ds.V, nil, nil)[st.V] {
								o.FailAt(g.Root().ID+"#delta-changed-after-the-test", ds.Where(), "%s changes %s between the test against MaxUint16 - BlockPadding and the addition of the padding", ds.String(), oo.Name())
							}
						}
					}
				}
			}
			if nPadded < 1 {
				o.FailAt("routing.BlockPadding#padded-delta", "", "found no 16-bit delta that receives BlockPadding: RequestRoute is expected to pad the payment's final delta")
			}
		})
}

// round-4 seed C19/g
func c19f5UnifiedEdge(r *an.Run) {
	p := r.Prog
	r.Obl("unified-edge-fields-come-from-the-one-adopted-candidate", "MIRROR",
		"in edgeUnifier.getEdgeLocal and getEdgeNetwork the edge adopted in the loop over the unifier's edges is built from the loop element alone: its policy, inbound fees and blinded payment (local channels: capacity and payload size function too) are the element's fields of the same name; getEdgeLocal returns that edge; the edge getEdgeNetwork returns is built from the adopted one: the policy is a copy of the adopted policy on which only TimeLockDelta is rewritten, inbound fees and blinded payment are the adopted edge's fields of the same name, and the payload size function is the adopted edge's or a local that receives the element's payload size function under exactly the conditions of the adoption; only the capacity (and the time lock written into the copy) are connection-wide maxima",
		"the unified edge names one channel (policy.ChannelID goes into the onion): findPath and newRoute price the hop with the inbound fee it carries; an inbound fee remembered from another candidate of the same node pair pays the receiving node the fee of a channel the HTLC does not use, and the hop fails with FeeInsufficient", 17,
		func(o *an.Obl) {
			ctor := p.Func(rt + "newUnifiedEdge")
			var roles []string
			for _, pv := range ctor.Params(false) {
				roles = append(roles, pv.Name())
			}
			// the field of unifiedEdge each constructor parameter fills
			field := map[int]string{}
			for _, cl := range p.CompositeLitsOf(p.LookupType("routing", "unifiedEdge")) {
				if cl.Fn == nil || cl.Fn.ID != ctor.ID {
					o.FailAt("routing.unifiedEdge#literal", cl.Where, "a unifiedEdge is built outside newUnifiedEdge")
					continue
				}
				for _, el := range cl.Node.(*ast.CompositeLit).Elts {
					kv, ok := el.(*ast.KeyValueExpr)
					if !ok {
						continue
					}
					for i := range roles {
						if ctor.Canon(kv.Value) == "$p"+string(rune('0'+i)) {
							field[i] = an.Text(kv.Key)
						}
					}
				}
			}
			if len(field) != len(roles) || len(roles) != 5 {
				o.FailAt(ctor.ID+"#fields", ctor.Where(ctor.Body.Pos()), "newUnifiedEdge fills %d fields from %d parameters, expected one field per parameter (5)", len(field), len(roles))
				return
			}
			o.Site("newUnifiedEdge: %v", field)
			perElem := map[string]bool{"policy": true, "inboundFees": true, "blindedPayment": true}

			for _, name := range []string{"getEdgeLocal", "getEdgeNetwork"} {
				f := p.Func(rt + "edgeUnifier." + name)
				key := f.ID
				// the adoption: `best = newUnifiedEdge(..)` inside the loop over the edges
				var loop *ast.RangeStmt
				ast.Inspect(f.Body, func(n ast.Node) bool {
					if rs, ok := n.(*ast.RangeStmt); ok && f.Canon(rs.X) == "$recv.edges" {
						loop = rs
					}
					return true
				})
				if loop == nil {
					o.FailAt(key+"#loop", f.Where(f.Body.Pos()), "cannot find the loop over the unifier's edges")
					continue
				}
				var adopt an.Site
				var bestObj types.Object
				nAdopt := 0
				for _, s := range f.Calls(an.CalleeIs(ctor.ID), false) {
					if s.Node.Pos() < loop.Body.Pos() || s.Node.End() > loop.Body.End() {
						continue
					}
					if b := c19f5BoundTo(f, s); len(b) == 1 && b[0] != nil {
						nAdopt++
						adopt, bestObj = s, b[0]
					}
				}
				if nAdopt != 1 {
					o.FailAt(key+"#adoption", f.Where(loop.Pos()), "expected one place in the loop that adopts a candidate, found %d", nAdopt)
					continue
				}
				elem := "$elem($recv.edges)"
				for i, a := range f.ArgCanon(adopt) {
					want := elem + "." + field[i]
					o.Site("%s adopts %s: %s", name, field[i], a)
					if a == want {
						continue
					}
					if name == "getEdgeNetwork" && !perElem[field[i]] && (a == "0" || a == "nil") {
						continue // replaced by the connection-wide value in the returned edge
					}
					o.FailAt(key+"#adopted-"+field[i], adopt.Where(), "the adopted edge's %s is %s, expected %s: the candidate that passed the checks", field[i], a, want)
				}
				adoptGuards := strings.Join(f.GuardsAt(adopt), " ; ")
				// the adopted edge keeps what it was built with
				for fld, ws := range c19FieldWrites(f, bestObj) {
					o.FailAt(key+"#adopted-rewritten-"+fld, f.Where(ws[0].Pos()), "%s rewrites the adopted edge's %s: it no longer carries the terms of the channel it names", an.Text(ws[0]), fld)
				}
				// what is returned
				for _, s := range f.Returns() {
					rs, ok := s.Node.(*ast.ReturnStmt)
					if !ok || len(rs.Results) != 1 || an.IsNilIdent(f.Info(), rs.Results[0]) {
						continue
					}
					id, ro := c19f5Ident(f, rs.Results[0])
					if ro == bestObj {
						o.Site("%s returns the adopted edge", name)
						continue
					}
					var call *ast.CallExpr
					if id != nil {
						if d := f.UniqueDef(id); d != nil {
							call, _ = ast.Unparen(d).(*ast.CallExpr)
						}
					} else {
						call, _ = ast.Unparen(rs.Results[0]).(*ast.CallExpr)
					}
					if call == nil || an.CalleeID(f.Info(), call) != ctor.ID {
						o.FailAt(key+"#returned-edge", s.Where(), "%s returns %s: expected the adopted edge or an edge built from it by newUnifiedEdge", name, an.Text(rs.Results[0]))
						continue
					}
					if ro != nil {
						for fld, ws := range c19FieldWrites(f, ro) {
							o.FailAt(key+"#returned-rewritten-"+fld, f.Where(ws[0].Pos()), "%s rewrites the returned edge's %s", an.Text(ws[0]), fld)
						}
					}
					// field of the adopted edge
					ofBest := func(e ast.Expr, fld string) bool {
						sel, ok := ast.Unparen(e).(*ast.SelectorExpr)
						return ok && sel.Sel.Name == fld && c19VarObj(f, ast.Unparen(sel.X)) == bestObj
					}
					for i, a := range call.Args {
						fld := field[i]
						o.Site("%s returns %s: %s", name, fld, an.Text(a))
						switch {
						case ofBest(a, fld):
						case fld == "policy":
							// &copy, copy := *best.policy, only the time lock rewritten
							u, isAddr := ast.Unparen(a).(*ast.UnaryExpr)
							var cid *ast.Ident
							if isAddr && u.Op == token.AND {
								cid, _ = ast.Unparen(u.X).(*ast.Ident)
							}
							var def ast.Expr
							if cid != nil {
								// the address is taken: look the definition up directly
								_, defs := c19LocalDefs(f, cid.Name)
								if len(defs) == 1 && defs[0].Obj == c19VarObj(f, cid) {
									def = defs[0].Rhs
								}
							}
							st, isStar := ast.Unparen(def).(*ast.StarExpr)
							if def == nil || !isStar || !ofBest(st.X, "policy") {
								o.FailAt(key+"#returned-policy", s.Where(), "the returned edge's policy is %s: expected (a copy of) the adopted edge's policy, which names the channel the hop is priced for", an.Text(a))
								break
							}
							for w, ws := range c19FieldWrites(f, c19VarObj(f, cid)) {
								if w != "TimeLockDelta" {
									o.FailAt(key+"#policy-copy-"+w, f.Where(ws[0].Pos()), "%s rewrites %s of the policy copy: only the time lock delta is a connection-wide maximum", an.Text(ws[0]), w)
								}
							}
						case perElem[fld]:
							o.FailAt(key+"#returned-"+fld, s.Where(), "the returned edge's %s is %s, expected the adopted edge's %s: the edge names one channel and must carry that channel's terms", fld, an.Text(a), fld)
						case fld == "capacity":
							// connection-wide maximum
						default:
							// a companion local: receives the element's field under the
							// conditions of the adoption, nothing else
							_, lo := c19f5Ident(f, a)
							defs := c19f4ValueDefs(f, lo)
							okc := lo != nil && len(defs) > 0
							for _, d := range defs {
								ds := d.site()
								if d.Rhs == nil || ds.V == nil || d.Fn != f || f.Canon(d.Rhs) != elem+"."+fld || strings.Join(f.GuardsAt(ds), " ; ") != adoptGuards {
									okc = false
								}
							}
							if !okc {
								o.FailAt(key+"#returned-"+fld, s.Where(), "the returned edge's %s is %s: expected the adopted edge's %s or a local that receives the candidate's %s exactly where the candidate is adopted", fld, an.Text(a), fld, fld)
							}
						}
					}
				}
			}
		})
}

// round-4 seed C19/h
func c19f5BackwardPass(r *an.Run) {
	p := r.Prog
	r.Obl("backward-pass-selects-each-edge-for-the-amount-it-will-carry", "MIRROR",
		"routing.senderAmtBackwardPass asks edgeUnifier.getEdge twice: for the final hop with the running incoming amount and a next-hop fee of 0, and in the loop over the earlier hops with (net amount, bandwidth hints, outbound fee), where the outbound fee is the once-defined <edge list>[i+1].policy.ComputeFee(running amount) of the edge selected one step before, the net amount is the once-defined running amount + that fee, and the very same two values are what calcCappedInboundFee is handed together with the edge getEdge returned; the running amount does not change between the fee computation and the inbound fee computation; the selected edge is stored at index i of the edge list",
		"getEdge runs the min/max HTLC, capacity and bandwidth checks (and picks the candidate) for the amount it is handed: an amount that lacks the next node's outbound fee admits a channel whose max_htlc or balance lies between the two, and the built route sends more over that edge than the channel accepts", 8,
		func(o *an.Obl) {
			f := p.Func("routing.senderAmtBackwardPass")
			key := f.ID
			ges := f.Calls(an.CalleeIs(rt+"edgeUnifier.getEdge"), false)
			caps := f.Calls(an.CalleeIs(rt+"calcCappedInboundFee"), false)
			if !needExactly(o, f, "getEdge", ges, 2) || !needExactly(o, f, "calcCappedInboundFee", caps, 1) {
				return
			}
			var loop *ast.ForStmt
			ast.Inspect(f.Body, func(n ast.Node) bool {
				if fs, ok := n.(*ast.ForStmt); ok && loop == nil {
					loop = fs
				}
				return true
			})
			in := func(n ast.Node) bool { return loop != nil && n.Pos() >= loop.Body.Pos() && n.End() <= loop.Body.End() }
			if loop == nil || in(ges[0].Node) || !in(ges[1].Node) || !in(caps[0].Node) {
				o.FailAt(key+"#shape", f.Where(f.Body.Pos()), "expected one getEdge for the final hop, then a loop with one getEdge and one calcCappedInboundFee")
				return
			}
			first, sel, cp := ges[0], ges[1], caps[0]
			// loop variable
			var iObj types.Object
			if as, ok := loop.Init.(*ast.AssignStmt); ok && len(as.Lhs) == 1 {
				iObj = c19VarObj(f, as.Lhs[0])
			}
			_, netObj := c19f5Ident(f, callArg(sel, 0))
			_, feeObj := c19f5Ident(f, callArg(sel, 2))
			plain := func(e ast.Expr) bool { return ast.Unparen(e) == an.Strip(f.Info(), e) }
			if netObj == nil || feeObj == nil || !plain(callArg(sel, 0)) || !plain(callArg(sel, 2)) {
				o.FailAt(key+"#getEdge-args", sel.Where(), "getEdge is asked for (%s, .., %s): expected the net amount and the outbound fee as locals", an.Text(callArg(sel, 0)), an.Text(callArg(sel, 2)))
				return
			}
			// the same two values price the inbound fee of the edge selected
			_, cpNet := c19f5Ident(f, callArg(cp, 1))
			_, cpFee := c19f5Ident(f, callArg(cp, 2))
			o.Site("senderAmtBackwardPass: getEdge(%s, .., %s), calcCappedInboundFee(.., %s, %s)", an.Text(callArg(sel, 0)), an.Text(callArg(sel, 2)), an.Text(callArg(cp, 1)), an.Text(callArg(cp, 2)))
			if cpNet != netObj || !plain(callArg(cp, 1)) {
				o.FailAt(key+"#selected-for-another-amount", sel.Where(), "the edge is selected (range and bandwidth checked) for %s while its inbound fee - and the amount sent over it - is computed from %s", an.Text(callArg(sel, 0)), an.Text(callArg(cp, 1)))
			}
			if cpFee != feeObj || !plain(callArg(cp, 2)) {
				o.FailAt(key+"#selected-with-another-fee", sel.Where(), "the edge is selected with the next-hop fee %s while its inbound fee is capped by %s", an.Text(callArg(sel, 2)), an.Text(callArg(cp, 2)))
			}
			selBound := c19f5BoundTo(f, sel)
			_, cpEdge := c19f5Ident(f, callArg(cp, 0))
			if len(selBound) != 1 || selBound[0] == nil || cpEdge != selBound[0] {
				o.FailAt(key+"#inbound-fee-of-another-edge", cp.Where(), "calcCappedInboundFee is handed %s, which is not the edge getEdge just returned", an.Text(callArg(cp, 0)))
			}
			// the fee: <edges>[i+1].policy.ComputeFee(<running amount>), once
			var feeDef, netDef *c19LocalDef
			if ds := c19f4ValueDefs(f, feeObj); len(ds) == 1 && ds[0].Rhs != nil {
				feeDef = &ds[0]
			}
			if ds := c19f4ValueDefs(f, netObj); len(ds) == 1 && ds[0].Rhs != nil {
				netDef = &ds[0]
			}
			if feeDef == nil || netDef == nil {
				o.FailAt(key+"#single-definitions", sel.Where(), "the outbound fee and the net amount must each be defined once")
				return
			}
			var runObj, listObj types.Object
			okFee := false
			if c, ok := ast.Unparen(feeDef.Rhs).(*ast.CallExpr); ok && len(c.Args) == 1 && strings.HasSuffix(an.CalleeID(f.Info(), c), ".ComputeFee") {
				_, runObj = c19f5Ident(f, c.Args[0])
				if fs, ok := ast.Unparen(c.Fun).(*ast.SelectorExpr); ok {
					if ps, ok := ast.Unparen(fs.X).(*ast.SelectorExpr); ok && ps.Sel.Name == "policy" {
						if ix, ok := ast.Unparen(ps.X).(*ast.IndexExpr); ok {
							_, listObj = c19f5Ident(f, ix.X)
							if be, ok := ast.Unparen(ix.Index).(*ast.BinaryExpr); ok && be.Op == token.ADD && an.IntConst(1)(f, be.Y) {
								_, io := c19f5Ident(f, be.X)
								okFee = io != nil && io == iObj && runObj != nil && listObj != nil && plain(c.Args[0])
							}
						}
					}
				}
			}
			o.Site("senderAmtBackwardPass: outbound fee %s", feeDef.form())
			if !okFee {
				o.FailAt(key+"#outbound-fee", f.Where(feeDef.Node.Pos()), "the outbound fee %s: expected ComputeFee of the edge selected one step before (index i+1) on the running amount", feeDef.form())
				return
			}
			// the net amount: running amount + fee
			okNet := false
			if be, ok := ast.Unparen(netDef.Rhs).(*ast.BinaryExpr); ok && be.Op == token.ADD {
				_, x := c19f5Ident(f, be.X)
				_, y := c19f5Ident(f, be.Y)
				okNet = plain(be.X) && plain(be.Y) && ((x == runObj && y == feeObj) || (x == feeObj && y == runObj))
			}
			o.Site("senderAmtBackwardPass: net amount %s", netDef.form())
			if !okNet {
				o.FailAt(key+"#net-amount", f.Where(netDef.Node.Pos()), "the net amount %s: expected the running amount plus the outbound fee computed on it", netDef.form())
			}
			// the running amount is stable from the fee to the inbound fee
			g := f.Graph()
			fs := feeDef.site()
			if fs.V != nil {
				between := g.Reach(fs.V, nil, map[*an.FlowVertex]bool{cp.V: true})
				for _, d := range c19f4ValueDefs(f, runObj) {
					if ds := d.site(); ds.V != nil && ds.V != fs.V && ds.V != cp.V && between[ds.V] && g.Reach(ds.V, nil, nil)[cp.V] && in(d.Node) && ds.Node.Pos() > feeDef.Node.Pos() && ds.Node.Pos() < cp.Node.Pos() {
						o.FailAt(key+"#running-amount-changed", ds.Where(), "%s changes the running amount between the outbound fee computed on it and the selection / inbound fee of the edge", ds.String())
					}
				}
				before(o, f, "the outbound fee", []an.Site{fs}, "the selection of the edge", []an.Site{sel})
			}
			if ns := netDef.site(); ns.V != nil {
				before(o, f, "the net amount", []an.Site{ns}, "the selection of the edge", []an.Site{sel})
			}
			// the final hop
			_, firstAmt := c19f5Ident(f, callArg(first, 0))
			if firstAmt != runObj || !plain(callArg(first, 0)) || !an.IntConst(0)(f, callArg(first, 2)) {
				o.FailAt(key+"#final-hop", first.Where(), "the final hop's edge is selected for (%s, .., %s): expected the running amount and no next-hop fee", an.Text(callArg(first, 0)), an.Text(callArg(first, 2)))
			}
			// stored at index i
			stored := false
			for _, v := range g.V {
				as, ok := v.Node.(*ast.AssignStmt)
				if !ok || len(as.Lhs) != 1 || len(as.Rhs) != 1 || !in(as) {
					continue
				}
				if ix, ok := ast.Unparen(as.Lhs[0]).(*ast.IndexExpr); ok {
					_, lo := c19f5Ident(f, ix.X)
					_, io := c19f5Ident(f, ix.Index)
					_, vo := c19f5Ident(f, as.Rhs[0])
					if lo == listObj && io == iObj && len(selBound) == 1 && vo == selBound[0] {
						stored = true
					}
				}
			}
			if !stored {
				o.FailAt(key+"#stored", sel.Where(), "the selected edge is not stored at index i of the list the next step reads index i+1 of")
			}
		})
}
