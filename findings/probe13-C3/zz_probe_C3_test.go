package contractcourt

// Probe C3 (property C04). Run:
//   go test -count=1 -run TestProbeC3UnclassifiedHtlcSpend -v ./contractcourt/
//
// Suspicion: in updateBreachInfo, when input.IsHtlcSpendRevoke returns an
// error the `break` only leaves the inner switch; the code below it then
// treats the spend as our own justice spend: the HTLC's amount is added to the
// swept/revoked funds and the output is removed from the retribution, so an
// HTLC that may have been taken to the second level by the cheater is
// dropped silently (and reported as claimed).
//
// Observed on the unmodified tree:
//   total=20000 revoked=20000 remaining outputs=0
//
// Reachability: IsHtlcSpendRevoke only fails for a segwit v0 HTLC whose sign
// descriptor has no revocation base point (KeyDesc.PubKey == nil). A
// retribution built by NewBreachRetribution always has it, and without it
// createJusticeTx fails before any spend is waited for, so in production the
// branch is dead; the probe reaches it by calling updateBreachInfo directly.

import (
	"testing"

	"github.com/btcsuite/btcd/btcutil/v2"
	"github.com/btcsuite/btcd/wire/v2"
	"github.com/lightningnetwork/lnd/chainntnfs"
	"github.com/lightningnetwork/lnd/input"
	"github.com/stretchr/testify/require"
)

func TestProbeC3UnclassifiedHtlcSpend(t *testing.T) {
	const amt = btcutil.Amount(20000)

	htlcOp := wire.OutPoint{Index: 2}
	breachInfo := &retributionInfo{
		breachedOutputs: []breachedOutput{{
			amt:         amt,
			outpoint:    htlcOp,
			witnessType: input.HtlcOfferedRevoke,
			signDesc: input.SignDescriptor{
				// No KeyDesc.PubKey: the revocation key can't
				// be derived, IsHtlcSpendRevoke reports an
				// error.
				Output: &wire.TxOut{
					Value:    int64(amt),
					PkScript: breachKeys[0],
				},
			},
		}},
	}

	// A spend of the HTLC output which is NOT a revocation spend: the
	// witness of a second-level HTLC transaction has five elements.
	spendTx := &wire.MsgTx{
		TxIn: []*wire.TxIn{{
			PreviousOutPoint: htlcOp,
			Witness:          make(wire.TxWitness, 5),
		}},
		TxOut: []*wire.TxOut{{Value: int64(amt) - 1000}},
	}

	total, revoked := updateBreachInfo(breachInfo, []spend{{
		index: 0,
		detail: &chainntnfs.SpendDetail{
			SpendingTx:        spendTx,
			SpenderInputIndex: 0,
		},
	}})
	t.Logf("total=%v revoked=%v remaining outputs=%d", int64(total),
		int64(revoked), len(breachInfo.breachedOutputs))

	// A spend which couldn't be classified is neither claimed by us nor a
	// reason to forget the output.
	require.Zero(t, total, "an HTLC spend that couldn't be classified "+
		"is counted as swept by us")
	require.Zero(t, revoked)
	require.Len(t, breachInfo.breachedOutputs, 1, "the HTLC was removed "+
		"from the retribution although nobody knows who spent it")
}
