package spec

import (
	"go/ast"
	"go/token"
	"go/types"
	"sort"
	"strings"

	"lndlint/internal/an"
	"lndlint/internal/flow"
)

func init() {
	specExtras["C04"] = append(specExtras["C04"], c04f5AbsentData, c04f5RetributionUnmodified, c04f5EntryBoundary, c04f5CsvSequence)
}

// c04f5ObjTerm matches an identifier that refers to obj.
func c04f5ObjTerm(obj types.Object) an.Term {
	return func(f *an.Func, e ast.Expr) bool {
		id, ok := e.(*ast.Ident)
		return ok && obj != nil && (f.Info().Uses[id] == obj || f.Info().Defs[id] == obj)
	}
}

// c04f5GuardedThroughClosures: site s of fn is dominated by fact inside fn, or
// the function literal fn (or one of its enclosing literals) is created only
// below fact in the function that contains it.
func c04f5GuardedThroughClosures(fn *an.Func, s an.Site, fact an.Fact) bool {
	cur, site := fn, s
	for {
		if ok, _ := cur.Guarded(site, fact); ok {
			return true
		}
		if cur.Parent == nil || cur.Lit == nil {
			return false
		}
		v := cur.Parent.Graph().Containing(cur.Lit, true)
		if v == nil {
			return false
		}
		site = an.Site{Fn: cur.Parent, V: v, Node: cur.Lit}
		cur = cur.Parent
	}
}

// c04f5AbsentData (repairs 959c00f, 99fef03): what the retribution store and
// the breach arbitrator find on disk may lack a bucket (written by a version
// that predates it) or hold a retribution without outputs (both commitment
// outputs dust, no HTLC).  A nil bucket or an empty slice that is used
// unchecked panics the arbitrator at every start: no breach of any channel is
// punished any more.
func c04f5AbsentData(r *an.Run) {
	p := r.Prog
	cc := "contractcourt."
	r.Obl("stored-retributions-are-read-only-where-they-exist", "GUARD",
		"in package contractcourt's retribution store every method call on a bucket obtained from tx.ReadBucket / tx.ReadWriteBucket (nil when the bucket does not exist) is dominated by a `!= nil` test of that bucket, in its own function or where the closure containing it is created; every constant index into retributionInfo.breachedOutputs is dominated by a test that this very slice is not empty; BreachArbitrator.handleBreachHandoff persists a retribution (Store.Add) only below that test, BreachArbitrator.start registers for the confirmation and launches exactRetribution only below it and, while resuming them, removes a stored retribution (Store.Remove) only when it is empty",
		"a retribution written before the taproot bucket existed, or one whose commitment outputs are all dust, is legitimate data; dereferencing the absent bucket or indexing the empty slice panics the breach arbitrator at every start, and the justice transactions of every other breached channel are never built", 14,
		func(o *an.Obl) {
			// a) buckets
			lookups := map[string]bool{"ReadBucket": true, "ReadWriteBucket": true}
			nBuckets := 0
			for _, root := range p.Funcs(false, "contractcourt") {
				if root.Lit != nil || !strings.HasPrefix(root.ID, cc+"RetributionStore.") {
					continue
				}
				for _, fn := range append([]*an.Func{root}, root.Lits...) {
					info := fn.Info()
					for _, s := range fn.AllCalls(false) {
						sel, ok := ast.Unparen(s.Node.(*ast.CallExpr).Fun).(*ast.SelectorExpr)
						if !ok {
							continue
						}
						id, ok := ast.Unparen(sel.X).(*ast.Ident)
						if !ok {
							continue
						}
						obj, ok := info.Uses[id].(*types.Var)
						if !ok || obj.IsField() {
							continue
						}
						defs := c05AllDefs(fn, obj)
						isLookup := len(defs) > 0
						for _, d := range defs {
							c, ok := ast.Unparen(d).(*ast.CallExpr)
							if !ok {
								isLookup = false
								break
							}
							cid := an.CalleeID(info, c)
							if !lookups[cid[strings.LastIndex(cid, ".")+1:]] {
								isLookup = false
							}
						}
						if !isLookup {
							continue
						}
						nBuckets++
						fact := an.IsNil(c04f5ObjTerm(obj), false, id.Name+" != nil")
						ok2 := c04f5GuardedThroughClosures(fn, s, fact)
						o.Site("%s: %s on a looked-up bucket, below %s != nil: %v", root.ID, an.Text(s.Node), id.Name, ok2)
						if !ok2 {
							o.FailAt(root.ID+"#"+id.Name+"."+sel.Sel.Name+"-on-absent-bucket", s.Where(), "%s calls %s on the bucket %s, which is nil when the bucket does not exist (a database written before it was introduced), without a nil test", root.ID, sel.Sel.Name, id.Name)
						}
					}
				}
			}
			if nBuckets < 4 {
				o.FailAt(cc+"RetributionStore#bucket-uses", "", "expected at least 4 method calls on looked-up buckets in the retribution store, found %d", nBuckets)
			}

			// b) constant indexes into breachedOutputs
			notEmpty := func(fn *an.Func, x ast.Expr) an.Fact {
				c := fn.Canon(x)
				return an.Cmp(an.Len(canonTerm(`^`+regexpQuote(c)+`$`)), an.NE, an.IntConst(0), "len("+an.Text(x)+") != 0")
			}
			isEmpty := func(fn *an.Func, x ast.Expr) an.Fact {
				c := fn.Canon(x)
				return an.Cmp(an.Len(canonTerm(`^`+regexpQuote(c)+`$`)), an.EQ, an.IntConst(0), "len("+an.Text(x)+") == 0")
			}
			isOutputs := an.Field(cc+"retributionInfo", "breachedOutputs", nil)
			nIdx := 0
			for _, root := range p.Funcs(false, "contractcourt") {
				if root.Lit != nil {
					continue
				}
				for _, fn := range append([]*an.Func{root}, root.Lits...) {
					for _, v := range fn.Graph().V {
						v.Inspect(false, func(n ast.Node) bool {
							ix, ok := n.(*ast.IndexExpr)
							if !ok || !isOutputs(fn, an.Strip(fn.Info(), ix.X)) {
								return true
							}
							if tv, ok := fn.Info().Types[ix.Index]; !ok || tv.Value == nil {
								return true // a loop index below its own bound
							}
							nIdx++
							s := an.Site{Fn: fn, V: v, Node: ix}
							ok2 := c04f5GuardedThroughClosures(fn, s, notEmpty(fn, ix.X))
							o.Site("%s: %s below a non-empty test of that slice: %v", root.ID, an.Text(ix), ok2)
							if !ok2 {
								o.FailAt(root.ID+"#"+an.Text(ix)+"-of-empty-retribution", s.Where(), "%s indexes %s without a test that the slice is not empty: a retribution whose outputs are all dust has none", root.ID, an.Text(ix))
							}
							c04OperandsNotOverwritten(o, fn, ix.X, "indexed retribution")
							return true
						})
					}
				}
			}
			if nIdx < 3 {
				o.FailAt(cc+"retributionInfo.breachedOutputs#constant-indexes", "", "expected the three constant indexes into breachedOutputs (handoff, start, Store.Add), found %d", nIdx)
			}

			// c) what happens to an empty retribution
			outputsOf := func(fn *an.Func, arg ast.Expr) ast.Expr {
				// the breachedOutputs field of the retribution denoted by arg
				var found ast.Expr
				ast.Inspect(fn.Root().Body, func(n ast.Node) bool {
					sel, ok := n.(*ast.SelectorExpr)
					if ok && found == nil && isOutputs(fn, sel) && fn.Canon(sel.X) == fn.Canon(an.Strip(fn.Info(), arg)) {
						found = sel
					}
					return found == nil
				})
				return found
			}
			h := p.Func(cc + "BreachArbitrator.handleBreachHandoff")
			adds := h.Calls(an.CalleeNamed("Add"), false)
			var storeAdds []an.Site
			for _, s := range adds {
				if sel, ok := ast.Unparen(s.Node.(*ast.CallExpr).Fun).(*ast.SelectorExpr); ok && h.Canon(sel.X) == "$recv.cfg.Store" {
					storeAdds = append(storeAdds, s)
				}
			}
			if needExactly(o, h, "Store.Add", storeAdds, 1) {
				if outs := outputsOf(h, storeAdds[0].Node.(*ast.CallExpr).Args[0]); outs == nil {
					o.FailAt(h.ID+"#persisted-retribution", storeAdds[0].Where(), "handleBreachHandoff never looks at the outputs of the retribution it persists (%s)", an.Text(storeAdds[0].Node.(*ast.CallExpr).Args[0]))
				} else {
					guarded(o, h, storeAdds[0], notEmpty(h, outs))
				}
			}
			st := p.Func(cc + "BreachArbitrator.start")
			reg := st.Calls(an.CalleeNamed("RegisterConfirmationsNtfn"), false)
			exact := st.Calls(an.CalleeIs(cc+"BreachArbitrator.exactRetribution"), false)
			if needExactly(o, st, "RegisterConfirmationsNtfn", reg, 1) && needExactly(o, st, "exactRetribution", exact, 1) {
				outs := outputsOf(st, exact[0].Node.(*ast.CallExpr).Args[1])
				if outs == nil {
					o.FailAt(st.ID+"#resumed-retribution", exact[0].Where(), "start never looks at the outputs of the retribution it resumes (%s)", an.Text(exact[0].Node.(*ast.CallExpr).Args[1]))
				} else {
					guarded(o, st, reg[0], notEmpty(st, outs))
					guarded(o, st, exact[0], notEmpty(st, outs))
					var removes []an.Site
					loop := c05f5EnclosingLoop(st, exact[0].Node)
					for _, s := range st.Calls(an.CalleeNamed("Remove"), false) {
						if loop == nil || s.Node.Pos() < loop.Pos() || s.Node.End() > loop.End() {
							continue // not part of resuming the stored retributions
						}
						if sel, ok := ast.Unparen(s.Node.(*ast.CallExpr).Fun).(*ast.SelectorExpr); ok && st.Canon(sel.X) == "$recv.cfg.Store" {
							removes = append(removes, s)
						}
					}
					for _, s := range removes {
						// only an empty record may be dropped at start-up
						guarded(o, st, s, isEmpty(st, outs))
					}
				}
			}
		})
}

// ---------------------------------------------------------------- aliasing

type c04f5Kind int

const (
	c04f5Private c04f5Kind = iota // memory of its own / unknown
	c04f5Shallow                  // private memory holding a shallow copy of shared memory: its pointer fields point into it
	c04f5Shared                   // a pointer (slice, map) into the shared object graph
)

// c04f5Alias decides, for expressions of one function, whether they denote
// memory of the object graph rooted at the variables selected by isRoot
// (pointers handed to the function or obtained from a constructor).
type c04f5Alias struct {
	fn     *an.Func
	isRoot func(types.Object) bool
	busy   map[types.Object]bool
}

func c04f5RefType(t types.Type) bool {
	if t == nil {
		return false
	}
	switch t.Underlying().(type) {
	case *types.Pointer, *types.Slice, *types.Map:
		return true
	}
	return false
}

func c04f5StructType(t types.Type) bool {
	if t == nil {
		return false
	}
	switch t.Underlying().(type) {
	case *types.Struct, *types.Array:
		return true
	}
	return false
}

// ofRead is the kind of a value read from memory that is shared (or a shallow
// copy of shared memory) as an expression of type t.
func c04f5OfRead(t types.Type) c04f5Kind {
	switch {
	case c04f5RefType(t):
		return c04f5Shared
	case c04f5StructType(t):
		return c04f5Shallow
	}
	return c04f5Private
}

func (a *c04f5Alias) value(e ast.Expr, depth int) c04f5Kind {
	info := a.fn.Info()
	if e == nil || depth > 8 {
		return c04f5Private
	}
	switch x := ast.Unparen(e).(type) {
	case *ast.Ident:
		obj, ok := info.Uses[x].(*types.Var)
		if !ok {
			if d, ok := info.Defs[x].(*types.Var); ok {
				obj = d
			} else {
				return c04f5Private
			}
		}
		if a.isRoot(obj) {
			return c04f5Shared
		}
		if obj.IsField() || a.busy[obj] {
			return c04f5Private
		}
		a.busy[obj] = true
		defer delete(a.busy, obj)
		k := c04f5Private
		for _, d := range c05AllDefs(a.fn, obj) {
			if dk := a.value(d, depth+1); dk > k {
				k = dk
			}
		}
		return k
	case *ast.StarExpr:
		if a.value(x.X, depth+1) == c04f5Shared {
			return c04f5Shallow
		}
		return c04f5Private
	case *ast.UnaryExpr:
		if x.Op == token.AND {
			if a.lvalue(x.X, depth+1) {
				return c04f5Shared
			}
			if a.value(x.X, depth+1) == c04f5Shallow {
				return c04f5Shallow
			}
		}
		return c04f5Private
	case *ast.SelectorExpr:
		if s := info.Selections[x]; s == nil || s.Kind() != types.FieldVal {
			return c04f5Private
		}
		if a.lvalue(x, depth+1) || a.value(x.X, depth+1) == c04f5Shallow {
			return c04f5OfRead(info.TypeOf(x))
		}
		return c04f5Private
	case *ast.IndexExpr:
		if a.lvalue(x, depth+1) || a.value(x.X, depth+1) == c04f5Shallow {
			return c04f5OfRead(info.TypeOf(x))
		}
		return c04f5Private
	case *ast.SliceExpr:
		return a.value(x.X, depth+1)
	case *ast.CallExpr:
		if tv, ok := info.Types[x.Fun]; ok && tv.IsType() && len(x.Args) == 1 {
			return a.value(x.Args[0], depth+1)
		}
	}
	return c04f5Private
}

// lvalue: e denotes a location inside the shared object graph.
func (a *c04f5Alias) lvalue(e ast.Expr, depth int) bool {
	info := a.fn.Info()
	if e == nil || depth > 8 {
		return false
	}
	switch x := ast.Unparen(e).(type) {
	case *ast.StarExpr:
		return a.value(x.X, depth+1) == c04f5Shared
	case *ast.SelectorExpr:
		if s := info.Selections[x]; s == nil || s.Kind() != types.FieldVal {
			return false
		}
		if c04f5RefType(info.TypeOf(x.X)) {
			return a.value(x.X, depth+1) == c04f5Shared
		}
		return a.lvalue(x.X, depth+1)
	case *ast.IndexExpr:
		if c04f5RefType(info.TypeOf(x.X)) {
			return a.value(x.X, depth+1) == c04f5Shared
		}
		return a.lvalue(x.X, depth+1)
	}
	return false
}

// c04f5RetributionUnmodified (repair 5c2ef0d): between NewBreachRetribution and
// the hand-over to the breach arbitrator the chain watcher only reads the
// retribution.
func c04f5RetributionUnmodified(r *an.Run) {
	p := r.Prog
	r.Obl("breach-retribution-is-handed-on-unmodified", "PATH",
		"no function of package contractcourt (closures included, e.g. the lazily evaluated argument of a log statement) assigns to memory of a *lnwallet.BreachRetribution it holds: neither to a field of the retribution, nor through a pointer, slice or map read from it (its KeyRing, its sign descriptors), nor through a local alias of either; a dereferenced copy (`c := *ret`) is private memory, but its pointer fields still point into the retribution; dispatchContractBreach passes the very retribution it was given to contractBreach",
		"the retribution carries the key ring and sign descriptors every witness of the justice transaction is made from; the chain watcher's debug closure blanked five keys on the object itself, so what the breach arbitrator received depended on the log level", 9,
		func(o *an.Obl) {
			isRet := func(obj types.Object) bool {
				v, ok := obj.(*types.Var)
				if !ok || v.IsField() {
					return false
				}
				pt, ok := v.Type().(*types.Pointer)
				return ok && an.TypeID(pt.Elem()) == "lnwallet.BreachRetribution"
			}
			nHolders := 0
			for _, root := range p.Funcs(false, "contractcourt") {
				if root.Lit != nil {
					continue
				}
				holds := false
				ast.Inspect(root.Body, func(n ast.Node) bool {
					if id, ok := n.(*ast.Ident); ok && !holds {
						if isRet(root.Info().Uses[id]) || isRet(root.Info().Defs[id]) {
							holds = true
						}
					}
					return !holds
				})
				for _, prm := range root.Params(false) {
					if prm != nil && isRet(prm) {
						holds = true
					}
				}
				if !holds {
					continue
				}
				nHolders++
				al := &c04f5Alias{fn: root, isRoot: isRet, busy: map[types.Object]bool{}}
				nW := 0
				check := func(st ast.Node, lhs ast.Expr) {
					nW++
					if al.lvalue(lhs, 0) {
						o.FailAt(root.ID+"#writes-"+an.Text(lhs), root.Where(st.Pos()), "%s assigns to %s, memory of the breach retribution it hands on (%s): the consumer no longer receives what NewBreachRetribution built", root.ID, an.Text(lhs), an.Text(st))
					}
				}
				ast.Inspect(root.Body, func(n ast.Node) bool {
					switch x := n.(type) {
					case *ast.AssignStmt:
						for _, l := range x.Lhs {
							check(x, l)
						}
					case *ast.IncDecStmt:
						check(x, x.X)
					case *ast.CallExpr:
						switch an.CalleeID(root.Info(), x) {
						case "builtin.copy", "builtin.delete", "builtin.clear":
							if len(x.Args) > 0 && al.value(x.Args[0], 0) == c04f5Shared {
								nW++
								o.FailAt(root.ID+"#writes-"+an.Text(x.Args[0]), root.Where(x.Pos()), "%s overwrites %s, memory of the breach retribution it hands on (%s)", root.ID, an.Text(x.Args[0]), an.Text(x))
							}
						}
					}
					return true
				})
				o.Site("%s holds a breach retribution: %d assignments examined, none into it", root.ID, nW)
			}
			if nHolders < 3 {
				o.FailAt("contractcourt#retribution-holders", "", "expected at least 3 functions of contractcourt holding a *lnwallet.BreachRetribution, found %d", nHolders)
			}
			d := p.Func("contractcourt.chainWatcher.dispatchContractBreach")
			var handed []an.Site
			for _, s := range d.AllCalls(false) {
				if sel, ok := ast.Unparen(s.Node.(*ast.CallExpr).Fun).(*ast.SelectorExpr); ok && sel.Sel.Name == "contractBreach" {
					handed = append(handed, s)
				}
			}
			if needExactly(o, d, "contractBreach hand-over", handed, 1) {
				if a := d.ArgCanon(handed[0]); len(a) != 1 || a[0] != "$p3" {
					o.FailAt(d.ID+"#handed-over", handed[0].Where(), "contractBreach receives %v, expected the retribution dispatchContractBreach was given", a)
				}
				notReassigned(o, d, "retribution")
			}
		})
}

// c04f5EntryBoundary (repair 28deee3): the HTLC entries of a revocation log
// record have no count; the list ends where the value does.  Only an end
// between two entries is a clean one.
func c04f5EntryBoundary(r *an.Run) {
	p := r.Prog
	r.Obl("htlc-entry-list-ends-only-at-an-entry-boundary", "CODEC",
		"DeserializeHTLCEntries reads every entry with ReadTlvStream from one buffered reader made of its parameter; it returns its list successfully only through the true edge of errors.Is(err, io.EOF) on the error of a Peek on that same reader, and each ReadTlvStream call is preceded, in its iteration, by that Peek; once ReadTlvStream failed no successful return can be reached (no error of the entry read ends the list)",
		"an entry cut short (truncated value, failed read) that is taken for the end of the list drops this and every following HTLC from the revocation log: the justice transaction then leaves those revoked outputs to the counterparty", 7,
		func(o *an.Obl) {
			f := p.Func("chanstate.DeserializeHTLCEntries")
			reads := f.Calls(an.CalleeIs("chanstate.ReadTlvStream"), true)
			peeks := f.Calls(an.CalleeNamed("Peek"), true)
			if !needExactly(o, f, "ReadTlvStream", reads, 1) || !needExactly(o, f, "Peek", peeks, 1) {
				return
			}
			const reader = "bufio.NewReader($p0)"
			if a := f.ArgCanon(reads[0]); a[0] != reader {
				o.FailAt(f.ID+"#entry-reader", reads[0].Where(), "the entries are read from %s, expected one buffered reader over the parameter (%s)", a[0], reader)
			}
			psel, _ := ast.Unparen(peeks[0].Node.(*ast.CallExpr).Fun).(*ast.SelectorExpr)
			if psel == nil || f.Canon(psel.X) != reader {
				o.FailAt(f.ID+"#peek-reader", peeks[0].Where(), "the end of the list is probed on %s, expected the reader the entries are read from (%s)", an.Text(peeks[0].Node), reader)
			}
			notReassigned(o, f, "r", "br")
			// the clean end
			eof := an.Truth(an.CallTo("errors.Is", nil, an.ResultOf(func(fn *an.Func, e ast.Expr) bool { return e == peeks[0].Node.(ast.Expr) }, 1), an.PkgVar("io", "EOF")), true, "errors.Is(error of Peek, io.EOF)")
			succ := f.StrictSuccessReturns()
			if need(o, f, "successful return", succ, 1) {
				guardedAll(o, f, succ, eof)
			}
			// nothing but that edge leaves the loop successfully: after a
			// failed entry read, and also after any other test of an error
			failureStops(o, f, "ReadTlvStream", reads, an.OkErrNil, succ, "a successful return of the list read so far")
			// the probe precedes the read in every iteration
			before(o, f, "Peek", peeks, "ReadTlvStream", reads)
			g := f.Graph()
			stop := map[*flow.Vertex]bool{peeks[0].V: true}
			again := false
			for _, e := range reads[0].V.Out {
				if g.Reach(e.To, nil, stop)[reads[0].V] || e.To == reads[0].V {
					again = true
				}
			}
			o.Site("%s: every iteration probes the reader before it reads an entry", f.ID)
			if again {
				o.FailAt(f.ID+"#entry-read-without-probe", reads[0].Where(), "a further entry can be read without probing for the end of the list first")
			}
			// the loop must be able to end: the probe is inside it
			if !g.Reach(reads[0].V, nil, nil)[peeks[0].V] {
				o.FailAt(f.ID+"#probe-outside-the-loop", peeks[0].Where(), "the end-of-list probe is not repeated after an entry was read")
			}
		})
}

// c04f5CsvSequence (seeded change C04/g): the justice transaction takes the
// nSequence of each input from breachedOutput.BlocksToMaturity.  Our own
// to_remote output carries `OP_1 OP_CHECKSEQUENCEVERIFY` on every taproot
// channel and on every channel whose to_remote is of the confirmed kind
// (LocalDelay != 0); newRetributionInfo selects its witness type under exactly
// these conditions, so the two tables must agree.
func c04f5CsvSequence(r *an.Run) {
	p := r.Prog
	cc := "contractcourt."
	r.Obl("csv-encumbered-justice-inputs-get-their-sequence", "TABLE",
		"every witness type newRetributionInfo assigns to the node's own commitment output (the makeBreachedOutput call for LocalOutpoint) below `isTaproot`, `ChanType.IsTaprootFinal()` or `LocalDelay != 0` is listed in a case of breachedOutput.BlocksToMaturity that returns a non-zero constant; that switch is over the receiver's witnessType; sweepSpendableOutputsTxn sets the Sequence of every input it adds to that input's BlocksToMaturity()",
		"those outputs are spent through a script ending in OP_1 OP_CHECKSEQUENCEVERIFY: an input with nSequence 0 fails it and the network rejects the whole justice transaction, the revoked to_local output included", 10,
		func(o *an.Obl) {
			f := p.Func(cc + "newRetributionInfo")
			info := f.Info()
			var local []an.Site
			for _, s := range f.Calls(an.CalleeIs(cc+"makeBreachedOutput"), false) {
				if a := f.ArgCanon(s); strings.HasSuffix(a[0], ".LocalOutpoint") {
					local = append(local, s)
				}
			}
			if !needExactly(o, f, "makeBreachedOutput(&breachInfo.LocalOutpoint, …)", local, 1) {
				return
			}
			id, ok := an.Strip(info, local[0].Node.(*ast.CallExpr).Args[1]).(*ast.Ident)
			if !ok {
				o.FailAt(f.ID+"#own-output-witness-type", local[0].Where(), "the witness type of the own output is not a variable: %s", an.Text(local[0].Node.(*ast.CallExpr).Args[1]))
				return
			}
			obj := info.Uses[id]
			csvFacts := []an.Fact{
				an.Truth(an.LocalNamed("isTaproot"), true, "isTaproot"),
				an.Truth(an.CallNamed("IsTaprootFinal", nil), true, "ChanType.IsTaprootFinal()"),
				an.Cmp(an.FieldPath(nil, "LocalDelay"), an.NE, an.IntConst(0), "LocalDelay != 0"),
			}
			needCsv := map[types.Object]string{}
			for _, v := range f.Graph().V {
				for _, how := range assignedTo(f, v, obj) {
					if how != "assign" {
						continue
					}
					s := an.Site{Fn: f, V: v, Node: v.Node}
					rhs := rhsFor(f, s, obj)
					var c types.Object
					switch x := ast.Unparen(rhs).(type) {
					case *ast.SelectorExpr:
						c = info.Uses[x.Sel]
					case *ast.Ident:
						c = info.Uses[x]
					}
					if _, isConst := c.(*types.Const); !isConst {
						o.FailAt(f.ID+"#witness-type-not-a-constant", s.Where(), "the own output's witness type is set to %s, not a witness type constant: the maturity table cannot be compared", an.Text(rhs))
						continue
					}
					under := ""
					for _, fc := range csvFacts {
						if ok, _ := f.Guarded(s, fc); ok {
							under = fc.Desc
						}
					}
					o.Site("%s: own output gets %s (CSV-encumbered: %q)", f.ID, c.Name(), under)
					if under != "" {
						needCsv[c] = under
					}
				}
			}
			if len(needCsv) < 3 {
				o.FailAt(f.ID+"#csv-types", f.Where(f.Body.Pos()), "expected at least 3 witness types assigned to the own output below isTaproot / IsTaprootFinal() / LocalDelay != 0, found %d", len(needCsv))
			}
			// the maturity table
			b := p.Func(cc + "breachedOutput.BlocksToMaturity")
			listed := map[types.Object]bool{}
			nSw := 0
			ast.Inspect(b.Body, func(n ast.Node) bool {
				sw, ok := n.(*ast.SwitchStmt)
				if !ok {
					return true
				}
				nSw++
				if sw.Tag == nil || b.Canon(sw.Tag) != "$recv.witnessType" {
					o.FailAt(b.ID+"#switch-tag", b.Where(sw.Pos()), "BlocksToMaturity switches over %s, expected the receiver's witnessType", an.Text(sw.Tag))
					return false
				}
				for _, st := range sw.Body.List {
					cl := st.(*ast.CaseClause)
					nonZero := false
					for _, bs := range cl.Body {
						if rs, ok := bs.(*ast.ReturnStmt); ok && len(rs.Results) == 1 {
							if tv, ok := b.Info().Types[rs.Results[0]]; ok && tv.Value != nil && tv.Value.String() != "0" {
								nonZero = true
							}
						}
					}
					if !nonZero || len(cl.Body) != 1 {
						continue
					}
					for _, e := range cl.List {
						switch x := ast.Unparen(e).(type) {
						case *ast.SelectorExpr:
							listed[b.Info().Uses[x.Sel]] = true
						case *ast.Ident:
							listed[b.Info().Uses[x]] = true
						}
					}
				}
				return false
			})
			if nSw != 1 {
				o.FailAt(b.ID+"#switches", b.Where(b.Body.Pos()), "expected one switch over the witness type in BlocksToMaturity, found %d", nSw)
			}
			var names []string
			for c := range needCsv {
				names = append(names, c.Name())
			}
			sort.Strings(names)
			for c, under := range needCsv {
				o.Site("%s: %s waits one block: %v", b.ID, c.Name(), listed[c])
				if !listed[c] {
					o.FailAt(b.ID+"#missing-"+c.Name(), b.Where(b.Body.Pos()), "newRetributionInfo gives the node's own output the witness type %s below %s, where its script ends in OP_1 OP_CHECKSEQUENCEVERIFY, but BlocksToMaturity does not return a relative lock for it: the justice input gets nSequence 0 and the whole transaction is rejected", c.Name(), under)
				}
			}
			// the builder takes the sequence from that table
			sw := p.Func(cc + "BreachArbitrator.sweepSpendableOutputsTxn")
			nIn := 0
			for _, fn := range append([]*an.Func{sw}, sw.Lits...) {
				for _, s := range fn.Calls(an.CalleeNamed("AddTxIn"), false) {
					nIn++
					lit, _ := an.Strip(fn.Info(), s.Node.(*ast.CallExpr).Args[0]).(*ast.CompositeLit)
					var seq, prev ast.Expr
					if lit != nil {
						for _, el := range lit.Elts {
							if kv, ok := el.(*ast.KeyValueExpr); ok {
								switch an.Text(kv.Key) {
								case "Sequence":
									seq = kv.Value
								case "PreviousOutPoint":
									prev = kv.Value
								}
							}
						}
					}
					if seq == nil || prev == nil {
						o.FailAt(sw.ID+"#input-shape", s.Where(), "a justice input is added without an explicit Sequence / PreviousOutPoint: %s", an.Text(s.Node))
						continue
					}
					sc, pc := fn.Canon(seq), fn.Canon(prev)
					o.Site("%s: input %s with sequence %s", sw.ID, pc, sc)
					if !strings.HasSuffix(sc, ".BlocksToMaturity()") || !strings.HasSuffix(pc, ".OutPoint()") || strings.TrimSuffix(sc, ".BlocksToMaturity()") != strings.TrimSuffix(pc, ".OutPoint()") {
						o.FailAt(sw.ID+"#input-sequence", s.Where(), "the justice input %s gets the sequence %s, expected the BlocksToMaturity() of that same input", pc, sc)
					}
				}
			}
			if nIn == 0 {
				o.FailAt(sw.ID+"#inputs", sw.Where(sw.Body.Pos()), "cannot find where sweepSpendableOutputsTxn adds its inputs")
			}
		})
}
