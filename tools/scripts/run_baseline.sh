#!/bin/bash
# usage: run_baseline.sh [dir]   runs the pinned baseline test command (/root/.vp/BASELINE.json "cmd") on a
# scratch worktree of /repo HEAD (default /tmp/fulltest) and lists every test of the baseline's stable_pass
# set that did not pass. Used to confirm that the fix: commits leave the existing suite green.
wt=${1:-/tmp/fulltest}
git -C /repo worktree add -q --detach "$wt" HEAD || exit 2
trap 'git -C /repo worktree remove --force "$wt"' EXIT
. /w/out/goenv.sh
log=/tmp/fulltest.gotest.json; : > $log
for m in $(cat /w/out/gomods.txt); do
  MF=$(cd $wt/$m && gomodflag)
  (cd $wt/$m && go test $MF -json -vet=off -count=1 -timeout 25m ./...) >> $log 2>/dev/null
done
python3 - <<'PY'
import json
b=json.load(open('/root/.vp/BASELINE.json'))
passed,failed=set(),set()
for line in open('/tmp/fulltest.gotest.json',errors='replace'):
    line=line.strip()
    if not line.startswith('{'): continue
    try: ev=json.loads(line)
    except Exception: continue
    a,pkg,t=ev.get('Action'),ev.get('Package',''),ev.get('Test')
    if t is None or a not in('pass','fail'): continue
    (passed if a=='pass' else failed).add(pkg+'::'+t)
passed-=failed
missing=[t for t in b['stable_pass'] if t not in passed]
print('stable_pass',len(b['stable_pass']),'passed now',len(passed),'not passing',len(missing))
for t in missing[:60]: print('  ',t, 'FAILED' if t in failed else 'not run')
PY
