package spec

import (
	"go/ast"
	"go/token"

	"lndlint/internal/an"
	"lndlint/internal/flow"
)

func init() { specExtras["C15"] = append(specExtras["C15"], c15r5Rules) }

// c15r5Rules: seeded change C15/j of the fifth round (the MPP update path
// lost one direction of the invoice type / payload type agreement).
func c15r5Rules(r *an.Run) {
	p := r.Prog
	r.Obl("htlc-is-recorded-only-when-payload-type-agrees-with-invoice-type", "TABLE",
		"in updateMpp no accept resolution, no settle resolution and no exit that hands the store an update descriptor is reachable when the invoice requires AMP (inv.Terms.Features.RequiresFeature(lnwire.AMPRequired) / inv.IsAMP()) and the HTLC carries no AMP record (ctx.amp == nil), nor when the invoice does not require AMP and the HTLC carries one; in updateLegacy (reached only without MPP record, hence without a processed AMP record) none of them is reachable for an invoice that requires AMP; the two inputs are recognised at every condition by what is tested (the feature bit of the invoice parameter, the nil test of the amp field of the context parameter), a local defined once by such a test stands for it",
		"an HTLC with an AMP record is looked up by payment address alone, every AMP child has its own payment hash: the type agreement is the only thing that ties the hash of such an HTLC to a non-AMP invoice; without it a hold invoice accepts an HTLC locked to a foreign hash and SettleHodlInvoice releases a preimage that does not hash to it", 22,
		func(o *an.Obl) {
			type row struct {
				fn    string
				isAMP bool
				amp   *bool // nil: the function does not depend on the AMP record
			}
			t, fl := true, false
			table := []row{
				{iv + "updateMpp", true, &t},   // AMP invoice, no AMP record
				{iv + "updateMpp", false, &fl}, // ordinary invoice, AMP record
				{iv + "updateLegacy", true, nil},
			}
			for _, rw := range table {
				f := p.Func(rw.fn)
				var targets []an.Site
				targets = append(targets, f.Calls(an.CalleeIs(iv+"invoiceUpdateCtx.acceptRes", iv+"invoiceUpdateCtx.settleRes"), false)...)
				for _, s := range f.Returns() {
					rs, ok := s.Node.(*ast.ReturnStmt)
					if !ok || len(rs.Results) == 0 {
						continue
					}
					if len(rs.Results) == len(f.Results()) && an.IsNilIdent(f.Info(), ast.Unparen(rs.Results[0])) {
						continue // nothing handed to the store
					}
					targets = append(targets, s)
				}
				if !need(o, f, "accept / settle resolutions and exits with an update descriptor", targets, 3) {
					continue
				}
				desc := "the invoice requires AMP"
				if !rw.isAMP {
					desc = "the invoice does not require AMP"
				}
				if rw.amp != nil {
					if *rw.amp {
						desc += " and the HTLC carries no AMP record"
					} else {
						desc += " and the HTLC carries an AMP record"
					}
				}
				decided := 0
				reach := f.ReachUnder(func(fn *an.Func, v *flow.Vertex) (bool, bool) {
					if v.Kind != flow.KCond {
						return false, false
					}
					e, ok := v.Node.(ast.Expr)
					if !ok {
						return false, false
					}
					val, known := c15r5Eval(fn, e, rw.isAMP, rw.amp, 0)
					if known {
						decided++
					}
					return val, known
				})
				if decided == 0 {
					o.FailAt(f.ID+"#no-type-test", f.Where(f.Body.Pos()), "%s tests neither the AMP feature bit of the invoice nor the AMP record of the HTLC", f.ID)
				}
				for _, s := range targets {
					o.Site("%s: unreachable when %s: %s", f.ID, desc, s.String())
					if reach[s.V] {
						o.FailAt(constructOf(f, s)+"<-type-mismatch", s.Where(), "%s: %s can be reached although %s: the HTLC is recorded on / settles an invoice of the other type", f.ID, s.String(), desc)
					}
				}
			}
		})
}

// c15r5Eval evaluates a condition of updateMpp / updateLegacy (parameters:
// 0 the update context, 1 the invoice) under "invoice requires AMP" = isAMP
// and, when ampNil is given, "ctx.amp == nil" = *ampNil.
func c15r5Eval(f *an.Func, e ast.Expr, isAMP bool, ampNil *bool, depth int) (bool, bool) {
	if depth > 4 {
		return false, false
	}
	e = ast.Unparen(e)
	inv := an.Param(1)
	switch x := e.(type) {
	case *ast.Ident:
		if def := f.UniqueDef(x); def != nil {
			if tv, ok := f.Info().Types[def]; ok && tv.Type != nil && tv.Type.String() == "bool" {
				return c15r5Eval(f, def, isAMP, ampNil, depth+1)
			}
		}
	case *ast.UnaryExpr:
		if x.Op == token.NOT {
			v, k := c15r5Eval(f, x.X, isAMP, ampNil, depth+1)
			return !v, k
		}
	case *ast.CallExpr:
		if an.Match(f, an.CallNamed("IsAMP", inv), x) ||
			an.Match(f, an.CallNamed("RequiresFeature", an.FieldPath(inv, "Terms", "Features"), an.PkgVar("lnwire", "AMPRequired")), x) {
			return isAMP, true
		}
	case *ast.BinaryExpr:
		switch x.Op {
		case token.LAND, token.LOR:
			lv, lk := c15r5Eval(f, x.X, isAMP, ampNil, depth+1)
			rv, rk := c15r5Eval(f, x.Y, isAMP, ampNil, depth+1)
			and := x.Op == token.LAND
			switch {
			case lk && rk:
				if and {
					return lv && rv, true
				}
				return lv || rv, true
			case lk && lv != and:
				return lv, true
			case rk && rv != and:
				return rv, true
			}
		case token.EQL, token.NEQ:
			if ampNil == nil {
				return false, false
			}
			amp := an.FieldPath(an.Param(0), "amp")
			l, r := ast.Unparen(x.X), ast.Unparen(x.Y)
			if (an.Match(f, amp, l) && an.IsNilIdent(f.Info(), r)) || (an.Match(f, amp, r) && an.IsNilIdent(f.Info(), l)) {
				return *ampNil == (x.Op == token.EQL), true
			}
		}
	}
	return false, false
}
