package spec

import (
	"go/ast"
	"go/types"
	"sort"
	"strings"

	"lndlint/internal/an"
)

func init() {
	specExtras["C13"] = append(specExtras["C13"], c13r5Rules)
}

// c13r5Rules: seeded changes C13/i and C13/j of the fifth round.
func c13r5Rules(r *an.Run) {
	c13r5EveryContractDriven(r)
	c13r5BreachReload(r)
}

// c13r5EveryContractDriven: the goroutine of resolveContract is the only code
// that removes a contract from the log; it is started for every contract.
func c13r5EveryContractDriven(r *an.Run) {
	p := r.Prog
	arb := cc + "ChannelArbitrator."
	r.Obl("every-contract-handed-over-gets-its-resolution-goroutine", "PATH",
		"resolveContracts: every iteration of the loop over the resolver list it was given (its parameter) reaches the start of resolveContract for the loop's element, whatever the state of that resolver (no condition lets an iteration skip it); resolveContract is started there and nowhere else in the function",
		"resolveContract is the only place that removes a contract from the arbitrator log and signals the state machine (log.ResolveContract + resolutionSignal), also for a contract that was checkpointed resolved right before a stop: a resolver for which the goroutine is not started after the restart stays in the unresolved set forever and the channel never reaches StateFullyResolved, unlike the uninterrupted run", 3,
		func(o *an.Obl) {
			f := p.Func(arb + "resolveContracts")
			starts := f.Calls(an.CalleeIs(arb+"resolveContract"), true)
			if !need(o, f, "start of resolveContract", starts, 1) {
				return
			}
			var inLoop []an.Site
			for _, s := range starts {
				a := ""
				if c, ok := s.Node.(*ast.CallExpr); ok && len(c.Args) == 1 {
					a = f.Canon(c.Args[0])
				}
				o.Site("%s: resolveContract(%s)", s.String(), a)
				if a != "$elem($p0)" {
					o.FailAt(f.ID+"#started-contract", s.Where(), "resolveContract is started for %s, expected the element of the loop over the resolvers handed to resolveContracts", a)
					continue
				}
				inLoop = append(inLoop, s)
			}
			if len(inLoop) == 0 {
				o.FailAt(f.ID+"#no-start-in-loop", f.Where(f.Body.Pos()), "no start of resolveContract for the loop's element found in %s", f.ID)
				return
			}
			notReassigned(o, f, c13r5ParamNames(f)...)
			everyIteration(o, f, `^\$p0$`, inLoop, "the start of resolveContract for that resolver")
		})
}

// c13r5ParamNames returns the names of the parameters of f.
func c13r5ParamNames(f *an.Func) []string {
	var out []string
	for _, v := range f.Params(false) {
		if v.Name() != "" && v.Name() != "_" {
			out = append(out, v.Name())
		}
	}
	return out
}

// c13r5VarOfType returns the name of the variable (parameter, local or range
// variable) declared in f whose type, pointers removed, is pkg-local type
// name typ.
func c13r5VarOfType(f *an.Func, typ string) string {
	names := map[string]bool{}
	isTyp := func(v *types.Var) bool {
		t := v.Type()
		if pt, isPtr := t.(*types.Pointer); isPtr {
			t = pt.Elem()
		}
		n := an.NamedOf(t)
		return n != nil && n.Obj().Name() == typ
	}
	for _, pv := range f.Params(false) {
		if isTyp(pv) {
			names[pv.Name()] = true
		}
	}
	for id, obj := range f.Info().Defs {
		v, ok := obj.(*types.Var)
		if !ok || v.IsField() || id.Pos() < f.Body.Pos() || id.Pos() > f.Body.End() {
			continue
		}
		if isTyp(v) {
			names[id.Name] = true
		}
	}
	var out []string
	for n := range names {
		out = append(out, n)
	}
	sort.Strings(out)
	if len(out) != 1 {
		return ""
	}
	return out[0]
}

// c13r5BreachReload: what the restarted breach arbiter restores of a taproot
// retribution is what was stored.
func c13r5BreachReload(r *an.Run) {
	p := r.Prog
	r.Obl("restarted-breach-arbiter-restores-each-taproot-field-from-where-it-was-stored", "CODEC",
		"taprootBriefcaseFromRetInfo (what RetributionStore.Add persists) and applyTaprootRetInfo (what RetributionStore.ForAll hands to the restarted breach arbiter) move, per witness-type case, the same pairs (field of the breached output <-> field of the taproot briefcase): every field of a breachedOutput the writer stores is restored by the reader from that same briefcase field, in particular signDesc.TapTweak from BreachedHtlcTweaks and secondLevelTapTweak from BreachedSecondLevelHltcTweaks; the two functions are found through the variables of type breachedOutput and taprootBriefcase they declare",
		"the uninterrupted run keeps working with the in-memory retribution; after a stop the arbiter works with the reloaded one: a field restored from another slot of the briefcase (both tweak maps have the same key and value type, so nothing fails) makes the justice transaction of a second-level HTLC output invalid in the restarted run only, the breach never completes and the channel is never marked fully resolved", 6,
		func(o *an.Obl) {
			w := p.Func(cc + "taprootBriefcaseFromRetInfo")
			rd := p.Func(cc + "applyTaprootRetInfo")
			pairsOf := func(f *an.Func) map[string][]string {
				item, box := c13r5VarOfType(f, "breachedOutput"), c13r5VarOfType(f, "taprootBriefcase")
				if item == "" || box == "" {
					o.FailAt(f.ID+"#variables", f.Where(f.Body.Pos()), "cannot find the single breachedOutput variable (%q) and the single taprootBriefcase variable (%q) of %s", item, box, f.ID)
					return nil
				}
				return transferPairs(f, item, box)
			}
			st, ld := pairsOf(w), pairsOf(rd)
			if st == nil || ld == nil {
				return
			}
			keys := map[string]bool{}
			for k := range st {
				keys[k] = true
			}
			for k := range ld {
				keys[k] = true
			}
			var ks []string
			for k := range keys {
				ks = append(ks, k)
			}
			sort.Strings(ks)
			n := 0
			for _, k := range ks {
				a, b := strings.Join(st[k], " "), strings.Join(ld[k], " ")
				for range st[k] {
					n++
					o.Site("witness types %s", k)
				}
				o.Note("witness types %s: stored {%s}, restored {%s}", k, a, b)
				if a != b {
					o.FailAt(rd.ID+"#case-"+k, rd.Where(rd.Body.Pos()), "for the witness types %s the retribution store persists {%s} but the restart restores {%s}: a field of the breached output comes back from another briefcase field than the one it was stored in", k, a, b)
				}
			}
			var all []string
			for _, k := range ks {
				all = append(all, st[k]...)
			}
			joined := " " + strings.Join(all, " ") + " "
			for _, must := range []string{"signDesc.TapTweak<->TapTweaks.BreachedHtlcTweaks", "secondLevelTapTweak<->TapTweaks.BreachedSecondLevelHltcTweaks"} {
				if !strings.Contains(joined, " "+must+" ") {
					o.FailAt(w.ID+"#pair-"+must, w.Where(w.Body.Pos()), "the stored pairs {%s} do not contain %s", strings.TrimSpace(joined), must)
				}
			}
			if n < 6 {
				o.FailAt(w.ID+"#pairs", w.Where(w.Body.Pos()), "expected at least 6 stored field pairs, found %d", n)
			}
		})
}
