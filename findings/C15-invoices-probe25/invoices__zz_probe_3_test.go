package invoices_test

import (
	"testing"
	"time"

	"github.com/lightningnetwork/lnd/amp"
	invpkg "github.com/lightningnetwork/lnd/invoices"
	"github.com/lightningnetwork/lnd/lntypes"
	"github.com/lightningnetwork/lnd/record"
	"github.com/stretchr/testify/require"
)

// Probe 3: one AMP set that fails reconstruction cancels the whole reusable
// AMP invoice (updateMpp returns CancelInvoiceUpdate). Because that update
// only loads the htlcs of the offending set, the held shards of any OTHER set
// stay in state accepted on a canceled invoice: the mpp timeout
// (cancelSingleHtlc) refuses to touch a non-open invoice, so they are never
// released by the registry.
func TestProbe3BadAmpSetCancelsReusableInvoice(t *testing.T) {
	runProbe(t, func(t *testing.T, makeDB probeMakeDB) {
		defer timeout()()

		ctx := newTestContext(t, nil, makeDB)
		ctxb := t.Context()

		payAddr := [32]byte{1}
		ampInvoice := newInvoice(t, false, true)
		ampInvoice.Terms.PaymentAddr = payAddr
		_, err := ctx.registry.AddInvoice(
			ctxb, ampInvoice, testInvoicePaymentHash,
		)
		require.NoError(t, err)

		// Honest payer: first of four shards of set A is held.
		setA := [32]byte{0xa}
		hodlChanA := make(chan interface{}, 1)
		res, err := ctx.registry.NotifyExitHopHtlc(
			lntypes.Hash{0xa}, testInvoiceAmount/4, testHtlcExpiry,
			testCurrentHeight, getCircuitKey(1), hodlChanA, nil,
			&mockPayload{
				mpp: record.NewMPP(testInvoiceAmount, payAddr),
				amp: record.NewAMP([32]byte{0xa}, setA, 0),
			},
		)
		require.NoError(t, err)
		require.Nil(t, res)

		// Somebody else who knows the invoice sends a complete set B
		// of two shards that does not reconstruct.
		setB := [32]byte{0xb}
		hodlChanB := make(chan interface{}, 1)
		res, err = ctx.registry.NotifyExitHopHtlc(
			lntypes.Hash{0xb}, testInvoiceAmount/2, testHtlcExpiry,
			testCurrentHeight, getCircuitKey(2), hodlChanB, nil,
			&mockPayload{
				mpp: record.NewMPP(testInvoiceAmount, payAddr),
				amp: record.NewAMP([32]byte{0xb}, setB, 0),
			},
		)
		require.NoError(t, err)
		require.Nil(t, res)

		res, err = ctx.registry.NotifyExitHopHtlc(
			lntypes.Hash{0xc}, testInvoiceAmount/2, testHtlcExpiry,
			testCurrentHeight, getCircuitKey(3), nil, nil,
			&mockPayload{
				mpp: record.NewMPP(testInvoiceAmount, payAddr),
				amp: record.NewAMP([32]byte{0xc}, setB, 1),
			},
		)
		require.NoError(t, err)
		checkFailResolution(t, res, invpkg.ResultAmpReconstruction)

		// The held shard of the bad set is failed with it.
		select {
		case r := <-hodlChanB:
			checkFailResolution(
				t, r.(invpkg.HtlcResolution),
				invpkg.ResultAmpReconstruction,
			)
		case <-time.After(testTimeout):
			t.Fatalf("held shard of the bad set not released")
		}

		inv, err := ctx.registry.LookupInvoiceByRef(
			ctxb, invpkg.InvoiceRefByAddr(payAddr),
		)
		require.NoError(t, err)
		if inv.State != invpkg.ContractOpen {
			t.Errorf("SUSPECT: one bad set moved the reusable AMP "+
				"invoice to %v", inv.State)
		}
		t.Logf("state of the honest held shard: %v",
			inv.Htlcs[getCircuitKey(1)].State)

		// The honest shard must be released at the latest by the mpp
		// timeout.
		ctx.clock.SetTime(testTime.Add(35 * time.Second))
		select {
		case r := <-hodlChanA:
			_, ok := r.(*invpkg.HtlcFailResolution)
			require.True(t, ok)
		case <-time.After(testTimeout):
			inv, err := ctx.registry.LookupInvoiceByRef(
				ctxb, invpkg.InvoiceRefByAddr(payAddr),
			)
			require.NoError(t, err)
			t.Fatalf("SUSPECT: held shard of the honest set is "+
				"never released: invoice %v, htlc state %v",
				inv.State, inv.Htlcs[getCircuitKey(1)].State)
		}

		// The invoice can still be paid by a good set.
		sharer, err := amp.NewSeedSharer()
		require.NoError(t, err)
		child := sharer.Child(0)
		res, err = ctx.registry.NotifyExitHopHtlc(
			child.Hash, testInvoiceAmount, testHtlcExpiry,
			testCurrentHeight, getCircuitKey(4), nil, nil,
			&mockPayload{
				mpp: record.NewMPP(testInvoiceAmount, payAddr),
				amp: record.NewAMP(
					child.Share, [32]byte{0xd}, 0,
				),
			},
		)
		require.NoError(t, err)
		checkSettleResolution(t, res, child.Preimage)

		// Only what was settled counts as paid.
		inv, err = ctx.registry.LookupInvoiceByRef(
			ctxb, invpkg.InvoiceRefByAddr(payAddr),
		)
		require.NoError(t, err)
		require.Equal(t, testInvoiceAmount, inv.AmtPaid)
		require.Equal(
			t, invpkg.HtlcStateCanceled, inv.AMPState[setB].State,
		)
		require.Equal(
			t, invpkg.HtlcStateCanceled,
			inv.Htlcs[getCircuitKey(2)].State,
		)
		_, ok := inv.Htlcs[getCircuitKey(3)]
		require.False(t, ok, "failed final shard must not be stored")
	})
}
