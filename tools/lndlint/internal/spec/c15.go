package spec

import (
	"go/ast"
	"go/token"
	"go/types"
	"strings"

	"lndlint/internal/an"
	"lndlint/internal/flow"
)

func init() {
	register(&Spec{
		ID:          "C15",
		Loads:       []LoadSpec{{Patterns: []string{"./invoices", "./channeldb"}}},
		Explanation: "Decides that every place that produces a settle resolution is one of the tabled sites and sits below the complete list of acceptance conditions of its path (open invoice, matching payment address, declared total non-zero and not below the invoice value, every accepted HTLC of the set declaring that same total, set sum reaching the declared total, both expiry margins, not a hold invoice; the legacy and replay paths have their own lists), that the set sum is built only from the accepted set plus the new HTLC, that the AMP preimages are released only when every child hash matched, that a hold invoice is settled by RPC only from the accepted state, that invoice and HTLC states only move forward, that a replayed HTLC is answered from its stored state, that the amount paid is written only by the shared applier from HTLC amounts, that the registry's subscription maps are lock-protected and that both stores route updates through the shared appliers. After the repairs of round 5 (c15_fix5.go): an AMP set with Settled HTLCs takes no further HTLC; the start-up collection of canceled invoices keeps, in the KV scan and in the SQL statement, the invoices that recorded HTLCs; cancelSingleHtlc signals an HTLC it finds Canceled whoever canceled it; every accept outcome that records an HTLC on an Accepted invoice re-registers the invoice with the expiry watcher; the SQL statements run for one HTLC select it by channel and index.",
		NotDecided: []string{
			"arithmetic of sums over arbitrary splits (only the operands and comparisons are decided)", "SQL statements of the native SQL store other than DeleteCanceledInvoices and the per-HTLC statements (UpdateInvoiceHTLC, UpdateAMPSubInvoiceHTLCPreimage), whose WHERE clauses are read",
			"correctness of the AMP share reconstruction itself",
		},
		Assumptions: commonAssumptions,
		Engines:     "GUARD, WHO, TABLE, PATH, LOCK, MIRROR",
		Run:         runC15,
	})
}

const iv = "invoices."

func runC15(r *an.Run) {
	p := r.Prog

	inv := an.Param(1)
	ctxT := an.Param(0)
	terms := func(f string) an.Term { return an.FieldPath(an.FieldPath(inv, "Terms"), f) }
	state := an.FieldPath(inv, "State")
	cst := func(n string) an.Term { return an.PkgVar("invoices", n) }
	expiryOK := func(o *an.Obl, f *an.Func, s an.Site) {
		for _, d := range []string{"finalCltvRejectDelta", "FinalCltvDelta"} {
			re := `^(uint32\()?\(\$p0\.currentHeight \+ \$p0\.finalCltvRejectDelta\)\)?$`
			if d == "FinalCltvDelta" {
				re = `^(uint32\()?\(\$p0\.currentHeight \+ \$p1\.Terms\.FinalCltvDelta\)\)?$`
			}
			guarded(o, f, s, an.CmpX(an.FieldPath(ctxT, "expiry"), an.GE, canonTerm(re), "ctx.expiry >= currentHeight + "+d))
		}
	}

	r.Obl("settle-sites-and-their-conditions", "GUARD",
		"the package's settle-resolution sites are exactly: updateMpp (1), updateLegacy (2), resolveReplayedHtlc (1) through ctx.settleRes, and the two registry fan-outs over HTLCs already in state Settled; each updateMpp / updateLegacy settle site sits below the full condition list of its path, and every accept site of those two functions (an HTLC held for a partial set, a hold invoice or a duplicate) below the conditions that do not depend on completeness (state, address, totals, both expiry margins); settle and accept resolutions are built only by their constructors, accept resolutions only through ctx.acceptRes in those three functions; the locals the conditions are stated on (totalAmt from the MPP record or ctx.totalAmtMsat, paymentAddr, the set sum, setComplete, the accepted set) are not written again once read and the address bytes are not modified in place; a per-HTLC mismatch (declared total, MPP in progress) ends the update without accept or settle and the set loops skip no HTLC: the one loop of updateMpp that tests the declared totals and builds the set sum is left only when the set is exhausted or with the fail resolution, every other loop of updateMpp over the accepted set (the keys of a set that failed AMP reconstruction are gathered for its cancellation) lies below the fail resolution of reconstructAMPPreimages and is not left early at all, the one loop of updateLegacy over the accepted HTLCs is left only with the fail resolution; paymentAddrRequired is the invoice's PaymentAddrRequired feature bit; isValidKeySend is true only for a keysend record whose preimage hashes to ctx.hash; the legacy path releases the invoice-level preimage; the replay lookup is inv.Htlcs[ctx.circuitKey]",
		"one missing condition releases the preimage for an underpaid, misaddressed, too-late or incomplete set", 30,
		func(o *an.Obl) {
			want := map[string]int{iv + "updateMpp": 1, iv + "updateLegacy": 2, iv + "resolveReplayedHtlc": 1}
			got := map[string]int{}
			for _, f := range p.Funcs(false, "invoices") {
				for _, s := range f.Calls(an.CalleeIs(iv+"invoiceUpdateCtx.settleRes"), false) {
					got[f.ID]++
					o.Site("%s", s.String())
				}
				for _, s := range f.Calls(an.CalleeIs(iv+"NewSettleResolution"), false) {
					o.Site("%s", s.String())
					switch f.ID {
					case iv + "invoiceUpdateCtx.settleRes":
					case iv + "InvoiceRegistry.notifyExitHopHtlcLocked":
						// fan-out over the set already settled by the update
						hdr := enclosingLoopHeader(f, s.Node)
						if !strings.Contains(hdr, "HTLCSet(") || !strings.Contains(hdr, iv+"HtlcStateSettled") {
							o.FailAt(f.ID+"#fanout", s.Where(), "settle resolutions are fanned out over %s, expected the HTLC set in state Settled", hdr)
						}
						guarded(o, f, s, an.TypeCaseIs(iv+"HtlcSettleResolution", true, "the update returned a settle resolution"))
					case iv + "InvoiceRegistry.SettleHodlInvoice":
						guarded(o, f, s, an.Cmp(an.FieldPath(nil, "State"), an.EQ, cst("HtlcStateSettled"), "htlc.State == HtlcStateSettled"))
						mustPass(o, f, "idb.UpdateInvoice", f.Calls(an.CalleeNamed("UpdateInvoice"), false), an.OkErrNil, []an.Site{s})
					default:
						o.FailAt(f.ID+"#new-settle-site", s.Where(), "%s creates a settle resolution; the site is not in the table", f.ID)
					}
				}
			}
			for id, n := range want {
				if got[id] != n {
					o.FailAt(id+"#settle-count", "", "%s has %d settle sites, the table has %d", id, got[id], n)
				}
			}
			for id := range got {
				if _, ok := want[id]; !ok {
					o.FailAt(id+"#unlisted-settle", "", "%s settles but is not in the table", id)
				}
			}
			// who may build a settle / accept resolution at all: the
			// constructors are the only places with a literal of the types,
			// the accept constructor is called only by ctx.acceptRes, and
			// ctx.acceptRes only by the three tabled functions
			for tn, ctor := range map[string]string{"HtlcSettleResolution": iv + "NewSettleResolution", "htlcAcceptResolution": iv + "newAcceptResolution"} {
				for _, cl := range p.CompositeLitsOf(p.LookupType("invoices", tn)) {
					id := "<package level>"
					if cl.Fn != nil {
						id = cl.Fn.ID
					}
					o.Site("%s literal in %s at %s", tn, id, cl.Where)
					if id != ctor {
						o.FailAt(id+"#builds-"+tn, cl.Where, "%s builds a %s with a literal; only %s may (every other site goes through the tabled helpers)", id, tn, ctor)
					}
				}
			}
			wantAcc := map[string]int{iv + "updateMpp": 2, iv + "updateLegacy": 2, iv + "resolveReplayedHtlc": 1}
			gotAcc := map[string]int{}
			for _, f := range p.Funcs(false, "invoices") {
				for _, s := range f.Calls(an.CalleeIs(iv+"newAcceptResolution"), false) {
					o.Site("%s", s.String())
					if f.ID != iv+"invoiceUpdateCtx.acceptRes" {
						o.FailAt(f.ID+"#new-accept-site", s.Where(), "%s creates an accept resolution directly; the site is not in the table", f.ID)
					}
				}
				for _, s := range f.Calls(an.CalleeIs(iv+"invoiceUpdateCtx.acceptRes"), false) {
					gotAcc[f.ID]++
					o.Site("accept site %s", s.String())
				}
			}
			for id, n := range wantAcc {
				if gotAcc[id] != n {
					o.FailAt(id+"#accept-count", "", "%s has %d accept sites, the table has %d", id, gotAcc[id], n)
				}
			}
			for id := range gotAcc {
				if _, ok := wantAcc[id]; !ok {
					o.FailAt(id+"#unlisted-accept", "", "%s accepts an HTLC but is not in the table", id)
				}
			}

			// updateMpp
			f := p.Func(iv + "updateMpp")
			total := an.LocalNamed("totalAmt")
			// conditions every recorded HTLC of the MPP path must meet,
			// whether it is held (accept) or completes the set (settle)
			mppCommon := func(s an.Site) {
				guarded(o, f, s, an.Cmp(state, an.EQ, cst("ContractOpen"), "inv.State == ContractOpen"))
				guarded(o, f, s, an.Truth(an.CallTo("bytes.Equal", nil, an.LocalNamed("paymentAddr"), nil), true, "bytes.Equal(paymentAddr, inv.Terms.PaymentAddr[:])"))
				guarded(o, f, s, an.Cmp(total, an.NE, an.IntConst(0), "totalAmt != 0"))
				guarded(o, f, s, an.CmpX(total, an.GE, terms("Value"), "totalAmt >= inv.Terms.Value"))
				expiryOK(o, f, s)
			}
			for _, s := range f.Calls(an.CalleeIs(iv+"invoiceUpdateCtx.settleRes"), false) {
				mppCommon(s)
				// the set is complete: either through the temporary that names
				// the comparison (its definition is pinned below) or, where the
				// comparison is tested in place, through the comparison itself
				if len(c15ObjsNamed(f, "setComplete")) > 0 {
					guarded(o, f, s, an.Truth(an.LocalNamed("setComplete"), true, "setComplete"))
				} else {
					guarded(o, f, s, an.CmpX(an.LocalNamed("newSetTotal"), an.GE, total, "newSetTotal >= totalAmt"))
				}
				guarded(o, f, s, an.Truth(an.FieldPath(inv, "HodlInvoice"), false, "!inv.HodlInvoice"))
			}
			accs := f.Calls(an.CalleeIs(iv+"invoiceUpdateCtx.acceptRes"), false)
			if need(o, f, "accept resolutions (partial set, hold invoice)", accs, 2) {
				for _, s := range accs {
					o.Site("accept %s", s.String())
					mppCommon(s)
				}
			}
			// the address compared is the invoice's
			for _, s := range f.Calls(an.CalleeIs("bytes.Equal"), false) {
				a := f.ArgCanon(s)
				o.Site("address check %v", a)
				if a[1] != "$p1.Terms.PaymentAddr[:]" {
					o.FailAt(f.ID+"#address", s.Where(), "the payment address is compared with %s", a[1])
				}
			}
			// paymentAddr sources
			for _, s := range f.Assigns(an.LocalNamed("paymentAddr"), false) {
				as := s.Node.(*ast.AssignStmt)
				c := f.Canon(as.Rhs[0])
				o.Site("paymentAddr <- %s", c)
				if !strings.Contains(c, "PaymentAddr()") && c != "$p0.pathID[:]" {
					o.FailAt(f.ID+"#address-source", s.Where(), "paymentAddr is taken from %s", c)
				}
			}
			// setComplete is `set sum >= declared total`
			scs := f.Assigns(an.LocalNamed("setComplete"), false)
			hasSetComplete := len(c15ObjsNamed(f, "setComplete")) > 0
			if !hasSetComplete {
				// no temporary: the settle site was required above to lie
				// below newSetTotal >= totalAmt itself
				o.Site("%s tests newSetTotal >= totalAmt in place (no setComplete temporary)", f.ID)
			} else if need(o, f, "setComplete definition", scs, 1) {
				be, ok := scs[0].Node.(*ast.AssignStmt).Rhs[0].(*ast.BinaryExpr)
				if !ok || be.Op.String() != ">=" || !an.Match(f, an.LocalNamed("newSetTotal"), be.X) || !an.Match(f, total, be.Y) {
					o.FailAt(f.ID+"#set-complete", scs[0].Where(), "the set is declared complete by %s, expected newSetTotal >= totalAmt (the total every HTLC of the set declared)", an.Text(scs[0].Node))
				}
			}
			// set sum operands and per-HTLC total equality
			nAcc := 0
			for _, v := range f.Graph().V {
				as, ok := v.Node.(*ast.AssignStmt)
				if !ok || len(as.Lhs) != 1 || !an.Match(f, an.LocalNamed("newSetTotal"), as.Lhs[0]) {
					continue
				}
				s := an.Site{Fn: f, V: v, Node: as}
				c := f.Canon(as.Rhs[0])
				o.Site("newSetTotal %s %s", as.Tok, c)
				switch {
				case as.Tok.String() == "+=" && c == "$p0.amtPaid":
					nAcc++
				case as.Tok.String() == "+=" && strings.HasSuffix(c, ".Amt") && strings.HasPrefix(c, "$elem("):
					nAcc++
					hdr := enclosingLoopHeader(f, as)
					if hdr != "$p1.HTLCSet($p0.setID(), invoices.HtlcStateAccepted)" && !strings.Contains(hdr, "HTLCSet(") {
						o.FailAt(f.ID+"#set-sum-source", s.Where(), "the set sum accumulates over %s", hdr)
					}
					guarded(o, f, s, an.CmpX(total, an.EQ, an.FieldPath(nil, "MppTotalAmt"), "totalAmt == htlc.MppTotalAmt"))
				default:
					o.FailAt(f.ID+"#set-sum", s.Where(), "newSetTotal is changed by %s %s", as.Tok, c)
				}
			}
			if nAcc != 2 {
				o.FailAt(f.ID+"#set-sum-operands", f.Where(f.Body.Pos()), "the set sum has %d accumulation sites, expected the accepted set and the new HTLC", nAcc)
			}
			for _, s := range f.Assigns(an.LocalNamed("htlcSet"), false) {
				c := f.Canon(s.Node.(*ast.AssignStmt).Rhs[0])
				o.Site("htlcSet <- %s", c)
				if !strings.HasSuffix(c, ", invoices.HtlcStateAccepted)") {
					o.FailAt(f.ID+"#set-state", s.Where(), "the set is gathered as %s, expected the HTLCs in state Accepted", c)
				}
			}
			// the stored declared total is the compared one
			for _, cl := range p.CompositeLitsOf(p.LookupType("invoices", "HtlcAcceptDesc")) {
				if cl.Fn == nil || cl.Fn.ID != f.ID {
					continue
				}
				for _, el := range cl.Node.(*ast.CompositeLit).Elts {
					if kv, ok := el.(*ast.KeyValueExpr); ok && an.Text(kv.Key) == "MppTotalAmt" {
						o.Site("stored MppTotalAmt = %s", an.Text(kv.Value))
						if !an.Match(f, total, kv.Value) {
							o.FailAt(f.ID+"#stored-total", f.Where(kv.Pos()), "the HTLC is stored with declared total %s, not the one checked", an.Text(kv.Value))
						}
					}
				}
			}

			// the locals the conditions are stated on keep the value that was
			// checked, and are defined from the payload as documented
			stable := []string{"totalAmt", "paymentAddr", "newSetTotal", "htlcSet", "setID"}
			if hasSetComplete {
				stable = append(stable, "setComplete")
			} else {
				o.Site("%s: the completeness comparison is not held in a local", f.ID)
			}
			c15StableOnceRead(o, f, stable...)
			for _, w := range c15PinnedWrites(o, f, "totalAmt", `^var \$p0\.totalAmtMsat$`, `^= \$p0\.mpp\.TotalMsat\(\)$`) {
				if w.tok == token.ASSIGN {
					guarded(o, f, w.site, an.IsNil(an.FieldPath(ctxT, "mpp"), false, "ctx.mpp != nil"))
				}
			}
			addrLocals := []string{"paymentAddr"}
			for _, s := range f.Assigns(an.LocalNamed("paymentAddr"), false) {
				addrLocals = append(addrLocals, c15LocalsIn(f, s.Node.(*ast.AssignStmt).Rhs[0])...)
			}
			c15NotMutatedInPlace(o, f, []string{"bytes.Equal"}, addrLocals...)
			// a failed per-HTLC test ends the update, and no HTLC of the set
			// is skipped by the tests
			failExit := func(fn *an.Func) func(rs *ast.ReturnStmt) bool {
				return func(rs *ast.ReturnStmt) bool {
					return len(rs.Results) >= 2 && an.IsNilIdent(fn.Info(), rs.Results[0]) && c15HasCallTo(fn.Info(), rs.Results[1], iv+"invoiceUpdateCtx.failRes")
				}
			}
			mppSites := append(append([]an.Site{}, accs...), f.Calls(an.CalleeIs(iv+"invoiceUpdateCtx.settleRes"), false)...)
			c15FactStops(o, f, an.CmpX(total, an.NE, an.FieldPath(nil, "MppTotalAmt"), "totalAmt != htlc.MppTotalAmt"), mppSites, "accept or settle")
			// the loops over the accepted set: the one that tests the declared
			// totals and builds the set sum is left only when the set is
			// exhausted or with the fail resolution; any other loop over the
			// set (the keys of a set that failed AMP reconstruction are
			// gathered for its cancellation) lies below the failed
			// reconstruction and is not left early at all
			var sumLoops []*flow.Vertex
			reconFailed := an.IsNil(an.ResultOf(an.CallTo(iv+"reconstructAMPPreimages", nil), 1), false, "the reconstruction returned a fail resolution")
			for _, hd := range c15RangeHeads(f, `\.HTLCSet\(`) {
				rs := hd.Node.(*ast.RangeStmt)
				sums := false
				ast.Inspect(rs.Body, func(n ast.Node) bool {
					if as, ok := n.(*ast.AssignStmt); ok {
						for _, l := range as.Lhs {
							if an.Match(f, an.LocalNamed("newSetTotal"), l) {
								sums = true
							}
						}
					}
					return !sums
				})
				if sums {
					sumLoops = append(sumLoops, hd)
					continue
				}
				guarded(o, f, an.Site{Fn: f, V: hd, Node: rs}, reconFailed)
				c15LoopLeftOnlyBy(o, f, hd, "keys of the set that failed reconstruction", nil)
			}
			if len(sumLoops) != 1 {
				o.FailAt(f.ID+"#set-loops", f.Where(f.Body.Pos()), "expected one loop over the HTLC set that builds the set sum in %s, found %d", f.ID, len(sumLoops))
			} else {
				c15LoopLeftOnlyBy(o, f, sumLoops[0], "set members", failExit(f))
			}

			// updateLegacy
			g := p.Func(iv + "updateLegacy")
			legacyCommon := func(s an.Site) {
				guarded(o, g, s, an.Truth(an.CallNamed("IsAMP", inv), false, "!inv.IsAMP()"))
				guarded(o, g, s, an.Cmp(state, an.NE, cst("ContractCanceled"), "inv.State != ContractCanceled"))
				guarded(o, g, s, an.CmpX(an.FieldPath(ctxT, "amtPaid"), an.GE, terms("Value"), "ctx.amtPaid >= inv.Terms.Value"))
				guarded(o, g, s, an.AnyOf("keysend or no payment address required",
					an.Truth(an.CallTo(iv+"isValidKeySend", nil), true, ""),
					an.Truth(an.LocalNamed("paymentAddrRequired"), false, "")))
				expiryOK(o, g, s)
			}
			laccs := g.Calls(an.CalleeIs(iv+"invoiceUpdateCtx.acceptRes"), false)
			if need(o, g, "accept resolutions (duplicate, hold invoice)", laccs, 2) {
				for _, s := range laccs {
					o.Site("accept %s", s.String())
					legacyCommon(s)
				}
			}
			for _, s := range g.Calls(an.CalleeIs(iv+"invoiceUpdateCtx.settleRes"), false) {
				legacyCommon(s)
				guarded(o, g, s, an.Cmp(state, an.NE, cst("ContractAccepted"), "inv.State != ContractAccepted"))
				guarded(o, g, s, an.AnyOf("not a hold invoice, or already settled",
					an.Truth(an.FieldPath(inv, "HodlInvoice"), false, ""),
					an.Cmp(state, an.EQ, cst("ContractSettled"), "")))
				guarded(o, g, s, an.IsNil(an.LocalNamed("preimage"), false, "preimage != nil"))
			}
			// MPP in progress check precedes
			var mppFails []an.Site
			for _, s := range g.Calls(an.CalleeIs(iv+"invoiceUpdateCtx.failRes"), false) {
				if a := g.ArgCanon(s); a[0] == iv+"ResultMppInProgress" {
					mppFails = append(mppFails, s)
					guarded(o, g, s, an.Cmp(an.FieldPath(nil, "MppTotalAmt"), an.GT, an.IntConst(0), "htlc.MppTotalAmt > 0"))
					if hdr := enclosingLoopHeader(g, s.Node); hdr != "$p1.HTLCSet(nil, invoices.HtlcStateAccepted)" {
						o.FailAt(g.ID+"#mpp-in-progress-set", s.Where(), "the MPP-in-progress check runs over %s", hdr)
					}
				}
			}
			if need(o, g, "MPP-in-progress rejection", mppFails, 1) {
				// every settle passes the loop head
				var head *an.FlowVertex
				for _, v := range g.Graph().V {
					if rs, ok := v.Node.(*ast.RangeStmt); ok && rs.Pos() <= mppFails[0].Node.Pos() && mppFails[0].Node.End() <= rs.End() {
						head = v
					}
				}
				if head != nil {
					reach := g.Graph().Reach(g.Graph().Entry, nil, map[*an.FlowVertex]bool{head: true})
					for _, s := range g.Calls(an.CalleeIs(iv+"invoiceUpdateCtx.settleRes"), false) {
						if reach[s.V] {
							o.FailAt(g.ID+"#mpp-check-skipped", s.Where(), "a legacy settle can be reached without the MPP-in-progress check")
						}
					}
				}
			}

			// an accepted HTLC that declares an MPP total ends the legacy
			// update (the rejection is returned, not merely computed), and
			// every accepted HTLC is looked at
			lsettles := g.Calls(an.CalleeIs(iv+"invoiceUpdateCtx.settleRes"), false)
			c15FactStops(o, g, an.Cmp(an.FieldPath(nil, "MppTotalAmt"), an.GT, an.IntConst(0), "htlc.MppTotalAmt > 0"), append(append([]an.Site{}, laccs...), lsettles...), "accept or settle")
			if hds := c15RangeHeads(g, `\.HTLCSet\(`); len(hds) != 1 {
				o.FailAt(g.ID+"#set-loops", g.Where(g.Body.Pos()), "expected one loop over the accepted HTLCs in %s, found %d", g.ID, len(hds))
			} else {
				c15LoopLeftOnlyBy(o, g, hds[0], "accepted HTLCs", failExit(g))
			}
			// what "payment address required" means, and the released preimage
			c15PinnedWrites(o, g, "paymentAddrRequired", `^:= \$p1\.Terms\.Features\.RequiresFeature\(lnwire\.PaymentAddrRequired\)$`)
			c15StableOnceRead(o, g, "paymentAddrRequired", "preimage")
			for _, s := range lsettles {
				if a := g.ArgCanon(s); a[0] != "*$p1.Terms.PaymentPreimage" {
					o.FailAt(g.ID+"#legacy-preimage", s.Where(), "the legacy path releases %s, expected the invoice-level preimage", a[0])
				}
			}
			// isValidKeySend: true only for a well-formed keysend record whose
			// preimage hashes to the HTLC's payment hash
			ks := p.Func(iv + "isValidKeySend")
			nTrue := 0
			for _, s := range ks.Returns() {
				rs := s.Node.(*ast.ReturnStmt)
				c := ks.Canon(rs.Results[0])
				o.Site("isValidKeySend returns %s at %s", c, s.Where())
				if c == "false" {
					continue
				}
				nTrue++
				mk := ks.Calls(an.CalleeIs("lntypes.MakePreimage"), false)
				if !needExactly(o, ks, "lntypes.MakePreimage", mk, 1) {
					continue
				}
				arg := ks.Canon(callArg(mk[0], 0))
				want := "(lntypes.MakePreimage(" + arg + ").Hash() == $p0.hash)"
				if c != want {
					o.FailAt(ks.ID+"#verdict", s.Where(), "isValidKeySend answers %s, expected %s (the keysend preimage hashes to the payment hash)", c, want)
				}
				mustPass(o, ks, "lntypes.MakePreimage", mk, an.OkErrNil, []an.Site{s})
				for _, nm := range c15LocalsIn(ks, callArg(mk[0], 0)) {
					c15PinnedWrites(o, ks, nm, `^:= \$p0\.customRecords\[record\.KeySendType\]$`)
					c15StableOnceRead(o, ks, nm)
				}
				if len(c15LocalsIn(ks, callArg(mk[0], 0))) == 0 && arg != "$p0.customRecords[record.KeySendType]" {
					o.FailAt(ks.ID+"#record", mk[0].Where(), "the keysend preimage is read from %s", arg)
				}
			}
			if nTrue != 1 {
				o.FailAt(ks.ID+"#verdicts", ks.Where(ks.Body.Pos()), "isValidKeySend has %d non-false verdicts, expected one", nTrue)
			}

			// replay
			h := p.Func(iv + "resolveReplayedHtlc")
			c15PinnedWrites(o, h, "replayedHTLC", `^:= \$p1\.Htlcs\[\$p0\.circuitKey\]#1$`)
			c15PinnedWrites(o, h, "htlc", `^:= \$p1\.Htlcs\[\$p0\.circuitKey\]$`)
			c15StableOnceRead(o, h, "htlc", "replayedHTLC", "preimage")
			hs := an.FieldPath(an.LocalNamed("htlc"), "State")
			for _, c := range []struct{ callee, st string }{
				{"failRes", "HtlcStateCanceled"}, {"acceptRes", "HtlcStateAccepted"}, {"settleRes", "HtlcStateSettled"},
			} {
				ss := h.Calls(an.CalleeIs(iv+"invoiceUpdateCtx."+c.callee), false)
				if need(o, h, c.callee, ss, 1) {
					for _, s := range ss {
						guarded(o, h, s, an.Cmp(hs, an.EQ, cst(c.st), "htlc.State == "+c.st))
						guarded(o, h, s, an.Truth(an.LocalNamed("replayedHTLC"), true, "the HTLC is already recorded"))
					}
				}
			}
			for _, s := range h.Calls(an.CalleeIs(iv+"invoiceUpdateCtx.settleRes"), false) {
				guarded(o, h, s, an.AnyOf("the stored preimage matches the HTLC's hash",
					an.Truth(an.CallNamed("Matches", nil, an.FieldPath(ctxT, "hash")), true, ""),
					an.Truth(an.CallNamed("Matches", nil, an.FieldPath(an.FieldPath(nil, "AMP"), "Hash")), true, "")))
				guarded(o, h, s, an.AnyOf("AMP hash equals the HTLC's hash or invoice-level preimage",
					an.CmpX(an.FieldPath(an.FieldPath(nil, "AMP"), "Hash"), an.EQ, an.FieldPath(ctxT, "hash"), ""),
					an.Truth(an.CallNamed("IsAMP", inv), false, "")))
			}
		})

	r.Obl("amp-preimages-only-when-all-children-match", "GUARD",
		"reconstructAMPPreimages returns preimages only below `ctx.hash == children[0].Hash` and, for every other child, `htlc.AMP.Hash == child.Hash`; the new HTLC's preimage is children[0].Preimage; updateMpp uses the result only when no fail resolution came back: both results of the one reconstruction call (made for this HTLC's context and the accepted set) are bound, never overwritten, and the preimages are read only below `failRes == nil` of that bound result; the compared HTLC of child idx is htlcSet[indexToCircuitKey[idx]] and it is compared with that very child; no loop of the reconstruction is left early except with the fail resolution; the returned map is made once, written only by the two tabled assignments and has no second name",
		"a preimage derived from shares that do not reproduce an HTLC's payment hash cannot claim that HTLC; settling the set anyway loses the others", 4,
		func(o *an.Obl) {
			f := p.Func(iv + "reconstructAMPPreimages")
			for _, s := range f.Returns() {
				rs := s.Node.(*ast.ReturnStmt)
				if an.IsNilIdent(f.Info(), rs.Results[0]) {
					continue
				}
				guarded(o, f, s, an.CmpX(an.FieldPath(ctxT, "hash"), an.EQ, canonTerm(`^amp\.ReconstructChildren\(.*\)\[0\]\.Hash$`), "ctx.hash == children[0].Hash"))
			}
			// every other child compared in a loop that fails on mismatch
			n := 0
			for _, s := range f.Calls(an.CalleeIs(iv+"invoiceUpdateCtx.failRes"), false) {
				if enclosingLoopHeader(f, s.Node) != "" {
					n++
					// the HTLC at the child's position against that very child
					guarded(o, f, s, an.CmpX(
						canonTerm(`^\$p1\[.*\[\$key\(amp\.ReconstructChildren\(.*\)\[1:\]\)\]\]\.AMP\.Hash$`), an.NE,
						canonTerm(`^\$elem\(amp\.ReconstructChildren\(.*\)\[1:\]\)\.Hash$`), "htlc.AMP.Hash != child.Hash"))
				}
			}
			if n != 1 {
				o.FailAt(f.ID+"#child-check", f.Where(f.Body.Pos()), "expected one per-child hash check, found %d", n)
			}
			// no child is skipped: the loops end only when exhausted or with
			// the fail resolution
			for _, hd := range c15RangeHeads(f, `.`) {
				c15LoopLeftOnlyBy(o, f, hd, "children and set members", func(rs *ast.ReturnStmt) bool {
					return len(rs.Results) == 2 && an.IsNilIdent(f.Info(), rs.Results[0]) && c15HasCallTo(f.Info(), rs.Results[1], iv+"invoiceUpdateCtx.failRes")
				})
			}
			// the returned map: made once, written only by the two tabled
			// assignments, handed out under no other name
			var retObj types.Object
			for _, s := range f.Returns() {
				rs := s.Node.(*ast.ReturnStmt)
				if an.IsNilIdent(f.Info(), rs.Results[0]) {
					continue
				}
				id, ok := ast.Unparen(rs.Results[0]).(*ast.Ident)
				if !ok || f.Info().Uses[id] == nil || (retObj != nil && retObj != f.Info().Uses[id]) {
					o.FailAt(f.ID+"#returned-map", s.Where(), "reconstructAMPPreimages returns %s, expected the one map the checked preimages were stored in", an.Text(rs.Results[0]))
					continue
				}
				retObj = f.Info().Uses[id]
			}
			sameMap := func(e ast.Expr) bool {
				t := f.Info().TypeOf(e)
				return t != nil && len(f.Results()) > 0 && types.Identical(types.Unalias(t), types.Unalias(f.Results()[0]))
			}
			if retObj != nil {
				c15PinnedWrites(o, f, retObj.Name(), `^:= make\(`)
				ast.Inspect(f.Body, func(n ast.Node) bool {
					switch x := n.(type) {
					case *ast.AssignStmt:
						for _, r := range x.Rhs {
							if c15IdentIs(f.Info(), r, retObj) {
								o.FailAt(f.ID+"#map-aliased", f.Where(x.Pos()), "the preimage map gets a second name by `%s`", an.Text(x))
							}
						}
					case *ast.CallExpr:
						if id := an.CalleeID(f.Info(), x); (id == "builtin.delete" || id == "builtin.clear") && len(x.Args) > 0 && sameMap(x.Args[0]) {
							o.FailAt(f.ID+"#map-entries-removed", f.Where(x.Pos()), "entries of the preimage map are removed by `%s`", an.Text(x))
						}
					}
					return true
				})
			}
			// which preimage goes to which HTLC: the new HTLC (child 0, whose
			// hash was compared with ctx.hash) and, for the others, the
			// child at the position whose hash was compared with that HTLC
			nPre := 0
			var cmpKey string
			for _, v := range f.Graph().V {
				switch n := v.Node.(type) {
				case *ast.AssignStmt:
					if len(n.Lhs) != 1 || len(n.Rhs) != 1 {
						continue
					}
					ix, ok := n.Lhs[0].(*ast.IndexExpr)
					if !ok || !sameMap(ix.X) {
						continue
					}
					nPre++
					if !c15IdentIs(f.Info(), ix.X, retObj) || n.Tok != token.ASSIGN {
						o.FailAt(f.ID+"#preimage-map", f.Where(n.Pos()), "`%s` writes a preimage into %s, not (plainly) into the returned map", an.Text(n), an.Text(ix.X))
					}
					k, val := f.Canon(ix.Index), f.Canon(n.Rhs[0])
					o.Site("htlcPreimages[%s] = %s", k, val)
					switch {
					case k == "$p0.circuitKey":
						if !reMatch(`^amp\.ReconstructChildren\(.*\)\[0\]\.Preimage$`, val) {
							o.FailAt(f.ID+"#new-htlc-preimage", f.Where(n.Pos()), "the new HTLC receives %s, expected children[0].Preimage (the child whose hash was compared with ctx.hash)", val)
						}
					case reMatch(`\[\$key\(amp\.ReconstructChildren\(.*\)\[1:\]\)\]$`, k):
						if !reMatch(`^\$elem\(amp\.ReconstructChildren\(.*\)\[1:\]\)\.Preimage$`, val) {
							o.FailAt(f.ID+"#set-htlc-preimage", f.Where(n.Pos()), "the HTLC at position idx receives %s, expected the preimage of the child at that position", val)
						}
						if cmpKey != "" && cmpKey != k {
							o.FailAt(f.ID+"#set-htlc-key", f.Where(n.Pos()), "preimages are stored under %s but hashes were compared for %s", k, cmpKey)
						}
					default:
						o.FailAt(f.ID+"#preimage-key", f.Where(n.Pos()), "a preimage is stored under %s", k)
					}
					if id, ok := ast.Unparen(ix.Index).(*ast.Ident); ok && cmpKey == "" {
						_ = id
					}
				}
			}
			// the compared HTLC of the loop: htlcSet[indexToCircuitKey[idx]]
			for _, v := range f.Graph().V {
				as, ok := v.Node.(*ast.AssignStmt)
				if !ok || len(as.Lhs) != 1 || an.Text(as.Lhs[0]) != "htlc" {
					continue
				}
				c := f.Canon(as.Rhs[0])
				o.Site("compared HTLC: %s", c)
				if !reMatch(`^\$p1\[.*\[\$key\(amp\.ReconstructChildren\(.*\)\[1:\]\)\]\]$`, c) {
					o.FailAt(f.ID+"#compared-htlc", f.Where(as.Pos()), "the HTLC whose hash is compared is %s, expected htlcSet[indexToCircuitKey[idx]] for the child's position idx", c)
				}
			}
			if nPre != 2 {
				o.FailAt(f.ID+"#preimage-sites", f.Where(f.Body.Pos()), "expected 2 preimage assignments, found %d", nPre)
			}
			g := p.Func(iv + "updateMpp")
			// both results of the reconstruction are bound, the call is made
			// for this HTLC and the accepted set, and the preimages are used
			// only when the bound fail resolution is nil
			var preObj, failObj types.Object
			rc := g.Calls(an.CalleeIs(iv+"reconstructAMPPreimages"), false)
			if needExactly(o, g, "reconstructAMPPreimages", rc, 1) {
				if a := g.ArgCanon(rc[0]); a[0] != "$p0" || a[1] != "$p1.HTLCSet($p0.setID(), invoices.HtlcStateAccepted)" {
					o.FailAt(g.ID+"#reconstruct-args", rc[0].Where(), "the preimages are reconstructed for (%s, %s), expected this HTLC's context and the accepted set", a[0], a[1])
				}
				preObj, failObj = c15LhsObj(g, rc[0], 0), c15LhsObj(g, rc[0], 1)
				if preObj == nil || failObj == nil {
					o.FailAt(g.ID+"#reconstruct-results", rc[0].Where(), "a result of reconstructAMPPreimages is discarded (%s): the fail resolution must be tested before the preimages are used", an.Text(rc[0].Node))
				} else {
					c15StableOnceRead(o, g, preObj.Name(), failObj.Name())
					c15PinnedWrites(o, g, preObj.Name(), "", `^= invoices\.reconstructAMPPreimages\(`)
					c15PinnedWrites(o, g, failObj.Name(), "", `^= invoices\.reconstructAMPPreimages\(.*#1$`)
				}
			}
			for _, s := range g.Assigns(an.LocalNamed("htlcPreimage"), false) {
				as := s.Node.(*ast.AssignStmt)
				c := an.Text(as.Rhs[0])
				o.Site("htlcPreimage <- %s", c)
				ix, isIx := ast.Unparen(as.Rhs[0]).(*ast.IndexExpr)
				switch {
				case isIx && preObj != nil && c15IdentIs(g.Info(), ix.X, preObj) && g.Canon(ix.Index) == "$p0.circuitKey":
					guarded(o, g, s, an.IsNil(c15LocalTerm(failObj), true, "failRes == nil"))
					before(o, g, "reconstructAMPPreimages", rc, "use of the preimages", []an.Site{s})
				case g.Canon(as.Rhs[0]) == "*$p1.Terms.PaymentPreimage":
					guarded(o, g, s, an.IsNil(an.FieldPath(ctxT, "amp"), true, "ctx.amp == nil"))
				default:
					o.FailAt(g.ID+"#preimage-source", s.Where(), "the released preimage is %s", c)
				}
			}
			c15StableOnceRead(o, g, "htlcPreimage")
			for _, s := range g.Calls(an.CalleeIs(iv+"invoiceUpdateCtx.settleRes"), false) {
				if !an.Match(g, an.LocalNamed("htlcPreimage"), callArg(s, 0)) {
					o.FailAt(g.ID+"#released-preimage", s.Where(), "updateMpp releases %s", an.Text(callArg(s, 0)))
				}
			}
			// the per-HTLC preimages persisted with the settle are the bound map
			for _, cl := range p.CompositeLitsOf(p.LookupType("invoices", "InvoiceStateUpdateDesc")) {
				if cl.Fn == nil || cl.Fn.ID != g.ID {
					continue
				}
				if v, ok := c15LitKeys(cl.Node.(*ast.CompositeLit))["HTLCPreimages"]; ok {
					o.Site("persisted HTLCPreimages = %s", an.Text(v))
					if preObj == nil || !c15IdentIs(g.Info(), v, preObj) {
						o.FailAt(g.ID+"#persisted-preimages", g.Where(v.Pos()), "the settle descriptor persists %s, expected the reconstructed preimages", an.Text(v))
					}
				}
			}
		})

	r.Obl("hold-invoice-settled-only-from-accepted", "GUARD",
		"SettleHodlInvoice's update callback produces the settle descriptor only when the invoice is neither Open, Canceled nor Settled; settleHodlInvoice applies it only to hold invoices with a preimage that getUpdatedInvoiceState verified against the hash, and counts as paid exactly the HTLCs it moved to Settled",
		"settling an open hold invoice releases the preimage for a partial set", 8,
		func(o *an.Obl) {
			f := p.Func(iv + "InvoiceRegistry.SettleHodlInvoice")
			n := 0
			for _, lf := range f.Lits {
				for _, s := range lf.Returns() {
					rs := s.Node.(*ast.ReturnStmt)
					if len(rs.Results) != 2 || an.IsNilIdent(lf.Info(), rs.Results[0]) {
						continue
					}
					n++
					for _, st := range []string{"ContractOpen", "ContractCanceled", "ContractSettled"} {
						guarded(o, lf, s, an.Cmp(an.FieldPath(an.Param(0), "State"), an.NE, cst(st), "invoice.State != "+st))
					}
				}
			}
			if n != 1 {
				o.FailAt(f.ID+"#descriptor", f.Where(f.Body.Pos()), "expected one settle descriptor return, found %d", n)
			}
			g := p.Func(iv + "settleHodlInvoice")
			us := g.Calls(an.CalleeNamed("UpdateInvoiceState"), false)
			if need(o, g, "UpdateInvoiceState", us, 1) {
				guarded(o, g, us[0], an.Truth(an.FieldPath(an.Param(0), "HodlInvoice"), true, "invoice.HodlInvoice"))
				guarded(o, g, us[0], an.IsNil(an.FieldPath(an.Param(3), "Preimage"), false, "update.Preimage != nil"))
				mustPass(o, g, "getUpdatedInvoiceState", g.Calls(an.CalleeIs(iv+"getUpdatedInvoiceState"), false), an.OkErrNil, us)
			}
			for _, v := range g.Graph().V {
				as, ok := v.Node.(*ast.AssignStmt)
				if !ok || len(as.Lhs) != 1 || an.Text(as.Lhs[0]) != "amtPaid" || as.Tok.String() != "+=" {
					continue
				}
				s := an.Site{Fn: g, V: v, Node: as}
				o.Site("%s", s.String())
				guarded(o, g, s, an.Truth(an.LocalNamed("settled"), true, "the HTLC was moved to Settled"))
				mustPass(o, g, "resolveHtlc", g.Calls(an.CalleeIs(iv+"resolveHtlc"), false), an.OkErrNil, []an.Site{s})
				if c := g.Canon(as.Rhs[0]); !strings.HasSuffix(c, ".Amt") {
					o.FailAt(g.ID+"#amt", s.Where(), "amount paid accumulates %s", c)
				}
			}
			// the preimage check inside getUpdatedInvoiceState
			gs := p.Func(iv + "getUpdatedInvoiceState")
			found := false
			for _, s := range gs.Returns() {
				if an.Text(s.Node.(*ast.ReturnStmt).Results[1]) == "ErrInvoicePreimageMismatch" {
					found = true
					guarded(o, gs, s, an.CmpX(an.CallNamed("Hash", an.FieldPath(an.Param(2), "Preimage")), an.NE, canonTerm(`^\*\$p1$|^\$p1$`), "update.Preimage.Hash() != *hash"))
				}
			}
			if !found {
				o.FailAt(gs.ID+"#preimage-check", gs.Where(gs.Body.Pos()), "getUpdatedInvoiceState no longer rejects a preimage that does not hash to the invoice hash")
			}
		})

	r.Obl("states-only-move-forward", "TABLE",
		"getUpdatedInvoiceState returns a new state only from Open or Accepted, never Open as target, never Accepted from Accepted; getUpdatedHtlcState yields Canceled only below invoice state Canceled and not for a Settled HTLC, and Settled only for an Accepted HTLC; canCancelSingleHtlc permits only an Accepted HTLC of an Open invoice; invoice.State and htlc.State are written only by the appliers after the updater accepted the change, with exactly the value handed to the updater, never through a pointer to the field; the invoice state handed to the updater is the one getUpdatedInvoiceState validated for that invoice (its result, or a constant below `newState != nil && *newState == constant`); outside trySettle getUpdatedHtlcState hands out only the HTLC's own state (with changed == false) or Canceled; trySettle is called with the constant true only below invoice state Settled and the constant false otherwise, its flags persist / settled / newState are written only by the tabled statements; addHTLCs decides for invoice.State, or for Settled only below settleEligibleAMP (= the update carries HTLC preimages); cancelHTLCs asks canCancelSingleHtlc about the HTLC it cancels and the invoice's current state",
		"a backward or sideways transition un-settles a paid invoice or settles a canceled HTLC (both settled and canceled)", 14,
		func(o *an.Obl) {
			f := p.Func(iv + "getUpdatedInvoiceState")
			ist := an.FieldPath(an.Param(0), "State")
			ns := an.FieldPath(an.Param(2), "NewState")
			k := 0
			for _, s := range f.Returns() {
				rs := s.Node.(*ast.ReturnStmt)
				if an.IsNilIdent(f.Info(), rs.Results[0]) {
					continue
				}
				k++
				guarded(o, f, s, an.AnyOf("invoice.State is Open or Accepted", an.Cmp(ist, an.EQ, cst("ContractOpen"), ""), an.Cmp(ist, an.EQ, cst("ContractAccepted"), "")))
				guarded(o, f, s, an.Cmp(ns, an.NE, cst("ContractOpen"), "update.NewState != ContractOpen"))
				guarded(o, f, s, an.AnyOf("not Accepted -> Accepted", an.Cmp(ist, an.EQ, cst("ContractOpen"), ""), an.Cmp(ns, an.NE, cst("ContractAccepted"), "")))
				if c := f.Canon(rs.Results[0]); c != "&$p2.NewState" {
					o.FailAt(f.ID+"#returned-state", s.Where(), "getUpdatedInvoiceState returns %s, expected the requested state", c)
				}
			}
			if k != 3 {
				o.FailAt(f.ID+"#returns", f.Where(f.Body.Pos()), "expected 3 state-returning exits, found %d", k)
			}
			g := p.Func(iv + "getUpdatedHtlcState")
			// the parameters (and trySettle's) stand for the same value throughout
			var gParams []string
			for _, fn := range append([]*an.Func{g}, g.Lits...) {
				for _, pv := range fn.Params(false) {
					if pv != nil && pv.Name() != "" && pv.Name() != "_" {
						gParams = append(gParams, pv.Name())
					}
				}
			}
			notReassigned(o, g, gParams...)
			isTrySettle := func(e ast.Expr) (*ast.CallExpr, bool) {
				c, ok := ast.Unparen(e).(*ast.CallExpr)
				if !ok || len(c.Args) != 1 {
					return nil, false
				}
				id, ok := c.Fun.(*ast.Ident)
				if !ok || len(g.Lits) != 1 {
					return nil, false
				}
				fl, _ := g.UniqueDef(id).(*ast.FuncLit)
				return c, fl != nil && fl == g.Lits[0].Lit
			}
			for _, s := range g.Returns() {
				rs := s.Node.(*ast.ReturnStmt)
				if len(rs.Results) == 1 {
					// the verdict is delegated: only to trySettle
					if _, ok := isTrySettle(rs.Results[0]); !ok {
						o.FailAt(g.ID+"#delegated-verdict", s.Where(), "getUpdatedHtlcState hands out the verdict of %s, expected trySettle", an.Text(rs.Results[0]))
					}
					continue
				}
				if len(rs.Results) != 3 {
					continue
				}
				ch, st := g.Canon(rs.Results[0]), g.Canon(rs.Results[1])
				o.Site("getUpdatedHtlcState exit (changed=%s, state=%s) at %s", ch, st, s.Where())
				switch st {
				case "$p0.State":
					// the HTLC keeps its state: no change may be reported
					if ch != "false" {
						o.FailAt(g.ID+"#change-without-state", s.Where(), "`%s` reports a change (%s) while handing back the HTLC's own state", an.Text(rs), ch)
					}
				case iv + "HtlcStateCanceled":
					guarded(o, g, s, an.Cmp(an.Param(1), an.EQ, cst("ContractCanceled"), "invoiceState == ContractCanceled"))
					guarded(o, g, s, an.Cmp(an.FieldPath(an.Param(0), "State"), an.NE, cst("HtlcStateSettled"), "htlc.State != HtlcStateSettled"))
					if ch != "!($p0.State == "+iv+"HtlcStateCanceled)" {
						o.FailAt(g.ID+"#cancel-verdict", s.Where(), "the cancel verdict is %s, expected 'not canceled yet'", ch)
					}
				default:
					o.FailAt(g.ID+"#target-state", s.Where(), "getUpdatedHtlcState itself yields HTLC state %s (`%s`); outside trySettle only the HTLC's own state or Canceled may be handed out", st, an.Text(rs))
				}
			}
			nSet := 0
			for _, lf := range g.Lits {
				for _, s := range lf.Assigns(an.LocalNamed("newState"), false) {
					as := s.Node.(*ast.AssignStmt)
					if an.Text(as.Rhs[0]) == "HtlcStateSettled" {
						nSet++
						guarded(o, lf, s, an.Truth(an.LocalNamed("settled"), true, "settled"))
						guarded(o, lf, s, an.Cmp(an.FieldPath(nil, "State"), an.EQ, cst("HtlcStateAccepted"), "htlc.State == HtlcStateAccepted"))
					}
				}
				for _, s := range lf.Assigns(an.LocalNamed("settled"), false) {
					as := s.Node.(*ast.AssignStmt)
					if an.Text(as.Rhs[0]) == "true" {
						guarded(o, lf, s, an.AnyOf("non-AMP, or the AMP preimage matches its hash",
							an.IsNil(an.LocalNamed("setID"), true, ""),
							an.Truth(an.CallNamed("Matches", nil), true, "")))
					}
				}
			}
			if nSet != 1 {
				o.FailAt(g.ID+"#settle-site", g.Where(g.Body.Pos()), "expected one place that yields HtlcStateSettled, found %d", nSet)
			}
			for _, lf := range g.Lits {
				// the flags and the state trySettle hands out are written only
				// by the tabled statements
				c15PinnedWrites(o, lf, "settled", `^:= false$`, `^= true$`)
				c15PinnedWrites(o, lf, "newState", `^:= \$p0\.State$`, `^= invoices\.HtlcStateSettled$`)
				for _, s := range lf.Returns() {
					rs := s.Node.(*ast.ReturnStmt)
					if len(rs.Results) != 3 {
						o.FailAt(g.ID+"#trysettle-exit", s.Where(), "trySettle exits with `%s`", an.Text(rs))
						continue
					}
					ch, st := lf.Canon(rs.Results[0]), lf.Canon(rs.Results[1])
					switch {
					case an.Text(rs.Results[1]) == "newState" && len(c15ObjsNamed(lf, "newState")) == 1:
						// verdict checked below
					case st == "$p0.State":
						if ch != "false" {
							o.FailAt(g.ID+"#trysettle-change-without-state", s.Where(), "`%s` reports a change (%s) while handing back the HTLC's own state", an.Text(rs), ch)
						}
					default:
						o.FailAt(g.ID+"#trysettle-target-state", s.Where(), "trySettle yields HTLC state %s (`%s`) outside its tabled settle site", st, an.Text(rs))
					}
				}
			}
			// the "changed" verdict of trySettle: only when persisting and settled
			nCh := 0
			for _, lf := range g.Lits {
				for _, s := range lf.Returns() {
					rs := s.Node.(*ast.ReturnStmt)
					if len(rs.Results) != 3 || an.Text(rs.Results[1]) != "newState" {
						continue
					}
					nCh++
					c := lf.Canon(rs.Results[0])
					o.Site("trySettle changed = %s", c)
					be, ok := ast.Unparen(rs.Results[0]).(*ast.BinaryExpr)
					if !ok || be.Op.String() != "&&" || an.Text(be.X) != "persist" || an.Text(be.Y) != "settled" {
						o.FailAt(g.ID+"#changed-verdict", s.Where(), "trySettle reports a change when %s, expected persist && settled", an.Text(rs.Results[0]))
					}
				}
			}
			if nCh != 1 {
				o.FailAt(g.ID+"#changed-site", g.Where(g.Body.Pos()), "expected one return of the new state in trySettle, found %d", nCh)
			}
			// trySettle(true) only under ContractSettled
			nTry := 0
			for _, s := range g.AllCalls(false) {
				c, ok := isTrySettle(s.Node.(*ast.CallExpr))
				if !ok {
					continue
				}
				nTry++
				o.Site("%s", s.String())
				switch {
				case an.BoolConst(true)(g, ast.Unparen(c.Args[0])):
					guarded(o, g, s, an.Cmp(an.Param(1), an.EQ, cst("ContractSettled"), "invoiceState == ContractSettled"))
				case an.BoolConst(false)(g, ast.Unparen(c.Args[0])):
				default:
					o.FailAt(g.ID+"#persist-flag", s.Where(), "trySettle is asked to persist when %s; the flag is the constant true below invoice state Settled and false otherwise", an.Text(c.Args[0]))
				}
			}
			if nTry != 2 {
				o.FailAt(g.ID+"#trysettle-calls", g.Where(g.Body.Pos()), "expected 2 calls of trySettle (Settled: persist, Accepted: check only), found %d", nTry)
			}
			// addHTLCs decides for the invoice's current state, or for Settled
			// when the AMP preimages of the set came with the update
			fa := p.Func(iv + "addHTLCs")
			for _, gs := range fa.Calls(an.CalleeIs(iv+"getUpdatedHtlcState"), false) {
				names := c15LocalsIn(fa, callArg(gs, 1))
				if len(names) == 0 {
					if c := fa.Canon(callArg(gs, 1)); c != "$p0.State" {
						o.FailAt(fa.ID+"#decision-state", gs.Where(), "addHTLCs asks getUpdatedHtlcState about invoice state %s", c)
					}
				}
				for _, nm := range names {
					for _, w := range c15PinnedWrites(o, fa, nm, `^:= \$p0\.State$`, `^= invoices\.ContractSettled$`) {
						if w.tok == token.ASSIGN {
							guarded(o, fa, w.site, an.Truth(an.LocalNamed("settleEligibleAMP"), true, "settleEligibleAMP"))
						}
					}
					c15StableOnceRead(o, fa, nm)
				}
			}
			c15PinnedWrites(o, fa, "settleEligibleAMP", "", `^= \(len\(\$p3\.State\.HTLCPreimages\) != 0\)$`)
			c15StableOnceRead(o, fa, "settleEligibleAMP")
			for _, nm := range []string{"State"} {
				c15NoAddressOfField(o, p, []string{"invoices"}, iv+"Invoice", nm)
				c15NoAddressOfField(o, p, []string{"invoices"}, iv+"InvoiceHTLC", nm)
			}
			cc := p.Func(iv + "canCancelSingleHtlc")
			for _, s := range cc.Returns() {
				if an.IsNilIdent(cc.Info(), s.Node.(*ast.ReturnStmt).Results[0]) {
					guarded(o, cc, s, an.Cmp(an.Param(1), an.EQ, cst("ContractOpen"), "invoiceState == ContractOpen"))
					guarded(o, cc, s, an.Cmp(an.FieldPath(an.Param(0), "State"), an.EQ, cst("HtlcStateAccepted"), "htlc.State == HtlcStateAccepted"))
				}
			}
			// writers of Invoice.State / InvoiceHTLC.State in the package
			allowInv := map[string]string{iv + "addHTLCs": "UpdateInvoiceState", iv + "settleHodlInvoice": "UpdateInvoiceState", iv + "cancelInvoice": "UpdateInvoiceState"}
			for _, fn := range p.Funcs(false, "invoices") {
				for _, s := range fn.Assigns(an.Field(iv+"Invoice", "State", nil), false) {
					o.Site("invoice state writer %s", s.String())
					need_, ok := allowInv[fn.ID]
					if !ok {
						if strings.Contains(fn.ID, "sql") || strings.Contains(fn.ID, "SQL") || strings.Contains(fn.ID, "Migrat") || strings.Contains(fn.ID, "unmarshal") {
							continue
						}
						o.FailAt(fn.ID+"#writes-invoice-state", s.Where(), "%s writes Invoice.State outside the appliers", fn.ID)
						continue
					}
					ups := fn.Calls(an.CalleeNamed(need_), false)
					mustPass(o, fn, need_, ups, an.OkErrNil, []an.Site{s})
					if !needExactly(o, fn, need_, ups, 1) {
						continue
					}
					// memory gets the state the updater accepted
					c15MemoryMirrors(o, fn, s, ups[0], 0, "Invoice.State")
					// and that state is the one getUpdatedInvoiceState validated for this invoice
					gus := fn.Calls(an.CalleeIs(iv+"getUpdatedInvoiceState"), false)
					mustPass(o, fn, "getUpdatedInvoiceState", gus, an.OkErrNil, ups)
					for _, gu := range gus {
						if a := fn.ArgCanon(gu); a[0] != "$p0" {
							o.FailAt(fn.ID+"#validated-invoice", gu.Where(), "the transition is validated for %s, the state is written to the invoice parameter", a[0])
						}
					}
					validated := an.ResultOf(an.CallTo(iv+"getUpdatedInvoiceState", nil), 0)
					switch st := fn.Canon(callArg(ups[0], 0)); {
					case strings.HasPrefix(st, "*"+iv+"getUpdatedInvoiceState("):
					case strings.HasPrefix(st, iv+"Contract"):
						guarded(o, fn, ups[0], an.IsNil(validated, false, "the validated state is not nil"))
						guarded(o, fn, ups[0], an.Cmp(validated, an.EQ, cst(strings.TrimPrefix(st, iv)), "the validated state == "+strings.TrimPrefix(st, iv)))
					default:
						o.FailAt(fn.ID+"#unvalidated-state", ups[0].Where(), "%s stores invoice state %s, which is not the state getUpdatedInvoiceState validated", fn.ID, st)
					}
				}
				for _, s := range fn.Assigns(an.Field(iv+"InvoiceHTLC", "State", nil), false) {
					o.Site("htlc state writer %s", s.String())
					switch {
					case fn.ID == iv+"resolveHtlc":
						rcs := fn.Calls(an.CalleeNamed("ResolveHtlc"), false)
						mustPass(o, fn, "updater.ResolveHtlc", rcs, an.OkErrNil, []an.Site{s})
						if needExactly(o, fn, "updater.ResolveHtlc", rcs, 1) {
							c15MemoryMirrors(o, fn, s, rcs[0], 1, "InvoiceHTLC.State")
							if a := fn.ArgCanon(rcs[0]); a[0] != "$p0" || a[1] != "$p2" {
								o.FailAt(fn.ID+"#resolve-args", rcs[0].Where(), "resolveHtlc records (%s, %s) with the updater, expected its own circuit key and state parameters", a[0], a[1])
							}
							if c := fn.Canon(s.Node.(*ast.AssignStmt).Lhs[0]); c != "$p1.State" {
								o.FailAt(fn.ID+"#resolve-target", s.Where(), "resolveHtlc writes %s, expected the state of its HTLC parameter", c)
							}
						}
					case strings.Contains(fn.ID, "sql") || strings.Contains(fn.ID, "SQL") || strings.Contains(fn.ID, "Migrat") || strings.Contains(fn.ID, "unmarshal"):
					default:
						o.FailAt(fn.ID+"#writes-htlc-state", s.Where(), "%s writes InvoiceHTLC.State outside resolveHtlc", fn.ID)
					}
				}
			}
			// resolveHtlc callers pass a state derived from getUpdatedHtlcState or the Canceled constant below canCancelSingleHtlc
			for _, fn := range p.Funcs(false, "invoices") {
				for _, s := range fn.Calls(an.CalleeIs(iv+"resolveHtlc"), false) {
					a := fn.ArgCanon(s)
					o.Site("%s state=%s", s.String(), a[2])
					// the state written is the one the decision was made for
					type row struct{ state, ctxState, changed string }
					tab := map[string]row{
						iv + "cancelHTLCs":       {"invoices.HtlcStateCanceled", "", ""},
						iv + "addHTLCs":          {`^invoices\.getUpdatedHtlcState\(.*\)#1$`, "", "htlcStateChanged"},
						iv + "settleHodlInvoice": {"invoices.HtlcStateSettled", "invoices.ContractSettled", "settled"},
						iv + "cancelInvoice":     {"invoices.HtlcStateCanceled", "invoices.ContractCanceled", "canceled"},
					}
					if rw, ok := tab[fn.ID]; ok {
						if a[2] != rw.state && !(strings.HasPrefix(rw.state, "^") && reMatch(rw.state, a[2])) {
							o.FailAt(fn.ID+"#resolveHtlc-state", s.Where(), "%s records HTLC state %s, expected %s", fn.ID, a[2], rw.state)
						}
						if rw.changed != "" {
							guarded(o, fn, s, an.Truth(an.LocalNamed(rw.changed), true, rw.changed+" (getUpdatedHtlcState reported a change)"))
							// the flag is the first result of that decision and nothing else
							c15PinnedWrites(o, fn, rw.changed, `^:= invoices\.getUpdatedHtlcState\(.*\)$`)
						}
						for _, gs := range fn.Calls(an.CalleeIs(iv+"getUpdatedHtlcState"), false) {
							ga := fn.ArgCanon(gs)
							o.Site("%s decides for htlc=%s invoice state=%s", fn.ID, ga[0], ga[1])
							if rw.ctxState != "" && ga[1] != rw.ctxState {
								o.FailAt(fn.ID+"#decision-state", gs.Where(), "%s asks getUpdatedHtlcState about invoice state %s, expected %s", fn.ID, ga[1], rw.ctxState)
							}
							if ga[0] != a[1] {
								o.FailAt(fn.ID+"#decision-htlc", gs.Where(), "%s decides for %s but resolves %s", fn.ID, ga[0], a[1])
							}
						}
					}
					switch fn.ID {
					case iv + "cancelHTLCs":
						ccs := fn.Calls(an.CalleeIs(iv+"canCancelSingleHtlc"), false)
						mustPass(o, fn, "canCancelSingleHtlc", ccs, an.OkErrNil, []an.Site{s})
						for _, cs := range ccs {
							ca := fn.ArgCanon(cs)
							o.Site("%s asks canCancelSingleHtlc about htlc=%s invoice state=%s", fn.ID, ca[0], ca[1])
							if ca[0] != a[1] {
								o.FailAt(fn.ID+"#cancel-decision-htlc", cs.Where(), "%s asks about %s but cancels %s", fn.ID, ca[0], a[1])
							}
							if ca[1] != "$p0.State" {
								o.FailAt(fn.ID+"#cancel-decision-state", cs.Where(), "%s asks canCancelSingleHtlc about invoice state %s, expected the invoice's current state", fn.ID, ca[1])
							}
						}
					case iv + "addHTLCs", iv + "settleHodlInvoice", iv + "cancelInvoice":
						mustPass(o, fn, "getUpdatedHtlcState", fn.Calls(an.CalleeIs(iv+"getUpdatedHtlcState"), false), an.OkErrNil, []an.Site{s})
					default:
						o.FailAt(fn.ID+"#resolveHtlc-caller", s.Where(), "%s calls resolveHtlc", fn.ID)
					}
				}
			}
		})

	r.Obl("amount-paid-from-htlc-amounts", "WHO",
		"Invoice.AmtPaid is written only by updateInvoiceAmtPaid after the updater accepted it (loaders and copies aside); addHTLCs accumulates only HTLC amounts, for a non-AMP invoice only of Accepted/Settled HTLCs once the invoice left Open; updateInvoiceAmtPaid sets memory (plain `=`) to the amount it handed to the updater and no address of the field is taken; it is called only with the running sums of addHTLCs / settleHodlInvoice (locals that are declared without value and only ever grow by HTLC amounts, for AMP by the amount already paid) and by cancelHtlcsAmp with paid minus the canceled HTLC; invoiceIsAMP is invoice.IsAMP(); the HTLC state is read for the tally only after resolveHtlc applied this update's transition",
		"an amount paid that is not the sum of the settled HTLCs misreports what the invoice received", 5,
		func(o *an.Obl) {
			for _, fn := range p.Funcs(false, "invoices") {
				for _, s := range fn.Assigns(an.Field(iv+"Invoice", "AmtPaid", nil), false) {
					o.Site("AmtPaid writer %s", s.String())
					if fn.ID != iv+"updateInvoiceAmtPaid" {
						o.FailAt(fn.ID+"#writes-amtpaid", s.Where(), "%s writes Invoice.AmtPaid", fn.ID)
						continue
					}
					ups := fn.Calls(an.CalleeNamed("UpdateInvoiceAmtPaid"), false)
					mustPass(o, fn, "updater.UpdateInvoiceAmtPaid", ups, an.OkErrNil, []an.Site{s})
					if needExactly(o, fn, "updater.UpdateInvoiceAmtPaid", ups, 1) {
						// memory is set to the amount the updater accepted
						c15MemoryMirrors(o, fn, s, ups[0], 0, "Invoice.AmtPaid")
						if a := fn.ArgCanon(ups[0]); a[0] != "$p1" {
							o.FailAt(fn.ID+"#stored-amount", ups[0].Where(), "updateInvoiceAmtPaid stores %s, expected its amount parameter", a[0])
						}
						if c := fn.Canon(s.Node.(*ast.AssignStmt).Lhs[0]); c != "$p0.AmtPaid" {
							o.FailAt(fn.ID+"#amount-target", s.Where(), "updateInvoiceAmtPaid writes %s, expected the amount of its invoice parameter", c)
						}
					}
				}
			}
			c15NoAddressOfField(o, p, []string{"invoices"}, iv+"Invoice", "AmtPaid")
			// who hands which amount to the applier: the running sums of
			// addHTLCs / settleHodlInvoice (locals that only ever grow by HTLC
			// amounts, for AMP by the amount already paid) and the AMP
			// cancellation's "paid minus this HTLC"
			for _, fn := range p.Funcs(false, "invoices") {
				for _, s := range fn.Calls(an.CalleeIs(iv+"updateInvoiceAmtPaid"), false) {
					a := fn.ArgCanon(s)
					o.Site("%s hands %s to updateInvoiceAmtPaid", fn.ID, an.Text(callArg(s, 1)))
					if a[0] != "$p0" {
						o.FailAt(fn.ID+"#amount-invoice", s.Where(), "%s updates the amount of %s, expected its invoice parameter", fn.ID, a[0])
					}
					sums := map[string][]string{
						iv + "addHTLCs":          {"", `^\+= \$elem\(\$p0\.Htlcs\)\.Amt$`, `^\+= \$p0\.AmtPaid$`},
						iv + "settleHodlInvoice": {"", `^\+= \$elem\(\$p0\.Htlcs\)\.Amt$`},
					}
					switch allowed, isSum := sums[fn.ID]; {
					case isSum:
						id, ok := ast.Unparen(callArg(s, 1)).(*ast.Ident)
						if !ok || len(c15LocalsIn(fn, id)) != 1 {
							o.FailAt(fn.ID+"#amount-not-the-sum", s.Where(), "%s hands %s to updateInvoiceAmtPaid, expected its running sum of HTLC amounts", fn.ID, an.Text(callArg(s, 1)))
							continue
						}
						c15PinnedWrites(o, fn, id.Name, allowed...)
					case fn.ID == iv+"cancelHtlcsAmp":
						if a[1] != "($p0.AmtPaid - $p2.Amt)" {
							o.FailAt(fn.ID+"#amount-after-cancel", s.Where(), "cancelHtlcsAmp sets the amount paid to %s, expected the amount paid minus the canceled HTLC", a[1])
						}
					default:
						o.FailAt(fn.ID+"#amount-caller", s.Where(), "%s calls updateInvoiceAmtPaid; the caller is not in the table", fn.ID)
					}
				}
			}
			f := p.Func(iv + "addHTLCs")
			// an AMP invoice is one that says so; the flag is set once
			c15PinnedWrites(o, f, "invoiceIsAMP", `^:= \$p0\.IsAMP\(\)$`)
			// the HTLC's state is read for the tally only after this update's
			// own transition of that HTLC was applied
			var htlcLoop []*flow.Vertex
			for _, hd := range c15RangeHeads(f, `^\$p0\.Htlcs$`) {
				htlcLoop = append(htlcLoop, hd)
			}
			if len(htlcLoop) != 1 {
				o.FailAt(f.ID+"#htlc-loop", f.Where(f.Body.Pos()), "expected one loop over invoice.Htlcs in addHTLCs, found %d", len(htlcLoop))
			} else {
				stateField := an.Field(iv+"InvoiceHTLC", "State", nil)
				resolves := f.Calls(an.CalleeIs(iv+"resolveHtlc"), false)
				for _, v := range f.Graph().V {
					reads := false
					v.Inspect(false, func(n ast.Node) bool {
						if e, ok := n.(ast.Expr); ok && stateField(f, e) {
							reads = true
						}
						return !reads
					})
					if as, ok := v.Node.(*ast.AssignStmt); ok && len(as.Lhs) == 1 && stateField(f, ast.Unparen(as.Lhs[0])) {
						reads = false
					}
					if !reads {
						continue
					}
					o.Site("%s reads the HTLC state at %s", f.ID, f.Where(v.Pos()))
					after := f.Graph().Reach(v, nil, map[*flow.Vertex]bool{htlcLoop[0]: true})
					for _, rc := range resolves {
						if after[rc.V] && rc.V != v {
							o.FailAt(f.ID+"#state-read-before-transition", f.Where(v.Pos()), "addHTLCs reads the HTLC's state (%s) before resolveHtlc at %s applies this update's transition: the tally sees the old state", an.Text(v.Node), rc.Where())
						}
					}
				}
			}
			n := 0
			for _, v := range f.Graph().V {
				as, ok := v.Node.(*ast.AssignStmt)
				if !ok || len(as.Lhs) != 1 || an.Text(as.Lhs[0]) != "amtPaid" || as.Tok.String() != "+=" {
					continue
				}
				n++
				s := an.Site{Fn: f, V: v, Node: as}
				c := f.Canon(as.Rhs[0])
				o.Site("%s (%s)", s.String(), c)
				switch {
				case c == "$p0.AmtPaid":
					guarded(o, f, s, an.Truth(an.LocalNamed("invoiceIsAMP"), true, "AMP invoice"))
				case strings.HasSuffix(c, ".Amt"):
					guarded(o, f, s, an.Truth(an.LocalNamed("invoiceStateReady"), true, "HTLC accepted or settled"))
					isAMP := an.Truth(an.LocalNamed("invoiceIsAMP"), true, "AMP invoice")
					istate := an.FieldPath(an.Param(0), "State")
					if amp, _ := f.Guarded(s, isAMP); amp {
						guarded(o, f, s, an.Cmp(istate, an.EQ, cst("ContractOpen"), "invoice.State == ContractOpen (AMP invoices stay open)"))
						guarded(o, f, s, an.Truth(an.LocalNamed("ok"), true, "the HTLC is one of update.AddHtlcs"))
					} else {
						guarded(o, f, s, an.Truth(an.LocalNamed("invoiceIsAMP"), false, "not an AMP invoice"))
						guarded(o, f, s, an.Cmp(istate, an.NE, cst("ContractOpen"), "invoice.State != ContractOpen"))
					}
					onlyGuards(o, f, s, []string{`^invoiceStateReady$`, `^!?\(?invoiceIsAMP\)?$`, `^invoice\.State [!=]= ContractOpen$`, `^ok$`, `^!\(err != nil\)$`}, "amount accumulation")
				default:
					o.FailAt(f.ID+"#amt-operand", s.Where(), "amount paid accumulates %s", c)
				}
			}
			if n != 3 {
				o.FailAt(f.ID+"#amt-sites", f.Where(f.Body.Pos()), "expected 3 accumulation sites in addHTLCs, found %d", n)
			}
			// what "ready" means: the HTLC is Accepted or Settled
			rd := f.Assigns(an.LocalNamed("invoiceStateReady"), false)
			if need(o, f, "definition of invoiceStateReady", rd, 1) {
				for _, d := range rd {
					c := f.Canon(d.Node.(*ast.AssignStmt).Rhs[0])
					o.Site("invoiceStateReady := %s", c)
					if c != "(($elem($p0.Htlcs).State == invoices.HtlcStateAccepted) || ($elem($p0.Htlcs).State == invoices.HtlcStateSettled))" {
						o.FailAt(f.ID+"#ready-definition", d.Where(), "an HTLC counts towards the amount paid when %s, expected its state to be Accepted or Settled", c)
					}
				}
			}
		})

	r.Obl("registry-subscription-locks", "LOCK",
		"the registry's hodl subscription maps are accessed only under hodlSubscriptionsMux and its notification client maps only under notificationClientMux",
		"concurrent notifications from several links race on the subscriber maps: a resolution is delivered to a stale set or lost", 14,
		func(o *an.Obl) {
			p.CheckLocks(o, an.LockSpec{Pkg: "invoices", Type: "InvoiceRegistry", Mutex: "hodlSubscriptionsMux",
				Fields: []string{"hodlSubscriptions", "hodlReverseSubscriptions"}, Constructor: iv + "NewRegistry"})
			p.CheckLocks(o, an.LockSpec{Pkg: "invoices", Type: "InvoiceRegistry", Mutex: "notificationClientMux",
				Fields: []string{"notificationClients", "singleNotificationClients"}, Constructor: iv + "NewRegistry"})
		})

	r.Obl("stores-share-the-appliers", "MIRROR",
		"both invoice stores implement UpdateInvoice by calling the shared invoices.UpdateInvoice once inside their transaction with the caller's callback; every update type of the dispatcher has its applier",
		"a store with its own transition logic would accept updates the other rejects: the same event sequence gives different verdicts per backend", 6,
		func(o *an.Obl) {
			for _, id := range []string{"channeldb.DB.UpdateInvoice", iv + "SQLStore.UpdateInvoice"} {
				f := p.Func(id)
				n := 0
				for _, lf := range append([]*an.Func{f}, f.Lits...) {
					for _, s := range lf.Calls(an.CalleeIs(iv+"UpdateInvoice"), false) {
						n++
						a := lf.ArgCanon(s)
						o.Site("%s callback=%s", s.String(), a[3])
						if !strings.HasSuffix(a[3], "p3") {
							o.FailAt(id+"#callback", s.Where(), "%s passes %s as the update callback, expected its own callback parameter", id, a[3])
						}
					}
				}
				if n != 1 {
					o.FailAt(id+"#shared-applier", f.Where(f.Body.Pos()), "%s calls the shared UpdateInvoice %d times, expected once", id, n)
				}
			}
			u := p.Func(iv + "UpdateInvoice")
			want := map[string]string{"CancelHTLCsUpdate": "cancelHTLCs", "AddHTLCsUpdate": "addHTLCs", "SettleHodlInvoiceUpdate": "settleHodlInvoice", "CancelInvoiceUpdate": "cancelInvoice"}
			for k, fn := range want {
				cs := u.Calls(an.CalleeIs(iv+fn), false)
				if need(o, u, fn, cs, 1) {
					guarded(o, u, cs[0], an.Cmp(an.Any(), an.EQ, cst(k), "update.UpdateType == "+k))
				}
			}
			fin := u.Calls(an.CalleeNamed("Finalize"), false)
			if need(o, u, "updater.Finalize", fin, 1) {
				for _, s := range u.StrictSuccessReturnsOrNilPtr() {
					_ = s
				}
			}
			_ = types.Typ
		})
}
