package spec

import (
	"go/ast"
	"strconv"
	"strings"

	"lndlint/internal/an"
)

func runC10c(r *an.Run) {
	p := r.Prog

	r.Obl("input-derived-sizes-bounded", "BOUND",
		"every make / io.CopyN / io.LimitReader size and every slice bound on a fixed array in package lnwire is a constant, derived from an 8/16-bit value, from len() of data already held, or dominated by an explicit upper-bound comparison; slices of fixed arrays with a run-time bound are dominated by a comparison against a constant not larger than the array; sizes passed in as parameters are tabled with the bound their callers provide",
		"a length taken from the wire must not allocate beyond the 65 KB message bound or index past a fixed buffer (panic)", 60,
		func(o *an.Obl) {
			params := map[string]string{
				"lnwire.RawFeatureVector.decode": "length is a uint16 read from the wire or a TLV record length (capped by the P2P stream, see tlv-stream-canonical)",
				"lnwire.RawFeatureVector.encode": "encoder side: length computed from the vector itself",
				"lnwire.dnsAddressDecoder":       "TLV record length, capped by the P2P stream",
			}
			for _, f := range p.Funcs(false, "lnwire") {
				for _, s := range f.SizeSites() {
					site := an.Site{Fn: f, V: s.V, Node: s.Node}
					o.Site("%s %s %s: %s [%s]", s.Class, s.Kind, f.ID, an.Text(s.Node), s.Why)
					key := f.Root().ID + "#" + s.Kind + ":" + an.Text(s.Size)
					switch s.Class {
					case "const", "narrow", "len", "guarded":
					case "param":
						root := f.Root().ID
						// TLV decoder callbacks: l is the record length
						if isTlvDecoder(f.Root()) {
							break
						}
						if _, ok := params[root]; !ok {
							o.FailAt(key, site.Where(), "%s in %s is sized by parameter %s; the bound its callers provide has not been reviewed", an.Text(s.Node), root, an.Text(s.Size))
						}
					default:
						o.FailAt(key, site.Where(), "%s in %s: cannot bound the size %s (%s) by type, length or a dominating comparison", an.Text(s.Node), f.Root().ID, an.Text(s.Size), s.Why)
					}
					if s.Kind == "make" && s.Class == "narrow" {
						if call, isCall := s.Node.(*ast.CallExpr); isCall {
							mx, es := f.NarrowMax(s.Size, 0), f.MakeElemSize(call)
							if cb, ok := f.ClampBound(site, s.Size); ok {
								mx = cb
								o.Site("%s: count clamped to %d", an.Text(s.Node), cb)
							} else if mx == 0 {
								mx = 65535 // narrow origin through several definitions
							}
							if mx > 0 && es > 0 && mx*es > 4*65535 {
								o.FailAt(key+"#alloc-product", site.Where(), "%s in %s allocates up to %d elements of %d bytes (%d bytes) from a %d-valued wire count before anything is read: far beyond the 65535-byte message bound", an.Text(s.Node), f.Root().ID, mx, es, mx*es, mx)
							}
						}
					}
					if s.Kind == "slice" && s.Bound != "" {
						if _, isId := an.Strip(f.Info(), s.Size).(*ast.Ident); !isId {
							continue // arithmetic on checked lengths: covered by the guarded class
						}
						arr, _ := strconv.ParseInt(s.Bound, 10, 64)
						ub, ok := f.UpperBoundConst(site, s.Size)
						if !ok || ub > arr {
							o.FailAt(key+"#array-bound", site.Where(), "%s slices a %d-byte array with run-time bound %s whose dominating upper bound is %v (found=%v): indexes above %d panic", an.Text(s.Node), arr, an.Text(s.Size), ub, ok, arr)
						}
					}
				}
			}
		})
}

// isTlvDecoder reports whether f has the tlv.Decoder callback signature
// (r io.Reader, val interface{}, buf *[8]byte, l uint64) error.
func isTlvDecoder(f *an.Func) bool {
	ps := f.Params(false)
	if len(ps) != 4 || ps[3] == nil {
		return false
	}
	return strings.HasSuffix(ps[3].Type().String(), "uint64") && strings.Contains(ps[2].Type().String(), "[8]byte")
}
