package spec

import (
	"go/ast"
	"go/token"
	"go/types"
	"strings"

	"lndlint/internal/an"
)

// c18RampFollowsHeight is the body of C18/ramp-follows-the-block-height.
func c18RampFollowsHeight(o *an.Obl, p *an.Prog) {
	tp := sw + "TxPublisher."
	isStore := func(id string, c *ast.CallExpr) bool {
		sel, ok := c.Fun.(*ast.SelectorExpr)
		return ok && sel.Sel.Name == "Store" && strings.HasSuffix(an.Text(sel.X), ".currentHeight")
	}
	// who stores the height at all
	for _, fn := range p.Funcs(false, "sweep") {
		for _, s := range fn.Calls(isStore, true) {
			if id := fn.Root().ID; id != tp+"monitor" && id != tp+"Start" {
				o.FailAt(fn.ID+"#stores-height", s.Where(), "%s stores the publisher's height; only Start and the block event of monitor may", fn.ID)
			}
		}
	}
	mon := p.Func(tp + "monitor")
	st := mon.Calls(isStore, false)
	pr := mon.Calls(an.CalleeIs(tp+"processRecords"), false)
	if need(o, mon, "currentHeight.Store", st, 1) && need(o, mon, "processRecords", pr, 1) {
		before(o, mon, "currentHeight.Store", st, "processRecords", pr)
		// inside one block event: the store sits in the same case body, ahead
		for _, a := range st {
			c := mon.Canon(callArg(a, 0))
			o.Site("monitor stores height %s", c)
			if c != "<-$recv.BlockbeatChan.Height()" {
				o.FailAt(mon.ID+"#stored-height", a.Where(), "the stored height is %s, expected exactly the height of the received block", c)
			}
			for _, b := range pr {
				if a.Node.Pos() > b.Node.Pos() {
					o.FailAt(mon.ID+"#height-after-records", a.Where(), "the block's height is stored after its records were processed: every bump of this block sees the previous height")
				}
			}
		}
	}
	start := p.Func(tp + "Start")
	sst := start.Calls(isStore, false)
	if need(o, start, "currentHeight.Store", sst, 1) {
		for _, a := range sst {
			c := start.Canon(callArg(a, 0))
			o.Site("Start stores height %s", c)
			if c != "$p0.Height()" {
				o.FailAt(start.ID+"#stored-height", a.Where(), "Start stores the height %s, expected exactly the height of the block it was given", c)
			}
		}
		notReassigned(o, start, c17ParamNames(start, 0)...)
		for _, v := range start.Graph().V {
			if g, ok := v.Node.(*ast.GoStmt); ok && strings.Contains(an.Text(g.Call.Fun), "monitor") {
				before(o, start, "currentHeight.Store", sst, "go t.monitor()", []an.Site{{Fn: start, V: v, Node: g}})
			}
		}
	}

	// conf target sources: one computation per function, from the stored
	// height (the height handed over by processRecords) and the request's
	// deadline, handed on unchanged
	ini := p.Func(tp + "initializeFeeFunction")
	hb := p.Func(tp + "handleFeeBumpTx")
	wantTarget := map[string]string{
		ini.ID: sw + "calcCurrentConfTarget($recv.currentHeight.Load(), $p0.DeadlineHeight)",
		hb.ID:  sw + "calcCurrentConfTarget($p1, $p0.req.DeadlineHeight)",
	}
	for _, f := range []*an.Func{ini, hb} {
		cs := f.Calls(an.CalleeIs(sw+"calcCurrentConfTarget"), true)
		if !needExactly(o, f, "calcCurrentConfTarget", cs, 1) {
			continue
		}
		c := f.Canon(cs[0].Node.(*ast.CallExpr))
		o.Site("%s: conf target = %s", f.ID, c)
		if c != wantTarget[f.ID] {
			o.FailAt(f.ID+"#conf-target-source", cs[0].Where(), "the conf target is computed as %s, expected %s", c, wantTarget[f.ID])
		}
		var names []string
		for _, pv := range f.Params(false) {
			if pv != nil {
				names = append(names, pv.Name())
			}
		}
		notReassigned(o, f, names...)
	}
	c17NoFieldWrites(o, ini, "$p0.DeadlineHeight")
	c17NoFieldWrites(o, hb, "$p0.req.DeadlineHeight", "$p0.req", "$p0.feeFunction")
	nf := ini.Calls(an.CalleeIs(sw+"NewLinearFeeFunction"), false)
	if need(o, ini, "NewLinearFeeFunction", nf, 1) {
		for _, s := range nf {
			a := ini.ArgCanon(s)
			o.Site("initial fee function conf target = %s", a[1])
			if a[1] != wantTarget[ini.ID] {
				o.FailAt(ini.ID+"#initial-conf-target", s.Where(), "the initial fee function is given the conf target %s, expected %s", a[1], wantTarget[ini.ID])
			}
		}
	}
	prc := p.Func(tp + "processRecords")
	for _, fn := range p.Funcs(false, "sweep") {
		for _, s := range fn.Calls(an.CalleeIs(tp+"handleFeeBumpTx"), true) {
			if fn.Root().ID != prc.ID {
				o.FailAt(fn.ID+"#calls-bump", s.Where(), "%s calls handleFeeBumpTx; the height it passes is not checked", fn.ID)
			}
		}
	}
	nGo := 0
	for _, v := range prc.Graph().V {
		g, ok := v.Node.(*ast.GoStmt)
		if !ok || !strings.Contains(an.Text(g.Call.Fun), "handleFeeBumpTx") {
			continue
		}
		nGo++
		c := prc.Canon(g.Call.Args[1])
		o.Site("processRecords hands height %s to handleFeeBumpTx", c)
		if c != "$recv.currentHeight.Load()" {
			o.FailAt(prc.ID+"#bump-height", prc.Where(g.Pos()), "bumps are given height %s", c)
		}
	}
	if nGo == 0 {
		o.FailAt(prc.ID+"#bump-height", prc.Where(prc.Body.Pos()), "processRecords does not start handleFeeBumpTx")
	}

	// calcCurrentConfTarget: max(deadline - currentHeight, 0), returned as is
	cc := p.Func(sw + "calcCurrentConfTarget")
	notReassigned(o, cc, c17ParamNames(cc, 0, 1)...)
	var target types.Object
	for _, s := range cc.Returns() {
		rs, _ := s.Node.(*ast.ReturnStmt)
		var id *ast.Ident
		if rs != nil && len(rs.Results) == 1 {
			id, _ = ast.Unparen(rs.Results[0]).(*ast.Ident)
		}
		v, _ := c17ObjOfIdent(cc, id).(*types.Var)
		if v == nil || (target != nil && target != types.Object(v)) {
			o.FailAt(cc.ID+"#returned", s.Where(), "calcCurrentConfTarget returns %s, expected the local that holds max(deadline - currentHeight, 0) unchanged", an.Text(s.Node))
			continue
		}
		target = v
		o.Site("calcCurrentConfTarget returns %s", v.Name())
	}
	if target == nil {
		o.FailAt(cc.ID+"#returned", cc.Where(cc.Body.Pos()), "cannot identify the conf target returned by calcCurrentConfTarget")
		return
	}
	// blocks left: one local defined as deadline - currentHeight
	delta := canonTerm(`^\(\$p1 - \$p0\)$`)
	nZero, nDelta := 0, 0
	for _, w := range c17WritesOf(cc, target) {
		s, inGraph := c17SiteOfNode(cc, w.Node)
		if w.Tok == token.VAR && w.Rhs == nil {
			continue // var confTarget uint32
		}
		if !inGraph || !w.Whole || w.Tuple || w.Rhs == nil || (w.Tok != token.ASSIGN && w.Tok != token.DEFINE && w.Tok != token.VAR) {
			o.FailAt(cc.ID+"#conf-target", cc.Where(w.Node.Pos()), "the conf target is changed by %s", an.Text(w.Node))
			continue
		}
		c := cc.Canon(w.Rhs)
		o.Site("confTarget = %s", c)
		switch c {
		case "0":
			nZero++
			guarded(o, cc, s, an.Cmp(delta, an.LT, an.IntConst(0), "deadline - currentHeight < 0"))
		case "uint32(($p1 - $p0))":
			nDelta++
			guarded(o, cc, s, an.Cmp(delta, an.GE, an.IntConst(0), "deadline - currentHeight >= 0"))
		default:
			o.FailAt(cc.ID+"#conf-target", s.Where(), "the conf target is %s", c)
		}
	}
	if nDelta == 0 {
		o.FailAt(cc.ID+"#conf-target", cc.Where(cc.Body.Pos()), "the conf target is never set to deadline - currentHeight")
	}
	// every exit is reached with one of the tabled values in place: a zero
	// value (uint32 zero) is the floor
	_ = nZero

	// the bump: exactly that conf target goes to IncreaseFeeRate; publish
	// only when it reported an increase
	inc := hb.Calls(an.CalleeNamed("IncreaseFeeRate"), false)
	pub := hb.Calls(an.CalleeIs(tp+"createAndPublishTx"), false)
	if n, m := len(hb.Calls(an.CalleeNamed("IncreaseFeeRate"), true)), len(hb.Calls(an.CalleeIs(tp+"createAndPublishTx"), true)); n != len(inc) || m != len(pub) {
		o.FailAt(hb.ID+"#in-literal", hb.Where(hb.Body.Pos()), "handleFeeBumpTx bumps or publishes inside a function literal, outside the checked paths")
	}
	if needExactly(o, hb, "IncreaseFeeRate", inc, 1) && need(o, hb, "createAndPublishTx", pub, 1) {
		c := hb.Canon(inc[0].Node.(*ast.CallExpr))
		o.Site("bump: %s", c)
		if c != "$p0.feeFunction.IncreaseFeeRate("+wantTarget[hb.ID]+")" {
			o.FailAt(hb.ID+"#increase-arg", inc[0].Where(), "the bump calls %s, expected the record's fee function with %s", c, wantTarget[hb.ID])
		}
		mustPass(o, hb, "IncreaseFeeRate", inc, an.OkErrNil, pub)
		// the flag tested is result 0 of that very call (a flag that is
		// rewritten before the test has no unique origin)
		increased := an.ResultOf(func(f *an.Func, e ast.Expr) bool { return ast.Unparen(e) == ast.Expr(inc[0].Node.(*ast.CallExpr)) }, 0)
		for _, s := range pub {
			guarded(o, hb, s, an.Truth(increased, true, "IncreaseFeeRate reported an increase"))
		}
	}
}
