package spec

// Witnesses for the obligations added after the third seeding round (the seeds'
// own edits where they are one hunk, a close variant otherwise).
func init() {
	registry["C15"].Mutants = append(registry["C15"].Mutants, []Mutant{
		{Name: "seed3-replayed-htlc-decided-again-unless-cancel-set", File: "invoices/invoiceregistry.go",
			Old:    "\t\tif isReplayed {\n\t\t\tresolution = res\n\t\t\treturn nil, nil\n\t\t}\n",
			New:    "\t\tif isReplayed && !cancelSet {\n\t\t\tresolution = res\n\t\t\treturn nil, nil\n\t\t}\n",
			Expect: "replay-is-recognised-before-any-other-verdict"},
	}...)
	registry["C16"].Mutants = append(registry["C16"].Mutants, []Mutant{
		{Name: "seed3-inflight-query-drops-reasoned-payment-with-unresolved-shard", File: "sqldb/sqlc/payments.sql.go",
			Old:    "WHERE p.id > $1\nAND (\n    (\n        p.fail_reason IS NULL\n        AND NOT EXISTS (",
			New:    "WHERE p.id > $1\nAND p.fail_reason IS NULL\nAND (\n    (\n        p.fail_reason IS NULL\n        AND NOT EXISTS (",
			Expect: "sql-inflight-query-selects-exactly-the-non-terminal-payments"},
	}...)
	registry["C17"].Mutants = append(registry["C17"].Mutants, []Mutant{
		{Name: "seed3-pending-state-keeps-a-copy-of-the-terms", File: "lnwallet/chancloser/rbf_coop_transitions.go",
			Old:    "\t\t\t\tCloseTx:           closeTx,\n\t\t\t\tFeeRate:           feeRate,\n\t\t\t\tCloseChannelTerms: l.CloseChannelTerms,\n\t\t\t\tParty:             lntypes.Remote,",
			New:    "\t\t\t\tCloseTx:           closeTx,\n\t\t\t\tFeeRate:           feeRate,\n\t\t\t\tCloseChannelTerms: func() *CloseChannelTerms { t := *l.CloseChannelTerms; return &t }(),\n\t\t\t\tParty:             lntypes.Remote,",
			Expect: "rbf-states-share-one-set-of-close-terms"},
	}...)
	registry["C18"].Mutants = append(registry["C18"].Mutants, []Mutant{
		{Name: "seed3-starting-rate-of-the-last-input-wins", File: "sweep/tx_input_set.go",
			Old:    "\t\tif feerate > maxFeeRate {\n\t\t\tmaxFeeRate = feerate\n\t\t\tstartingFeeRate = fn.Some(maxFeeRate)\n\t\t}",
			New:    "\t\tif feerate > 0 {\n\t\t\tmaxFeeRate = feerate\n\t\t\tstartingFeeRate = fn.Some(maxFeeRate)\n\t\t}",
			Expect: "regrouped-set-starts-at-the-highest-offered-rate"},
		{Name: "seed3-starting-rate-is-the-minimum", File: "sweep/tx_input_set.go",
			Old:    "\t\tif feerate > maxFeeRate {",
			New:    "\t\tif feerate < maxFeeRate || maxFeeRate == 0 {",
			Expect: "regrouped-set-starts-at-the-highest-offered-rate"},
		{Name: "seed3-required-output-dust-checked-as-p2wkh", File: "sweep/aggregator.go",
			Old:    "\tdustLimit := lnwallet.DustLimitForSize(len(output.PkScript))",
			New:    "\tdustLimit := lnwallet.DustLimitForSize(input.P2WPKHSize)",
			Expect: "regrouped-set-starts-at-the-highest-offered-rate"},
	}...)
	registry["C19"].Mutants = append(registry["C19"].Mutants, []Mutant{
		{Name: "seed3-unhandled-channel-asked-about-zero", File: "routing/bandwidth.go",
			Old:    "\t\t\tif !auxBandwidth.IsHandled {\n\t\t\t\treturn fn.Ok(bandwidthResult{})\n\t\t\t}",
			New:    "\t\t\tif !auxBandwidth.IsHandled {\n\t\t\t\treturn fn.Ok(bandwidthResult{\n\t\t\t\t\thtlcAmount: fn.Some[lnwire.MilliSatoshi](0),\n\t\t\t\t})\n\t\t\t}",
			Expect: "first-hop-link-is-asked-about-the-real-amount"},
		{Name: "seed3-link-asked-about-the-override-only", File: "routing/bandwidth.go",
			Old:    "\thtlcAmount := result.htlcAmount.UnwrapOr(amount)",
			New:    "\thtlcAmount := result.htlcAmount.UnwrapOr(0)",
			Expect: "first-hop-link-is-asked-about-the-real-amount"},
	}...)
	registry["C20"].Mutants = append(registry["C20"].Mutants, []Mutant{
		{Name: "seed3-zombie-update-falls-through-to-unknown-edge", File: "graph/builder.go",
			Old:    "\t\t// Otherwise, we'll fall back to our usual ChannelPruneExpiry.\n\t\treturn time.Since(timestamp) > b.cfg.ChannelPruneExpiry\n\t}",
			New:    "\t\tif b.cfg.AssumeChannelValid {\n\t\t\treturn time.Since(timestamp) > b.cfg.ChannelPruneExpiry\n\t\t}\n\t}",
			Expect: "zombie-channel-update-is-judged-by-its-age"},
		{Name: "seed3-zombie-update-judged-by-wall-clock-of-now", File: "graph/builder.go",
			Old:    "\t\treturn time.Since(timestamp) > b.cfg.ChannelPruneExpiry\n\t}",
			New:    "\t\treturn time.Since(time.Now()) > b.cfg.ChannelPruneExpiry\n\t}",
			Expect: "zombie-channel-update-is-judged-by-its-age"},
	}...)
}
