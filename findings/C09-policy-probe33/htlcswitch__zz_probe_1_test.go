package htlcswitch

import (
	"math"
	"math/big"
	"testing"

	"github.com/lightningnetwork/lnd/graph/db/models"
	"github.com/lightningnetwork/lnd/lnwire"
	"github.com/stretchr/testify/require"
)

// Probes of the UNMODIFIED tree for property C09. Each test asserts the
// behaviour that exact arithmetic demands; a failure confirms the suspicion.

func newProbeLink(t *testing.T, policy models.ForwardingPolicy,
	rejectDelta uint32) *channelLink {

	t.Helper()

	testChannel, _, err := createTestChannel(
		t, alicePrivKey, bobPrivKey, 100000, 100000, 1000, 1000,
		lnwire.ShortChannelID{},
	)
	require.NoError(t, err)

	link := &channelLink{
		cfg: ChannelLinkConfig{
			FwrdingPolicy: policy,
			FetchLastChannelUpdate: func(lnwire.ShortChannelID) (
				*lnwire.ChannelUpdate1, error) {

				return &lnwire.ChannelUpdate1{}, nil
			},
			OutgoingCltvRejectDelta: rejectDelta,
			MaxOutgoingCltvExpiry:   DefaultMaxOutgoingCltvExpiry,
			HtlcNotifier:            &mockHTLCNotifier{},
		},
		log:     log,
		channel: testChannel.channel,
	}
	link.attachFailAliasUpdate(func(lnwire.ShortChannelID,
		bool) *lnwire.ChannelUpdate1 {

		return nil
	})

	return link
}

// TestProbeExpiryChecksWrapNearMaxHeight: heightNow+OutgoingCltvRejectDelta
// and MaxOutgoingCltvExpiry+heightNow are computed in uint32
// (htlcswitch/link.go canSendHtlc). In the wrap-around neighbourhood of the
// height both sums wrap, and an outgoing expiry that lies billions of blocks in
// the past is accepted.
func TestProbeExpiryChecksWrapNearMaxHeight(t *testing.T) {
	link := newProbeLink(t, models.ForwardingPolicy{
		TimeLockDelta: 20,
		MinHTLCOut:    500,
		MaxHTLC:       1000,
		BaseFee:       10,
	}, 3)

	var hash [32]byte

	height := uint32(math.MaxUint32 - 1)
	res := link.CheckHtlcForward(
		hash, 1500, 1000, 25, 5, models.InboundFee{}, height,
		lnwire.ShortChannelID{}, nil,
	)
	require.NotNil(t, res, "outgoing expiry 5 accepted at height %d",
		height)
}

// TestProbeTooFarWrapsOnly: same site, second comparison alone. At a height
// where only MaxOutgoingCltvExpiry+heightNow wraps, a perfectly fine expiry
// (height+100) is refused as "too far".
func TestProbeTooFarWrapsOnly(t *testing.T) {
	link := newProbeLink(t, models.ForwardingPolicy{
		TimeLockDelta: 20,
		MinHTLCOut:    500,
		MaxHTLC:       1000,
		BaseFee:       10,
	}, 3)

	var hash [32]byte

	height := uint32(math.MaxUint32 - 1000)
	res := link.CheckHtlcForward(
		hash, 1500, 1000, height+120, height+100, models.InboundFee{},
		height, lnwire.ShortChannelID{}, nil,
	)
	require.Nil(t, res, "expiry height+100 refused: %v", res)
}

// TestProbeInboundFeeOverflow: InboundFee.CalcFee caps the rate at +-1e7 "to
// prevent overflows" and then multiplies by the amount in int64
// (graph/db/models/inbound_fee.go:50). 1e7 * amt overflows for amt above
// 9.22e11 msat (9.22 BTC), which is below the wumbo maximum channel size of
// 10 BTC. The positive fee wraps to a negative one and CheckHtlcForward accepts
// an HTLC that pays nothing.
func TestProbeInboundFeeOverflow(t *testing.T) {
	inbound := models.InboundFee{Rate: math.MaxInt32}
	amt := lnwire.MilliSatoshi(950_000_000_000) // 9.5 BTC

	exact := new(big.Int).Mul(
		big.NewInt(10_000_000), new(big.Int).SetUint64(uint64(amt)),
	)
	exact.Quo(exact, big.NewInt(1_000_000))

	got := inbound.CalcFee(amt)
	require.Equal(t, exact.String(), big.NewInt(got).String(),
		"inbound fee of a 9.5 BTC htlc at the capped rate")
}

// TestProbeExpectedFeeOverflow: ExpectedFee multiplies amount and rate in
// uint64 (htlcswitch/link.go:79). The rpc does not bound fee_rate_ppm (uint32),
// so with the largest configurable rate the product wraps for amounts above
// 4.3e9 msat (0.043 BTC) and the demanded fee collapses.
func TestProbeExpectedFeeOverflow(t *testing.T) {
	policy := models.ForwardingPolicy{
		FeeRate: lnwire.MilliSatoshi(math.MaxUint32),
	}
	amt := lnwire.MilliSatoshi(5_000_000_000) // 0.05 BTC

	exact := new(big.Int).Mul(
		new(big.Int).SetUint64(uint64(amt)),
		new(big.Int).SetUint64(math.MaxUint32),
	)
	exact.Quo(exact, big.NewInt(1_000_000))

	got := ExpectedFee(policy, amt)
	require.Equal(t, exact.String(),
		new(big.Int).SetUint64(uint64(got)).String())
}
