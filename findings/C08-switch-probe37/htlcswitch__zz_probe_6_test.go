package htlcswitch

import (
	"bytes"
	"crypto/sha256"
	"testing"
	"time"

	"github.com/btcsuite/btcd/btcec/v2"
	"github.com/btcsuite/btcd/btcutil/v2"
	"github.com/btcsuite/btcd/chainhash/v2"
	"github.com/btcsuite/btcd/wire/v2"
	"github.com/lightningnetwork/lnd/channeldb"
	"github.com/lightningnetwork/lnd/chanstate"
	"github.com/lightningnetwork/lnd/kvdb"
	"github.com/lightningnetwork/lnd/lnwire"
	"github.com/stretchr/testify/require"
)

// probeWriteCloseSummary records a fully resolved close summary for the
// channel with the given short channel id, the way channeldb's CloseChannel
// followed by MarkChanFullyClosed leaves it. CloseChannel also wipes all
// forwarding packages of the channel (channeldb/channel.go closeChannelSync,
// packager.Wipe); the mock links used below never write any, so there is
// nothing to wipe here.
func probeWriteCloseSummary(t *testing.T, db kvdb.Backend,
	scid lnwire.ShortChannelID) {

	t.Helper()

	err := kvdb.Update(db, func(tx kvdb.RwTx) error {
		bkt, err := tx.CreateTopLevelBucket([]byte("closed-chan-bucket"))
		if err != nil {
			return err
		}

		op := wire.OutPoint{Hash: chainhash.Hash{1}, Index: 1}
		_, remotePub := btcec.PrivKeyFromBytes(bobPrivKey)
		ccs := &chanstate.ChannelCloseSummary{
			ChanPoint:      op,
			ShortChanID:    scid,
			ChainHash:      chainhash.Hash{1},
			ClosingTXID:    chainhash.Hash{2},
			CloseHeight:    100,
			RemotePub:      remotePub,
			Capacity:       btcutil.Amount(10000),
			SettledBalance: btcutil.Amount(5000),
			CloseType:      chanstate.CooperativeClose,
			IsPending:      false,
		}

		var b bytes.Buffer
		err = channeldb.WriteElements(
			&b, ccs.ChanPoint, ccs.ShortChanID, ccs.ChainHash,
			ccs.ClosingTXID, ccs.CloseHeight, ccs.RemotePub,
			ccs.Capacity, ccs.SettledBalance,
			ccs.TimeLockedBalance, ccs.CloseType, ccs.IsPending,
			false,
		)
		if err != nil {
			return err
		}

		var k bytes.Buffer
		if err := lnwire.WriteOutPoint(&k, op); err != nil {
			return err
		}

		return bkt.Put(k.Bytes(), b.Bytes())
	}, func() {})
	require.NoError(t, err)
}

// TestProbeSettledForwardFailedBackAfterOutgoingChannelCloses models this
// sequence on the forwarding node:
//
//  1. an HTLC is forwarded incoming link -> outgoing link and fully opened;
//  2. the incoming peer goes offline;
//  3. the outgoing peer settles the outgoing HTLC (we have paid), the settle
//     reaches the switch and waits in the incoming link's in-memory mailbox;
//  4. the outgoing channel (now without HTLCs) is closed and fully resolved,
//     which wipes its forwarding packages, the only durable copy of the
//     settle apart from the witness cache;
//  5. the node restarts (the mailbox is gone);
//  6. the incoming peer returns, the incoming link replays the still un-acked
//     Add from its forwarding package.
//
// The expectation of the property is that the incoming HTLC is never failed
// back, since the outgoing HTLC was settled. The probe reports what the
// switch does instead.
func TestProbeSettledForwardFailedBackAfterOutgoingChannelCloses(
	t *testing.T) {

	chanID1, chanID2, aliceChanID, bobChanID := genIDs()

	alicePeer, err := newMockServer(
		t, "alice", testStartingHeight, nil, testDefaultDelta,
	)
	require.NoError(t, err)
	bobPeer, err := newMockServer(
		t, "bob", testStartingHeight, nil, testDefaultDelta,
	)
	require.NoError(t, err)

	tempPath := t.TempDir()
	cdb := channeldb.OpenForTesting(t, tempPath)

	s, err := initSwitchWithDB(testStartingHeight, cdb)
	require.NoError(t, err)
	require.NoError(t, s.Start())
	defer func() { _ = s.Stop() }()

	aliceLink := newMockChannelLink(
		s, chanID1, aliceChanID, emptyScid, alicePeer, true, false,
		false, false,
	)
	bobLink := newMockChannelLink(
		s, chanID2, bobChanID, emptyScid, bobPeer, true, false, false,
		false,
	)
	require.NoError(t, s.AddLink(aliceLink))
	require.NoError(t, s.AddLink(bobLink))

	preimage := [sha256.Size]byte{1}
	rhash := sha256.Sum256(preimage[:])
	newAdd := func() *htlcPacket {
		return &htlcPacket{
			incomingChanID: aliceChanID,
			incomingHTLCID: 0,
			outgoingChanID: bobChanID,
			obfuscator:     NewMockObfuscator(),
			htlc: &lnwire.UpdateAddHTLC{
				PaymentHash: rhash,
				Amount:      1,
			},
		}
	}

	// (1) forward and fully open the circuit.
	require.NoError(t, s.ForwardPackets(nil, newAdd()))
	select {
	case pkt := <-bobLink.packets:
		require.NoError(t, bobLink.completeCircuit(pkt))
	case <-time.After(time.Second):
		t.Fatal("add not forwarded")
	}
	require.Equal(t, 1, s.circuits.NumOpen())

	// (2) the incoming peer goes offline.
	s.RemoveLink(chanID1)

	// (3) the outgoing peer settles.
	settle := &htlcPacket{
		outgoingChanID: bobChanID,
		outgoingHTLCID: 0,
		amount:         1,
		htlc: &lnwire.UpdateFulfillHTLC{
			PaymentPreimage: preimage,
		},
	}
	require.NoError(t, s.ForwardPackets(nil, settle))
	time.Sleep(200 * time.Millisecond)
	require.Equal(t, 1, s.circuits.NumPending())

	// (4) the outgoing channel is closed and fully resolved.
	s.RemoveLink(chanID2)
	probeWriteCloseSummary(t, cdb, bobChanID)

	// (5) restart.
	require.NoError(t, s.Stop())
	require.NoError(t, cdb.Close())

	cdb2 := channeldb.OpenForTesting(t, tempPath)
	s2, err := initSwitchWithDB(testStartingHeight, cdb2)
	require.NoError(t, err)
	require.NoError(t, s2.Start())
	defer func() { _ = s2.Stop() }()

	t.Logf("after restart: pending circuits=%d open circuits=%d",
		s2.circuits.NumPending(), s2.circuits.NumOpen())

	// (6) the incoming peer returns and the Add is replayed.
	aliceLink = newMockChannelLink(
		s2, chanID1, aliceChanID, emptyScid, alicePeer, true, false,
		false, false,
	)
	require.NoError(t, s2.AddLink(aliceLink))
	require.NoError(t, s2.ForwardPackets(nil, newAdd()))

	select {
	case pkt := <-aliceLink.packets:
		switch pkt.htlc.(type) {
		case *lnwire.UpdateFailHTLC:
			t.Fatalf("incoming HTLC %v is FAILED back (%v) although "+
				"its outgoing HTLC was settled downstream",
				pkt.inKey(), pkt.linkFailure)

		case *lnwire.UpdateFulfillHTLC:
			t.Logf("incoming HTLC settled, fine")
		}

	case <-time.After(2 * time.Second):
		t.Logf("nothing delivered to the incoming link: the " +
			"incoming HTLC dangles until it times out on chain")
	}
}
