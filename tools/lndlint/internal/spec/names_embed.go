package spec

import (
	_ "embed"

	"lndlint/internal/an"
)

// namesBaseline is the reviewed tree's table of variable names per function
// declaration (see internal/an/names.go): written by `lndlint names -o`,
// read-only at run time.
//
//go:embed names_baseline.json.gz
var namesBaseline []byte

func init() {
	if err := an.SetNamesBaseline(namesBaseline); err != nil {
		panic("names baseline: " + err.Error())
	}
}
