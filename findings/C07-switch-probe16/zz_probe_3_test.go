package htlcswitch

import (
	"crypto/sha256"
	"path/filepath"
	"testing"
	"time"

	"github.com/lightningnetwork/lnd/channeldb"
	"github.com/lightningnetwork/lnd/htlcswitch/hop"
	"github.com/lightningnetwork/lnd/lnwire"
	"github.com/stretchr/testify/require"
)

// TestProbeLocalHalfOpenCircuitAfterRestart: a locally initiated HTLC
// (Switch.SendHTLC) whose Add was still waiting in the outgoing link's
// (in-memory) mailbox when the node went down leaves a half-open circuit
// (Incoming.ChanID == hop.Source, no keystone) on disk. After the restart
// nobody re-sends that Add (only incoming *links* replay Adds; hop.Source has
// no link). The HTLC is on no commitment and never will be, so
//   - the router's resumed payment lifecycle (collectResult ->
//     Switch.GetAttemptResult) must get a failure for the attempt, and
//   - the circuit must be removed.
//
// On the unmodified tree GetAttemptResult finds the circuit, subscribes and
// waits forever (the payment stays IN_FLIGHT until the channel is closed), the
// circuit is never removed, and a retry with the same attempt id is answered
// with ErrLocalAddFailed, which does not clean up either.
func TestProbeLocalHalfOpenCircuitAfterRestart(t *testing.T) {
	t.Parallel()

	peer, err := newMockServer(
		t, "alice", testStartingHeight, nil, testDefaultDelta,
	)
	require.NoError(t, err)

	db := channeldb.OpenForTesting(t, filepath.Join(t.TempDir(), "sw"))

	s, err := initSwitchWithDB(testStartingHeight, db)
	require.NoError(t, err)
	require.NoError(t, s.Start())

	chanID, _, scid, _ := genIDs()
	link := newMockChannelLink(
		s, chanID, scid, emptyScid, peer, true, false, false, false,
	)
	require.NoError(t, s.AddLink(link))

	preimage, err := genPreimage()
	require.NoError(t, err)
	rhash := sha256.Sum256(preimage[:])

	const attemptID = 7
	htlc := &lnwire.UpdateAddHTLC{PaymentHash: rhash, Amount: 1}
	require.NoError(t, s.SendHTLC(scid, attemptID, htlc))

	// The Add sits in the mock link's queue (the real link's mailbox); it
	// was not yet added to a commitment. The node goes down now.
	require.Equal(t, 1, s.circuits.NumPending())
	require.Equal(t, 0, s.circuits.NumOpen())
	require.NoError(t, s.Stop())

	s2, err := initSwitchWithDB(testStartingHeight, db)
	require.NoError(t, err)

	// The half-open circuit of the local payment was restored from disk.
	inKey := CircuitKey{ChanID: hop.Source, HtlcID: attemptID}
	require.NotNil(t, s2.circuits.LookupCircuit(inKey))

	require.NoError(t, s2.Start())
	defer func() { _ = s2.Stop() }()

	link2 := newMockChannelLink(
		s2, chanID, scid, emptyScid, peer, true, false, false, false,
	)
	require.NoError(t, s2.AddLink(link2))

	// Nothing is delivered to the outgoing link after the restart: the Add
	// is lost.
	select {
	case pkt := <-link2.packets:
		t.Fatalf("unexpected packet after restart: %v", pkt)
	case <-time.After(500 * time.Millisecond):
	}

	// The router resumes the in-flight attempt.
	resChan, err := s2.GetAttemptResult(
		attemptID, rhash, newMockDeobfuscator(),
	)
	require.NoError(t, err)

	select {
	case res, ok := <-resChan:
		require.True(t, ok)
		require.Error(t, res.Error)
		t.Logf("attempt %d failed back to the router: %v", attemptID,
			res.Error)

		var clearErr ClearTextError
		require.ErrorAs(t, res.Error, &clearErr)
		require.Equal(
			t, lnwire.CodeTemporaryChannelFailure,
			clearErr.WireMessage().Code(),
		)

	case <-time.After(3 * time.Second):
		// Re-sending the same attempt does not help either, and does
		// not clean up the circuit.
		err = s2.SendHTLC(scid, attemptID, htlc)
		require.ErrorIs(t, err, ErrLocalAddFailed)
		require.Equal(t, 1, s2.circuits.NumPending())

		t.Fatalf("PROBE FIRES: attempt %d has a half-open circuit "+
			"after the restart, the HTLC is in no mailbox and on "+
			"no commitment, yet GetAttemptResult blocks and the "+
			"circuit is never removed", attemptID)
	}

	// The circuit is gone, on disk as well.
	require.Eventually(t, func() bool {
		return s2.circuits.NumPending() == 0
	}, 5*time.Second, 20*time.Millisecond)
	require.NoError(t, s2.Stop())

	s3, err := initSwitchWithDB(testStartingHeight, db)
	require.NoError(t, err)
	require.Equal(t, 0, s3.circuits.NumPending())
}
