#!/usr/bin/env python3
"""Regenerates /verif/OBLIGATIONS.md from the evidence files written by the
last run of every check. Reference material for DESIGN.md section 6."""
import json, glob, os, sys
root = os.path.dirname(os.path.dirname(os.path.dirname(os.path.abspath(__file__))))
out = ["# Obligations decided per property (generated from evidence/*.json by tools/scripts/gen_obligations.py)", "",
       "One row per obligation: engine, rule decided on the source, why breaking it breaks the property, constructs matched on the current tree (floor = count confirmed by reading; the check fails below it).", ""]
for path in sorted(glob.glob(os.path.join(root, "evidence", "C*.json"))):
    ev = json.load(open(path))
    cov = ev.get("coverage", {})
    pid = os.path.basename(path)[:-5]
    out.append(f"## {pid}")
    out.append("")
    expl = cov.get("explanation", "")
    if expl:
        out.append(expl)
        out.append("")
    for o in cov.get("samples", []):
        out.append(f"- **{o['id']}** [{o['engine']}] — {o['rule']}.  ")
        out.append(f"  *Necessary because:* {o['necessary_because']}.  matched {o['matched']} (floor {o['floor']}).")
    nd = cov.get("not_decided", [])
    if nd:
        out.append("")
        out.append("Not decided: " + "; ".join(nd) + ".")
    out.append("")
open(os.path.join(root, "OBLIGATIONS.md"), "w").write("\n".join(out))
print("wrote OBLIGATIONS.md", len(out), "lines")
