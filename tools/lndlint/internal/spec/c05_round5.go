package spec

import (
	"go/ast"
	"go/token"
	"go/types"
	"strings"

	"lndlint/internal/an"
	"lndlint/internal/flow"
)

func init() {
	specExtras["C05"] = append(specExtras["C05"], c05r5Rules)
}

// c05r5PathDecide decides the tests of the method's first parameter (the
// spending path) against the named constants of its type under the
// assumption path == want: `switch path { case C: }`, `path == C`, `C == path`,
// `path != C`.
func c05r5PathDecide(want string) an.Decide {
	constName := func(fn *an.Func, e ast.Expr) (string, bool) {
		e = ast.Unparen(e)
		var id *ast.Ident
		switch x := e.(type) {
		case *ast.Ident:
			id = x
		case *ast.SelectorExpr:
			id = x.Sel
		default:
			return "", false
		}
		c, ok := fn.Info().Uses[id].(*types.Const)
		if !ok {
			return "", false
		}
		return c.Name(), true
	}
	return func(fn *an.Func, v *flow.Vertex) (bool, bool) {
		switch v.Kind {
		case flow.KCase:
			if v.Tag == nil || fn.Canon(v.Tag) != "$p0" {
				return false, false
			}
			if n, ok := constName(fn, v.Node.(ast.Expr)); ok {
				return n == want, true
			}
		case flow.KCond:
			be, ok := ast.Unparen(v.Node.(ast.Expr)).(*ast.BinaryExpr)
			if !ok || (be.Op != token.EQL && be.Op != token.NEQ) {
				return false, false
			}
			x, y := be.X, be.Y
			if fn.Canon(y) == "$p0" {
				x, y = y, x
			}
			if fn.Canon(x) != "$p0" {
				return false, false
			}
			if n, ok := constName(fn, y); ok {
				return (n == want) == (be.Op == token.EQL), true
			}
		}
		return false, false
	}
}

// c05r5Answers lists, for the method f(path) and the assumption path == want,
// what the returns that can be reached hand out as their first result: pick
// maps the (non-nil) result expression to a canonical description, "" = not
// recognised.
func c05r5Answers(f *an.Func, want string, pick func(e ast.Expr) string) (map[string]bool, []an.Site) {
	reach := f.ReachUnder(c05r5PathDecide(want))
	out := map[string]bool{}
	var sites []an.Site
	for _, s := range f.Returns() {
		rs, ok := s.Node.(*ast.ReturnStmt)
		if !ok || !reach[s.V] || len(rs.Results) == 0 {
			continue
		}
		if an.IsNilIdent(f.Info(), ast.Unparen(rs.Results[0])) {
			continue
		}
		sites = append(sites, s)
		out[pick(rs.Results[0])] = true
	}
	return out, sites
}

func c05r5Set(m map[string]bool) string {
	var k []string
	for s := range m {
		k = append(k, s)
	}
	sortStrings(k)
	if len(k) == 0 {
		return "nothing (the path is refused)"
	}
	return strings.Join(k, " | ")
}

// c05r5Refresher: every successful return of h is reached only through a
// successful <param i>.RemoteRevocationStore().
func c05r5Refresher(h *an.Func, i int) bool {
	if h == nil || h.Body == nil {
		return false
	}
	var through []an.Site
	want := "$p" + itoa(i) + ".RemoteRevocationStore"
	for _, s := range h.Calls(an.CalleeNamed("RemoteRevocationStore"), false) {
		if h.Canon(s.Node.(*ast.CallExpr).Fun) == want {
			through = append(through, s)
		}
	}
	succ := h.StrictSuccessReturns()
	if len(through) == 0 || len(succ) == 0 {
		return false
	}
	if len(h.RequirePass(through, an.OkErrNil, succ)) > 0 {
		return false
	}
	for _, s := range succ {
		if !h.Before(through, s) {
			return false
		}
	}
	return true
}

// c05r5Fresh: on every path to site (in fn) the revocation state of the
// channel state `base` (canonical) was re-read successfully: by
// base.RemoteRevocationStore() in fn, by a callee that does it for the
// argument base, or, where fn is a method and base hangs off its receiver,
// before every call of fn on the same receiver.
func c05r5Fresh(o *an.Obl, p *an.Prog, fn *an.Func, site an.Site, base string, depth int, chain *[]string) bool {
	*chain = append(*chain, fn.ID)
	var through []an.Site
	for _, s := range fn.AllCalls(false) {
		call := s.Node.(*ast.CallExpr)
		if fn.Canon(call.Fun) == base+".RemoteRevocationStore" {
			through = append(through, s)
			continue
		}
		h := p.FuncOpt(an.CalleeID(fn.Info(), call))
		if h == nil {
			continue
		}
		for i, a := range call.Args {
			if fn.Canon(a) == base && c05r5Refresher(h, i) {
				through = append(through, s)
			}
		}
	}
	if len(through) > 0 && fn.Before(through, site) && len(fn.RequirePass(through, an.OkErrNil, []an.Site{site})) == 0 {
		for _, s := range through {
			o.Site("%s: revocation state of %s refreshed by %s before %s", fn.ID, base, an.Text(s.Node.(*ast.CallExpr).Fun), site.String())
		}
		return true
	}
	if depth >= 4 || fn.Lit != nil || fn.Recv() == nil || !strings.HasPrefix(base, "$recv") {
		return false
	}
	n := 0
	for _, g := range p.Funcs(false, "contractcourt") {
		for _, s := range g.Calls(an.CalleeIs(fn.ID), false) {
			n++
			sel, ok := ast.Unparen(s.Node.(*ast.CallExpr).Fun).(*ast.SelectorExpr)
			if !ok || g.Canon(sel.X) != "$recv" {
				*chain = append(*chain, g.ID+" (calls it on another receiver)")
				return false
			}
			if !c05r5Fresh(o, p, g, s, base, depth+1, chain) {
				return false
			}
		}
	}
	return n > 0
}

func c05r5Rules(r *an.Run) {
	p := r.Prog

	// seeded change C05/i
	r.Obl("control-block-of-a-path-proves-the-script-of-that-path", "MIRROR",
		"for every type of package input that has both WitnessScriptForPath and CtrlBlockForPath, and for every ScriptPath constant: the leaf script handed to MakeTaprootCtrlBlock by the returns CtrlBlockForPath can reach under path == constant is the script the returns of WitnessScriptForPath hand out under the same assumption (compared as canonical expressions over the receiver), the control block is built over the receiver's own InternalKey and TapscriptTree, and a path one of the two refuses is refused by the other",
		"a sign descriptor pairs WitnessScriptForPath(p) with CtrlBlockForPath(p); the control block is the merkle proof of one leaf, and the interpreter rejects a script-path spend whose script is not the proven leaf: the HTLC (or delayed) output can never be swept through that path", 9,
		func(o *an.Obl) {
			if !p.HasPkg("input") {
				o.FailAt("input#not-loaded", "", "package input is not loaded")
				return
			}
			paths := p.EnumConsts("input", "ScriptPath")
			nTypes := 0
			for _, cb := range p.Funcs(false, "input") {
				if cb.Obj == nil || cb.Obj.Name() != "CtrlBlockForPath" || cb.Recv() == nil || cb.Body == nil {
					continue
				}
				ws := p.FuncOpt(strings.TrimSuffix(cb.ID, "CtrlBlockForPath") + "WitnessScriptForPath")
				if ws == nil || ws.Body == nil {
					continue
				}
				nTypes++
				typ := strings.TrimSuffix(strings.TrimPrefix(cb.ID, "input."), ".CtrlBlockForPath")
				leafOf := func(e ast.Expr) string {
					if id, ok := ast.Unparen(e).(*ast.Ident); ok {
						if d := cb.UniqueDef(id); d != nil {
							e = d
						}
					}
					var mk *ast.CallExpr
					ast.Inspect(e, func(n ast.Node) bool {
						if c, ok := n.(*ast.CallExpr); ok && mk == nil && an.CalleeID(cb.Info(), c) == "input.MakeTaprootCtrlBlock" {
							mk = c
						}
						return mk == nil
					})
					if mk == nil || len(mk.Args) != 3 {
						return "?(" + cb.Canon(e) + ")"
					}
					if k, t := cb.Canon(mk.Args[1]), cb.Canon(mk.Args[2]); k != "$recv.InternalKey" || t != "$recv.TapscriptTree" {
						return cb.Canon(mk.Args[0]) + " proven against (" + k + ", " + t + ")"
					}
					return cb.Canon(mk.Args[0])
				}
				for _, path := range paths {
					scripts, _ := c05r5Answers(ws, path, func(e ast.Expr) string { return ws.Canon(e) })
					leaves, sites := c05r5Answers(cb, path, leafOf)
					if len(scripts) == 0 && len(leaves) == 0 {
						continue
					}
					o.Site("%s, %s: script %s, control block for %s", typ, path, c05r5Set(scripts), c05r5Set(leaves))
					same := len(scripts) == len(leaves)
					for k := range scripts {
						same = same && leaves[k]
					}
					if same && len(scripts) == 1 {
						continue
					}
					where := cb.Where(cb.Body.Pos())
					if len(sites) > 0 {
						where = sites[0].Where()
					}
					o.FailAt(cb.ID+"#"+path, where,
						"%s.CtrlBlockForPath(%s) builds the control block (merkle proof) for %s, but %s.WitnessScriptForPath(%s) hands out %s: a descriptor that pairs the two spends with a script the proof does not commit to",
						typ, path, c05r5Set(leaves), typ, path, c05r5Set(scripts))
				}
			}
			if nTypes < 4 {
				o.FailAt("input#script-trees", "", "expected the four script trees (HTLC, second level, commitment, anchor) with WitnessScriptForPath and CtrlBlockForPath, found %d", nTypes)
			}
		})

	// seeded change C05/j
	r.Obl("commit-point-of-the-channel-state-read-only-after-its-revocation-state-was-refreshed", "PATH",
		"in contractcourt, every call that receives <state>.RemoteCurrentRevocation or <state>.RemoteNextRevocation of a chanstate.OpenChannel as an argument (directly or through a local: the commitment point a remote close is resolved with) is reached only after a successful <state>.RemoteRevocationStore() — the call that re-reads both points from disk — in the same function, in a callee that is handed <state> and performs it before each of its successful returns (newChainSet, next to LatestCommitments / RemoteCommitChainTip), or, for methods reading their receiver's state, before every call of the method on the same receiver, up the static call chain",
		"the chain watcher works on its own in-memory OpenChannel; newChainSet re-reads the commitments, and the points belong to those commitments: with points of an older state the key ring, and so every HTLC script, to_remote script and tweak NewUnilateralCloseSummary derives, is not on the confirmed commitment and no sweep is valid", 3,
		func(o *an.Obl) {
			n := 0
			for _, fn := range p.Funcs(false, "contractcourt") {
				info := fn.Info()
				for _, s := range fn.AllCalls(false) {
					call := s.Node.(*ast.CallExpr)
					for ai, a := range call.Args {
						exprs := []ast.Expr{a}
						if id, ok := ast.Unparen(a).(*ast.Ident); ok {
							if obj, isVar := info.Uses[id].(*types.Var); isVar && !obj.IsField() {
								if defs := c05AllDefs(fn, obj); len(defs) > 0 {
									exprs = defs
								}
							}
						}
						for _, e := range exprs {
							sel, ok := an.Strip(info, e).(*ast.SelectorExpr)
							if !ok {
								continue
							}
							fld, _ := info.Uses[sel.Sel].(*types.Var)
							if fld == nil || !fld.IsField() || (fld.Name() != "RemoteCurrentRevocation" && fld.Name() != "RemoteNextRevocation") {
								continue
							}
							if t := info.TypeOf(sel.X); t == nil || !strings.HasSuffix(an.TypeID(t), "chanstate.OpenChannel") {
								continue
							}
							base := fn.Canon(sel.X)
							n++
							o.Site("%s: %s receives %s.%s as argument %d", fn.ID, an.Text(call.Fun), base, fld.Name(), ai)
							var chain []string
							if !c05r5Fresh(o, p, fn, s, base, 0, &chain) {
								o.FailAt(fn.Root().ID+"#stale-"+fld.Name(), s.Where(),
									"%s hands %s.%s to %s as the commitment point, but a successful %s.RemoteRevocationStore() (which re-reads the point from disk) does not precede it on every path, neither here nor up the call chain [%s]: the point can belong to an older state than the commitments refreshed by newChainSet",
									fn.Root().ID, base, fld.Name(), an.Text(call.Fun), base, strings.Join(chain, " <- "))
							}
						}
					}
				}
			}
			if n < 3 {
				o.FailAt("contractcourt#commit-point-readers", "", "expected at least 3 calls that receive a remote revocation point of the channel state, found %d", n)
			}
		})
}

// c05r5SelectedVar looks through single-assignment copies of a selected
// variable (`csvDelay := uint32(commitCsvDelay)`): it returns the expression
// whose assignments make the selection and the site at which its value is
// taken (the copy, where there is one, else the given site).
func c05r5SelectedVar(f *an.Func, e ast.Expr, site an.Site) (ast.Expr, an.Site) {
	for i := 0; i < 3; i++ {
		id, ok := an.Strip(f.Info(), e).(*ast.Ident)
		if !ok {
			return e, site
		}
		obj := f.Info().Uses[id]
		d := f.UniqueDef(id)
		if obj == nil || d == nil {
			return e, site
		}
		if _, ok := an.Strip(f.Info(), d).(*ast.Ident); !ok {
			return e, site
		}
		defs := f.Assigns(func(fn *an.Func, x ast.Expr) bool {
			xi, ok := x.(*ast.Ident)
			return ok && (fn.Info().Uses[xi] == obj || fn.Info().Defs[xi] == obj)
		}, false)
		if len(defs) != 1 {
			return e, site
		}
		e, site = d, defs[0]
	}
	return e, site
}
