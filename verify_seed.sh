#!/bin/bash
# usage: verify_seed.sh <Cxx> <a|b> <pkgdir> [extra go test flags]
# Confirms a seeded change in its own scratch worktree: the demonstration fails with the patch
# and passes without; the package's existing tests pass with the patch as on the clean tree.
# Writes /verif/seeded/<Cxx>-<v>/{patch.diff,demo,meta.json,confirm.log}.
id="$1"; v="$2"; pkg="$3"; shift 3
src=${SEEDROOT:-/tmp/seed}/$id/out/$v
wt=/tmp/seedverify/$id-$v
out=/verif/seeded/$id-$v
export GOFLAGS=-mod=mod GOPROXY=off; unset GOWORK
mkdir -p /tmp/seedverify "$out"
git -C /repo worktree add -q --detach "$wt" HEAD || exit 2
trap 'git -C /repo worktree remove --force "$wt"' EXIT
log="$out/confirm.log"; : > "$log"
demo=$(ls "$src"/zz_seed_demo*_test.go | head -1)
cp "$demo" "$wt/$pkg/"
tests=$(grep -ho "^func Test[A-Za-z0-9_]*" "$demo" | sed 's/func //' | paste -sd'|')
cd "$wt"
echo "## demo on clean tree: go test -count=1 -run '^($tests)\$' ./$pkg/ $*" >> "$log"
go test -count=1 "$@" -run "^($tests)\$" "./$pkg/" >> "$log" 2>&1; clean_rc=$?
git apply "$src/patch.diff" || { echo "patch does not apply" >> "$log"; exit 2; }
echo "## build with patch" >> "$log"
go build ./... >> "$log" 2>&1; build_rc=$?
echo "## demo with patch" >> "$log"
go test -count=1 "$@" -run "^($tests)\$" "./$pkg/" >> "$log" 2>&1; patched_rc=$?
rm "$wt/$pkg/$(basename "$demo")"
echo "## existing tests of changed packages with patch" >> "$log"
pkgs=$(git diff --name-only | xargs -n1 dirname | sort -u | sed 's|^|./|' | paste -sd' ')
go test -count=1 "$@" $pkgs 2>&1 | grep -E "^(ok|FAIL|---|panic)" >> "$log"; 
fails=$(grep -E "^--- FAIL" "$log" | grep -v "TestSeedDemo" | sed 's/ (.*//' | sort -u | paste -sd';')
cp "$src/patch.diff" "$out/patch.diff"; cp "$demo" "$out/"; [ -f "$src/README.md" ] && cp "$src/README.md" "$out/README.md"
python3 - "$id" "$v" "$pkg" "$clean_rc" "$build_rc" "$patched_rc" "$fails" "$pkgs" "$tests" > "$out/meta.json" <<'PY'
import json,sys
id,v,pkg,clean,build,patched,fails,pkgs,tests=sys.argv[1:10]
print(json.dumps({"property":id,"variant":v,"demo_package":pkg,"demo_tests":tests.split("|"),
 "demo_passes_on_clean_tree": clean=="0","builds_with_patch": build=="0","demo_fails_with_patch": patched!="0",
 "changed_packages":pkgs.split(),"failing_existing_tests_with_patch":[f for f in fails.split(";") if f],
 "confirmed": clean=="0" and build=="0" and patched!="0"},indent=1))
PY
cat "$out/meta.json"
