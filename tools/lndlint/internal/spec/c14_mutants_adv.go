package spec

func init() {
	registry["C14"].Mutants = append(registry["C14"].Mutants, []Mutant{
		// per-element-loops-visit-every-element
		{Name: "adv-loop-conf-updates-stop-at-first-confirmed-client", File: "chainntnfs/txnotifier.go",
			Old:    "				if int32(numConfsLeft) < 0 {\n					continue\n				}",
			New:    "				if int32(numConfsLeft) < 0 {\n					break\n				}",
			Expect: "per-element-loops-visit-every-element"},
		{Name: "adv-loop-confirm-dispatch-stops-at-first-dispatched", File: "chainntnfs/txnotifier.go",
			Old:    "				\"request %v conf_id=%v\", ntfn.ConfRequest,\n				ntfn.ConfID)\n\n			continue",
			New:    "				\"request %v conf_id=%v\", ntfn.ConfRequest,\n				ntfn.ConfID)\n\n			break",
			Expect: "per-element-loops-visit-every-element"},
		{Name: "adv-loop-spend-reorg-error-ends-without-error", File: "chainntnfs/txnotifier.go",
			Old:    "			if err := n.dispatchSpendReorg(ntfn); err != nil {\n				return err\n			}",
			New:    "			if err := n.dispatchSpendReorg(ntfn); err != nil {\n				return nil\n			}",
			Expect: "per-element-loops-visit-every-element"},
		{Name: "adv-loop-unconfirmed-scan-stops-at-first-known", File: "chainntnfs/txnotifier.go",
			Old:    "			confNtfnSet.details != nil {\n			continue\n		}",
			New:    "			confNtfnSet.details != nil {\n			break\n		}",
			Expect: "per-element-loops-visit-every-element"},
		{Name: "adv-loop-block-filter-stops-after-first-tx", File: "chainntnfs/txnotifier.go",
			Old:    "				n.handleSpendDetailsAtTip,\n			)\n		}",
			New:    "				n.handleSpendDetailsAtTip,\n			)\n\n			break\n		}",
			Expect: "per-element-loops-visit-every-element"},
		{Name: "adv-loop-inputs-scan-stops-at-unparsable-script", File: "chainntnfs/txnotifier.go",
			Old:    "				txIn.SignatureScript, txIn.Witness,\n			)\n			if err != nil {\n				continue\n			}",
			New:    "				txIn.SignatureScript, txIn.Witness,\n			)\n			if err != nil {\n				break\n			}",
			Expect: "per-element-loops-visit-every-element"},
		{Name: "adv-loop-mature-done-quit-returns-nil", File: "chainntnfs/txnotifier.go",
			Old:    "			Log.Debugf(\"Deleting mature spend request %v at \"+",
			New:    "			if len(spendSet.ntfns) == 0 {\n				return nil\n			}\n\n			Log.Debugf(\"Deleting mature spend request %v at \"+",
			Expect: "per-element-loops-visit-every-element"},
	}...)
}
