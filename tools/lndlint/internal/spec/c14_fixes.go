package spec

import (
	"go/ast"
	"strings"

	"lndlint/internal/an"
)

// c14Siblings: the confirmation and the spend side of the TxNotifier are
// sibling implementations of one protocol; four places where they (or two
// clients of one request) must agree.
func c14Siblings(r *an.Run) {
	p := r.Prog
	tn := "chainntnfs.TxNotifier."
	r.Obl("at-tip-and-historical-details-are-adopted-once-and-only-from-the-active-chain", "GUARD",
		"handleConfDetailsAtTip and handleSpendDetailsAtTip both return before touching the set when it already has details; the function that assigns details found outside the block being connected (UpdateConfDetails; updateSpendDetails, which serves UpdateSpendDetails and ProcessRelevantSpendTx alike) assigns its details parameter to the set it looked up under its request parameter only on paths on which `details height < set.reorgedHeight` or `set.reorgedHeight == 0` was established, a stale verdict (`>=`) being acted on by overwriting the parameter with nil, which is the only overwrite of it: details at or above the lowest height disconnected since the request was registered (reorgedHeight, maintained by DisconnectTip for every conf and spend set) are discarded whoever the caller is; RegisterConf decides per subscriber, from that subscriber's own includeBlock, whether the dispatched details carry the block; dispatchConfReorg and dispatchSpendReorg drain a buffered, unread notification before they reset `dispatched` and send the reorg notice",
		"a second spend of a reused script corrupts the height index and crashes the notifier; details from a disconnected block tell a client about an event that is not on the active chain with no reorg notice to follow; one client's option must not change what another client receives; an undrained notification survives the reorg and blocks the renewed one while the notifier's lock is held", 7,
		func(o *an.Obl) {
			// 1. adopted once
			for _, h := range []struct{ fn, set string }{{"handleConfDetailsAtTip", "confSet"}, {"handleSpendDetailsAtTip", "spendSet"}} {
				f := p.Func(tn + h.fn)
				ws := f.Assigns(an.FieldPath(an.LocalNamed(h.set), "details"), false)
				if !need(o, f, h.set+".details = …", ws, 1) {
					continue
				}
				for _, w := range ws {
					guarded(o, f, w, an.IsNil(an.FieldPath(an.LocalNamed(h.set), "details"), true, h.set+".details == nil"))
				}
			}
			// 2. stale historical details
			// The test sits in the function that assigns the details
			// (UpdateConfDetails; updateSpendDetails, shared by
			// UpdateSpendDetails and ProcessRelevantSpendTx), and no path
			// reaches that assignment around it, so every caller is covered.
			for _, k := range c14f5Kinds {
				f := p.Func(c14f5Historical[k.name])
				n := 0
				for _, w := range c14f5DetailWrites(p, k) {
					if w.clear || w.f.ID != f.ID {
						continue
					}
					n++
					for _, pr := range c14f5StaleGuard(o, w) {
						o.FailAt(f.ID+"#stale-historical-details", w.site.Where(), "%s", pr)
					}
				}
				if n != 1 {
					o.FailAt(f.ID+"#stale-historical-details", f.Where(f.Body.Pos()), "expected the one assignment of %s details found outside the block being connected in %s, found %d", k.name, f.ID, n)
				}
			}
			dt := p.Func(tn + "DisconnectTip")
			for _, set := range []string{"confNotifications", "spendNotifications"} {
				n := 0
				for _, s := range dt.Assigns(an.FieldPath(nil, "reorgedHeight"), false) {
					if hdr := enclosingLoopHeader(dt, s.Node); strings.HasSuffix(hdr, "."+set) {
						n++
						if c := dt.Canon(s.Node.(*ast.AssignStmt).Rhs[0]); c != "$p0" {
							o.FailAt(dt.ID+"#reorged-height-value", s.Where(), "reorgedHeight is set to %s, expected the height being disconnected", c)
						}
					}
				}
				if n != 1 {
					o.FailAt(dt.ID+"#reorged-height-"+set, dt.Where(dt.Body.Pos()), "DisconnectTip maintains reorgedHeight for %d loops over %s, expected one", n, set)
				}
			}
			// 3. per-subscriber block option
			rc := p.Func(tn + "RegisterConf")
			nIB := 0
			for _, fn := range append([]*an.Func{rc}, rc.Lits...) {
				for _, v := range fn.Graph().V {
					e, ok := v.Node.(ast.Expr)
					if !ok {
						continue
					}
					ast.Inspect(e, func(n ast.Node) bool {
						sel, ok := n.(*ast.SelectorExpr)
						if !ok || sel.Sel.Name != "includeBlock" {
							return true
						}
						nIB++
						c := fn.Canon(sel.X)
						o.Site("RegisterConf tests includeBlock of %s", c)
						if !strings.HasPrefix(c, "$elem(") && !strings.HasPrefix(c, "$key(") {
							o.FailAt(rc.ID+"#include-block-of", fn.Where(sel.Pos()), "whether the dispatched details carry the block is decided from %s.includeBlock, expected the subscriber being notified (the loop element)", an.Text(sel.X))
						}
						return true
					})
				}
			}
			if nIB < 1 {
				o.FailAt(rc.ID+"#include-block-sites", rc.Where(rc.Body.Pos()), "RegisterConf no longer tests includeBlock when it dispatches known details")
			}
			// 4. drain before reset
			for _, h := range []struct{ fn, ch string }{{"dispatchConfReorg", "Confirmed"}, {"dispatchSpendReorg", "Spend"}} {
				f := p.Func(tn + h.fn)
				var drain []an.Site
				for _, v := range f.Graph().V {
					ss, ok := v.Node.(*ast.SelectStmt)
					if !ok {
						continue
					}
					hasRecv, hasDefault := false, false
					for _, c := range ss.Body.List {
						cc := c.(*ast.CommClause)
						if cc.Comm == nil {
							hasDefault = true
							continue
						}
						if es, ok := cc.Comm.(*ast.ExprStmt); ok {
							if ue, ok := es.X.(*ast.UnaryExpr); ok && ue.Op.String() == "<-" && strings.HasSuffix(an.Text(ue.X), ".Event."+h.ch) {
								hasRecv = true
							}
						}
					}
					if hasRecv && hasDefault {
						drain = append(drain, an.Site{Fn: f, V: v, Node: ss})
					}
				}
				if !need(o, f, "non-blocking drain of Event."+h.ch, drain, 1) {
					continue
				}
				// the reorg notice (send on NegativeConf / Reorg) of the dispatched branch comes after the drain
				var sends []an.Site
				for _, v := range f.Graph().V {
					ss, ok := v.Node.(*ast.SelectStmt)
					if !ok {
						continue
					}
					// the notice of a request that was never dispatched has nothing to drain: the
					// branch is identified by its guard (!ntfn.dispatched), not by where it stands
					site := an.Site{Fn: f, V: v, Node: ss}
					if ok, _ := f.Guarded(site, an.Truth(an.Field("", "dispatched", an.Any()), false, "!ntfn.dispatched")); ok {
						continue
					}
					for _, c := range ss.Body.List {
						if st, ok := c.(*ast.CommClause).Comm.(*ast.SendStmt); ok && strings.Contains(an.Text(st.Chan), ".Event.") {
							sends = append(sends, site)
						}
					}
				}
				if need(o, f, "reorg notice after the drain", sends, 1) {
					before(o, f, "the drain of Event."+h.ch, drain, "the reorg notice", sends)
				}
			}
		})
}
