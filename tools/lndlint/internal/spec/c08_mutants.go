package spec

func init() {
	registry["C08"].Mutants = []Mutant{
		// settle-preimage-origin
		{Name: "forwarded-settle-uses-outgoing-htlc-id", File: "htlcswitch/link.go",
			Old: "		htlc.PaymentPreimage, pkt.incomingHTLCID, pkt.sourceRef,", New: "		htlc.PaymentPreimage, pkt.outgoingHTLCID, pkt.sourceRef,",
			Expect: "settle-preimage-origin"},
		{Name: "settle-htlc-accepts-any-preimage", File: "lnwallet/channel.go",
			Old: "	if lc.updateLogs.Remote.htlcHasModification(htlcIndex) {\n		return ErrHtlcIndexAlreadySettled(htlcIndex)\n	}\n\n	if htlc.RHash != sha256.Sum256(preimage[:]) {\n		return ErrInvalidSettlePreimage{preimage[:], htlc.RHash[:]}\n	}\n", New: "	if lc.updateLogs.Remote.htlcHasModification(htlcIndex) {\n		return ErrHtlcIndexAlreadySettled(htlcIndex)\n	}\n",
			Expect: "settle-preimage-origin"},
		{Name: "receive-settle-preimage-mismatch-only-logged", File: "lnwallet/channel.go",
			Old: "	if lc.updateLogs.Local.htlcHasModification(htlcIndex) {\n		return ErrHtlcIndexAlreadySettled(htlcIndex)\n	}\n\n	if htlc.RHash != sha256.Sum256(preimage[:]) {\n		return ErrInvalidSettlePreimage{preimage[:], htlc.RHash[:]}\n	}\n", New: "	if lc.updateLogs.Local.htlcHasModification(htlcIndex) {\n		return ErrHtlcIndexAlreadySettled(htlcIndex)\n	}\n\n	if htlc.RHash != sha256.Sum256(preimage[:]) {\n		lc.log.Errorf(\"invalid settle preimage for htlc %v\", htlcIndex)\n	}\n",
			Expect: "settle-preimage-origin"},
		{Name: "exit-hop-settles-other-htlc-index", File: "htlcswitch/link.go",
			Old: "		preimage, htlcIndex, &sourceRef, nil, nil,", New: "		preimage, uint64(sourceRef.Index), &sourceRef, nil, nil,",
			Expect: "settle-preimage-origin"},

		// responses-forwarded-only-when-justified
		{Name: "rejected-upstream-settle-still-forwarded", File: "htlcswitch/link.go",
			Old: "			\"unable to handle upstream settle HTLC: %v\", err,\n		)\n\n		return err\n	}", New: "			\"unable to handle upstream settle HTLC: %v\", err,\n		)\n	}",
			Expect: "responses-forwarded-only-when-justified"},
		{Name: "upstream-fail-forwarded-on-receipt", File: "htlcswitch/link.go",
			Old: "	err := l.channel.ReceiveFailHTLC(idx, msg.Reason[:])\n	if err != nil {\n		l.failf(LinkFailureError{code: ErrInvalidUpdate},\n			\"unable to handle upstream fail HTLC: %v\", err)\n\n		return err\n	}\n", New: "	err := l.channel.ReceiveFailHTLC(idx, msg.Reason[:])\n	if err != nil {\n		l.failf(LinkFailureError{code: ErrInvalidUpdate},\n			\"unable to handle upstream fail HTLC: %v\", err)\n\n		return err\n	}\n\n	go l.forwardBatch(false, &htlcPacket{\n		outgoingChanID: l.ShortChanID(),\n		outgoingHTLCID: idx,\n		htlc:           msg,\n	})\n",
			Expect: "responses-forwarded-only-when-justified"},
		{Name: "fwd-package-processed-after-rejected-revocation", File: "htlcswitch/link.go",
			Old: "			\"unable to accept revocation: %v\", err,\n		)\n\n		return err\n	}", New: "			\"unable to accept revocation: %v\", err,\n		)\n	}",
			Expect: "responses-forwarded-only-when-justified"},
		{Name: "forwarded-settle-carries-wrong-htlc-id", File: "htlcswitch/link.go",
			Old: "		outgoingHTLCID: idx,\n		htlc: &lnwire.UpdateFulfillHTLC{", New: "		outgoingHTLCID: uint64(len(htlcs)),\n		htlc: &lnwire.UpdateFulfillHTLC{",
			Expect: "responses-forwarded-only-when-justified"},

		// revocation-forwarding-filter
		{Name: "add-forwarded-when-remote-tail-past-height", File: "lnwallet/channel.go",
			Old: "		shouldFwdAdd := remoteChainTail == pd.addCommitHeights.Remote &&", New: "		shouldFwdAdd := remoteChainTail >= pd.addCommitHeights.Remote &&",
			Expect: "revocation-forwarding-filter"},
		{Name: "removal-committed-on-either-chain", File: "lnwallet/channel.go",
			Old: "		committedRmv := pd.removeCommitHeights.Remote > 0 &&", New: "		committedRmv := pd.removeCommitHeights.Remote > 0 ||",
			Expect: "revocation-forwarding-filter"},
		{Name: "already-forwarded-updates-repackaged", File: "lnwallet/channel.go",
			Old: "		if pd.isForwarded {\n			continue\n		}\n\n", New: "",
			Expect: "revocation-forwarding-filter"},
		{Name: "add-packaged-without-both-heights", File: "lnwallet/channel.go",
			Old: "		case pd.isAdd() && committedAdd && shouldFwdAdd:", New: "		case pd.isAdd() && (committedAdd || shouldFwdAdd):",
			Expect: "revocation-forwarding-filter"},
		{Name: "settle-fail-not-marked-forwarded", File: "lnwallet/channel.go",
			Old: "			settleFailIndex++\n\n			pd.isForwarded = true\n", New: "			settleFailIndex++\n",
			Expect: "revocation-forwarding-filter"},
		{Name: "fee-updates-packaged", File: "lnwallet/channel.go",
			Old: "		if pd.EntryType == FeeUpdate {\n			continue\n		}\n\n		if pd.isForwarded {", New: "		if pd.isForwarded {",
			Expect: "revocation-forwarding-filter"},

		// forwarding-decision-durable-first
		{Name: "fwd-filter-write-failure-ignored", File: "htlcswitch/link.go",
			Old: "				\"unable to set fwd filter: %v\", err)\n			return\n		}", New: "				\"unable to set fwd filter: %v\", err)\n		}",
			Expect: "forwarding-decision-durable-first"},
		{Name: "fwd-filter-only-written-when-replaying", File: "htlcswitch/link.go",
			Old: "	if fwdPkg.State == channeldb.FwdStateLockedIn {\n		err := l.channel.SetFwdFilter(", New: "	if fwdPkg.State == channeldb.FwdStateLockedIn && reforward {\n		err := l.channel.SetFwdFilter(",
			Expect: "forwarding-decision-durable-first"},
		{Name: "fwd-filter-written-at-wrong-height", File: "htlcswitch/link.go",
			Old: "		err := l.channel.SetFwdFilter(fwdPkg.Height, fwdPkg.FwdFilter)", New: "		err := l.channel.SetFwdFilter(fwdPkg.Height+1, fwdPkg.FwdFilter)",
			Expect: "forwarding-decision-durable-first"},

		// response-acked-only-when-delivered-or-moot
		{Name: "ack-queued-while-circuit-closing", File: "htlcswitch/switch.go",
			Old: "	// drop this response until the circuit has been removed.\n	case ErrCircuitClosing:\n		return nil, err", New: "	// drop this response until the circuit has been removed.\n	case ErrCircuitClosing:\n		if pkt.destRef != nil {\n			s.pendingSettleFails = append(\n				s.pendingSettleFails, *pkt.destRef,\n			)\n		}\n\n		return nil, err",
			Expect: "response-acked-only-when-delivered-or-moot"},
		{Name: "local-response-acked-without-stored-result", File: "htlcswitch/switch.go",
			Old: "			attemptID, err)\n		return\n	}\n\n	// First, we'll clean up any fwdpkg references", New: "			attemptID, err)\n	}\n\n	// First, we'll clean up any fwdpkg references",
			Expect: "response-acked-only-when-delivered-or-moot"},
		{Name: "spurious-response-acked-despite-add-ack-failure", File: "htlcswitch/link.go",
			Old: "		// that succeeds on this step.\n		return\n	}", New: "		// that succeeds on this step.\n	}",
			Expect: "response-acked-only-when-delivered-or-moot"},
		{Name: "settle-acked-on-mailbox-delivery", File: "htlcswitch/switch.go",
			Old: "	// Deliver this packet.\n	return s.mailOrchestrator.Deliver(packet.incomingChanID, packet)\n}\n\n// handlePacketFail", New: "	if packet.destRef != nil {\n		if err := s.ackSettleFail(*packet.destRef); err != nil {\n			return err\n		}\n	}\n\n	// Deliver this packet.\n	return s.mailOrchestrator.Deliver(packet.incomingChanID, packet)\n}\n\n// handlePacketFail",
			Expect: "response-acked-only-when-delivered-or-moot"},
	}
}
