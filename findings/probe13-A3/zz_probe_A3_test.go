package shachain

// Probe A3 (property C06). Run:
//   go test -count=1 -run TestProbeA3DecodeLen -v ./shachain/
//
// Suspicion: NewRevocationStoreFromBytes (store.go) does not bound lenBuckets,
// so a serialised store announcing more buckets than the store has panics in
// the decoder instead of returning an error.
//
// Observed on the unmodified tree:
//   PANIC on decode (lenBuckets=49): runtime error: index out of range [48]
//   with length 48

import (
	"bytes"
	"testing"
)

func TestProbeA3DecodeLen(t *testing.T) {
	for _, n := range []int{49, 50, 255} {
		func() {
			defer func() {
				if r := recover(); r != nil {
					t.Errorf("PANIC on decode (lenBuckets=%d): "+
						"%v", n, r)
				}
			}()

			var b bytes.Buffer
			b.WriteByte(byte(n))
			b.Write(make([]byte, n*(8+32)+8))

			_, err := NewRevocationStoreFromBytes(&b)
			t.Logf("lenBuckets=%d decode err=%v", n, err)

			// 49 buckets are what BOLT-3 allows at most (legal once
			// the store has 49 buckets); anything above can never
			// be a store.
			if n > 49 && err == nil {
				t.Errorf("lenBuckets=%d decoded without error", n)
			}
		}()
	}
}
