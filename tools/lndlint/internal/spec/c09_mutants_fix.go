package spec

// Witness restoring the shape the repair 95d6d1a removed.
func init() {
	registry["C09"].Mutants = append(registry["C09"].Mutants, []Mutant{
		{Name: "fixrev-malformed-fail-carries-the-outer-code", File: "htlcswitch/link.go",
			Old:    "\t\t\t\t\tadd.ID, failCode, add.OnionBlob,",
			New:    "\t\t\t\t\tadd.ID, failureCode, add.OnionBlob,",
			Expect: "malformed-fail-names-the-failing-step"},
	}...)
}
