package lnwire

// Probe for suspicion 4 (property C10): RawFeatureVector.decode converts the
// bit position to FeatureBit (uint16); on the unmodified tree positions >= 65536
// alias onto low feature bits: an init message whose 8193 byte feature vector
// has only bit 65536 set decodes with bit 0 (data_loss_protect required) set.
//
// Run: go test -count=1 -run TestProbe4 ./lnwire/

import (
	"bytes"
	"encoding/binary"
	"testing"

	"github.com/stretchr/testify/require"
)

func probe4Init(t *testing.T, vec []byte) (*Init, error) {
	var body bytes.Buffer
	require.NoError(t, WriteUint16(&body, uint16(MsgInit)))
	require.NoError(t, WriteUint16(&body, 0)) // global features
	var l [2]byte
	binary.BigEndian.PutUint16(l[:], uint16(len(vec)))
	body.Write(l[:])
	body.Write(vec)

	msg, err := ReadMessage(bytes.NewReader(body.Bytes()), 0)
	if err != nil {
		return nil, err
	}

	return msg.(*Init), nil
}

func TestProbe4FeatureBitWraps(t *testing.T) {
	// 8193 bytes: the least significant bit of the first byte is feature
	// bit 65536.
	vec := make([]byte, 8193)
	vec[0] = 0x01

	init, err := probe4Init(t, vec)
	if err == nil && init.Features.IsSet(DataLossProtectRequired) {
		t.Errorf("feature bit 65536 on the wire was decoded as bit 0 " +
			"(data_loss_protect required)")
	}
	if err == nil && len(init.Features.features) != 0 {
		t.Errorf("feature bit 65536 decoded as %v",
			init.Features.features)
	}

	// The highest representable bit, 65535, is the most significant bit
	// of an 8192 byte vector. It still decodes and round trips.
	vec = make([]byte, 8192)
	vec[0] = 0x80
	init, err = probe4Init(t, vec)
	require.NoError(t, err)
	require.True(t, init.Features.IsSet(FeatureBit(65535)))
	require.Len(t, init.Features.features, 1)

	var b bytes.Buffer
	_, err = WriteMessage(&b, init, 0)
	require.NoError(t, err)
	require.Equal(t, vec, b.Bytes()[6:])

	// A longer vector whose excess leading bytes are zero has no bit out
	// of range and still decodes.
	vec = make([]byte, 8200)
	vec[8199] = 0x02
	init, err = probe4Init(t, vec)
	require.NoError(t, err)
	require.True(t, init.Features.IsSet(DataLossProtectOptional))
	require.Len(t, init.Features.features, 1)
}
