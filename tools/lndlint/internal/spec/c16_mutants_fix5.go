package spec

// Witnesses for the rules of c16_fix5.go and for the re-anchored final-hop rule
// of c16_fix4.go: the shapes the repairs aa208fa, 0ea2942, ad141f9 and f4d4612
// of /repo removed (fixrev-…) and close variants of them.
func init() {
	const hopLoad = "\thopIDs, err := batchLoadHopsForAttempts(\n\t\tctx, cfg, db, allAttemptIndices, batchData,\n\t)\n\tif err != nil {\n\t\treturn nil, fmt.Errorf(\"failed to fetch hops for attempts: %w\",\n\t\t\terr)\n\t}\n\n\tif includeHops {\n"
	const setState = "\tif err := mpPayment.SetState(); err != nil {\n\t\treturn nil, fmt.Errorf(\"failed to set payment state: %w\", err)\n\t}\n"
	const fallback = "\tif attempt.Hash == nil {\n\t\tlog.Errorf(\"RegisterAttempt: attempt %d has nil hash, \"+\n\t\t\t\"falling back to payment identifier %x\",\n\t\t\tattempt.AttemptID, paymentHash)\n\n\t\twithHash := *attempt\n\t\twithHash.Hash = &paymentHash\n\t\tattempt = &withHash\n\t}\n"
	const serialize = "\t// Serialize the information before opening the db transaction.\n\tvar a bytes.Buffer\n\terr := serializeHTLCAttemptInfo(&a, attempt)\n\tif err != nil {\n\t\treturn nil, err\n\t}\n"
	const zeroShard = "\tif (isBlinded || mpp != nil) && amt == 0 {\n\t\treturn ErrZeroAmountShard\n\t}\n"
	const storedGuard = "\t\tif h.Route.FinalHop() == nil {\n\t\t\treturn fmt.Errorf(\"in-flight attempt %v: %w\",\n\t\t\t\th.AttemptID, route.ErrNoRouteHopsProvided)\n\t\t}\n"
	registry["C16"].Mutants = append(registry["C16"].Mutants, []Mutant{
		// aa208fa
		{Name: "fixrev-sql-hops-loaded-only-when-asked-for-f5", File: "payments/db/sql_store.go",
			Old:    hopLoad,
			New:    "\tif includeHops {\n\t\thopIDs, err := batchLoadHopsForAttempts(\n\t\t\tctx, cfg, db, allAttemptIndices, batchData,\n\t\t)\n\t\tif err != nil {\n\t\t\treturn nil, fmt.Errorf(\"failed to fetch hops for attempts: %w\",\n\t\t\t\terr)\n\t\t}\n\n",
			Expect: "sql-payment-state-is-derived-from-complete-routes"},
		{Name: "fixrev-sql-hops-dropped-before-the-state-is-derived-f5", File: "payments/db/sql_store.go",
			Old:    setState,
			New:    "\tif !includeHops {\n\t\tfor i := range mpPayment.HTLCs {\n\t\t\tmpPayment.HTLCs[i].Route.Hops = nil\n\t\t}\n\t}\n\n" + setState,
			Expect: "sql-payment-state-is-derived-from-complete-routes"},
		{Name: "sql-attempts-converted-without-their-hop-rows-when-omitted-f5", File: "payments/db/sql_store.go",
			Old:    "\t\t\tdbAttempt, batchData.hopsByAttempt[attemptIndex],\n",
			New:    "\t\t\tdbAttempt, map[bool][]sqlc.FetchHopsForAttemptsRow{true: batchData.hopsByAttempt[attemptIndex]}[includeHops],\n",
			Expect: "sql-payment-state-is-derived-from-complete-routes"},
		{Name: "sql-failed-hop-load-ignored-when-hops-are-omitted-f5", File: "payments/db/sql_store.go",
			Old:    "\tif err != nil {\n\t\treturn nil, fmt.Errorf(\"failed to fetch hops for attempts: %w\",\n",
			New:    "\tif err != nil && includeHops {\n\t\treturn nil, fmt.Errorf(\"failed to fetch hops for attempts: %w\",\n",
			Expect: "sql-payment-state-is-derived-from-complete-routes"},
		{Name: "sql-hop-rows-cleared-in-the-converter-f5", File: "payments/db/sql_converters.go",
			Old:    "\t// Build the route from the database data.\n",
			New:    "\tif !includeHops {\n\t\thops = nil\n\t}\n",
			Expect: "sql-payment-state-is-derived-from-complete-routes"},
		{Name: "sql-hops-dropped-from-the-attempt-list-before-the-payment-is-built-f5", File: "payments/db/sql_store.go",
			Old:    "\t\tattempts = append(attempts, *attempt)\n",
			New:    "\t\tif !includeHops {\n\t\t\tattempt.Route.Hops = nil\n\t\t}\n\t\tattempts = append(attempts, *attempt)\n",
			Expect: "sql-payment-state-is-derived-from-complete-routes"},

		// 0ea2942
		{Name: "fixrev-kv-attempt-without-hash-stored-without-it-f5", File: "payments/db/kv_store.go",
			Old: fallback, New: "",
			Expect: "attempt-without-hash-is-stored-under-the-payment-hash-by-both-stores"},
		{Name: "kv-hash-fallback-modifies-the-callers-attempt-f5", File: "payments/db/kv_store.go",
			Old:    "\t\twithHash := *attempt\n\t\twithHash.Hash = &paymentHash\n\t\tattempt = &withHash\n",
			New:    "\t\tattempt.Hash = &paymentHash\n",
			Expect: "attempt-without-hash-is-stored-under-the-payment-hash-by-both-stores"},
		{Name: "kv-hash-fallback-copy-is-not-the-one-stored-f5", File: "payments/db/kv_store.go",
			Old:    "\t\tattempt = &withHash\n",
			New:    "\t\t_ = withHash\n",
			Expect: "attempt-without-hash-is-stored-under-the-payment-hash-by-both-stores"},
		{Name: "kv-hash-fallback-to-the-zero-hash-f5", File: "payments/db/kv_store.go",
			Old:    "withHash.Hash = &paymentHash",
			New:    "withHash.Hash = &lntypes.Hash{}",
			Expect: "attempt-without-hash-is-stored-under-the-payment-hash-by-both-stores"},
		{Name: "kv-hash-fallback-after-the-attempt-was-serialized-f5", File: "payments/db/kv_store.go",
			Old:    fallback + "\n" + serialize,
			New:    serialize + "\n" + fallback,
			Expect: "attempt-without-hash-is-stored-under-the-payment-hash-by-both-stores"},
		{Name: "sql-attempt-without-hash-inserted-under-an-empty-hash-f5", File: "payments/db/sql_store.go",
			Old:    "\t\tattemptHash := paymentHash[:]\n",
			New:    "\t\tattemptHash := make([]byte, 32)\n",
			Expect: "attempt-without-hash-is-stored-under-the-payment-hash-by-both-stores"},

		// ad141f9
		{Name: "fixrev-zero-amount-shard-admitted-f5", File: "payments/db/payment.go",
			Old: zeroShard, New: "",
			Expect: "a-shard-of-a-split-payment-delivers-an-amount"},
		{Name: "zero-amount-blinded-shard-admitted-f5", File: "payments/db/payment.go",
			Old:    "\tif (isBlinded || mpp != nil) && amt == 0 {\n",
			New:    "\tif mpp != nil && amt == 0 {\n",
			Expect: "a-shard-of-a-split-payment-delivers-an-amount"},
		{Name: "zero-amount-mpp-shard-admitted-f5", File: "payments/db/payment.go",
			Old:    "\tif (isBlinded || mpp != nil) && amt == 0 {\n",
			New:    "\tif isBlinded && amt == 0 {\n",
			Expect: "a-shard-of-a-split-payment-delivers-an-amount"},
		{Name: "zero-amount-shard-only-logged-f5", File: "payments/db/payment.go",
			Old:    zeroShard,
			New:    "\tif (isBlinded || mpp != nil) && amt == 0 {\n\t\tlog.Warnf(\"attempt %v: %v\", attempt.AttemptID,\n\t\t\tErrZeroAmountShard)\n\t}\n",
			Expect: "a-shard-of-a-split-payment-delivers-an-amount"},
		{Name: "zero-amount-shard-refused-only-while-nothing-is-in-flight-f5", File: "payments/db/payment.go",
			Old:    "\tif (isBlinded || mpp != nil) && amt == 0 {\n",
			New:    "\tif (isBlinded || mpp != nil) && amt == 0 && len(payment.InFlightHTLCs()) == 0 {\n",
			Expect: "a-shard-of-a-split-payment-delivers-an-amount"},

		// f4d4612
		{Name: "fixrev-stored-attempt-without-hops-dereferenced-f5", File: "payments/db/payment.go",
			Old: storedGuard + "\n", New: "",
			Expect: "final-hop-is-dereferenced-only-where-it-exists"},
		{Name: "stored-attempt-guard-tests-the-new-attempt-f5", File: "payments/db/payment.go",
			Old:    "\t\tif h.Route.FinalHop() == nil {\n",
			New:    "\t\tif attempt.Route.FinalHop() == nil {\n",
			Expect: "final-hop-is-dereferenced-only-where-it-exists"},
		{Name: "stored-attempt-without-hops-skipped-f5", File: "payments/db/payment.go",
			Old:    storedGuard,
			New:    "\t\tif h.Route.FinalHop() == nil {\n\t\t\tcontinue\n\t\t}\n",
			Expect: "final-hop-is-dereferenced-only-where-it-exists"},
		{Name: "stored-attempt-without-hops-only-logged-f5", File: "payments/db/payment.go",
			Old:    storedGuard,
			New:    "\t\tif h.Route.FinalHop() == nil {\n\t\t\tlog.Warnf(\"in-flight attempt %v: %v\",\n\t\t\t\th.AttemptID, route.ErrNoRouteHopsProvided)\n\t\t}\n",
			Expect: "final-hop-is-dereferenced-only-where-it-exists"},
		// seed C16/g of the fourth round (its patch no longer applies after
		// f4d4612: the equivalent edit against today's text)
		{Name: "seed4-attempt-id-compared-with-the-attempts-in-flight-only-f5", File: "payments/db/payment.go",
			Old:    "\tif _, err := payment.GetAttempt(attempt.AttemptID); err == nil {\n\t\treturn fmt.Errorf(\"%w: attempt ID %v\",\n\t\t\tErrAttemptAlreadyRegistered, attempt.AttemptID)\n\t}\n",
			New:    "\tfor _, h := range payment.InFlightHTLCs() {\n\t\tif h.AttemptID == attempt.AttemptID {\n\t\t\treturn fmt.Errorf(\"%w: attempt ID %v\",\n\t\t\t\tErrAttemptAlreadyRegistered, attempt.AttemptID)\n\t\t}\n\t}\n",
			Expect: "resolution-belongs-to-the-gated-payment"},
	}...)
}
