package spec

func init() {
	registry["C13"].Mutants = append(registry["C13"].Mutants, []Mutant{
		// per-element-loops-visit-every-element
		{Name: "adv-loop-relaunch-stops-at-first-non-htlc-resolver", File: "contractcourt/channel_arbitrator.go",
			Old:    "		htlcResolver, ok := resolver.(htlcContractResolver)\n		if !ok {\n			launchable = append(launchable, resolver)\n			continue\n		}",
			New:    "		htlcResolver, ok := resolver.(htlcContractResolver)\n		if !ok {\n			launchable = append(launchable, resolver)\n			break\n		}",
			Expect: "per-element-loops-visit-every-element"},
		{Name: "adv-loop-relaunch-missing-htlc-returns-nil", File: "contractcourt/channel_arbitrator.go",
			Old:    "				\"relaunching it\", c.cfg.ChanPoint, resolver,\n				htlcPoint)\n\n			continue\n		}",
			New:    "				\"relaunching it\", c.cfg.ChanPoint, resolver,\n				htlcPoint)\n\n			return nil\n		}",
			Expect: "per-element-loops-visit-every-element"},
		{Name: "adv-loop-dust-outcome-error-ends-without-error", File: "contractcourt/channel_arbitrator.go",
			Old:    "			key.ChanID, key.HtlcID, false,\n		)\n		if err != nil {\n			return err\n		}",
			New:    "			key.ChanID, key.HtlcID, false,\n		)\n		if err != nil {\n			return nil\n		}",
			Expect: "per-element-loops-visit-every-element"},
		{Name: "adv-loop-only-first-forward-abandoned", File: "contractcourt/channel_arbitrator.go",
			Old:    "		msgsToSend = append(msgsToSend, failMsg)\n	}",
			New:    "		msgsToSend = append(msgsToSend, failMsg)\n		if len(msgsToSend) > 0 {\n			break\n		}\n	}",
			Expect: "per-element-loops-visit-every-element"},
		{Name: "adv-loop-only-first-resolver-started", File: "contractcourt/channel_arbitrator.go",
			Old:    "		go c.resolveContract(contract)\n	}",
			New:    "		go c.resolveContract(contract)\n\n		return\n	}",
			Expect: "per-element-loops-visit-every-element"},
	}...)
}
