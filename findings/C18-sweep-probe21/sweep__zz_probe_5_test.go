package sweep

import (
	"github.com/lightningnetwork/lnd/fn/v2"
	"github.com/lightningnetwork/lnd/input"
	"github.com/lightningnetwork/lnd/lnwallet/chainfee"
	"github.com/stretchr/testify/require"
	"testing"
)

// Probe 5: after a grouped sweep fails, every input of the group is given the
// group's next fee rate as StartingFeeRate. filterInputs then drops an input
// whose own budget cannot pay that rate for its own weight - on every block,
// forever: the input is never offered again, let alone at its own ceiling.
func TestProbeRetryRateStrandsSmallBudgetInput(t *testing.T) {
	t.Parallel()

	const deadline = int32(1000)

	estimator := &chainfee.MockEstimator{}
	estimator.On("RelayFeePerKW").Return(chainfee.FeePerKwFloor)

	agg := NewBudgetAggregator(
		estimator, DefaultMaxInputsPerTx, fn.None[AuxSweeper](),
	)
	s := New(&UtxoSweeperConfig{Aggregator: agg})
	s.currentHeight = 900

	small := createTestInput(50_000, input.WitnessKeyHash)
	big := createTestInput(5_000_000, input.WitnessKeyHash)

	piSmall := &SweeperInput{
		Input: &small, state: Published, DeadlineHeight: deadline,
		params: Params{
			Budget:         1_000,
			DeadlineHeight: fn.Some(deadline),
		},
	}
	piBig := &SweeperInput{
		Input: &big, state: Published, DeadlineHeight: deadline,
		params: Params{
			Budget:         1_000_000,
			DeadlineHeight: fn.Some(deadline),
		},
	}
	s.inputs[small.OutPoint()] = piSmall
	s.inputs[big.OutPoint()] = piBig

	set, err := NewBudgetInputSet(
		[]SweeperInput{*piBig, *piSmall}, deadline,
		fn.None[AuxSweeper](),
	)
	require.NoError(t, err)

	// The group had ramped to 50_000 sat/kw (well within the group's
	// budget) when the tx failed.
	s.handleBumpEventTxFailed(&bumpResp{
		set: set,
		result: &BumpResult{
			Event: TxFailed, FeeRate: 50_000,
		},
	})

	// The big input gets swept by someone else.
	piBig.state = Swept

	inputs := s.updateSweeperInputs()
	require.Len(t, inputs, 1)

	sets := agg.ClusterInputs(inputs)
	require.Len(t, sets, 1, "the remaining input is never offered again")
}
