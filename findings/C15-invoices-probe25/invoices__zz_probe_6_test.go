package invoices_test

import (
	"testing"

	invpkg "github.com/lightningnetwork/lnd/invoices"
	"github.com/lightningnetwork/lnd/lntypes"
	"github.com/stretchr/testify/require"
)

// Probe 6 (found while reading for 1): KV DeleteCanceledInvoices iterates the
// invoice index (k = payment hash, v = invoice number) but uses k where the
// invoice number is meant: the payment address index entry, the AMP
// sub-invoices and the serialized invoice survive the "deletion". On the KV
// store the collected invoice is still found by its payment address and its
// address cannot be used again; the SQL store really deletes it.
func TestProbe6DeleteCanceledInvoicesLeavesPayAddrIndex(t *testing.T) {
	runProbe(t, func(t *testing.T, makeDB probeMakeDB) {
		db, _ := makeDB(t)
		ctxb := t.Context()

		inv := newInvoice(t, false, false)
		inv.Terms.PaymentAddr = [32]byte{7}
		_, err := db.AddInvoice(ctxb, inv, testInvoicePaymentHash)
		require.NoError(t, err)

		cancel := func(*invpkg.Invoice) (*invpkg.InvoiceUpdateDesc,
			error) {

			return &invpkg.InvoiceUpdateDesc{
				UpdateType: invpkg.CancelInvoiceUpdate,
				State: &invpkg.InvoiceStateUpdateDesc{
					NewState: invpkg.ContractCanceled,
				},
			}, nil
		}
		_, err = db.UpdateInvoice(
			ctxb, invpkg.InvoiceRefByHash(testInvoicePaymentHash),
			nil, cancel,
		)
		require.NoError(t, err)

		require.NoError(t, db.DeleteCanceledInvoices(ctxb))

		_, err = db.LookupInvoice(
			ctxb, invpkg.InvoiceRefByHash(testInvoicePaymentHash),
		)
		require.ErrorIs(t, err, invpkg.ErrInvoiceNotFound)

		got, err := db.LookupInvoice(
			ctxb, invpkg.InvoiceRefByAddr(inv.Terms.PaymentAddr),
		)
		if err == nil {
			t.Errorf("SUSPECT: deleted invoice still found by its "+
				"payment address, state %v", got.State)
		}

		// The address is free again.
		inv2 := newInvoice(t, false, false)
		inv2.Terms.PaymentAddr = [32]byte{7}
		pre := lntypes.Preimage{42}
		inv2.Terms.PaymentPreimage = &pre
		_, err = db.AddInvoice(ctxb, inv2, inv2.Terms.PaymentPreimage.Hash())
		if err != nil {
			t.Errorf("SUSPECT: address of a deleted invoice cannot "+
				"be used again: %v", err)
		}
	})
}
