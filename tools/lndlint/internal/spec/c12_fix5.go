package spec

import (
	"go/ast"
	"go/token"
	"go/types"
	"regexp"
	"strings"

	"lndlint/internal/an"
	"lndlint/internal/flow"
)

func init() {
	specExtras["C12"] = append(specExtras["C12"], c12f5Rules)
}

// c12f5Rules: the go-to-chain decision and the early dust fail-back (repairs
// 02ea525, 120ac35, 9aca482, 7d9fadd in /repo; seeded change C12/g of the
// fourth round).
func c12f5Rules(r *an.Run) {
	c12f5DecisionPass(r)
	c12f5CanceledInvoice(r)
	c12f5BlockRetries(r)
	c12f5EarlyDust(r)
}

// c12f5LoopOf returns the innermost range statement of f that contains n.
func c12f5LoopOf(f *an.Func, n ast.Node) *ast.RangeStmt {
	var best *ast.RangeStmt
	ast.Inspect(f.Body, func(x ast.Node) bool {
		if x == nil {
			return false
		}
		if x.Pos() > n.Pos() || x.End() < n.End() {
			return x.Pos() <= n.Pos()
		}
		if rs, ok := x.(*ast.RangeStmt); ok {
			if best == nil || rs.End()-rs.Pos() < best.End()-best.Pos() {
				best = rs
			}
		}
		return true
	})
	return best
}

// c12f5LoopVertices returns the head vertex of the range statement and the
// first vertex of its body.
func c12f5LoopVertices(f *an.Func, rs *ast.RangeStmt) (head, body *flow.Vertex) {
	for _, v := range f.Graph().V {
		if v.Kind == flow.KRange && v.Node == ast.Node(rs) {
			head = v
		}
	}
	if head == nil {
		return nil, nil
	}
	for _, e := range head.Out {
		if e.Kind == flow.ERangeIn {
			body = e.To
		}
	}
	return head, body
}

// c12f5CommaOkOf matches a local whose only assignment is position `which` of
// the comma-ok lookup `v, ok := X[I]` with the canonical forms of X and I
// matching the patterns.
func c12f5CommaOkOf(xRe, idxRe string, which int) an.Term {
	return func(f *an.Func, e ast.Expr) bool {
		id, ok := e.(*ast.Ident)
		if !ok {
			return false
		}
		info := f.Info()
		obj := info.Uses[id]
		if obj == nil {
			obj = info.Defs[id]
		}
		if obj == nil {
			return false
		}
		n, hit := 0, false
		ast.Inspect(f.Root().Body, func(nd ast.Node) bool {
			switch x := nd.(type) {
			case *ast.IncDecStmt:
				if li, isID := ast.Unparen(x.X).(*ast.Ident); isID && info.Uses[li] == obj {
					n++
				}
			case *ast.AssignStmt:
				for i, l := range x.Lhs {
					li, isID := ast.Unparen(l).(*ast.Ident)
					if !isID {
						continue
					}
					lo := info.Defs[li]
					if lo == nil {
						lo = info.Uses[li]
					}
					if lo != obj {
						continue
					}
					n++
					if len(x.Lhs) == 2 && len(x.Rhs) == 1 && i == which {
						if ix, isIx := ast.Unparen(x.Rhs[0]).(*ast.IndexExpr); isIx && reMatch(xRe, f.Canon(ix.X)) && reMatch(idxRe, f.Canon(ix.Index)) {
							hit = true
						}
					}
				}
			}
			return true
		})
		return hit && n == 1
	}
}

// c12f5DecisionPass: which HTLCs the first pass of checkCommitChainActions
// asks shouldGoOnChain about.
func c12f5DecisionPass(r *an.Run) {
	p := r.Prog
	ca := cc + "ChannelArbitrator."
	r.Obl("go-to-chain-decision-counts-offered-dust-and-skips-received-dust", "PATH",
		"checkCommitChainActions, decision pass (the loops that update the go-to-chain flag `flag = flag || <verdict>`): the verdict is exactly the result of shouldGoOnChain for the loop's element; in the loop over the offered HTLCs every iteration reaches that update, whatever the HTLC's output index (an offered HTLC that is dust on this commitment still has an incoming HTLC upstream whose expiry the close protects, and the close is also the moment the dust HTLC is failed back); in the loop over the received HTLCs the update and the shouldGoOnChain call are reached only for an element with OutputIndex >= 0 (exactly: index 0 is an output)",
		"the node must decide to force close delta blocks before the expiry of EVERY offered HTLC it forwarded: an offered dust HTLC skipped by the decision pass is neither timed out nor failed back until the upstream peer force closes on us; a received HTLC without output cannot be claimed on chain whatever we know, so it must never be the reason of a close", 4,
		func(o *an.Obl) {
			f := p.Func(ca + "checkCommitChainActions")
			g := f.Graph()
			nOut, nIn := 0, 0
			for _, v := range g.V {
				as, ok := v.Node.(*ast.AssignStmt)
				if !ok || len(as.Lhs) != 1 || len(as.Rhs) != 1 || as.Tok != token.ASSIGN {
					continue
				}
				flag, ok := as.Lhs[0].(*ast.Ident)
				if !ok {
					continue
				}
				be, ok := ast.Unparen(as.Rhs[0]).(*ast.BinaryExpr)
				if !ok || be.Op != token.LOR {
					continue
				}
				// flag = flag || verdict (either order)
				var verdict ast.Expr
				for i, side := range []ast.Expr{be.X, be.Y} {
					if id, isID := ast.Unparen(side).(*ast.Ident); isID && f.Info().Uses[id] != nil && f.Info().Uses[id] == f.Info().Uses[flag] {
						verdict = []ast.Expr{be.Y, be.X}[i]
					}
				}
				if verdict == nil {
					continue
				}
				rs := c12f5LoopOf(f, as)
				if rs == nil {
					continue
				}
				site := an.Site{Fn: f, V: v, Node: as}
				lx := f.Canon(rs.X)
				vc := f.Canon(verdict)
				o.Site("%s: decision update in the loop over %s, verdict %s", site.String(), lx, vc)
				elem := `\$elem\(` + regexp.QuoteMeta(lx) + `\)`
				if !reMatch(`^\$recv\.shouldGoOnChain\(`+elem+`, [^()]*\)$`, vc) {
					o.FailAt(f.ID+"#decision-verdict", site.Where(), "the go-to-chain flag is updated with %s, expected exactly the result of shouldGoOnChain for the loop's element (a verdict narrowed by another condition drops HTLCs from the decision)", vc)
				}
				head, body := c12f5LoopVertices(f, rs)
				if head == nil || body == nil {
					o.FailAt(f.ID+"#decision-loop", site.Where(), "cannot find the loop of the decision update")
					continue
				}
				switch {
				case strings.HasSuffix(lx, ".outgoingHTLCs"):
					nOut++
					stop := map[*flow.Vertex]bool{head: true, v: true}
					if body != v && g.Reach(body, nil, stop)[head] {
						o.FailAt(f.ID+"#offered-htlc-left-out-of-decision", f.Where(rs.Pos()), "an iteration over the offered HTLCs can complete without updating the go-to-chain flag: that HTLC (e.g. one that is dust on this commitment) no longer counts for the deadline of the close")
					}
				case strings.HasSuffix(lx, ".incomingHTLCs"):
					nIn++
					hasOutput := an.CmpX(canonTerm(`^`+elem+`\.OutputIndex$`), an.GE, an.IntConst(0), "htlc.OutputIndex >= 0 (the loop's element)")
					guarded(o, f, site, hasOutput)
					for _, s := range f.Calls(an.CalleeIs(ca+"shouldGoOnChain"), false) {
						if c12f5LoopOf(f, s.Node) == rs {
							guarded(o, f, s, hasOutput)
						}
					}
				default:
					o.FailAt(f.ID+"#decision-direction", site.Where(), "cannot relate the decision loop over %s to an HTLC direction", lx)
				}
			}
			if nOut != 1 || nIn != 1 {
				o.FailAt(f.ID+"#decision-updates", f.Where(f.Body.Pos()), "expected one go-to-chain flag update in a loop over the offered and one in a loop over the received HTLCs, found %d and %d", nOut, nIn)
			}
		})
}

// c12f5CanceledInvoice: what counts as "preimage known".
func c12f5CanceledInvoice(r *an.Run) {
	p := r.Prog
	ca := cc + "ChannelArbitrator."
	r.Obl("canceled-invoice-is-not-a-known-preimage", "GUARD",
		"isPreimageAvailable: after the invoice lookup every return whose verdict is not the literal false is reached only below invoice.State != ContractCanceled, invoice being the lookup's result; the positive verdict from the invoice is `invoice.Terms.PaymentPreimage != nil`",
		"a canceled invoice keeps its preimage but the registry will never settle an HTLC for it: the HTLC counts as claimable, the node force closes delta blocks before its expiry, and the contest resolver then gives the HTLC up - a close merely because of a received HTLC it cannot claim", 4,
		func(o *an.Obl) {
			f := p.Func(ca + "isPreimageAvailable")
			look := f.Calls(an.CalleeNamed("LookupInvoice"), false)
			if !needExactly(o, f, "Registry.LookupInvoice", look, 1) {
				return
			}
			after := f.Graph().Reach(look[0].V, nil, nil)
			state := an.FieldPath(an.ResultOf(an.CallNamed("LookupInvoice", nil), 0), "State")
			notCanceled := an.CmpX(state, an.NE, an.PkgVar("invoices", "ContractCanceled"), "invoice.State != ContractCanceled")
			n := 0
			for _, s := range f.Returns() {
				rs, ok := s.Node.(*ast.ReturnStmt)
				if !ok || len(rs.Results) != 2 || !after[s.V] || s.V == look[0].V {
					continue
				}
				c := f.Canon(rs.Results[0])
				if c == "false" {
					continue
				}
				n++
				o.Site("%s: verdict %s", s.String(), c)
				guarded(o, f, s, notCanceled)
				if !reMatch(`^\(?\$recv\.cfg\.Registry\.LookupInvoice\(.*\)\.Terms\.PaymentPreimage != nil\)?$`, c) {
					// the verdict may be held in a local with several
					// definitions: look at what is assigned after the lookup
					okDef := false
					if id, isID := ast.Unparen(rs.Results[0]).(*ast.Ident); isID {
						for _, w := range f.Assigns(func(fn *an.Func, e ast.Expr) bool {
							i, k := e.(*ast.Ident)
							return k && fn.Info().Uses[i] != nil && fn.Info().Uses[i] == f.Info().Uses[id]
						}, false) {
							if !after[w.V] {
								continue
							}
							wc := f.Canon(w.Node.(*ast.AssignStmt).Rhs[0])
							o.Site("%s: verdict variable <- %s", w.String(), wc)
							if reMatch(`^\(?\$recv\.cfg\.Registry\.LookupInvoice\(.*\)\.Terms\.PaymentPreimage != nil\)?$`, wc) {
								okDef = true
							} else {
								o.FailAt(f.ID+"#invoice-verdict", w.Where(), "after the invoice lookup the verdict is set to %s, expected invoice.Terms.PaymentPreimage != nil", wc)
							}
						}
					}
					if !okDef {
						o.FailAt(f.ID+"#invoice-verdict-source", s.Where(), "cannot relate the verdict %s returned after the invoice lookup to invoice.Terms.PaymentPreimage", c)
					}
				}
			}
			if n == 0 {
				o.FailAt(f.ID+"#no-invoice-verdict", f.Where(f.Body.Pos()), "no non-false verdict is returned after the invoice lookup")
			}
		})
}

// c12f5BlockRetries: a block re-executes the stages in which the state
// machine itself is the only one who can make progress.
func c12f5BlockRetries(r *an.Run) {
	p := r.Prog
	ca := cc + "ChannelArbitrator."
	r.Obl("every-block-re-executes-the-undecided-and-the-broadcast-stage", "TABLE",
		"handleBlockbeat, evaluated per stage (every condition on c.state decided for that stage, IsContractClosed() false): in StateDefault and in StateBroadcastCommit every path to the function's end calls advanceState, with the block's height, chainTrigger and no commit set",
		"StateDefault is where the deadline of every pending HTLC is evaluated, once per block; StateBroadcastCommit is entered durably by the decision to go to chain and left only when the commitment was recorded and published, steps that can fail (signer or chain backend unavailable): if no later block re-executes the stage the decision taken in time is never carried out and the HTLCs expire with the channel still open", 3,
		func(o *an.Obl) {
			f := p.Func(ca + "handleBlockbeat")
			g := f.Graph()
			adv := f.Calls(an.CalleeIs(ca+"advanceState"), false)
			if !needExactly(o, f, "advanceState", adv, 1) {
				return
			}
			a := f.ArgCanon(adv[0])
			if len(a) != 3 || !reMatch(`^uint32\(\$p0\.Height\(\)\)$`, a[0]) || a[1] != cc+"chainTrigger" || a[2] != "nil" {
				o.FailAt(f.ID+"#advance-args", adv[0].Where(), "a block advances the state machine with %v, expected (uint32(beat.Height()), chainTrigger, nil)", a)
			}
			stateAtom := regexp.MustCompile(`^\(?\$recv\.state (==|!=) contractcourt\.(State[A-Za-z]+)\)?$`)
			for _, stage := range []string{"StateDefault", "StateBroadcastCommit"} {
				stage := stage
				undecided := map[string]bool{}
				decide := func(fn *an.Func, v *flow.Vertex) (bool, bool) {
					c := fn.AtomCanon(v)
					if m := stateAtom.FindStringSubmatch(c); m != nil {
						return (m[2] == stage) == (m[1] == "=="), true
					}
					if c == "$recv.state.IsContractClosed()" {
						return false, true
					}
					if strings.Contains(c, "$recv.state") {
						undecided[c] = true
					}
					return false, false
				}
				reach := f.ReachUnderStop(g.Entry, decide, map[*flow.Vertex]bool{adv[0].V: true})
				o.Site("%s: stage %s: function end reachable without advanceState = %v", f.ID, stage, reach[g.Exit])
				if reach[g.Exit] {
					o.FailAt(f.ID+"#stage-not-re-executed-"+stage, adv[0].Where(), "in stage %s a new block can pass handleBlockbeat without advanceState: the stage is re-executed only after a restart", stage)
				}
				for c := range undecided {
					o.FailAt(f.ID+"#undecided-stage-test", f.Where(f.Body.Pos()), "handleBlockbeat tests the stage by %s, which the stage table cannot decide", c)
				}
			}
		})
}

// c12f5EarlyDust: which dust HTLCs may be failed back before a commitment
// confirmed.
func c12f5EarlyDust(r *an.Run) {
	p := r.Prog
	ca := cc + "ChannelArbitrator."
	r.Obl("early-fail-back-only-for-htlcs-that-are-dust-on-every-commitment", "PATH",
		"stateStep, StateDefault: on every path with confCommitSet == nil the list whose indexes are handed to abandonForwards has passed fn.Filter with the predicate !c.hasOutputOnAnyCommit(htlc.HtlcIndex) (htlc the predicate's parameter), after updateActiveHTLCs refreshed the sets; the list is assigned nowhere else but from chainActions[HtlcFailDustAction] and that filter, and the set handed over is built from it; hasOutputOnAnyCommit ranges over all of c.activeHTLCs (every commitment's set), looks the index it was given up in the element's outgoingHTLCs, answers true exactly below ok && OutputIndex >= 0 of that entry and answers false only when the range is exhausted",
		"before a commitment confirmed it is open which of the three confirms: an offered HTLC that is dust on ours but has an output on a remote commitment can still be claimed by the peer there; failing it back upstream at the decision to go to chain loses the HTLC's amount when that commitment confirms (a fail-back for an offered HTLC that still has an output on the confirmed commitment)", 12,
		func(o *an.Obl) {
			f := p.Func(ca + "stateStep")
			var early []an.Site
			for _, s := range f.Calls(an.CalleeIs(ca+"abandonForwards"), false) {
				for _, gd := range f.GuardsAt(s) {
					if gd == "c.state == StateDefault" {
						early = append(early, s)
					}
				}
			}
			if !needExactly(o, f, "abandonForwards in the StateDefault case", early, 1) {
				return
			}
			call := early[0]
			arg := f.ArgCanon(call)[0]
			// the list the set is built from: the local ranged over by the
			// index mapping
			var list *ast.Ident
			var walk func(e ast.Expr, depth int)
			walk = func(e ast.Expr, depth int) {
				if depth > 6 {
					return
				}
				ast.Inspect(e, func(n ast.Node) bool {
					id, ok := n.(*ast.Ident)
					if !ok || list != nil {
						return list == nil
					}
					v, isVar := f.Info().Uses[id].(*types.Var)
					if !isVar || v.IsField() {
						return true
					}
					if t := v.Type().String(); strings.HasPrefix(t, "[]") && strings.HasSuffix(t, ".HTLC") {
						list = id
						return false
					}
					if d := f.UniqueDef(id); d != nil {
						walk(d, depth+1)
					}
					return true
				})
			}
			walk(call.Node.(*ast.CallExpr).Args[0], 0)
			o.Site("%s: set %s", call.String(), arg)
			if list == nil {
				o.FailAt(f.ID+"#early-fail-back-list", call.Where(), "cannot find the HTLC list the early fail-back set %s is built from", arg)
				return
			}
			listObj := f.Info().Uses[list]
			isList := func(fn *an.Func, e ast.Expr) bool {
				id, ok := e.(*ast.Ident)
				return ok && (fn.Info().Uses[id] == listObj || fn.Info().Defs[id] == listObj)
			}
			var filters, sources []an.Site
			for _, w := range f.Assigns(isList, false) {
				as := w.Node.(*ast.AssignStmt)
				if len(as.Rhs) != 1 {
					o.FailAt(f.ID+"#early-list-write", w.Where(), "unexpected write of the early fail-back list: %s", an.Text(as))
					continue
				}
				rhs := ast.Unparen(as.Rhs[0])
				if c, ok := rhs.(*ast.CallExpr); ok && reMatch(`(^|/)fn(/v2)?\.Filter$`, an.CalleeID(f.Info(), c)) && len(c.Args) == 2 {
					filters = append(filters, w)
					if id, isID := ast.Unparen(c.Args[0]).(*ast.Ident); !isID || f.Info().Uses[id] != listObj {
						o.FailAt(f.ID+"#early-filter-input", w.Where(), "the filter's input is %s, expected the dust list itself", an.Text(c.Args[0]))
					}
					lit, isLit := ast.Unparen(c.Args[1]).(*ast.FuncLit)
					if !isLit {
						o.FailAt(f.ID+"#early-filter-predicate", w.Where(), "the filter's predicate %s is not a function literal the rule can read", an.Text(c.Args[1]))
						continue
					}
					lf := f.LitFunc(lit)
					rets := lf.Returns()
					okPred := len(rets) == 1
					pc := ""
					if okPred {
						if rs, isRet := rets[0].Node.(*ast.ReturnStmt); isRet && len(rs.Results) == 1 {
							pc = lf.Canon(rs.Results[0])
						}
						okPred = reMatch(`^!\$recv\.hasOutputOnAnyCommit\(\$(lit\.)?p0\.HtlcIndex\)$`, pc)
					}
					o.Site("%s: predicate %s", w.String(), pc)
					if !okPred {
						o.FailAt(f.ID+"#early-filter-predicate", w.Where(), "the early fail-back keeps an HTLC when %s, expected !c.hasOutputOnAnyCommit(htlc.HtlcIndex) for the predicate's own HTLC", pc)
					}
					continue
				}
				wc := f.Canon(rhs)
				if reMatch(`\[contractcourt\.HtlcFailDustAction\]$`, wc) {
					sources = append(sources, w)
					continue
				}
				o.FailAt(f.ID+"#early-list-write", w.Where(), "the early fail-back list is assigned %s: it may only be the dust action's list and its filtered form", wc)
			}
			noConf := an.IsNil(an.Param(2), false, "confCommitSet != nil")
			if need(o, f, "dustHTLCs = fn.Filter(dustHTLCs, …)", filters, 1) && need(o, f, "dustHTLCs := chainActions[HtlcFailDustAction]", sources, 1) {
				mustDoUnless(o, f, "the filter by hasOutputOnAnyCommit", filters, []an.Site{call}, noConf)
				before(o, f, "the read of the dust action", sources, "the filter", filters)
				upd := f.Calls(an.CalleeIs(ca+"updateActiveHTLCs"), false)
				if need(o, f, "updateActiveHTLCs", upd, 1) {
					mustDoUnless(o, f, "updateActiveHTLCs", upd, filters, noConf)
				}
			}

			h := p.Func(ca + "hasOutputOnAnyCommit")
			hg := h.Graph()
			var loops []*ast.RangeStmt
			ast.Inspect(h.Body, func(n ast.Node) bool {
				if rs, ok := n.(*ast.RangeStmt); ok {
					loops = append(loops, rs)
				}
				return true
			})
			if len(loops) != 1 || h.Canon(loops[0].X) != "$recv.activeHTLCs" {
				got := []string{}
				for _, l := range loops {
					got = append(got, h.Canon(l.X))
				}
				o.FailAt(h.ID+"#scanned-sets", h.Where(h.Body.Pos()), "hasOutputOnAnyCommit ranges over %v, expected exactly one loop over all of c.activeHTLCs", got)
				return
			}
			head, body := c12f5LoopVertices(h, loops[0])
			o.Site("%s: ranges over %s", h.ID, h.Canon(loops[0].X))
			const setRe, idxRe = `^\$elem\(\$recv\.activeHTLCs\)\.outgoingHTLCs$`, `^\$p0$`
			entry := c12f5CommaOkOf(setRe, idxRe, 0)
			hasOut := an.CmpX(an.FieldPath(entry, "OutputIndex"), an.GE, an.IntConst(0), "entry.OutputIndex >= 0 (entry = htlcs.outgoingHTLCs[htlcIndex])")
			found := an.Truth(c12f5CommaOkOf(setRe, idxRe, 1), true, "ok of htlcs.outgoingHTLCs[htlcIndex]")
			nTrue := 0
			inLoop := map[*flow.Vertex]bool{}
			if head != nil && body != nil {
				inLoop = hg.Reach(body, nil, map[*flow.Vertex]bool{head: true})
			}
			for _, s := range h.Returns() {
				rs, ok := s.Node.(*ast.ReturnStmt)
				if !ok || len(rs.Results) != 1 {
					continue
				}
				switch c := h.Canon(rs.Results[0]); c {
				case "true":
					nTrue++
					guarded(o, h, s, hasOut)
					guarded(o, h, s, found)
					onlyGuards(o, h, s, []string{`^ok$`, `^htlc\.OutputIndex >= 0$`, `^[a-zA-Z]+\.OutputIndex >= 0$`}, "has-output verdict")
				case "false":
					o.Site("%s: negative verdict", s.String())
					if inLoop[s.V] && s.V != head {
						o.FailAt(h.ID+"#negative-verdict-before-every-set-was-looked-at", s.Where(), "hasOutputOnAnyCommit answers false (or leaves the loop) before every commitment's set was looked at")
					}
				default:
					o.FailAt(h.ID+"#verdict", s.Where(), "hasOutputOnAnyCommit returns %s, expected the literal verdicts", c)
				}
			}
			if nTrue != 1 {
				o.FailAt(h.ID+"#positive-verdicts", h.Where(h.Body.Pos()), "expected one positive verdict in hasOutputOnAnyCommit, found %d", nTrue)
			}
		})
}
