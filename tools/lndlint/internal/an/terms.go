package an

import (
	"go/ast"
	"go/constant"
	"go/token"
	"go/types"
	"strings"

	"lndlint/internal/flow"
)

// Term matches an expression by the origin of its value. Terms never look at
// local variable names: a local is matched through its unique definition.
type Term func(f *Func, e ast.Expr) bool

// defsOf collects, per local object, the expressions assigned to it in the
// root function (including nested literals). A nil entry marks an assignment
// that is not a plain expression (multi-value, range, inc/dec, address
// taken).
type defInfo struct {
	exprs []ast.Expr
	// for multi-value assignments: the call and the result index
	calls []*ast.CallExpr
	idx   []int
	dirty bool
}

func (f *Func) defs() map[types.Object]*defInfo {
	root := f.Root()
	if root.defCache != nil {
		return root.defCache
	}
	info := root.Info()
	m := map[types.Object]*defInfo{}
	get := func(e ast.Expr) (*defInfo, bool) {
		id, ok := ast.Unparen(e).(*ast.Ident)
		if !ok || id.Name == "_" {
			return nil, false
		}
		o := info.Defs[id]
		if o == nil {
			o = info.Uses[id]
		}
		v, ok := o.(*types.Var)
		if !ok || v.IsField() || (v.Pkg() != nil && v.Parent() == v.Pkg().Scope()) {
			return nil, false
		}
		d := m[o]
		if d == nil {
			d = &defInfo{}
			m[o] = d
		}
		return d, true
	}
	var body ast.Node = root.Body
	ast.Inspect(body, func(n ast.Node) bool {
		switch x := n.(type) {
		case *ast.AssignStmt:
			if x.Tok != token.ASSIGN && x.Tok != token.DEFINE {
				for _, l := range x.Lhs {
					if d, ok := get(l); ok {
						d.dirty = true
					}
				}
				return true
			}
			if len(x.Lhs) == len(x.Rhs) {
				for i, l := range x.Lhs {
					if d, ok := get(l); ok {
						d.exprs = append(d.exprs, x.Rhs[i])
					}
				}
			} else if len(x.Rhs) == 1 {
				call, _ := ast.Unparen(x.Rhs[0]).(*ast.CallExpr)
				for i, l := range x.Lhs {
					if d, ok := get(l); ok {
						if call != nil {
							d.calls = append(d.calls, call)
							d.idx = append(d.idx, i)
						} else {
							d.dirty = true
						}
					}
				}
			}
		case *ast.ValueSpec:
			if len(x.Values) == len(x.Names) {
				for i, nm := range x.Names {
					if d, ok := get(nm); ok {
						d.exprs = append(d.exprs, x.Values[i])
					}
				}
			} else if len(x.Values) == 1 {
				call, _ := ast.Unparen(x.Values[0]).(*ast.CallExpr)
				for i, nm := range x.Names {
					if d, ok := get(nm); ok {
						if call != nil {
							d.calls = append(d.calls, call)
							d.idx = append(d.idx, i)
						} else {
							d.dirty = true
						}
					}
				}
			} else if len(x.Values) == 0 {
				// zero value declaration: counts as a definition we cannot
				// express; mark dirty only if later assigned (handled by the
				// other cases adding exprs). Record nothing.
			}
		case *ast.IncDecStmt:
			if d, ok := get(x.X); ok {
				d.dirty = true
			}
		case *ast.RangeStmt:
			if x.Key != nil {
				if d, ok := get(x.Key); ok {
					d.dirty = true
				}
			}
			if x.Value != nil {
				if d, ok := get(x.Value); ok {
					d.dirty = true
				}
			}
		case *ast.UnaryExpr:
			if x.Op == token.AND {
				if d, ok := get(x.X); ok {
					d.dirty = true
				}
			}
		}
		return true
	})
	// a definition that mentions the variable itself (x = append(x, ...),
	// x = x + 1) is not a closed-form origin
	for o, d := range m {
		for _, ex := range d.exprs {
			self := false
			ast.Inspect(ex, func(n ast.Node) bool {
				if id, ok := n.(*ast.Ident); ok && info.Uses[id] == o {
					self = true
				}
				return !self
			})
			if self {
				d.dirty = true
			}
		}
	}
	root.defCache = m
	return m
}

// UniqueDef returns the single expression defining the local variable that
// id refers to, if the variable is assigned exactly once from a plain
// expression and never has its address taken.
func (f *Func) UniqueDef(id *ast.Ident) ast.Expr {
	o := f.Info().Uses[id]
	if o == nil {
		o = f.Info().Defs[id]
	}
	d := f.defs()[o]
	if d == nil || d.dirty || len(d.exprs) != 1 || len(d.calls) != 0 {
		return nil
	}
	return d.exprs[0]
}

// UniqueCallDef returns the call and result index defining id when the
// variable is assigned exactly once from a multi-value call.
func (f *Func) UniqueCallDef(id *ast.Ident) (*ast.CallExpr, int) {
	o := f.Info().Uses[id]
	if o == nil {
		o = f.Info().Defs[id]
	}
	d := f.defs()[o]
	if d == nil || d.dirty || len(d.exprs) != 0 || len(d.calls) != 1 {
		return nil, 0
	}
	return d.calls[0], d.idx[0]
}

// Strip removes parentheses, conversions to basic/named non-interface types,
// unary plus, and the address-of / dereference operators, which do not
// change the origin of a value.
func Strip(info *types.Info, e ast.Expr) ast.Expr {
	for {
		switch x := e.(type) {
		case *ast.ParenExpr:
			e = x.X
			continue
		case *ast.CallExpr:
			if len(x.Args) == 1 {
				if tv, ok := info.Types[x.Fun]; ok && tv.IsType() {
					e = x.Args[0]
					continue
				}
			}
		case *ast.UnaryExpr:
			if x.Op == token.AND || x.Op == token.ADD {
				e = x.X
				continue
			}
		case *ast.StarExpr:
			e = x.X
			continue
		}
		return e
	}
}

// Match applies t to e after stripping; if that fails and e is a local
// variable with a unique definition, to the definition (transitively, with a
// depth bound).
func Match(f *Func, t Term, e ast.Expr) bool { return matchDepth(f, t, e, 0) }

func matchDepth(f *Func, t Term, e ast.Expr, depth int) bool {
	if e == nil {
		return false
	}
	e = Strip(f.Info(), e)
	if t(f, e) {
		return true
	}
	if depth > 6 {
		return false
	}
	if id, ok := e.(*ast.Ident); ok {
		if d := f.UniqueDef(id); d != nil {
			return matchDepth(f, t, d, depth+1)
		}
	}
	return false
}

// Any matches everything.
func Any() Term { return func(*Func, ast.Expr) bool { return true } }

// Nil matches the predeclared nil.
func Nil() Term {
	return func(f *Func, e ast.Expr) bool { return IsNilIdent(f.Info(), e) }
}

// Param matches the i-th parameter (0-based, receiver not counted) of the
// root function or of the function itself if it is a literal.
func Param(i int) Term {
	return func(f *Func, e ast.Expr) bool {
		id, ok := e.(*ast.Ident)
		if !ok {
			return false
		}
		o := f.Info().Uses[id]
		for _, fn := range []*Func{f, f.Root()} {
			ps := fn.Params(false)
			if i < len(ps) && ps[i] != nil && ps[i] == o {
				return true
			}
		}
		return false
	}
}

// ParamOfType matches any parameter (of the function or an enclosing one)
// whose type is the named type id (pkg.Name), through pointers.
func ParamOfType(typeID string) Term {
	return func(f *Func, e ast.Expr) bool {
		id, ok := e.(*ast.Ident)
		if !ok {
			return false
		}
		o, ok := f.Info().Uses[id].(*types.Var)
		if !ok {
			return false
		}
		for fn := f; fn != nil; fn = fn.Parent {
			for _, p := range fn.Params(true) {
				if p == o && TypeID(o.Type()) == typeID {
					return true
				}
			}
		}
		return false
	}
}

// Recv matches the receiver.
func Recv() Term {
	return func(f *Func, e ast.Expr) bool {
		id, ok := e.(*ast.Ident)
		if !ok {
			return false
		}
		r := f.Root().Recv()
		return r != nil && f.Info().Uses[id] == r
	}
}

// OfType matches any expression whose static type is the named type.
func OfType(typeID string) Term {
	return func(f *Func, e ast.Expr) bool {
		t := f.Info().TypeOf(e)
		return t != nil && TypeID(t) == typeID
	}
}

// Field matches a selector of the field named name; owner (pkg.Type), if not
// empty, is the struct type declaring the field; base, if not nil, must match
// the selector's operand.
func Field(owner, name string, base Term) Term {
	return func(f *Func, e ast.Expr) bool {
		sel, ok := e.(*ast.SelectorExpr)
		if !ok || sel.Sel.Name != name {
			return false
		}
		s := f.Info().Selections[sel]
		if s == nil || s.Kind() != types.FieldVal {
			// qualified identifier pkg.Var
			return false
		}
		if owner != "" {
			// the struct that declares the field: walk embedded path
			rt := s.Recv()
			ownerT := fieldOwner(rt, s.Index())
			if ownerT == "" || ownerT != owner {
				return false
			}
		}
		if base != nil && !Match(f, base, sel.X) {
			return false
		}
		return true
	}
}

func fieldOwner(t types.Type, index []int) string {
	cur := t
	for i, ix := range index {
		n := NamedOf(cur)
		var st *types.Struct
		if n != nil {
			st, _ = n.Underlying().(*types.Struct)
		} else {
			for {
				if p, ok := cur.(*types.Pointer); ok {
					cur = p.Elem()
					continue
				}
				break
			}
			st, _ = cur.Underlying().(*types.Struct)
		}
		if st == nil || ix >= st.NumFields() {
			return ""
		}
		if i == len(index)-1 {
			if n == nil {
				return "?"
			}
			return TypeID(n)
		}
		cur = st.Field(ix).Type()
	}
	return ""
}

// FieldPath matches a chain of field selections by names, e.g.
// FieldPath(base, "cfg", "FwrdingPolicy", "MinHTLCOut").
func FieldPath(base Term, names ...string) Term {
	t := base
	for _, n := range names {
		t = Field("", n, t)
	}
	return t
}

// PkgVar matches a reference to the package-level variable or constant
// pkg.Name.
func PkgVar(short, name string) Term {
	return func(f *Func, e ast.Expr) bool {
		var id *ast.Ident
		switch x := e.(type) {
		case *ast.Ident:
			id = x
		case *ast.SelectorExpr:
			id = x.Sel
		default:
			return false
		}
		o := f.Info().Uses[id]
		if o == nil || o.Pkg() == nil || o.Name() != name {
			return false
		}
		return Short(o.Pkg().Path()) == short && o.Parent() == o.Pkg().Scope()
	}
}

// IntConst matches an expression with the given constant integer value.
func IntConst(v int64) Term {
	return func(f *Func, e ast.Expr) bool {
		tv, ok := f.Info().Types[e]
		if !ok || tv.Value == nil {
			return false
		}
		c := constant.ToInt(tv.Value)
		if c.Kind() != constant.Int {
			return false
		}
		x, exact := constant.Int64Val(c)
		return exact && x == v
	}
}

// BoolConst matches the constant true/false.
func BoolConst(v bool) Term {
	return func(f *Func, e ast.Expr) bool {
		tv, ok := f.Info().Types[e]
		if !ok || tv.Value == nil || tv.Value.Kind() != constant.Bool {
			return false
		}
		return constant.BoolVal(tv.Value) == v
	}
}

// CallTo matches a call of the function/method with the given ID; args, if
// given, must match positionally (missing trailing terms match anything). For
// methods, recv (may be nil) matches the receiver operand.
func CallTo(id string, recv Term, args ...Term) Term {
	return func(f *Func, e ast.Expr) bool {
		c, ok := e.(*ast.CallExpr)
		if !ok || CalleeID(f.Info(), c) != id {
			return false
		}
		if recv != nil {
			sel, ok := ast.Unparen(c.Fun).(*ast.SelectorExpr)
			if !ok || !Match(f, recv, sel.X) {
				return false
			}
		}
		for i, a := range args {
			if a == nil {
				continue
			}
			if i >= len(c.Args) || !Match(f, a, c.Args[i]) {
				return false
			}
		}
		return true
	}
}

// CallNamed matches a call whose callee's last name component is name.
func CallNamed(name string, recv Term, args ...Term) Term {
	return func(f *Func, e ast.Expr) bool {
		c, ok := e.(*ast.CallExpr)
		if !ok {
			return false
		}
		id := CalleeID(f.Info(), c)
		if i := strings.LastIndex(id, "."); i < 0 || id[i+1:] != name {
			return false
		}
		if recv != nil {
			sel, ok := ast.Unparen(c.Fun).(*ast.SelectorExpr)
			if !ok || !Match(f, recv, sel.X) {
				return false
			}
		}
		for i, a := range args {
			if a == nil {
				continue
			}
			if i >= len(c.Args) || !Match(f, a, c.Args[i]) {
				return false
			}
		}
		return true
	}
}

// ResultOf matches a local variable defined as result idx of a multi-value
// call matching call.
func ResultOf(call Term, idx int) Term {
	return func(f *Func, e ast.Expr) bool {
		id, ok := e.(*ast.Ident)
		if !ok {
			return false
		}
		c, i := f.UniqueCallDef(id)
		return c != nil && i == idx && call(f, c)
	}
}

// Bin matches a binary expression with operator op; + and * are matched
// commutatively.
func Bin(op token.Token, l, r Term) Term {
	return func(f *Func, e ast.Expr) bool {
		b, ok := e.(*ast.BinaryExpr)
		if !ok || b.Op != op {
			return false
		}
		if Match(f, l, b.X) && Match(f, r, b.Y) {
			return true
		}
		if op == token.ADD || op == token.MUL {
			return Match(f, l, b.Y) && Match(f, r, b.X)
		}
		return false
	}
}

// Or matches if any alternative matches.
func Or(ts ...Term) Term {
	return func(f *Func, e ast.Expr) bool {
		for _, t := range ts {
			if t(f, e) {
				return true
			}
		}
		return false
	}
}

// Len matches len(x).
func Len(x Term) Term {
	return func(f *Func, e ast.Expr) bool {
		c, ok := e.(*ast.CallExpr)
		if !ok || CalleeID(f.Info(), c) != "builtin.len" || len(c.Args) != 1 {
			return false
		}
		return Match(f, x, c.Args[0])
	}
}

// Index matches x[i].
func Index(x, i Term) Term {
	return func(f *Func, e ast.Expr) bool {
		ix, ok := e.(*ast.IndexExpr)
		return ok && Match(f, x, ix.X) && Match(f, i, ix.Index)
	}
}

// TextIs matches on the printed expression. Escape hatch: use only for
// sub-expressions made of API names.
func TextIs(s string) Term {
	return func(f *Func, e ast.Expr) bool { return types.ExprString(e) == s }
}

// LocalNamed matches an identifier that refers to a local variable or
// parameter with the given name. It is used only where the name is the
// documented role of the value and no structural origin exists (e.g. a
// parameter).
func LocalNamed(name string) Term {
	return func(f *Func, e ast.Expr) bool {
		id, ok := e.(*ast.Ident)
		if !ok || id.Name != name {
			return false
		}
		if _, isVar := f.Info().Uses[id].(*types.Var); isVar {
			return true
		}
		_, isVar := f.Info().Defs[id].(*types.Var)
		return isVar
	}
}

// ---------------------------------------------------------------- facts

// Rel is a set of orderings between two terms: bit 0 = less, 1 = equal,
// 2 = greater.
type Rel uint8

const (
	LT Rel = 1
	EQ Rel = 2
	GT Rel = 4
	LE     = LT | EQ
	GE     = GT | EQ
	NE     = LT | GT
)

func relOf(op token.Token) (Rel, bool) {
	switch op {
	case token.LSS:
		return LT, true
	case token.LEQ:
		return LE, true
	case token.GTR:
		return GT, true
	case token.GEQ:
		return GE, true
	case token.EQL:
		return EQ, true
	case token.NEQ:
		return NE, true
	}
	return 0, false
}

func (r Rel) swap() Rel {
	var o Rel
	if r&LT != 0 {
		o |= GT
	}
	if r&GT != 0 {
		o |= LT
	}
	return o | (r & EQ)
}

func (r Rel) neg() Rel { return (LT | EQ | GT) &^ r }

func (r Rel) String() string {
	switch r {
	case LT:
		return "<"
	case LE:
		return "<="
	case GT:
		return ">"
	case GE:
		return ">="
	case EQ:
		return "=="
	case NE:
		return "!="
	}
	return "?"
}

// Fact decides whether taking edge e establishes a required condition.
type Fact struct {
	Desc string
	Hold func(f *Func, e *flow.Edge) bool
}

// Cmp is the fact "l REL r" (for example Cmp(a, GE, b): a >= b is known).
// It is established by an edge whose atom compares the two terms and whose
// polarity yields a relation at least as strong.
func Cmp(l Term, rel Rel, r Term, desc string) Fact { return cmpFact(l, rel, r, desc, false) }

// CmpX is Cmp with an exact relation: the edge must establish precisely rel
// (a stronger comparison does not count). Used for window bounds, where a
// tightened filter loses elements just as a loosened one admits wrong ones.
func CmpX(l Term, rel Rel, r Term, desc string) Fact { return cmpFact(l, rel, r, desc, true) }

func cmpFact(l Term, rel Rel, r Term, desc string, exact bool) Fact {
	return Fact{Desc: desc, Hold: func(f *Func, e *flow.Edge) bool {
		if e.Kind != flow.ETrue && e.Kind != flow.EFalse {
			return false
		}
		v := e.From
		var x, y ast.Expr
		var got Rel
		switch v.Kind {
		case flow.KCond:
			be, ok := ast.Unparen(v.Node.(ast.Expr)).(*ast.BinaryExpr)
			if !ok {
				return false
			}
			rr, ok := relOf(be.Op)
			if !ok {
				return false
			}
			x, y, got = be.X, be.Y, rr
		case flow.KCase:
			if v.Tag == nil {
				return false
			}
			x, y, got = v.Tag, v.Node.(ast.Expr), EQ
		default:
			return false
		}
		if e.Kind == flow.EFalse {
			got = got.neg()
		}
		if Match(f, l, x) && Match(f, r, y) && got&^rel == 0 && (!exact || got == rel) {
			return true
		}
		if Match(f, l, y) && Match(f, r, x) && got.swap()&^rel == 0 && (!exact || got.swap() == rel) {
			return true
		}
		return false
	}}
}

// Truth is the fact "t evaluates to want" for a boolean atom (a call, a
// variable, a field).
func Truth(t Term, want bool, desc string) Fact {
	return Fact{Desc: desc, Hold: func(f *Func, e *flow.Edge) bool {
		if e.From.Kind != flow.KCond {
			return false
		}
		if (e.Kind == flow.ETrue) != want || (e.Kind != flow.ETrue && e.Kind != flow.EFalse) {
			return false
		}
		return Match(f, t, e.From.Node.(ast.Expr))
	}}
}

// IsNil is the fact "t == nil" (want) or "t != nil" (!want).
func IsNil(t Term, want bool, desc string) Fact {
	rel := EQ
	if !want {
		rel = NE
	}
	return Cmp(t, rel, Nil(), desc)
}

// AnyOf is the disjunction of facts: established by an edge that
// establishes any of them.
func AnyOf(desc string, fs ...Fact) Fact {
	return Fact{Desc: desc, Hold: func(f *Func, e *flow.Edge) bool {
		for _, x := range fs {
			if x.Hold(f, e) {
				return true
			}
		}
		return false
	}}
}

// EdgesOf returns the edges of f's graph establishing fact.
func (f *Func) EdgesOf(fact Fact) flow.EdgeSet {
	out := flow.EdgeSet{}
	for _, v := range f.Graph().V {
		for _, e := range v.Out {
			if fact.Hold(f, e) {
				out[e] = true
			}
		}
	}
	return out
}

// Guarded reports whether site s can only be reached through an edge
// establishing fact; it also returns the number of establishing edges.
func (f *Func) Guarded(s Site, fact Fact) (bool, int) {
	es := f.EdgesOf(fact)
	if len(es) == 0 {
		return false, 0
	}
	g := f.Graph()
	return !g.Reach(g.Entry, es, nil)[s.V], len(es)
}

// GuardsAt lists the atoms (with polarity) that hold on every path to s.
func (f *Func) GuardsAt(s Site) []string {
	g := f.Graph()
	var out []string
	for _, v := range g.V {
		if v.Kind != flow.KCond && v.Kind != flow.KCase && v.Kind != flow.KTypeCase {
			continue
		}
		for _, e := range v.Out {
			if e.Kind != flow.ETrue && e.Kind != flow.EFalse {
				continue
			}
			if !g.Reach(g.Entry, flow.EdgeSet{e: true}, nil)[s.V] {
				txt := Text(v.Node)
				if v.Kind == flow.KCase && v.Tag != nil {
					txt = Text(v.Tag) + " == " + txt
				}
				if e.Kind == flow.EFalse {
					txt = "!(" + txt + ")"
				}
				out = append(out, txt)
			}
		}
	}
	return out
}

func constantInt(tv types.TypeAndValue) *int64 {
	if tv.Value == nil {
		return nil
	}
	c := constant.ToInt(tv.Value)
	if c.Kind() != constant.Int {
		return nil
	}
	x, exact := constant.Int64Val(c)
	if !exact {
		return nil
	}
	return &x
}

// TypeCaseIs is the fact "the type switch took (want) / did not take (!want)
// a case clause listing the named type typeID".
func TypeCaseIs(typeID string, want bool, desc string) Fact {
	return Fact{Desc: desc, Hold: func(f *Func, e *flow.Edge) bool {
		if e.From.Kind != flow.KTypeCase || (e.Kind != flow.ETrue && e.Kind != flow.EFalse) {
			return false
		}
		if (e.Kind == flow.ETrue) != want {
			return false
		}
		cc := e.From.Node.(*ast.CaseClause)
		for _, te := range cc.List {
			if TypeID(f.Info().TypeOf(te)) == typeID {
				return true
			}
		}
		return false
	}}
}
