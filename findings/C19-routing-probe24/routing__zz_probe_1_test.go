package routing

import (
	"testing"

	"github.com/btcsuite/btcd/btcec/v2"
	sphinx "github.com/lightningnetwork/lightning-onion"
	"github.com/lightningnetwork/lnd/fn/v2"
	"github.com/lightningnetwork/lnd/htlcswitch"
	"github.com/lightningnetwork/lnd/lnwire"
	"github.com/lightningnetwork/lnd/tlv"
	"github.com/stretchr/testify/require"
)

// Package dir: routing. The probe fails on the UNMODIFIED tree; it states what
// the property demands. (The QueryRoutes half of the suspicion is probed in
// lnrpc/routerrpc/zz_probe_1_test.go: RestrictParams.CltvLimit excludes the
// final delta by contract, so the caller of FindRoute has to subtract it.)

func probeGraph(t *testing.T, height uint32) *testCtx {
	testChannels := []*testChannel{
		symmetricTestChannel("source", "a", 100000, &testChannelPolicy{
			Expiry:      40,
			FeeBaseMsat: 1000,
			MinHTLC:     1,
		}, 1),
		symmetricTestChannel("a", "intro", 100000, &testChannelPolicy{
			Expiry:      40,
			FeeBaseMsat: 1000,
			MinHTLC:     1,
		}, 2),
	}

	graph, err := createTestGraphFromChannels(
		t, true, testChannels, "source",
	)
	require.NoError(t, err)

	return createTestCtxFromGraphInstance(t, height, graph)
}

// TestProbeIntroOnlyBlindedExceedsCltvLimit: for a blinded path that consists
// of the introduction node only, newRoute adds the path's cltv_expiry_delta
// (BlindedPaymentPathSet.FinalCLTVDelta) as the final delta, whereas the
// callers derive the limit that findPath enforces from a different final
// delta: paymentSession.RequestRoute subtracts payment.FinalCLTVDelta (for a
// bolt11 invoice with blinded paths that is zpay32's assumed default of 18,
// routerrpc/router_backend.go:1130) and QueryRoutes subtracts zero
// (router_backend.go:411) while NewRouteRequest moves the path delta into
// FinalExpiry, which FindRoute adds on top of the limit again
// (router.go:544, pathfind.go:763). The returned route's total time lock
// exceeds the caller's cltv limit.
func TestProbeIntroOnlyBlindedExceedsCltvLimit(t *testing.T) {
	const height = 100
	ctx := probeGraph(t, height)

	introVertex := ctx.aliases["intro"]
	introPub, err := btcec.ParsePubKey(introVertex[:])
	require.NoError(t, err)

	_, blindingPk := btcec.PrivKeyFromBytes([]byte{9})

	payment := &BlindedPayment{
		BlindedPath: &sphinx.BlindedPath{
			IntroductionPoint: introPub,
			BlindingPoint:     blindingPk,
			BlindedHops: []*sphinx.BlindedHopInfo{{
				BlindedNodePub: introPub,
				CipherText:     []byte{1, 2, 3},
			}},
		},
		CltvExpiryDelta: 80,
		HtlcMaximum:     100_000_000,
	}
	pathSet, err := NewBlindedPaymentPathSet([]*BlindedPayment{payment})
	require.NoError(t, err)

	amt := lnwire.NewMSatFromSatoshis(100)

	t.Run("RequestRoute", func(t *testing.T) {
		// The user allows 70 blocks in total.
		const cltvLimit = 70

		p := &LightningPayment{
			Amount:         amt,
			FeeLimit:       lnwire.NewMSatFromSatoshis(10),
			CltvLimit:      cltvLimit,
			FinalCLTVDelta: 18,
			BlindedPathSet: pathSet,
			DestFeatures:   lnwire.EmptyFeatureVector(),
		}
		copy(p.Target[:], pathSet.TargetPubKey().SerializeCompressed())
		require.NoError(t, p.SetPaymentHash([32]byte{1}))

		session, err := ctx.router.cfg.SessionSource.NewPaymentSession(
			p, fn.None[tlv.Blob](),
			fn.None[htlcswitch.AuxTrafficShaper](),
		)
		require.NoError(t, err)

		rt, err := session.RequestRoute(
			amt, p.FeeLimit, 0, height, nil,
		)
		if err != nil {
			// No route is a sound answer.
			return
		}

		require.LessOrEqualf(t, rt.TotalTimeLock,
			uint32(height+cltvLimit), "route %v exceeds the "+
				"payment's cltv limit of %d blocks", rt,
			cltvLimit)
	})
}
