package contractcourt

// Probe 2 (property C13, no recorded progress is lost across a restart): for
// taproot channels relaunchResolvers -> maybeAugmentTaprootResolvers replaces
// the WHOLE htlcResolution of a restored incoming resolver by the resolution
// that was logged when the channel closed (to get the control blocks, which are
// not part of the resolver's own serialisation).
//
// IncomingHtlcResolution.Preimage, and the preimage slot in the witness of
// SignedSuccessTx, are not known at close time: they are only ever filled in by
// htlcIncomingContestResolver.applyPreimage. Once the contest resolver has
// learned the preimage it is swapped for its htlcSuccessResolver
// (log.SwapContract), and from then on the preimage lives only in that
// resolver's checkpoint. The success resolver never looks the preimage up
// again, so on the unmodified tree a taproot success resolver restored after a
// restart offers the htlc to the sweeper with an all-zero preimage.
//
// FAILS on the unmodified tree, passes with probe12-fix2.patch.

import (
	"bytes"
	"fmt"
	"testing"

	"github.com/btcsuite/btcd/chainhash/v2"
	"github.com/btcsuite/btcd/wire/v2"
	"github.com/lightningnetwork/lnd/channeldb"
	"github.com/lightningnetwork/lnd/chanstate"
	"github.com/lightningnetwork/lnd/fn/v2"
	"github.com/lightningnetwork/lnd/lntest/wait"
	"github.com/lightningnetwork/lnd/lntypes"
	"github.com/lightningnetwork/lnd/lnwallet"
	"github.com/stretchr/testify/require"
)

func TestProbeTaprootRelaunchDropsLearnedPreimage(t *testing.T) {
	// remote commitment: the htlc is claimed directly with the preimage.
	t.Run("direct claim", func(t *testing.T) {
		probeTaprootRelaunchPreimage(t, false)
	})

	// local commitment: the htlc is claimed through the second-level
	// success tx, whose witness also carries the preimage.
	t.Run("second level", func(t *testing.T) {
		probeTaprootRelaunchPreimage(t, true)
	})
}

func probeTaprootRelaunchPreimage(t *testing.T, secondLevel bool) {
	taprootType := channeldb.SingleFunderTweaklessBit |
		channeldb.AnchorOutputsBit | channeldb.ZeroHtlcTxFeeBit |
		channeldb.SimpleTaprootFeatureBit

	withTaprootChan := func(opts *testChanArbOpts) {
		opts.arbCfg.FetchHistoricalChannel = func() (
			*chanstate.OpenChannel, error) {

			return &chanstate.OpenChannel{
				ChanType: taprootType,
			}, nil
		}
	}

	ctx, err := createTestChannelArbitrator(t, nil, withTaprootChan)
	require.NoError(t, err)
	blog := ctx.log.(*testArbLog).ArbitratorLog

	commitHash := chainhash.Hash{0xbb}
	htlcOp := wire.OutPoint{Hash: commitHash, Index: 3}

	var preimage lntypes.Preimage
	copy(preimage[:], bytes.Repeat([]byte{0x11}, 32))
	hash := preimage.Hash()

	htlc := channeldb.HTLC{
		Incoming:      true,
		Amt:           5_000_000,
		HtlcIndex:     4,
		OutputIndex:   3,
		RefundTimeout: 1000,
		RHash:         hash,
	}

	p2tr := append([]byte{0x51, 0x20}, bytes.Repeat([]byte{0x7a}, 32)...)
	ctrlBlock := append([]byte{0xc0}, bytes.Repeat([]byte{0x33}, 32)...)

	signDesc := testSignDesc
	signDesc.Output = &wire.TxOut{Value: 5_000, PkScript: p2tr}
	signDesc.ControlBlock = ctrlBlock

	anchorSignDesc := testSignDesc
	anchorSignDesc.Output = &wire.TxOut{Value: 330, PkScript: p2tr}

	// The resolution as logged at close time: the preimage is not known.
	loggedRes := lnwallet.IncomingHtlcResolution{
		ClaimOutpoint: htlcOp,
		SweepSignDesc: signDesc,
	}

	// newSuccessTx builds the second-level success tx; its taproot witness
	// is <sender sig> <receiver sig> <preimage> <script> <ctrl block>.
	newSuccessTx := func(preimageSlot []byte) *wire.MsgTx {
		return &wire.MsgTx{
			Version: 2,
			TxIn: []*wire.TxIn{{
				PreviousOutPoint: htlcOp,
				Witness: wire.TxWitness{
					bytes.Repeat([]byte{0x01}, 64),
					bytes.Repeat([]byte{0x02}, 64),
					preimageSlot,
					{0x51},
					ctrlBlock,
				},
			}},
			TxOut: []*wire.TxOut{{Value: 4_900, PkScript: p2tr}},
		}
	}
	if secondLevel {
		successTx := newSuccessTx(nil)
		loggedRes.SignedSuccessTx = successTx
		loggedRes.SignDetails = testSignDetails
		loggedRes.CsvDelay = 144
		loggedRes.ClaimOutpoint = wire.OutPoint{
			Hash: successTx.TxHash(), Index: 0,
		}
	}

	require.NoError(t, blog.LogContractResolutions(&ContractResolutions{
		CommitHash: commitHash,
		HtlcResolutions: lnwallet.HtlcResolutions{
			IncomingHTLCs: []lnwallet.IncomingHtlcResolution{
				loggedRes,
			},
		},
		AnchorResolution: &lnwallet.AnchorResolution{
			AnchorSignDescriptor: anchorSignDesc,
			CommitAnchor: wire.OutPoint{
				Hash: commitHash, Index: 0,
			},
		},
	}))
	require.NoError(t, blog.InsertConfirmedCommitSet(&CommitSet{
		ConfCommitKey: fn.Some(RemoteHtlcSet),
		HtlcSets: map[HtlcSetKey][]channeldb.HTLC{
			RemoteHtlcSet: {htlc},
		},
	}))

	// The incoming contest resolver learned the preimage, applied it
	// (applyPreimage) and was swapped for its success resolver
	// (SwapContract), which is what the log holds when the node stops.
	learnedRes := loggedRes
	learnedRes.Preimage = preimage
	if secondLevel {
		learnedRes.SignedSuccessTx = newSuccessTx(preimage[:])
	}
	success := &htlcSuccessResolver{
		htlcResolution:  learnedRes,
		broadcastHeight: 100,
		htlc:            htlc,
	}
	require.NoError(t, blog.InsertUnresolvedContracts(nil, success))
	require.NoError(t, blog.CommitState(StateWaitingFullResolution))

	// Restart.
	require.NoError(t, ctx.chanArb.Start(nil, newBeatFromHeight(0)))
	defer ctx.CleanUp()

	var restored *htlcSuccessResolver
	err = wait.NoError(func() error {
		ctx.chanArb.activeResolversLock.RLock()
		defer ctx.chanArb.activeResolversLock.RUnlock()

		for _, r := range ctx.chanArb.activeResolvers {
			if s, ok := r.(*htlcSuccessResolver); ok {
				restored = s
				return nil
			}
		}

		return fmt.Errorf("no success resolver")
	}, defaultTimeout)
	require.NoError(t, err)

	// The augmentation did what it is there for ...
	require.Equal(
		t, ctrlBlock,
		restored.htlcResolution.SweepSignDesc.ControlBlock,
	)

	// ... but must not undo what the resolver had recorded.
	require.Equal(
		t, preimage, lntypes.Preimage(restored.htlcResolution.Preimage),
		"the preimage the resolver had checkpointed is gone after "+
			"the taproot augmentation on relaunch",
	)
	if secondLevel {
		successTx := restored.htlcResolution.SignedSuccessTx
		require.Equal(
			t, preimage[:], successTx.TxIn[0].Witness[2],
			"the preimage is gone from the success tx witness",
		)
	}
}
