package routing

import (
	"testing"

	"github.com/lightningnetwork/lnd/lnwire"
	"github.com/stretchr/testify/require"
)

// TestProbeLocalChannelWithoutBandwidthHint (package dir: routing): the source
// has two channels to the target. The bandwidth snapshot knows channel 1
// (50k sat, too little for the payment) and does not know channel 2.
// edgeUnifier.getEdgeLocal treats the unknown channel as having
// lnwire.MaxMilliSatoshi of bandwidth, so it wins the max-bandwidth pick and a
// route over a first hop whose bandwidth was never checked is returned.
func TestProbeLocalChannelWithoutBandwidthHint(t *testing.T) {
	policy := &testChannelPolicy{
		Expiry:      40,
		FeeBaseMsat: 1000,
		MinHTLC:     1,
		MaxHTLC:     lnwire.NewMSatFromSatoshis(100_000),
	}
	testChannels := []*testChannel{
		symmetricTestChannel("source", "a", 100_000, policy, 1),
		symmetricTestChannel("source", "a", 100_000, policy, 2),
	}

	graph, err := createTestGraphFromChannels(
		t, true, testChannels, "source",
	)
	require.NoError(t, err)

	hints := &mockBandwidthHints{
		hints: map[uint64]lnwire.MilliSatoshi{
			1: lnwire.NewMSatFromSatoshis(50_000),
		},
	}

	amt := lnwire.NewMSatFromSatoshis(80_000)
	path, err := dbFindPath(
		graph.v1Graph, nil, hints, noRestrictions,
		testPathFindingConfig, graph.aliasMap["source"],
		graph.aliasMap["a"], amt, 0, 0,
	)
	if err != nil {
		// No route is the sound answer.
		return
	}

	first := path[0].policy.ChannelID
	_, known := hints.hints[first]
	require.Truef(t, known, "route of %v leaves over local channel %d, "+
		"whose bandwidth is unknown", amt, first)
}
