package spec

import (
	"go/ast"
	"sort"
	"strings"

	"lndlint/internal/an"
)

// rbfCloseOptions: in the RBF cooperative close flow the closer signs its
// proposal in one state (LocalCloseStart) and completes it in another
// (LocalOfferSent); the closee signs and completes in one state
// (RemoteCloseStart).  Both halves of a flow must build the transaction with
// the same options, and the fee payer is the closer in both flows.
func rbfCloseOptions(r *an.Run) {
	p := r.Prog
	cc := "lnwallet/chancloser."
	r.Obl("rbf-proposal-and-completion-same-options", "MIRROR",
		"the non-musig close options (sequence, lock time, fee payer) handed to CreateCloseProposal in LocalCloseStart equal those handed to CompleteCooperativeClose in LocalOfferSent and name the local party as payer; RemoteCloseStart hands one option list, naming the remote party as payer and the lock time of the peer's message, to both createLocalCloseeSignature (whose CreateCloseProposal receives exactly that list) and CompleteCooperativeClose; the scripts and the fee of the two halves agree as well",
		"completing with another payer, sequence or lock time than was signed rebuilds a different transaction: the peer's signature does not verify, or the fee is charged to the wrong party", 6,
		func(o *an.Obl) {
			// the option constructor calls that reach variable name in f
			optsOf := func(f *an.Func, name string) []string {
				var out []string
				add := func(es []ast.Expr) {
					for _, e := range es {
						if c, ok := e.(*ast.CallExpr); ok {
							out = append(out, f.Canon(c))
						}
					}
				}
				ast.Inspect(f.Body, func(n ast.Node) bool {
					as, ok := n.(*ast.AssignStmt)
					if !ok || len(as.Lhs) != 1 || an.Text(as.Lhs[0]) != name || len(as.Rhs) != 1 {
						return true
					}
					switch x := as.Rhs[0].(type) {
					case *ast.CompositeLit:
						add(x.Elts)
					case *ast.CallExpr:
						if an.Text(x.Fun) == "append" && !x.Ellipsis.IsValid() {
							add(x.Args[1:])
						}
					}
					return true
				})
				sort.Strings(out)
				return out
			}
			lastArgVar := func(s an.Site) string {
				c := s.Node.(*ast.CallExpr)
				if !c.Ellipsis.IsValid() {
					return ""
				}
				return an.Text(c.Args[len(c.Args)-1])
			}
			start := p.Func(cc + "LocalCloseStart.ProcessEvent")
			sent := p.Func(cc + "LocalOfferSent.ProcessEvent")
			rem := p.Func(cc + "RemoteCloseStart.ProcessEvent")
			helper := p.Func(cc + "createLocalCloseeSignature")

			prop := start.Calls(an.CalleeNamed("CreateCloseProposal"), false)
			comp := sent.Calls(an.CalleeNamed("CompleteCooperativeClose"), false)
			if need(o, start, "CreateCloseProposal", prop, 1) && need(o, sent, "CompleteCooperativeClose", comp, 1) {
				a := optsOf(start, lastArgVar(prop[0]))
				b := optsOf(sent, lastArgVar(comp[0]))
				o.Site("closer proposal options %v", a)
				o.Site("closer completion options %v", b)
				if strings.Join(a, ";") != strings.Join(b, ";") || len(a) == 0 {
					o.FailAt(sent.ID+"#options-differ", comp[0].Where(), "the closer signs its proposal with %v but completes it with %v", a, b)
				}
				if !strings.Contains(strings.Join(a, ";"), "lnwallet.WithCustomPayer(lntypes.Local)") {
					o.FailAt(start.ID+"#payer", prop[0].Where(), "the closer's proposal does not name the local party as fee payer: %v", a)
				}
				if !reMatch(`lnwallet\.WithCustomSequence\([^;]*mempool\.MaxRBFSequence\)`, strings.Join(a, ";")) {
					o.FailAt(start.ID+"#sequence", prop[0].Where(), "the closer's proposal does not use the RBF sequence: %v", a)
				}
				// scripts and fee of the two halves: local script, remote script, the offered fee
				pa, ca := start.ArgCanon(prop[0]), sent.ArgCanon(comp[0])
				o.Site("closer proposal (fee=%s, local=%s, remote=%s)", pa[0], pa[1], pa[2])
				o.Site("closer completion (local=%s, remote=%s, fee=%s)", ca[2], ca[3], ca[4])
				if pa[1] != "$recv.LocalDeliveryScript" || pa[2] != "$recv.RemoteDeliveryScript" {
					o.FailAt(start.ID+"#scripts", prop[0].Where(), "the proposal is built for scripts (%s, %s)", pa[1], pa[2])
				}
				if ca[2] != "$recv.LocalDeliveryScript" || ca[3] != "$recv.RemoteDeliveryScript" || ca[4] != "$recv.ProposedFee" {
					o.FailAt(sent.ID+"#scripts-fee", comp[0].Where(), "the completion is built for (%s, %s) at fee %s, expected the state's scripts and ProposedFee", ca[2], ca[3], ca[4])
				}
			}
			// the fee recorded in LocalOfferSent is the fee that was signed
			for _, cl := range p.CompositeLitsOf(p.LookupType("lnwallet/chancloser", "LocalOfferSent")) {
				if cl.Fn == nil || cl.Fn.Root().ID != start.ID {
					continue
				}
				got := kvText(cl.Node, "ProposedFee")
				o.Site("LocalOfferSent.ProposedFee = %s", got)
				if len(prop) == 1 && got != an.Text(prop[0].Node.(*ast.CallExpr).Args[0]) {
					o.FailAt(start.ID+"#recorded-fee", cl.Where, "the next state records fee %s but %s was signed", got, an.Text(prop[0].Node.(*ast.CallExpr).Args[0]))
				}
			}

			hs := rem.Calls(an.CalleeIs(cc+"createLocalCloseeSignature"), false)
			rc := rem.Calls(an.CalleeNamed("CompleteCooperativeClose"), false)
			hp := helper.Calls(an.CalleeNamed("CreateCloseProposal"), false)
			if need(o, rem, "createLocalCloseeSignature", hs, 1) && need(o, rem, "CompleteCooperativeClose", rc, 1) && need(o, helper, "CreateCloseProposal", hp, 1) {
				ha := hs[0].Node.(*ast.CallExpr).Args
				v1, v2 := an.Text(ha[len(ha)-1]), lastArgVar(rc[0])
				opts := optsOf(rem, v2)
				o.Site("closee options %v (signature list %s, completion list %s)", opts, v1, v2)
				if v1 != v2 || v1 == "" {
					o.FailAt(rem.ID+"#option-lists", rc[0].Where(), "the closee signs with option list %s but completes with %s", v1, v2)
				}
				j := strings.Join(opts, ";")
				for what, re := range map[string]string{
					"the remote party as fee payer":       `lnwallet\.WithCustomPayer\(lntypes\.Remote\)`,
					"the RBF sequence":                    `lnwallet\.WithCustomSequence\([^;]*mempool\.MaxRBFSequence\)`,
					"the lock time of the peer's message": `lnwallet\.WithCustomLockTime\([^;]*SigMsg\.LockTime\)`,
				} {
					if !reMatch(re, j) {
						o.FailAt(rem.ID+"#option:"+what, rc[0].Where(), "the closee's options %v lack %s", opts, what)
					}
				}
				// the helper forwards exactly its parameters
				a := helper.ArgCanon(hp[0])
				o.Site("createLocalCloseeSignature -> CreateCloseProposal(%s)", strings.Join(a, ", "))
				if a[0] != "$p1" || a[1] != "$p2" || a[2] != "$p3" || lastArgVar(hp[0]) != "chanOpts" {
					o.FailAt(helper.ID+"#forward", hp[0].Where(), "the helper calls CreateCloseProposal(%s)", strings.Join(a, ", "))
				}
				// same fee and scripts on both halves
				sa, ca := rem.ArgCanon(hs[0]), rem.ArgCanon(rc[0])
				if sa[1] != ca[4] || sa[2] != ca[2] || sa[3] != ca[3] {
					o.FailAt(rem.ID+"#halves", rc[0].Where(), "the closee signs (fee=%s, %s, %s) but completes (fee=%s, %s, %s)", sa[1], sa[2], sa[3], ca[4], ca[2], ca[3])
				}
			}
		})
}
