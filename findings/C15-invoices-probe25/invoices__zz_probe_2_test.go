package invoices_test

import (
	"testing"
	"time"

	"github.com/lightningnetwork/lnd/amp"
	invpkg "github.com/lightningnetwork/lnd/invoices"
	"github.com/lightningnetwork/lnd/lntypes"
	"github.com/lightningnetwork/lnd/record"
	"github.com/stretchr/testify/require"
)

// probe2PaidAmpInvoice adds a receiver created (reusable) AMP invoice and pays
// it once with a single shard set. It returns the child of that shard.
func probe2PaidAmpInvoice(t *testing.T, ctx *testContext, payAddr,
	setID [32]byte) *amp.Child {

	ampInvoice := newInvoice(t, false, true)
	ampInvoice.Terms.PaymentAddr = payAddr
	_, err := ctx.registry.AddInvoice(
		t.Context(), ampInvoice, testInvoicePaymentHash,
	)
	require.NoError(t, err)

	// A single shard set: root == share.
	sharer, err := amp.NewSeedSharer()
	require.NoError(t, err)
	child := sharer.Child(0)

	res, err := ctx.registry.NotifyExitHopHtlc(
		child.Hash, testInvoiceAmount, testHtlcExpiry,
		testCurrentHeight, getCircuitKey(0), nil, nil, &mockPayload{
			mpp: record.NewMPP(testInvoiceAmount, payAddr),
			amp: record.NewAMP(child.Share, setID, 0),
		},
	)
	require.NoError(t, err)
	checkSettleResolution(t, res, child.Preimage)

	return child
}

// probe2AssertClosed asserts what a canceled AMP invoice with one settled set
// must look like.
func probe2AssertClosed(t *testing.T, ctx *testContext, payAddr,
	setID [32]byte, child *amp.Child) {

	inv, err := ctx.registry.LookupInvoiceByRef(
		t.Context(), invpkg.InvoiceRefByAddr(payAddr),
	)
	require.NoError(t, err)
	require.Equal(t, invpkg.ContractCanceled, inv.State)

	// What was settled stays settled and stays counted.
	require.Equal(
		t, invpkg.HtlcStateSettled, inv.Htlcs[getCircuitKey(0)].State,
	)
	require.Equal(t, testInvoiceAmount, inv.AmtPaid)
	require.Equal(
		t, invpkg.HtlcStateSettled, inv.AMPState[setID].State,
	)

	// The replay of the settled shard is settled again.
	payload := &mockPayload{
		mpp: record.NewMPP(testInvoiceAmount, payAddr),
		amp: record.NewAMP(child.Share, setID, 0),
	}
	res, err := ctx.registry.NotifyExitHopHtlc(
		child.Hash, testInvoiceAmount, testHtlcExpiry,
		testCurrentHeight, getCircuitKey(0), nil, nil, payload,
	)
	require.NoError(t, err)
	checkSettleResolution(t, res, child.Preimage)

	// A new set is refused.
	res, err = ctx.registry.NotifyExitHopHtlc(
		lntypes.Hash{9}, testInvoiceAmount, testHtlcExpiry,
		testCurrentHeight, getCircuitKey(9), nil, nil, &mockPayload{
			mpp: record.NewMPP(testInvoiceAmount, payAddr),
			amp: record.NewAMP([32]byte{9}, [32]byte{9}, 0),
		},
	)
	require.NoError(t, err)
	checkFailResolution(t, res, invpkg.ResultInvoiceNotOpen)
}

// Probe 2a: an AMP invoice that has one settled set cannot be canceled by the
// user: CancelInvoice loads all sets and getUpdatedHtlcState refuses the
// settled htlc with ErrHTLCAlreadySettled, the whole update is rolled back.
func TestProbe2AmpInvoiceWithSettledSetUserCancel(t *testing.T) {
	runProbe(t, func(t *testing.T, makeDB probeMakeDB) {
		defer timeout()()

		ctx := newTestContext(t, nil, makeDB)
		payAddr := [32]byte{1}
		setID := [32]byte{2}
		child := probe2PaidAmpInvoice(t, ctx, payAddr, setID)

		err := ctx.registry.CancelInvoice(
			t.Context(), testInvoicePaymentHash,
		)
		if err != nil {
			t.Fatalf("SUSPECT: AMP invoice with a settled set "+
				"cannot be canceled: %v", err)
		}

		probe2AssertClosed(t, ctx, payAddr, setID, child)
	})
}

// Probe 2b: the expiry watcher hits the same error, so an AMP invoice that was
// paid once stays open after its expiry and keeps accepting new sets.
func TestProbe2AmpInvoiceWithSettledSetExpiry(t *testing.T) {
	runProbe(t, func(t *testing.T, makeDB probeMakeDB) {
		defer timeout()()

		ctx := newTestContext(t, nil, makeDB)
		payAddr := [32]byte{1}
		setID := [32]byte{2}
		child := probe2PaidAmpInvoice(t, ctx, payAddr, setID)

		// The invoice expires after one hour.
		ctx.clock.SetTime(testTime.Add(65 * time.Minute))

		canceled := func() bool {
			inv, err := ctx.registry.LookupInvoiceByRef(
				t.Context(), invpkg.InvoiceRefByAddr(payAddr),
			)
			require.NoError(t, err)

			return inv.State == invpkg.ContractCanceled
		}
		if !waitFor(canceled, testTimeout) {
			t.Fatalf("SUSPECT: expired AMP invoice with a settled " +
				"set is still open")
		}

		probe2AssertClosed(t, ctx, payAddr, setID, child)
	})
}

func waitFor(pred func() bool, d time.Duration) bool {
	deadline := time.Now().Add(d)
	for time.Now().Before(deadline) {
		if pred() {
			return true
		}
		time.Sleep(50 * time.Millisecond)
	}

	return pred()
}
