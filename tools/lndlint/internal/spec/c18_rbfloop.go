package spec

import (
	"go/ast"
	"strings"

	"lndlint/internal/an"
)

// c18RbfLoopExits is the body of C18/rbf-loop-exits.
func c18RbfLoopExits(o *an.Obl, p *an.Prog) {
	tp := sw + "TxPublisher."
	f := p.Func(tp + "createRBFCompliantTx")
	notReassigned(o, f, c17ParamNames(f, 0)...)
	chk := f.Calls(an.CalleeIs(tp+"createAndCheckTx"), false)
	if !need(o, f, "createAndCheckTx", chk, 1) {
		return
	}
	if n := len(f.Calls(an.CalleeIs(tp+"createAndCheckTx"), true)); n != len(chk) {
		o.FailAt(f.ID+"#check-in-literal", f.Where(f.Body.Pos()), "createAndCheckTx is called inside a function literal, outside the checked paths")
	}
	for _, s := range chk {
		if c := f.Canon(s.Node.(*ast.CallExpr)); c != "$recv.createAndCheckTx($p0)" {
			o.FailAt(f.ID+"#checked-record", s.Where(), "the check runs on %s, expected the record this function was given", c)
		}
	}
	// every exit that hands out a record: below a nil error of the check of
	// that round, and the record is the one updated from the checked context
	var recordExits []an.Site
	for _, s := range f.Returns() {
		rs, _ := s.Node.(*ast.ReturnStmt)
		if rs == nil || len(rs.Results) != 2 {
			o.FailAt(f.ID+"#exit-shape", s.Where(), "cannot read the results returned at %s", s.String())
			continue
		}
		if an.IsNilIdent(f.Info(), rs.Results[0]) {
			if f.ClassifyReturn(s) == an.RetSuccess {
				o.FailAt(f.ID+"#nothing-returned", s.Where(), "neither a record nor an error is returned")
			}
			continue
		}
		recordExits = append(recordExits, s)
		if !an.IsNilIdent(f.Info(), rs.Results[1]) {
			o.FailAt(f.ID+"#error-with-record", s.Where(), "a record is returned together with %s as error", an.Text(rs.Results[1]))
		}
		mustPass(o, f, "createAndCheckTx", chk, an.OkErrNil, []an.Site{s})
		errNil := an.IsNil(an.LocalNamed("err"), true, "err == nil")
		guarded(o, f, s, errNil)
		if c := f.Canon(rs.Results[0]); c != "$recv.updateRecord($p0, $recv.createAndCheckTx($p0))" {
			o.FailAt(f.ID+"#returned-record", s.Where(), "the record returned is %s, expected the record updated from the context that was just checked", c)
		}
	}
	if len(recordExits) == 0 {
		o.FailAt(f.ID+"#no-success-exit", f.Where(f.Body.Pos()), "createRBFCompliantTx never returns a record")
	}
	incs := f.Calls(an.CalleeNamed("Increment"), false)
	if need(o, f, "feeFunction.Increment", incs, 1) {
		for _, s := range incs {
			if c := f.Canon(s.Node.(*ast.CallExpr)); c != "$p0.feeFunction.Increment()" {
				o.FailAt(f.ID+"#increment-receiver", s.Where(), "the fee is raised through %s, expected the fee function of the record", c)
			}
			// the raised fee is checked again before anything is returned:
			// every path from the Increment to a record exit runs a new
			// createAndCheckTx
			mustDoUnlessFrom(o, f, s.V, "a new createAndCheckTx after the fee was raised", chk, recordExits)
		}
		// a failed Increment (budget used up) ends the attempt
		failureStops(o, f, "feeFunction.Increment", incs, an.OkErrNil, append(append([]an.Site{}, recordExits...), chk...), "another createAndCheckTx round or a successful return")
	}
	for _, s := range f.AllCalls(true) {
		id := an.CalleeID(f.Info(), s.Node.(*ast.CallExpr))
		if strings.HasSuffix(id, ".IncreaseFeeRate") || strings.HasSuffix(id, ".increaseFeeRate") {
			o.FailAt(f.ID+"#other-bump", s.Where(), "the RBF loop changes the fee through %s", id)
		}
	}
	// the record's fee function is installed once, by initializeTx, ahead of
	// the loop: replacing it restarts the schedule (and raises or lowers the
	// fee) behind Increment's back
	for _, fn := range p.Funcs(false, "sweep") {
		for _, s := range fn.Assigns(an.Field(sw+"monitorRecord", "feeFunction", nil), true) {
			o.Site("fee function writer %s", s.String())
			if fn.Root().ID != tp+"initializeTx" {
				o.FailAt(fn.ID+"#replaces-fee-function", s.Where(), "%s replaces the fee function of a record; only initializeTx installs it", fn.ID)
			}
		}
	}
}
