package sweep

import (
	"testing"

	"github.com/lightningnetwork/lnd/fn/v2"
	"github.com/lightningnetwork/lnd/input"
	"github.com/lightningnetwork/lnd/lnwallet/chainfee"
	"github.com/stretchr/testify/require"
)

// TestProbeEstimateAtCeilingHeldBack shows that when the fee estimator answers
// at or above the fee rate the budget can pay, the fee function cannot be
// created (start == end, ErrZeroFeeRateDelta) and the input is not offered at
// all until two blocks before its deadline, although its ceiling could have
// been offered from the first block on.
//
// FAILS on the unmodified tree.
func TestProbeEstimateAtCeilingHeldBack(t *testing.T) {
	const (
		startHeight = int32(100)
		deadline    = int32(110)
	)

	// The market asks for 5000 sat/kw, the budget of 500 sats pays about
	// 1100 sat/kw for this input.
	h := newProbeHarness(t, startHeight, 5000)

	inp := createTestInput(100_000, input.WitnessKeyHash)
	h.offer(&inp, Params{
		Budget:         500,
		DeadlineHeight: fn.Some(deadline),
		Immediate:      true,
	})

	for height := startHeight + 1; height < deadline; height++ {
		h.block(height)
	}

	h.mu.Lock()
	defer h.mu.Unlock()

	require.NotEmpty(t, h.published, "never published")
	t.Logf("first published at height %d", h.heights[0])
	require.Equal(t, startHeight, h.heights[0], "the input is held back "+
		"although its budget ceiling could be offered")
}

// TestProbeEstimateAtCeilingFeeFunction is the unit version of the above.
//
// FAILS on the unmodified tree.
func TestProbeEstimateAtCeilingFeeFunction(t *testing.T) {
	estimator := &chainfee.MockEstimator{}
	estimator.On("EstimateFeePerKW", uint32(6)).Return(
		chainfee.SatPerKWeight(5000), nil)
	estimator.On("RelayFeePerKW").Return(chainfee.FeePerKwFloor)

	maxFeeRate := chainfee.SatPerKWeight(1100)
	f, err := NewLinearFeeFunction(
		maxFeeRate, 6, estimator, fn.None[chainfee.SatPerKWeight](),
	)
	require.NoError(t, err)
	require.Equal(t, maxFeeRate, f.FeeRate())
}
