#!/bin/bash
# usage: trybenign.sh <patch.diff> [Cxx...]   applies a patch to the persistent scratch worktree /tmp/triage
# (created on demand from /repo HEAD), runs the given checks (default: all) against it and reverts.
cd /verif || exit 2
. ./env.sh
wt=${WT:-/tmp/triage}
[ -d $wt ] || git -C /repo worktree add -q --detach $wt HEAD || exit 2
git -C $wt checkout -q --detach $(git -C /repo rev-parse HEAD) 2>/dev/null
patch="$1"; shift
props="$*"; [ -z "$props" ] && props=$(seq -w 1 20 | sed 's/^/C/' | paste -sd' ')
git -C $wt apply "$patch" || { echo "patch does not apply"; exit 2; }
scratch=$(mktemp -d); cp known_findings.json $scratch/
./bin/lndlint check -repo $wt -verif $scratch $props 2>&1 | grep -v "^KNOWN" | cut -c1-${COLS:-600}
git -C $wt checkout -- . ; git -C $wt clean -fdq; rm -rf $scratch
