package spec

// Witnesses for the obligations of c12_round5.go: the seeded changes C12/i and
// C12/j of the fifth round as textual edits.
func init() {
	registry["C12"].Mutants = append(registry["C12"].Mutants, []Mutant{
		{Name: "seed5-C12-i", File: "contractcourt/channel_arbitrator.go",
			Old:    "\tcase errors.Is(err, invoices.ErrInvoiceNotFound) ||\n\t\terrors.Is(err, invoices.ErrNoInvoicesCreated):\n\n\t\treturn false, nil\n\tdefault:\n\t\treturn false, err\n",
			New:    "\tcase errors.Is(err, invoices.ErrInvoiceNotFound):\n\t\treturn false, nil\n\tdefault:\n\t\treturn false, err\n",
			Expect: "absent-invoice-answers-mean-preimage-unknown"},
		{Name: "seed5-C12-j", File: "lnwallet/channel.go",
			Old:    "\t\tchainfee.SatPerKWeight(remoteCommit.FeePerKw), commitType,\n\t\tsigner, remoteCommit.Htlcs, keyRing, &chanState.LocalChanCfg,\n",
			New:    "\t\tchainfee.SatPerKWeight(chanState.RemoteCommitment.FeePerKw),\n\t\tcommitType, signer, remoteCommit.Htlcs, keyRing,\n\t\t&chanState.LocalChanCfg,\n",
			Expect: "htlc-resolutions-use-fee-rate-and-htlcs-of-the-commitment-that-confirmed"},
	}...)
}
