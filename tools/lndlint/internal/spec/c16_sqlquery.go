package spec

import (
	"fmt"
	"go/ast"
	"go/parser"
	"go/token"
	"path/filepath"
	"regexp"
	"strconv"
	"strings"

	"lndlint/internal/an"
)

func init() {
	specExtras["C16"] = append(specExtras["C16"], c16InFlightQuery)
}

// c16Bool is a boolean formula over named atoms.
type c16Bool struct {
	op   string // "and", "or", "not", "atom"
	atom string
	kids []*c16Bool
}

func (b *c16Bool) eval(v map[string]bool) bool {
	switch b.op {
	case "atom":
		return v[b.atom]
	case "not":
		return !b.kids[0].eval(v)
	case "and":
		for _, k := range b.kids {
			if !k.eval(v) {
				return false
			}
		}
		return true
	default:
		for _, k := range b.kids {
			if k.eval(v) {
				return true
			}
		}
		return false
	}
}

type c16SQLParser struct {
	toks []string
	pos  int
	err  error
}

func (p *c16SQLParser) peek() string {
	if p.pos < len(p.toks) {
		return strings.ToUpper(p.toks[p.pos])
	}
	return ""
}

func (p *c16SQLParser) expr() *c16Bool {
	n := p.term()
	for p.peek() == "OR" {
		p.pos++
		n = &c16Bool{op: "or", kids: []*c16Bool{n, p.term()}}
	}
	return n
}

func (p *c16SQLParser) term() *c16Bool {
	n := p.factor()
	for p.peek() == "AND" {
		p.pos++
		n = &c16Bool{op: "and", kids: []*c16Bool{n, p.factor()}}
	}
	return n
}

// balanced returns the raw text of a parenthesised group starting at "(".
func (p *c16SQLParser) balanced() string {
	depth := 0
	var out []string
	for p.pos < len(p.toks) {
		t := p.toks[p.pos]
		p.pos++
		if t == "(" {
			depth++
			if depth == 1 {
				continue
			}
		}
		if t == ")" {
			depth--
			if depth == 0 {
				return strings.Join(out, " ")
			}
		}
		out = append(out, t)
	}
	p.err = fmt.Errorf("unbalanced parentheses")
	return strings.Join(out, " ")
}

func (p *c16SQLParser) factor() *c16Bool {
	switch p.peek() {
	case "NOT":
		p.pos++
		return &c16Bool{op: "not", kids: []*c16Bool{p.factor()}}
	case "EXISTS":
		p.pos++
		sub := strings.ToLower(p.balanced())
		return &c16Bool{op: "atom", atom: c16ClassifySubquery(sub, p)}
	case "(":
		p.pos++
		n := p.expr()
		if p.peek() != ")" {
			p.err = fmt.Errorf("expected ) at token %d", p.pos)
		}
		p.pos++
		return n
	}
	// a plain predicate: tokens up to AND / OR / ) at this level
	var words []string
	for p.pos < len(p.toks) {
		u := p.peek()
		if u == "AND" || u == "OR" || u == ")" || u == "(" {
			break
		}
		words = append(words, strings.ToLower(p.toks[p.pos]))
		p.pos++
	}
	pred := strings.Join(words, " ")
	switch {
	case regexp.MustCompile(`^p\.id > \$\d+$`).MatchString(pred):
		return &c16Bool{op: "atom", atom: "cursor"}
	case pred == "p.fail_reason is null":
		return &c16Bool{op: "atom", atom: "noReason"}
	case pred == "p.fail_reason is not null":
		return &c16Bool{op: "not", kids: []*c16Bool{{op: "atom", atom: "noReason"}}}
	}
	p.err = fmt.Errorf("predicate %q is not one the rule knows", pred)
	return &c16Bool{op: "atom", atom: "?"}
}

func c16ClassifySubquery(sub string, p *c16SQLParser) string {
	attempts := strings.Contains(sub, "payment_htlc_attempts ha") && strings.Contains(sub, "ha.payment_id = p.id")
	switch {
	case attempts && strings.Contains(sub, "hr.resolution_type = 1") && !strings.Contains(sub, "not exists"):
		return "settled"
	case attempts && strings.Contains(sub, "hr.resolution_type = 2") && !strings.Contains(sub, "not exists"):
		return "failedAttempt"
	case attempts && regexp.MustCompile(`not exists \( select 1 from payment_htlc_attempt_resolutions hr where hr\.attempt_index = ha\.attempt_index \)`).MatchString(sub) && !strings.Contains(sub, "resolution_type"):
		return "unresolved"
	}
	p.err = fmt.Errorf("sub-query %q is not one the rule knows", sub)
	return "?"
}

func c16Tokens(s string) []string {
	s = regexp.MustCompile(`--[^\n]*`).ReplaceAllString(s, " ")
	s = strings.NewReplacer("(", " ( ", ")", " ) ").Replace(s)
	return strings.Fields(s)
}

// c16WhereOf cuts the top-level WHERE clause (up to ORDER BY / LIMIT) out of a
// statement's tokens.
func c16WhereOf(toks []string) ([]string, error) {
	depth, start := 0, -1
	for i, t := range toks {
		switch t {
		case "(":
			depth++
		case ")":
			depth--
		}
		u := strings.ToUpper(t)
		if depth == 0 && u == "WHERE" && start < 0 {
			start = i + 1
		}
		if depth == 0 && start >= 0 && (u == "ORDER" || u == "LIMIT" || u == "GROUP") {
			return toks[start:i], nil
		}
	}
	if start < 0 {
		return nil, fmt.Errorf("no top-level WHERE")
	}
	return toks[start:], nil
}

func c16Formula(stmt string) (*c16Bool, error) {
	where, err := c16WhereOf(c16Tokens(stmt))
	if err != nil {
		return nil, err
	}
	p := &c16SQLParser{toks: where}
	f := p.expr()
	if p.err == nil && p.pos != len(where) {
		p.err = fmt.Errorf("trailing tokens after the condition: %v", where[p.pos:])
	}
	return f, p.err
}

// c16InFlightQuery: the one SQL statement whose WHERE clause *is* a status
// decision (round-3 seed C16/e).
func c16InFlightQuery(r *an.Run) {
	p := r.Prog
	r.Obl("sql-inflight-query-selects-exactly-the-non-terminal-payments", "TABLE",
		"SQLStore.FetchInFlightPayments returns every row of FetchNonTerminalPayments unfiltered; the WHERE clause of that statement (the string constant in sqldb/sqlc/payments.sql.go, and its source queries/payments.sql), read as a boolean formula over {the payment has no failure reason, a settled attempt exists, an attempt without resolution exists, a failed attempt exists}, is true for exactly the valuations whose documented status (the table of decidePaymentStatus, obligation status-table) is Initiated or InFlight — the payments MPPayment.Terminated() is false for, which is what the KV store lists; sub-queries and predicates the rule does not know are reported, not skipped",
		"the statement is the status function of the SQL backend for restart recovery: a regrouped condition that drops a payment with one settled and one unresolved shard means the router never resumes it after a restart and the outstanding shard's result is never recorded, while the KV backend lists it", 16,
		func(o *an.Obl) {
			f := p.Func("payments/db.SQLStore.FetchInFlightPayments")
			var q []an.Site
			for _, l := range append([]*an.Func{f}, f.Lits...) {
				q = append(q, l.Calls(an.CalleeNamed("FetchNonTerminalPayments"), true)...)
			}
			if len(q) < 1 {
				o.FailAt(f.ID+"#query", f.Where(f.Body.Pos()), "FetchInFlightPayments no longer runs FetchNonTerminalPayments: re-anchor the rule")
				return
			}
			// no status filter on the Go side
			for _, l := range append([]*an.Func{f}, f.Lits...) {
				for _, s := range l.AllCalls(false) {
					c := s.Node.(*ast.CallExpr)
					if id := an.CalleeID(l.Info(), c); strings.HasSuffix(id, ".Terminated") || strings.HasSuffix(id, "decidePaymentStatus") {
						o.Site("FetchInFlightPayments filters in Go through %s: the statement alone is no longer the decision", id)
						return
					}
				}
			}
			root := filepath.Dir(filepath.Dir(filepath.Dir(f.Filename())))
			goFile := filepath.Join(root, "sqldb", "sqlc", "payments.sql.go")
			stmts := map[string]string{}
			fset := token.NewFileSet()
			goSrc, err := p.ReadFile(goFile)
			if err != nil {
				o.FailAt("sqldb/sqlc.fetchNonTerminalPayments#read", goFile, "cannot read %s: %v", goFile, err)
				return
			}
			af, err := parser.ParseFile(fset, goFile, goSrc, 0)
			if err != nil {
				o.FailAt("sqldb/sqlc.fetchNonTerminalPayments#parse", goFile, "cannot parse %s: %v", goFile, err)
				return
			}
			ast.Inspect(af, func(n ast.Node) bool {
				vs, ok := n.(*ast.ValueSpec)
				if !ok || len(vs.Names) != 1 || vs.Names[0].Name != "fetchNonTerminalPayments" || len(vs.Values) != 1 {
					return true
				}
				if bl, ok := vs.Values[0].(*ast.BasicLit); ok {
					if s, err := strconv.Unquote(bl.Value); err == nil {
						stmts[goFile] = s
					}
				}
				return true
			})
			if src, err := p.ReadFile(filepath.Join(root, "sqldb", "sqlc", "queries", "payments.sql")); err == nil {
				txt := string(src)
				if i := strings.Index(txt, "-- name: FetchNonTerminalPayments"); i >= 0 {
					rest := txt[i+len("-- name: FetchNonTerminalPayments"):]
					if j := strings.Index(rest, "-- name:"); j >= 0 {
						rest = rest[:j]
					}
					stmts["sqldb/sqlc/queries/payments.sql"] = rest
				}
			}
			if _, ok := stmts[goFile]; !ok {
				o.FailAt("sqldb/sqlc.fetchNonTerminalPayments#anchor", goFile, "string constant fetchNonTerminalPayments not found")
				return
			}
			atoms := []string{"noReason", "settled", "unresolved", "failedAttempt"}
			for where, stmt := range stmts {
				form, err := c16Formula(stmt)
				if err != nil {
					o.FailAt("sqldb/sqlc.fetchNonTerminalPayments#undecided:"+filepath.Base(where), where, "cannot read the WHERE clause of FetchNonTerminalPayments as a status formula: %v", err)
					continue
				}
				for m := 0; m < 1<<len(atoms); m++ {
					v := map[string]bool{"cursor": true}
					for i, a := range atoms {
						v[a] = m&(1<<i) != 0
					}
					// documented status: in flight while an attempt is unresolved;
					// otherwise succeeded if one settled; otherwise failed if a
					// reason is recorded; otherwise in flight (failed attempts,
					// retryable) or initiated
					want := v["unresolved"] || (!v["settled"] && v["noReason"])
					got := form.eval(v)
					o.Site("%s: noReason=%v settled=%v unresolved=%v failedAttempt=%v -> listed=%v", filepath.Base(where), v["noReason"], v["settled"], v["unresolved"], v["failedAttempt"], got)
					if got != want {
						o.FailAt("sqldb/sqlc.fetchNonTerminalPayments#"+filepath.Base(where)+fmt.Sprintf("#noReason=%v,settled=%v,unresolved=%v,failedAttempt=%v", v["noReason"], v["settled"], v["unresolved"], v["failedAttempt"]), where,
							"FetchNonTerminalPayments lists=%v a payment with (no failure reason=%v, a settled attempt=%v, an unresolved attempt=%v, a failed attempt=%v); its documented status makes it non-terminal=%v", got, v["noReason"], v["settled"], v["unresolved"], v["failedAttempt"], want)
					}
				}
			}
		})
}
