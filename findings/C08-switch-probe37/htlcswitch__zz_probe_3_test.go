package htlcswitch

import (
	"testing"

	"github.com/lightningnetwork/lnd/lnwire"
	"github.com/stretchr/testify/require"
)

// TestProbe3TeardownCircuitNilCircuit checks that teardownCircuit, which
// explicitly tolerates packets without a circuit, returns the error of a
// failed circuit deletion instead of dereferencing the nil circuit while
// logging.
func TestProbe3TeardownCircuitNilCircuit(t *testing.T) {
	t.Parallel()

	s, err := initSwitchWithTempDB(t, testStartingHeight)
	require.NoError(t, err)

	// Make the persistent circuit deletion fail.
	require.NoError(t, s.cfg.DB.Close())

	pkt := &htlcPacket{
		incomingChanID: lnwire.NewShortChanIDFromInt(1),
		incomingHTLCID: 1,
		outgoingChanID: lnwire.NewShortChanIDFromInt(2),
		outgoingHTLCID: 2,
		htlc:           &lnwire.UpdateFailHTLC{},
	}

	require.NotPanics(t, func() {
		err = s.teardownCircuit(pkt)
	})
	require.Error(t, err)
}
