package spec

import (
	"go/ast"
	"strings"

	"lndlint/internal/an"
)

func init() {
	register(&Spec{
		ID:          "C05",
		Loads:       []LoadSpec{{Patterns: []string{"./lnwallet", "./contractcourt", "./input"}}},
		Explanation: "Decides that a received commitment enters the local chain only after the commitment signature (ECDSA true-edge or musig2 ok-edge), every HTLC verification job and the aux verification succeeded; that the HTLC signatures are matched one-to-one to the non-dust HTLC outputs and stored for later use; that the resolutions built after a close use the same second-level arguments that were verified, skip exactly the HTLCs HtlcIsDust trims for the owner of the confirmed commitment and carry the CSV delay of their branch (to_self delay on the own commitment, second-level input sequence on the counterparty's); that every HTLC resolution set is derived from the fee rate, HTLC list and commitment point of the very commitment that confirmed; and that the broadcastable commitment pairs keys and signatures in the fixed order; that a local force close resolves the database's HTLCs only for the state number its keys were derived at; that a final-taproot channel is never given a CSV delay of zero; that signer and verifier hand the aux job the leaf the second-level transaction was built with; that every taproot script constructor call selects the script flavour by ChanType.IsTaprootFinal(); and that a lease expiry is selected before any script is derived from it.",
		NotDecided: []string{
			"script-interpreter verdicts for the signed commitment, second-level transactions and sweeps",
			"that the claimable value equals balance plus HTLCs due", "CSV / CLTV maturity arithmetic",
		},
		Assumptions: commonAssumptions,
		Engines:     "PATH (edge cuts), GUARD, ROLE/MIRROR, WHO",
		TagMatrix:   [][]string{{"integration"}},
		Run:         runC05,
	})
}

func runC05(r *an.Run) {
	p := r.Prog
	pp := `\$p\d+`

	r.Obl("commitment-accepted-only-when-verified", "PATH",
		"ReceiveNewCommitment: commitChains.Local.addCommitment is unreachable without (cSig.Verify true-edge or VerifyCommitSig ok-edge), without the verification loop having exhausted len(verifyJobs) responses (each nil), without VerifySecondLevelSigs ok, genHtlcSigValidationJobs ok and fetchCommitmentView ok",
		"a commitment stored without a valid counterparty signature cannot be broadcast: the node's own latest commitment must always be fully signed", 8,
		func(o *an.Obl) {
			f := p.Func(lw + "LightningChannel.ReceiveNewCommitment")
			add := f.Calls(an.CalleeIs(lw+"commitmentChain.addCommitment"), false)
			if !need(o, f, "commitChains.Local.addCommitment", add, 1) {
				return
			}
			ecdsa := f.Calls(an.CalleeNamed("Verify"), false)
			musig := f.Calls(an.CalleeIs(lw+"MusigSession.VerifyCommitSig"), false)
			if need(o, f, "cSig.Verify", ecdsa, 1) && need(o, f, "VerifyCommitSig", musig, 1) {
				es, _ := f.UnionOk(ecdsa, an.OkBoolTrue)
				ms, _ := f.UnionOk(musig, an.OkErrNil)
				for e := range ms {
					es[e] = true
				}
				for _, s := range append(ecdsa, musig...) {
					o.Site("through %s", s.String())
				}
				if bad := f.MustPass(add, es); len(bad) > 0 {
					o.FailAt(f.ID+"#commit-sig-verified", add[0].Where(), "the commitment can be added without a verified commitment signature: %s", bad[0])
				}
				if len(es) < 2 {
					o.FailAt(f.ID+"#verify-edges", add[0].Where(), "expected a true-edge of cSig.Verify and an ok-edge of VerifyCommitSig, found %d edges", len(es))
				}
			}
			mustPass(o, f, "genHtlcSigValidationJobs", f.Calls(an.CalleeIs(lw+"genHtlcSigValidationJobs"), false), an.OkErrNil, add)
			mustPass(o, f, "fetchCommitmentView", f.Calls(an.CalleeIs(lw+"LightningChannel.fetchCommitmentView"), false), an.OkErrNil, add)
			mustPass(o, f, "aux VerifySecondLevelSigs (MapOptionZ)", f.CallsMatching(func(fn *an.Func, e ast.Expr) bool {
				c, ok := e.(*ast.CallExpr)
				return ok && strings.HasSuffix(an.CalleeID(fn.Info(), c), "MapOptionZ") && strings.Contains(an.Text(c), "auxSigner")
			}, false), an.OkErrNil, add)
			// the HTLC verification loop
			loopDone := an.Cmp(an.Any(), an.GE, an.Len(an.ResultOf(an.CallTo(lw+"genHtlcSigValidationJobs", nil), 0)), "i >= len(verifyJobs)")
			guarded(o, f, add[0], loopDone)
			// the loop advances only on a nil response taken from the pool
			var post *ast.IncDecStmt
			var recv ast.Node
			for _, v := range f.Graph().V {
				if st, ok := v.Node.(*ast.IncDecStmt); ok && post == nil && strings.HasPrefix(f.Canon(st.X), "$v:int") {
					post = st
				}
				if as, ok := v.Node.(*ast.AssignStmt); ok && len(as.Rhs) == 1 {
					if u, ok := as.Rhs[0].(*ast.UnaryExpr); ok && u.Op.String() == "<-" && strings.Contains(f.Canon(u.X), "SubmitVerifyBatch") {
						recv = as
					}
				}
			}
			if post == nil || recv == nil {
				o.FailAt(f.ID+"#verify-loop", f.Where(f.Body.Pos()), "cannot find the verification loop (response receive from SubmitVerifyBatch and counter increment)")
			} else {
				rs := an.Site{Fn: f, V: f.Graph().VertexOf(recv), Node: recv}
				ps := an.Site{Fn: f, V: f.Graph().VertexOf(post), Node: post}
				o.Site("verification loop: %s ; %s", rs.String(), ps.String())
				before(o, f, "receive of a verification response", []an.Site{rs}, "loop increment", []an.Site{ps})
				respNil := an.IsNil(an.LocalNamed(recv.(*ast.AssignStmt).Lhs[0].(*ast.Ident).Name), true, "response == nil")
				guarded(o, f, ps, respNil)
			}
		})

	r.Obl("htlc-sigs-matched-and-stored", "GUARD",
		"genHtlcSigValidationJobs: htlcSigs[i] is indexed only below i < len(htlcSigs); success only below len(htlcSigs) == i; each matched signature is stored in htlc.sig; toDiskCommit copies htlc.sig to HTLC.Signature for the local commitment",
		"a missing or surplus HTLC signature, or one that is verified but not stored, leaves an HTLC output of the node's own commitment unspendable at force close", 8,
		func(o *an.Obl) {
			f := p.Func(lw + "genHtlcSigValidationJobs")
			sigs := an.Param(3)
			n := 0
			for _, v := range f.Graph().V {
				v.Inspect(false, func(x ast.Node) bool {
					ix, ok := x.(*ast.IndexExpr)
					if !ok || !an.Match(f, sigs, ix.X) {
						return true
					}
					n++
					s := an.Site{Fn: f, V: v, Node: ix}
					guarded(o, f, s, an.Cmp(an.Any(), an.LT, an.Len(sigs), "i < len(htlcSigs)"))
					return true
				})
			}
			if n < 4 {
				o.FailAt(f.ID+"#htlcSigs-index-sites", f.Where(f.Body.Pos()), "expected at least 4 indexings of htlcSigs, found %d", n)
			}
			guardedAll(o, f, f.StrictSuccessReturns(), an.Cmp(an.Len(sigs), an.EQ, an.Any(), "len(htlcSigs) == i"))
			st := f.Assigns(an.Field(lw+"paymentDescriptor", "sig", nil), false)
			if len(st) != 2 {
				o.FailAt(f.ID+"#sig-stored", f.Where(f.Body.Pos()), "expected the matched signature to be stored in htlc.sig in both branches, found %d stores", len(st))
			}
			for _, s := range st {
				o.Site("%s", s.String())
			}
			g := p.Func(lw + "commitment.toDiskCommit")
			cp := g.Assigns(an.Field("chanstate.HTLC", "Signature", nil), false)
			if len(cp) != 2 {
				o.FailAt(g.ID+"#Signature-copied", g.Where(g.Body.Pos()), "toDiskCommit must copy htlc.sig into HTLC.Signature for incoming and outgoing HTLCs, found %d copies", len(cp))
			}
			for _, s := range cp {
				guarded(o, g, s, an.Truth(an.CallNamed("IsLocal", an.Param(0)), true, "whoseCommit.IsLocal()"))
				if !strings.HasSuffix(g.Canon(s.Node.(*ast.AssignStmt).Rhs[0]), ".sig.Serialize()") {
					o.FailAt(g.ID+"#Signature-source", s.Where(), "HTLC.Signature is copied from %s, expected htlc.sig.Serialize()", an.Text(s.Node))
				}
			}
		})

	r.Obl("resolutions-built-like-verified", "ROLE",
		"newOutgoingHtlcResolution / newIncomingHtlcResolution build the second-level timeout / success transaction with amount minus the matching fee, the HTLC's own timeout, and the revocation / to-local keys of the key ring they are given; extractHtlcResolutions forwards one (csvDelay, whoseCommit, keyRing) triple selected by the commitment owner; both close-summary constructors hand extractHtlcResolutions the fee rate and the HTLC list of the same commitment; NewLocalForceCloseSummary, which takes both from the database's local commitment while the keys belong to the state number that confirmed, hands that list over only where the state number the key ring was derived at was compared equal to that commitment's CommitHeight, and the empty list (nil, assigned only below the inequality) otherwise",
		"what was verified (or signed) at commitment time must be exactly what is built when the commitment confirms, else the stored signature does not fit the rebuilt transaction", 17,
		func(o *an.Obl) {
			roleSites(o, p, []string{"lnwallet"}, lw+"CreateHtlcTimeoutTx", []role{
				{Fn: lw + "genRemoteHtlcSigJobs", Name: "signer (C01)", Args: map[int]string{}},
				{Fn: lw + "genHtlcSigValidationJobs", Name: "verifier (C01)", Args: map[int]string{}},
				{Fn: lw + "newOutgoingHtlcResolution", Name: "resolution", Args: map[int]string{
					0: `^\$p11$`, 1: `^\$p10$`, 2: `Hash: \$p2\.TxHash\(\), Index: uint32\(\$p4\.OutputIndex\)`, 3: `^\(\$p4\.Amt\.ToSatoshis\(\) - lnwallet\.HtlcTimeoutFee\(\$p11, \$p6\)\)$`,
					4: `^\$p4\.RefundTimeout$`, 5: `^\$p7$`, 6: `^\$p8$`, 7: `^\$p5\.RevocationKey$`, 8: `^\$p5\.ToLocalKey$`}},
			}, nil)
			roleSites(o, p, []string{"lnwallet"}, lw+"CreateHtlcSuccessTx", []role{
				{Fn: lw + "genRemoteHtlcSigJobs", Name: "signer (C01)", Args: map[int]string{}},
				{Fn: lw + "genHtlcSigValidationJobs", Name: "verifier (C01)", Args: map[int]string{}},
				{Fn: lw + "newIncomingHtlcResolution", Name: "resolution", Args: map[int]string{
					0: `^\$p11$`, 1: `^\$p10$`, 2: `Hash: \$p2\.TxHash\(\), Index: uint32\(\$p4\.OutputIndex\)`, 3: `^\(\$p4\.Amt\.ToSatoshis\(\) - lnwallet\.HtlcSuccessFee\(\$p11, \$p6\)\)$`,
					4: `^\$p7$`, 5: `^\$p8$`, 6: `^\$p5\.RevocationKey$`, 7: `^\$p5\.ToLocalKey$`}},
			}, nil)
			// extractHtlcResolutions -> new{In,Out}goingHtlcResolution: one triple
			ex := p.Func(lw + "extractHtlcResolutions")
			for _, callee := range []string{"newIncomingHtlcResolution", "newOutgoingHtlcResolution"} {
				cs := ex.Calls(an.CalleeIs(lw+callee), false)
				if !need(o, ex, callee, cs, 1) {
					continue
				}
				a := ex.ArgCanon(cs[0])
				o.Site("%s args: signer=%s cfg=%s tx=%s htlc=%s ring=%s fee=%s whose=%s", callee, a[0], a[1], a[2], a[4], a[5], a[6], a[9])
				want := map[int]string{0: `^\$p2$`, 1: `^\$p5$`, 2: `^\$p7$`, 4: `^&\$elem\(\$p3\)$`, 5: `^\$p4$`, 6: `^\$p0$`, 8: `^\$p11$`, 9: `^\$p1$`, 10: `^\$p10$`, 11: `^\$p9$`}
				for i, re := range want {
					if !reMatch(re, a[i]) {
						o.FailAt(ex.ID+"#"+callee+"-arg"+itoa(i), cs[0].Where(), "%s receives argument %d = %s, expected /%s/", callee, i, a[i], re)
					}
				}
				csvVar, csvAt := c05r5SelectedVar(ex, cs[0].Node.(*ast.CallExpr).Args[7], cs[0])
				selectorConsistent(o, ex, csvAt, csvVar, canonTerm(`^\$p1$`), canonTerm(`^\$p5\.CsvDelay$|^uint32\(\$p5\.CsvDelay\)$`), canonTerm(`^\$p6\.CsvDelay$|^uint32\(\$p6\.CsvDelay\)$`), "csv delay")
				// outgoing resolutions for outgoing HTLCs only
				inc := an.Truth(an.FieldPath(nil, "Incoming"), callee == "newIncomingHtlcResolution", "htlc.Incoming matches the resolution kind")
				guarded(o, ex, cs[0], inc)
			}
			// callers: same commitment for fee rate, HTLC list and key ring owner
			for _, fn := range []string{lw + "NewUnilateralCloseSummary", lw + "NewLocalForceCloseSummary"} {
				f := p.Func(fn)
				cs := f.Calls(an.CalleeIs(lw+"extractHtlcResolutions"), false)
				if !need(o, f, "extractHtlcResolutions", cs, 1) {
					continue
				}
				a := f.ArgCanon(cs[0])
				o.Site("%s: fee=%s whose=%s htlcs=%s cfg=(%s,%s) initiator=%s", fn, a[0], a[1], a[3], a[5], a[6], a[10])
				feeBase := strings.TrimSuffix(strings.TrimPrefix(a[0], "lnwallet/chainfee.SatPerKWeight("), ".FeePerKw)")
				remote := fn == lw+"NewUnilateralCloseSummary"
				if remote {
					// the confirmed commitment is a parameter: its own list
					if a[3] != feeBase+".Htlcs" {
						o.FailAt(fn+"#fee-and-htlcs-same-commitment", cs[0].Where(), "the HTLC list %s and the fee rate %s are taken from different commitments", a[3], a[0])
					}
				} else {
					c05HtlcsOfTheConfirmedState(o, f, cs[0], feeBase, a)
				}
				if !strings.HasSuffix(a[5], "LocalChanCfg") || !strings.HasSuffix(a[6], "RemoteChanCfg") {
					o.FailAt(fn+"#cfg-order", cs[0].Where(), "extractHtlcResolutions must receive (local cfg, remote cfg); got (%s, %s)", a[5], a[6])
				}
				if remote && (a[1] != "lntypes.Remote" || !reMatch(`^!`+pp+`\.IsInitiator$`, a[10])) || !remote && (a[1] != "lntypes.Local" || !reMatch(`^`+pp+`\.IsInitiator$`, a[10])) {
					o.FailAt(fn+"#owner", cs[0].Where(), "commitment owner / initiator flag mismatch: (%s, %s)", a[1], a[10])
				}
				if remote && feeBase != "$p3" {
					o.FailAt(fn+"#confirmed-commitment", cs[0].Where(), "the resolutions must be derived from the commitment that confirmed (parameter remoteCommit), not from %s", feeBase)
				}
			}
		})

	r.Obl("confirmed-commitment-paired-with-its-point", "ROLE",
		"chain watcher: the current remote commitment is dispatched with RemoteCurrentRevocation, the pending remote commitment with RemoteNextRevocation, each only below the tx-hash equality with that very commitment; dispatchRemoteForceClose forwards (commitment, point) unchanged to NewUnilateralCloseSummary",
		"keys derived from another state's commitment point make every HTLC resolution of the confirmed commitment an invalid spend", 4,
		func(o *an.Obl) {
			f := p.Func("contractcourt.chainWatcher.handleKnownRemoteState")
			cs := f.Calls(an.CalleeIs("contractcourt.chainWatcher.dispatchRemoteForceClose"), false)
			if len(cs) != 2 {
				o.FailAt(f.ID+"#dispatch-count", f.Where(f.Body.Pos()), "expected two dispatchRemoteForceClose sites, found %d", len(cs))
				return
			}
			for _, s := range cs {
				a := f.ArgCanon(s)
				o.Site("%s commit=%s point=%s", s.String(), a[1], a[3])
				switch {
				case strings.HasSuffix(a[1], ".remoteCommit"):
					if !strings.HasSuffix(a[3], ".RemoteCurrentRevocation") {
						o.FailAt(f.ID+"#current-point", s.Where(), "the current remote commitment is paired with commit point %s", a[3])
					}
					guarded(o, f, s, an.Cmp(an.CallNamed("TxHash", an.FieldPath(an.FieldPath(nil, "remoteCommit"), "CommitTx")), an.EQ, an.Any(), "remoteCommit.CommitTx.TxHash() == spend hash"))
				case strings.HasSuffix(a[1], ".remotePendingCommit"):
					if !strings.HasSuffix(a[3], ".RemoteNextRevocation") {
						o.FailAt(f.ID+"#pending-point", s.Where(), "the pending remote commitment is paired with commit point %s", a[3])
					}
					guarded(o, f, s, an.Cmp(an.CallNamed("TxHash", an.FieldPath(an.FieldPath(nil, "remotePendingCommit"), "CommitTx")), an.EQ, an.Any(), "remotePendingCommit.CommitTx.TxHash() == spend hash"))
				default:
					o.FailAt(f.ID+"#dispatch-unclassified", s.Where(), "unclassified commitment argument %s", a[1])
				}
			}
			g := p.Func("contractcourt.chainWatcher.dispatchRemoteForceClose")
			us := g.Calls(an.CalleeIs(lw+"NewUnilateralCloseSummary"), false)
			if need(o, g, "NewUnilateralCloseSummary", us, 1) {
				a := g.ArgCanon(us[0])
				o.Site("%s", us[0].String())
				if a[2] != "$p0" || a[3] != "$p1" || a[4] != "$p3" {
					o.FailAt(g.ID+"#forwarding", us[0].Where(), "dispatchRemoteForceClose must forward (spend, commitment, point) unchanged; got (%s, %s, %s)", a[2], a[3], a[4])
				}
			}
		})

	r.Obl("signed-commitment-assembly", "ROLE",
		"getSignedCommitTx feeds GetSignedCommitTx with LocalCommitment.CommitTx/CommitSig, OurKey = LocalChanCfg.MultiSigKey, TheirKey = RemoteChanCfg.MultiSigKey and, for taproot, CommitHeight = currentHeight; GetSignedCommitTx passes (ourKey, ourSig, theirKey, theirSig) pairs to SpendMultiSig in matching order",
		"a mis-paired key/signature yields an invalid funding spend: the node could not force close", 6,
		func(o *an.Obl) {
			f := p.Func(lw + "LightningChannel.getSignedCommitTx")
			want := map[string]string{
				"CommitTx": `LocalCommitment\.CommitTx$`, "CommitSig": `LocalCommitment\.CommitSig$`,
				"OurKey": `LocalChanCfg\.MultiSigKey$`, "TheirKey": `RemoteChanCfg\.MultiSigKey$`,
			}
			for _, ref := range p.CompositeLitsOf(p.LookupType("lnwallet", "SignedCommitTxInputs")) {
				if ref.Fn == nil || ref.Fn.ID != f.ID {
					continue
				}
				for _, el := range ref.Node.(*ast.CompositeLit).Elts {
					if kv, ok := el.(*ast.KeyValueExpr); ok {
						k := kv.Key.(*ast.Ident).Name
						if re, ok := want[k]; ok {
							c := f.Canon(kv.Value)
							o.Site("SignedCommitTxInputs.%s = %s", k, c)
							if !reMatch(re, c) {
								o.FailAt(f.ID+"#"+k, f.Where(kv.Pos()), "SignedCommitTxInputs.%s = %s, expected /%s/", k, c, re)
							}
							delete(want, k)
						}
					}
				}
			}
			for k := range want {
				o.FailAt(f.ID+"#missing-"+k, f.Where(f.Body.Pos()), "getSignedCommitTx no longer sets %s", k)
			}
			for _, ref := range p.CompositeLitsOf(p.LookupType("lnwallet", "TaprootSignedCommitTxInputs")) {
				if ref.Fn == nil || ref.Fn.ID != f.ID {
					continue
				}
				for _, el := range ref.Node.(*ast.CompositeLit).Elts {
					if kv, ok := el.(*ast.KeyValueExpr); ok && kv.Key.(*ast.Ident).Name == "CommitHeight" {
						o.Site("taproot CommitHeight = %s", f.Canon(kv.Value))
						if f.Canon(kv.Value) != "$recv.currentHeight" {
							o.FailAt(f.ID+"#taproot-height", f.Where(kv.Pos()), "the nonce for the local commitment is re-derived at %s, expected currentHeight", f.Canon(kv.Value))
						}
					}
				}
			}
			g := p.Func(lw + "GetSignedCommitTx")
			sm := g.Calls(an.CalleeNamed("SpendMultiSig"), false)
			if need(o, g, "SpendMultiSig", sm, 1) {
				a := g.ArgCanon(sm[0])
				o.Site("%s args=%v", sm[0].String(), a)
				// each key with the signature made under it: ours is the signer's
				// result, theirs the stored commit signature
				okKeys := strings.Contains(a[1], "OurKey") && strings.Contains(a[3], "TheirKey")
				okSigs := strings.Contains(a[2], "SignOutputRaw(") && strings.Contains(a[4], "ParseDERSignature(") && strings.Contains(a[4], ".CommitSig")
				if !okKeys || !okSigs {
					o.FailAt(g.ID+"#SpendMultiSig-pairing", sm[0].Where(), "SpendMultiSig must receive (script, ourKey, our signer's signature, theirKey, the parsed stored commit signature); got %v", a)
				}
			}
		})

	r.Obl("own-commit-output-descriptors", "ROLE",
		"NewUnilateralCloseSummary looks for its own output with CommitScriptToRemote(chan type, !IsInitiator, the ToRemoteKey of the key ring derived for the REMOTE commitment from the commitment point it was given, lease expiry) and sweeps it with (LocalChanCfg.PaymentBasePoint, keyRing.LocalCommitKeyTweak), the script's success path and the maturity delay that script returned; NewLocalForceCloseSummary looks for its delayed output with CommitScriptToSelf(chan type, IsInitiator, ToLocalKey, RevocationKey, LocalChanCfg.CsvDelay, lease expiry) on the key ring derived for the LOCAL commitment at the height being closed, and sweeps it with (LocalChanCfg.DelayBasePoint, keyRing.LocalCommitKeyTweak), the delay path and that CSV delay; both record the matched output's value and script and its index in the confirmed transaction",
		"a sign descriptor with the other base point, tweak, script path or delay does not spend the node's own output of the confirmed commitment", 6,
		func(o *an.Obl) {
			type want struct {
				fn, scriptCallee string
				scriptArgs       map[int]string
				keyRingParty     string
				keyDesc, path    string
				maturity         string
			}
			for _, w := range []want{
				{lw + "NewUnilateralCloseSummary", lw + "CommitScriptToRemote",
					map[int]string{0: "$p0.ChanType", 1: "!$p0.IsInitiator", 3: "$p0.ThawHeight"},
					"lntypes.Remote", "$p0.LocalChanCfg.PaymentBasePoint", "input.ScriptPathSuccess", "#1"},
				{lw + "NewLocalForceCloseSummary", lw + "CommitScriptToSelf",
					map[int]string{0: "$p0.ChanType", 1: "$p0.IsInitiator", 4: "uint32($p0.LocalChanCfg.CsvDelay)", 5: "$p0.ThawHeight"},
					"lntypes.Local", "$p0.LocalChanCfg.DelayBasePoint", "input.ScriptPathDelay", "uint32($p0.LocalChanCfg.CsvDelay)"},
			} {
				f := p.Func(w.fn)
				sc := f.Calls(an.CalleeIs(w.scriptCallee), false)
				if !need(o, f, w.scriptCallee, sc, 1) {
					continue
				}
				a := f.ArgCanon(sc[0])
				o.Site("%s: %s%v", w.fn, w.scriptCallee, a[:len(a)-1])
				for i, v := range w.scriptArgs {
					if a[i] != v {
						o.FailAt(f.ID+"#script-arg", sc[0].Where(), "%s is called with %s as argument %d, expected %s", w.scriptCallee, a[i], i, v)
					}
				}
				// keys come from the key ring of the right party
				keyArgs := []int{2}
				keyNames := []string{".ToRemoteKey"}
				if strings.HasSuffix(w.scriptCallee, "ToSelf") {
					keyArgs, keyNames = []int{2, 3}, []string{".ToLocalKey", ".RevocationKey"}
				}
				for k, i := range keyArgs {
					if !strings.HasPrefix(a[i], lw+"DeriveCommitmentKeys(") || !strings.Contains(a[i], ", "+w.keyRingParty+", $p0.ChanType, &$p0.LocalChanCfg, &$p0.RemoteChanCfg)") || !strings.HasSuffix(a[i], keyNames[k]) {
						o.FailAt(f.ID+"#script-key", sc[0].Where(), "argument %d of %s is %s, expected %s of the key ring derived for %s with (Local, Remote) configs", i, w.scriptCallee, a[i], keyNames[k], w.keyRingParty)
					}
				}
				if strings.HasSuffix(w.fn, "NewUnilateralCloseSummary") {
					if !strings.Contains(a[2], "DeriveCommitmentKeys($p4, ") {
						o.FailAt(f.ID+"#commit-point", sc[0].Where(), "the key ring is derived from %s, expected the commitment point parameter", a[2])
					}
				}
				// the resolution literal
				n := 0
				for _, cl := range p.CompositeLitsOf(p.LookupType("lnwallet", "CommitOutputResolution")) {
					if cl.Fn == nil || cl.Fn.ID != f.ID {
						continue
					}
					n++
					lit := cl.Node.(*ast.CompositeLit)
					get := func(key string) ast.Expr {
						var out ast.Expr
						ast.Inspect(lit, func(m ast.Node) bool {
							if kv, ok := m.(*ast.KeyValueExpr); ok && out == nil && an.Text(kv.Key) == key {
								out = kv.Value
							}
							return out == nil
						})
						return out
					}
					kd, tw, md := get("KeyDesc"), get("SingleTweak"), get("MaturityDelay")
					if kd == nil || tw == nil || md == nil {
						o.FailAt(f.ID+"#resolution-shape", cl.Where, "the commit output resolution lacks KeyDesc / SingleTweak / MaturityDelay")
						continue
					}
					o.Site("%s: KeyDesc=%s SingleTweak=%s MaturityDelay=%s", w.fn, f.Canon(kd), an.Text(tw), f.Canon(md))
					if f.Canon(kd) != w.keyDesc {
						o.FailAt(f.ID+"#key-desc", cl.Where, "the own output is signed with %s, expected %s", f.Canon(kd), w.keyDesc)
					}
					if c := f.Canon(tw); !strings.HasSuffix(c, ".LocalCommitKeyTweak") || !strings.Contains(c, ", "+w.keyRingParty+", ") {
						o.FailAt(f.ID+"#tweak", cl.Where, "the single tweak is %s, expected LocalCommitKeyTweak of the %s key ring", c, w.keyRingParty)
					}
					mc := f.Canon(md)
					if w.maturity == "#1" {
						if !strings.HasPrefix(mc, w.scriptCallee+"(") || !strings.HasSuffix(mc, "#1") {
							o.FailAt(f.ID+"#maturity", cl.Where, "the maturity delay is %s, expected the delay returned by %s", mc, w.scriptCallee)
						}
					} else if mc != w.maturity {
						o.FailAt(f.ID+"#maturity", cl.Where, "the maturity delay is %s, expected %s", mc, w.maturity)
					}
					// output value and script come from the matched txOut
					if v := get("PkScript"); v == nil || !(strings.Contains(f.Canon(v), ".PkScript")) {
						o.FailAt(f.ID+"#out-script", cl.Where, "the recorded output script is not the matched output's")
					}
				}
				if n != 1 {
					o.FailAt(f.ID+"#resolutions", f.Where(f.Body.Pos()), "expected one commit output resolution literal in %s, found %d", w.fn, n)
				}
				// script path
				ws := f.Calls(an.CalleeNamed("WitnessScriptForPath"), false)
				okPath := false
				for _, s := range ws {
					if c := f.ArgCanon(s)[0]; c == w.path {
						okPath = true
					}
				}
				if !okPath {
					o.FailAt(f.ID+"#script-path", f.Where(f.Body.Pos()), "%s does not take the witness script of %s", w.fn, w.path)
				}
				// the output is located by script equality
				be := f.Calls(an.CalleeIs("bytes.Equal"), false)
				found := false
				for _, s := range be {
					a := f.ArgCanon(s)
					if (strings.Contains(a[0], w.scriptCallee+"(") && strings.HasSuffix(a[1], ".PkScript")) || (strings.Contains(a[1], w.scriptCallee+"(") && strings.HasSuffix(a[0], ".PkScript")) {
						found = true
						o.Site("%s: own output located by %s", w.fn, s.String())
					}
				}
				if !found {
					o.FailAt(f.ID+"#locate", f.Where(f.Body.Pos()), "%s no longer locates its output by comparing output scripts with the derived script", w.fn)
				}
			}
		})

	c05TrimmedHtlcs(r)
	c05CsvRoles(r)

	scriptPathPairs(r, "C05", 4)
}
