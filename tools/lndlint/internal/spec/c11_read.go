package spec

import (
	"go/ast"

	"lndlint/internal/an"
)

func init() {
	specExtras["C11"] = append(specExtras["C11"], c11StreamRead)
}

// c11StreamRead: the net.Conn view of the transport (repair c798514).
func c11StreamRead(r *an.Run) {
	p := r.Prog
	r.Obl("stream-read-never-reports-the-empty-buffer", "GUARD",
		"Conn.Read returns the result of readBuf.Read only where readBuf.Len() was compared unequal to zero after the last refill",
		"a transport message of body length 0 is legal; bytes.Buffer.Read on an empty buffer answers io.EOF, which a stream reader takes for the end of a healthy connection", 1,
		func(o *an.Obl) {
			f := p.Func("brontide.Conn.Read")
			buf := an.FieldPath(an.Recv(), "readBuf")
			var rets []an.Site
			for _, s := range f.Returns() {
				rs, ok := s.Node.(*ast.ReturnStmt)
				if !ok || len(rs.Results) != 1 {
					continue
				}
				if an.Match(f, an.CallNamed("Read", buf, an.Param(0)), rs.Results[0]) {
					rets = append(rets, s)
				}
			}
			if !need(o, f, "return c.readBuf.Read(b)", rets, 1) {
				return
			}
			guardedAll(o, f, rets, an.Cmp(an.CallNamed("Len", buf), an.NE, an.IntConst(0), "c.readBuf.Len() != 0"))
		})
}
