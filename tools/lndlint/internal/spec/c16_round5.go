package spec

import (
	"go/ast"
	"go/token"
	"go/types"

	"lndlint/internal/an"
	"lndlint/internal/flow"
)

func init() { specExtras["C16"] = append(specExtras["C16"], c16r5Rules) }

// c16r5Rules: seeded change C16/j of the fifth round (the bulk deletion
// selects "failed" payments by something other than the computed status).
func c16r5Rules(r *an.Run) {
	p := r.Prog
	r.Obl("failed-only-deletion-selects-by-the-computed-status", "TABLE",
		"in DeletePayments of both stores, in the function body that evaluates the removable() gate: when the failedOnly parameter is true and the status the gate was evaluated on (the receiver of removable(), result of the transaction's status loader) is not StatusFailed, no deletion is reachable (sql: DeletePayment, DeleteFailedAttempts; kv: the writes of deleteBuckets, deleteHtlcs, deleteIndexes); the two inputs are recognised at every condition by what is tested (the parameter itself, a comparison of that status variable with StatusFailed in either operand order, a case of a switch on it), a boolean local defined once by such a test stands for it",
		"the status is the documented function of attempts and failure reason: a payment with a settled attempt is Succeeded even when a failure reason is on record, so selecting by the failure reason (or by anything but the status) deletes a succeeded payment; the store then admits InitPayment for a hash that was paid, and the two backends answer the same history differently", 7,
		func(o *an.Obl) {
			type tgt struct {
				fn      string
				calls   []string
				assigns map[string]bool
			}
			table := []tgt{
				{pd + "SQLStore.DeletePayments", []string{"DeletePayment", "DeleteFailedAttempts"}, nil},
				{pd + "KVStore.DeletePayments", nil, map[string]bool{"deleteBuckets": true, "deleteHtlcs": true, "deleteIndexes": true}},
			}
			failedConst := an.PkgVar("payments/db", "StatusFailed")
			for _, tg := range table {
				root := p.Func(tg.fn)
				params := root.Params(false)
				var failedOnly *types.Var
				// (ctx, failedOnly, failedHtlcsOnly): the first bool parameter
				for _, pv := range params {
					if b, ok := pv.Type().Underlying().(*types.Basic); ok && b.Kind() == types.Bool {
						failedOnly = pv
						break
					}
				}
				if failedOnly == nil {
					o.FailAt(root.ID+"#failed-only-param", root.Where(root.Body.Pos()), "%s has no boolean parameter", root.ID)
					continue
				}
				found := 0
				for _, lf := range root.Lits {
					gates := lf.Calls(an.CalleeNamed("removable"), false)
					if len(gates) == 0 {
						continue
					}
					found++
					if !needExactly(o, lf, "removable() gate", gates, 1) {
						continue
					}
					sel, ok := ast.Unparen(gates[0].Node.(*ast.CallExpr).Fun).(*ast.SelectorExpr)
					if !ok {
						o.FailAt(lf.ID+"#gate-receiver", gates[0].Where(), "cannot find the receiver of %s", gates[0].String())
						continue
					}
					status := lf.Canon(sel.X)
					var targets []an.Site
					if len(tg.calls) > 0 {
						targets = append(targets, lf.Calls(an.CalleeNamed(tg.calls...), false)...)
					}
					for _, v := range lf.Graph().V {
						as, isAs := v.Node.(*ast.AssignStmt)
						if !isAs {
							continue
						}
						for _, l := range as.Lhs {
							l = ast.Unparen(l)
							if ix, isIx := l.(*ast.IndexExpr); isIx {
								l = ast.Unparen(ix.X)
							}
							if id, isID := l.(*ast.Ident); isID && tg.assigns[id.Name] {
								targets = append(targets, an.Site{Fn: lf, V: v, Node: as})
							}
						}
					}
					if !need(o, lf, "deletions", targets, 2) {
						continue
					}
					var eval func(e ast.Expr, depth int) (bool, bool)
					eval = func(e ast.Expr, depth int) (bool, bool) {
						if depth > 4 {
							return false, false
						}
						e = ast.Unparen(e)
						switch x := e.(type) {
						case *ast.Ident:
							if lf.Info().Uses[x] == failedOnly {
								return true, true
							}
							if def := lf.UniqueDef(x); def != nil {
								if tv, ok := lf.Info().Types[def]; ok && tv.Type != nil && tv.Type.String() == "bool" {
									return eval(def, depth+1)
								}
							}
						case *ast.UnaryExpr:
							if x.Op == token.NOT {
								v, k := eval(x.X, depth+1)
								return !v, k
							}
						case *ast.BinaryExpr:
							switch x.Op {
							case token.LAND, token.LOR:
								lv, lk := eval(x.X, depth+1)
								rv, rk := eval(x.Y, depth+1)
								and := x.Op == token.LAND
								switch {
								case lk && rk:
									if and {
										return lv && rv, true
									}
									return lv || rv, true
								case lk && lv != and:
									return lv, true
								case rk && rv != and:
									return rv, true
								}
							case token.EQL, token.NEQ:
								l, r := ast.Unparen(x.X), ast.Unparen(x.Y)
								if (lf.Canon(l) == status && an.Match(lf, failedConst, r)) || (lf.Canon(r) == status && an.Match(lf, failedConst, l)) {
									return x.Op == token.NEQ, true
								}
							}
						}
						return false, false
					}
					decidedStatus := false
					reach := lf.ReachUnder(func(fn *an.Func, v *flow.Vertex) (bool, bool) {
						e, ok := v.Node.(ast.Expr)
						if !ok {
							return false, false
						}
						switch v.Kind {
						case flow.KCond:
							val, known := eval(e, 0)
							if _, isID := ast.Unparen(e).(*ast.Ident); known && !isID {
								decidedStatus = true
							}
							return val, known
						case flow.KCase:
							if v.Tag != nil && fn.Canon(v.Tag) == status && an.Match(fn, failedConst, ast.Unparen(e)) {
								decidedStatus = true
								return false, true
							}
						}
						return false, false
					})
					_ = decidedStatus
					for _, s := range targets {
						o.Site("%s: unreachable when failedOnly && %s != StatusFailed: %s", lf.ID, status, s.String())
						if reach[s.V] {
							o.FailAt(constructOf(lf, s)+"<-failed-only-status", s.Where(), "%s: %s can be reached with failedOnly set although the computed status %s is not StatusFailed: the failed-only selection does not follow the status the removable() gate was evaluated on", root.ID, s.String(), status)
						}
					}
				}
				if found == 0 {
					o.FailAt(root.ID+"#no-gate", root.Where(root.Body.Pos()), "no function body of %s evaluates removable()", root.ID)
				}
			}
		})
}
