package spec

import (
	"go/ast"
	"go/types"
	"sort"
	"strings"

	"lndlint/internal/an"
)

func init() {
	specExtras["C02"] = append(specExtras["C02"], c02f5Rules)
}

// c02f5OwnedChanInfo: per writer of the chanInfo record (outside the full
// rewrite putOpenChannel, whose callers are covered by
// status-writers-use-disk-copy), the fields of the fetched channel it may set
// before writing the record back, and where each value comes from.
var c02f5OwnedChanInfo = map[string]map[string]string{
	"channeldb.ChannelStateDB.UpdateChannelCommitment": {
		"TotalMSatSent":     `^\$p0\.TotalMSatSent$`,
		"TotalMSatReceived": `^\$p0\.TotalMSatReceived$`,
	},
}

// c02f5Rules: repair 6578be6 (a commitment update writes the chanInfo record
// from the copy it read in the same transaction and carries over only the
// payment totals) and the seeded change C02/g (the three restore converters
// agree per update kind; the rule existed for C01 only).
func c02f5Rules(r *an.Run) {
	p := r.Prog
	c01RestoreConvertersAgree(r)

	r.Obl("status-writers-use-disk-copy.chaninfo-writers", "ROLE",
		"every putChanInfo call of channeldb outside putOpenChannel writes, into the bucket it was fetched from, the channel returned by a fetchOpenChannel call of the same transaction closure; between the fetch and the write the closure uses that copy only to read fields, to ask ChannelStatusForStore(), to hand it to putChanInfo and to assign the fields the writer owns; UpdateChannelCommitment owns TotalMSatSent and TotalMSatReceived, each assigned on every path to the write from the same field of the caller's channel; the copy is never replaced as a whole, rebound, or passed elsewhere",
		"the chanInfo record also holds the status, the short channel id, the pending flag and the confirmation heights, which other writers (possibly through another in-memory instance of the channel) read-modify-write on disk: a commitment update that writes its caller's view of them reverts what was recorded since that view was loaded, and the reloaded channel is not the pre-crash one; totals not carried over are lost by the same write", 8,
		func(o *an.Obl) {
			n := 0
			for _, f := range p.Funcs(false, "channeldb") {
				for _, s := range f.Calls(an.CalleeIs("channeldb.putChanInfo"), false) {
					root := f.Root().ID
					if root == "channeldb.putOpenChannel" {
						continue
					}
					n++
					owned := c02f5OwnedChanInfo[root]
					c := s.Node.(*ast.CallExpr)
					a := f.ArgCanon(s)
					o.Site("%s writes chanInfo of %s", root, a[1])
					obj, _ := c02ObjOf(f, c.Args[1]).(*types.Var)
					if len(c.Args) != 2 || obj == nil || !strings.HasPrefix(a[1], "channeldb.fetchOpenChannel(") {
						o.FailAt(root+"#chaninfo-source", s.Where(), "%s writes the chanInfo record of %s; it must write the copy it read with fetchOpenChannel in the same transaction", root, a[1])
						continue
					}
					if owned == nil {
						o.FailAt(root+"#chaninfo-writer-unknown", s.Where(), "%s writes the chanInfo record but is not a tabled writer: state which fields it owns", root)
						continue
					}
					// the fetch is in this closure, before the write, from the
					// bucket that is written
					var fetch []an.Site
					for _, fs := range f.Calls(an.CalleeIs("channeldb.fetchOpenChannel"), false) {
						as, ok := fs.V.Node.(*ast.AssignStmt)
						if ok && len(as.Lhs) >= 1 && c02ObjOf(f, as.Lhs[0]) == obj {
							fetch = append(fetch, fs)
						}
					}
					if !needExactly(o, f, "fetchOpenChannel bound to "+obj.Name(), fetch, 1) {
						continue
					}
					mustPass(o, f, "fetchOpenChannel", fetch, an.OkErrNil, []an.Site{s})
					if fa := f.ArgCanon(fetch[0]); fa[0] != a[0] {
						o.FailAt(root+"#chaninfo-bucket", s.Where(), "%s fetches the channel from %s but writes its chanInfo into %s", root, fa[0], a[0])
					}
					// every use of the copy
					assigned := map[string][]an.Site{}
					defs := 0
					var stack []ast.Node
					ast.Inspect(f.Body, func(nd ast.Node) bool {
						if nd == nil {
							stack = stack[:len(stack)-1]
							return true
						}
						stack = append(stack, nd)
						id, ok := nd.(*ast.Ident)
						if !ok || (f.Info().Uses[id] != obj && f.Info().Defs[id] != obj) {
							return true
						}
						// the enclosing nodes, parentheses skipped
						var anc []ast.Node
						for j := len(stack) - 2; j >= 0; j-- {
							if _, isParen := stack[j].(*ast.ParenExpr); !isParen {
								anc = append(anc, stack[j])
							}
						}
						up := func(k int) ast.Node {
							if k-1 < len(anc) {
								return anc[k-1]
							}
							return nil
						}
						parent := up(1)
						switch x := parent.(type) {
						case *ast.AssignStmt:
							for _, l := range x.Lhs {
								if ast.Unparen(l) == ast.Expr(id) {
									defs++
									return true
								}
							}
						case *ast.CallExpr:
							if x == c && len(x.Args) == 2 && ast.Unparen(x.Args[1]) == ast.Expr(id) {
								return true
							}
						case *ast.SelectorExpr:
							if ast.Unparen(x.X) != ast.Expr(id) {
								break
							}
							gp := up(2)
							if call, isCall := gp.(*ast.CallExpr); isCall && ast.Unparen(call.Fun) == ast.Expr(x) {
								if x.Sel.Name == "ChannelStatusForStore" {
									return true
								}
								o.FailAt(root+"#disk-copy-method-"+x.Sel.Name, f.Where(call.Pos()), "%s calls %s on the fetched channel before writing its chanInfo back", root, an.Text(call))
								return true
							}
							// the whole access path that starts at this field
							// (x.F.G, x.F[i], *x.F ...) and what is done with it
							top, k := ast.Expr(x), 2
							for ; up(k) != nil; k++ {
								switch y := up(k).(type) {
								case *ast.SelectorExpr:
									if ast.Unparen(y.X) == top {
										top = y
										continue
									}
								case *ast.IndexExpr:
									if ast.Unparen(y.X) == top {
										top = y
										continue
									}
								case *ast.SliceExpr:
									if ast.Unparen(y.X) == top {
										top = y
										continue
									}
								case *ast.StarExpr:
									top = y
									continue
								}
								break
							}
							user := up(k)
							if call, isCall := user.(*ast.CallExpr); isCall && top != ast.Expr(x) && ast.Unparen(call.Fun) == top {
								return true // a method of a field's value: a read of the copy
							}
							if as, isAs := user.(*ast.AssignStmt); isAs {
								for i, l := range as.Lhs {
									if ast.Unparen(l) != top {
										continue
									}
									want, ok := owned[x.Sel.Name]
									site := an.Site{Fn: f, V: f.Graph().Containing(as, false), Node: as}
									switch {
									case !ok:
										o.FailAt(root+"#disk-copy-"+x.Sel.Name, f.Where(as.Pos()), "%s assigns %s of the fetched channel before writing its chanInfo back (%s): the field belongs to another writer", root, x.Sel.Name, an.Text(as))
									case top != ast.Expr(x) || len(as.Lhs) != len(as.Rhs) || as.Tok.String() != "=" || !reMatch(want, f.Canon(as.Rhs[i])):
										o.FailAt(root+"#carried-over-"+x.Sel.Name, f.Where(as.Pos()), "%s sets %s of the fetched channel by %s, expected a plain assignment of /%s/", root, x.Sel.Name, an.Text(as), want)
									default:
										assigned[x.Sel.Name] = append(assigned[x.Sel.Name], site)
										o.Site("%s carries over %s", root, an.Text(as))
									}
									return true
								}
							}
							if _, isIncDec := user.(*ast.IncDecStmt); isIncDec {
								o.FailAt(root+"#disk-copy-"+x.Sel.Name, f.Where(user.Pos()), "%s changes %s of the fetched channel in place (%s)", root, x.Sel.Name, an.Text(user))
								return true
							}
							if u, isAddr := user.(*ast.UnaryExpr); isAddr && u.Op.String() == "&" {
								o.FailAt(root+"#disk-copy-field-escapes", f.Where(u.Pos()), "%s takes the address of %s: the field can be changed through it", root, an.Text(top))
							}
							return true // a field read
						}
						o.FailAt(root+"#disk-copy-escapes", f.Where(id.Pos()), "%s uses the fetched channel in %s: it may only read its fields, test its status, set the fields it owns and write its chanInfo", root, an.Text(parent))
						return true
					})
					if defs != 1 {
						o.FailAt(root+"#disk-copy-rebound", s.Where(), "%s binds the variable %s %d times, expected only to fetchOpenChannel's result", root, obj.Name(), defs)
					}
					var names []string
					for k := range owned {
						names = append(names, k)
					}
					sort.Strings(names)
					for _, k := range names {
						if len(assigned[k]) == 0 {
							o.FailAt(root+"#not-carried-over-"+k, s.Where(), "%s writes the chanInfo of the fetched channel without setting its %s from the caller's channel: the value a commitment update advanced is lost", root, k)
							continue
						}
						mustDoUnless(o, f, "disk."+k+" = caller."+k, assigned[k], []an.Site{s})
					}
					c02ParamsStable(o, f)
				}
			}
			if n < 1 {
				o.FailAt("putChanInfo#writers", "", "no chanInfo writer besides putOpenChannel found")
			}
		})
}
