package spec

import (
	"go/ast"
	"strings"

	"lndlint/internal/an"
)

// c14Siblings: the confirmation and the spend side of the TxNotifier are
// sibling implementations of one protocol; four places where they (or two
// clients of one request) must agree.
func c14Siblings(r *an.Run) {
	p := r.Prog
	tn := "chainntnfs.TxNotifier."
	r.Obl("at-tip-and-historical-details-are-adopted-once-and-only-from-the-active-chain", "GUARD",
		"handleConfDetailsAtTip and handleSpendDetailsAtTip both return before touching the set when it already has details; UpdateConfDetails and UpdateSpendDetails discard historical details found at or above the lowest height disconnected since the request was registered (reorgedHeight, maintained by DisconnectTip for every conf and spend set); RegisterConf decides per subscriber, from that subscriber's own includeBlock, whether the dispatched details carry the block; dispatchConfReorg and dispatchSpendReorg drain a buffered, unread notification before they reset `dispatched` and send the reorg notice",
		"a second spend of a reused script corrupts the height index and crashes the notifier; details from a disconnected block tell a client about an event that is not on the active chain with no reorg notice to follow; one client's option must not change what another client receives; an undrained notification survives the reorg and blocks the renewed one while the notifier's lock is held", 6,
		func(o *an.Obl) {
			// 1. adopted once
			for _, h := range []struct{ fn, set string }{{"handleConfDetailsAtTip", "confSet"}, {"handleSpendDetailsAtTip", "spendSet"}} {
				f := p.Func(tn + h.fn)
				ws := f.Assigns(an.FieldPath(an.LocalNamed(h.set), "details"), false)
				if !need(o, f, h.set+".details = …", ws, 1) {
					continue
				}
				for _, w := range ws {
					guarded(o, f, w, an.IsNil(an.FieldPath(an.LocalNamed(h.set), "details"), true, h.set+".details == nil"))
				}
			}
			// 2. stale historical details
			for _, h := range []struct{ fn, set, height string }{
				{"UpdateConfDetails", "confSet", "BlockHeight"},
				{"UpdateSpendDetails", "spendSet", "SpendingHeight"},
			} {
				f := p.Func(tn + h.fn)
				found := false
				for _, v := range f.Graph().V {
					be, ok := v.Node.(*ast.BinaryExpr)
					if !ok || be.Op.String() != ">=" {
						continue
					}
					x, y := f.Canon(be.X), f.Canon(be.Y)
					if strings.HasSuffix(x, "."+h.height) || strings.HasSuffix(x, "."+h.height+")") {
						if strings.HasSuffix(y, ".reorgedHeight") {
							found = true
							o.Site("%s: stale test %s >= %s", h.fn, x, y)
						}
					}
				}
				if !found {
					o.FailAt(tn+h.fn+"#stale-historical-details", f.Where(f.Body.Pos()), "%s does not compare the height of the historical details with the request's reorgedHeight: details from a block disconnected while the rescan ran would be adopted", h.fn)
				}
			}
			dt := p.Func(tn + "DisconnectTip")
			for _, set := range []string{"confNotifications", "spendNotifications"} {
				n := 0
				for _, s := range dt.Assigns(an.FieldPath(nil, "reorgedHeight"), false) {
					if hdr := enclosingLoopHeader(dt, s.Node); strings.HasSuffix(hdr, "."+set) {
						n++
						if c := dt.Canon(s.Node.(*ast.AssignStmt).Rhs[0]); c != "$p0" {
							o.FailAt(dt.ID+"#reorged-height-value", s.Where(), "reorgedHeight is set to %s, expected the height being disconnected", c)
						}
					}
				}
				if n != 1 {
					o.FailAt(dt.ID+"#reorged-height-"+set, dt.Where(dt.Body.Pos()), "DisconnectTip maintains reorgedHeight for %d loops over %s, expected one", n, set)
				}
			}
			// 3. per-subscriber block option
			rc := p.Func(tn + "RegisterConf")
			nIB := 0
			for _, fn := range append([]*an.Func{rc}, rc.Lits...) {
				for _, v := range fn.Graph().V {
					e, ok := v.Node.(ast.Expr)
					if !ok {
						continue
					}
					ast.Inspect(e, func(n ast.Node) bool {
						sel, ok := n.(*ast.SelectorExpr)
						if !ok || sel.Sel.Name != "includeBlock" {
							return true
						}
						nIB++
						c := fn.Canon(sel.X)
						o.Site("RegisterConf tests includeBlock of %s", c)
						if !strings.HasPrefix(c, "$elem(") && !strings.HasPrefix(c, "$key(") {
							o.FailAt(rc.ID+"#include-block-of", fn.Where(sel.Pos()), "whether the dispatched details carry the block is decided from %s.includeBlock, expected the subscriber being notified (the loop element)", an.Text(sel.X))
						}
						return true
					})
				}
			}
			if nIB < 1 {
				o.FailAt(rc.ID+"#include-block-sites", rc.Where(rc.Body.Pos()), "RegisterConf no longer tests includeBlock when it dispatches known details")
			}
			// 4. drain before reset
			for _, h := range []struct{ fn, ch string }{{"dispatchConfReorg", "Confirmed"}, {"dispatchSpendReorg", "Spend"}} {
				f := p.Func(tn + h.fn)
				var drain []an.Site
				for _, v := range f.Graph().V {
					ss, ok := v.Node.(*ast.SelectStmt)
					if !ok {
						continue
					}
					hasRecv, hasDefault := false, false
					for _, c := range ss.Body.List {
						cc := c.(*ast.CommClause)
						if cc.Comm == nil {
							hasDefault = true
							continue
						}
						if es, ok := cc.Comm.(*ast.ExprStmt); ok {
							if ue, ok := es.X.(*ast.UnaryExpr); ok && ue.Op.String() == "<-" && strings.HasSuffix(an.Text(ue.X), ".Event."+h.ch) {
								hasRecv = true
							}
						}
					}
					if hasRecv && hasDefault {
						drain = append(drain, an.Site{Fn: f, V: v, Node: ss})
					}
				}
				if !need(o, f, "non-blocking drain of Event."+h.ch, drain, 1) {
					continue
				}
				// the reorg notice (send on NegativeConf / Reorg) of the dispatched branch comes after the drain
				var sends []an.Site
				for _, v := range f.Graph().V {
					ss, ok := v.Node.(*ast.SelectStmt)
					if !ok || ss.Pos() < drain[0].Node.Pos() {
						continue
					}
					for _, c := range ss.Body.List {
						if st, ok := c.(*ast.CommClause).Comm.(*ast.SendStmt); ok && strings.Contains(an.Text(st.Chan), ".Event.") {
							sends = append(sends, an.Site{Fn: f, V: v, Node: ss})
						}
					}
				}
				if need(o, f, "reorg notice after the drain", sends, 1) {
					before(o, f, "the drain of Event."+h.ch, drain, "the reorg notice", sends)
				}
			}
		})
}
