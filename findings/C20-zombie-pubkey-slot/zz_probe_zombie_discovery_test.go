package discovery

import (
	"bytes"
	"context"
	"errors"
	"testing"
	"time"

	"github.com/btcsuite/btcd/btcec/v2"
	"github.com/btcsuite/btcd/chaincfg/v2"
	"github.com/btcsuite/btcd/wire/v2"
	"github.com/lightningnetwork/lnd/graph"
	graphdb "github.com/lightningnetwork/lnd/graph/db"
	"github.com/lightningnetwork/lnd/graph/db/models"
	"github.com/lightningnetwork/lnd/lnwire"
	"github.com/lightningnetwork/lnd/routing/route"
	"github.com/stretchr/testify/assert"
	"github.com/stretchr/testify/require"
)

// probeZombieHarness wires the real gossiper to a real (unstarted)
// graph.Builder backed by a real graph store, and prunes one channel as a
// strict zombie whose direction-1 policy (node 2's) is the stale one.
type probeZombieHarness struct {
	tCtx    *testCtx
	builder *graph.Builder
	graphDB *graphdb.ChannelGraph

	priv1, priv2 *btcec.PrivateKey
	pub1, pub2   route.Vertex
	scid         lnwire.ShortChannelID
	peer         *mockPeer
}

func newProbeZombieHarness(t *testing.T) *probeZombieHarness {
	t.Helper()
	ctx := t.Context()

	tCtx, err := createTestCtx(t, 0, false)
	require.NoError(t, err)

	// Real store and real builder. The builder is not started: only its
	// store-backed query methods (IsStaleEdgePolicy, GetChannelByID,
	// MarkEdgeLive, IsZombieEdge) are exercised by the zombie path of
	// handleChanUpdate.
	graphDB := graphdb.MakeTestGraph(t)
	builder, err := graph.NewBuilder(&graph.Config{
		SelfNode:            route.NewVertex(selfKeyPriv.PubKey()),
		Graph:               graphDB,
		ChannelPruneExpiry:  graph.DefaultChannelPruneExpiry,
		StrictZombiePruning: true,
	})
	require.NoError(t, err)
	tCtx.gossiper.cfg.Graph = builder

	// Order the two remote keys the way the protocol does: node 1 is the
	// lexicographically smaller compressed key.
	priv1, priv2 := remoteKeyPriv1, remoteKeyPriv2
	if bytes.Compare(
		priv1.PubKey().SerializeCompressed(),
		priv2.PubKey().SerializeCompressed(),
	) > 0 {

		priv1, priv2 = priv2, priv1
	}
	pub1 := route.NewVertex(priv1.PubKey())
	pub2 := route.NewVertex(priv2.PubKey())
	require.NotEqual(t, pub1, pub2)

	scid := lnwire.ShortChannelID{BlockHeight: 0}

	edge, err := models.NewV1Channel(
		scid.ToUint64(), *chaincfg.MainNetParams.GenesisHash, pub1,
		pub2, &models.ChannelV1Fields{
			BitcoinKey1Bytes: route.NewVertex(bitcoinKeyPub1),
			BitcoinKey2Bytes: route.NewVertex(bitcoinKeyPub2),
		},
		models.WithChannelPoint(wire.OutPoint{Index: 7}),
		models.WithCapacity(1000),
	)
	require.NoError(t, err)
	require.NoError(t, graphDB.AddChannelEdge(ctx, edge))

	// Node 1's policy is recent, node 2's policy is older than the prune
	// expiry. Both are genuinely signed by their owners.
	now := time.Now()
	freshTS := uint32(now.Add(-time.Hour).Unix())
	staleTS := uint32(
		now.Add(-graph.DefaultChannelPruneExpiry - 24*time.Hour).Unix(),
	)

	upd1, err := createUpdateAnnouncement(0, 0, priv1, freshTS)
	require.NoError(t, err)
	pol1, err := models.ChanEdgePolicyFromWire(scid.ToUint64(), upd1)
	require.NoError(t, err)
	pol1.ToNode = pub2
	require.NoError(t, graphDB.UpdateEdgePolicy(ctx, pol1))

	upd2, err := createUpdateAnnouncement(0, 1, priv2, staleTS)
	require.NoError(t, err)
	pol2, err := models.ChanEdgePolicyFromWire(scid.ToUint64(), upd2)
	require.NoError(t, err)
	pol2.ToNode = pub1
	require.NoError(t, graphDB.UpdateEdgePolicy(ctx, pol2))

	// Sanity: both policies are stored in the right slots.
	_, e1, e2, err := builder.GetChannelByID(scid)
	require.NoError(t, err)
	require.NotNil(t, e1)
	require.NotNil(t, e2)
	require.Equal(t, int64(freshTS), e1.LastUpdate.Unix())
	require.Equal(t, int64(staleTS), e2.LastUpdate.Unix())

	// This is exactly the store call Builder.pruneZombieChans makes when
	// StrictZombiePruning is set.
	require.NoError(t, graphDB.DeleteChannelEdges(
		ctx, lnwire.GossipVersion1, true, true, scid.ToUint64(),
	))

	isZombie, err := builder.IsZombieEdge(scid)
	require.NoError(t, err)
	require.True(t, isZombie)

	return &probeZombieHarness{
		tCtx:    tCtx,
		builder: builder,
		graphDB: graphDB,
		priv1:   priv1,
		priv2:   priv2,
		pub1:    pub1,
		pub2:    pub2,
		scid:    scid,
		peer:    &mockPeer{pk: remoteKeyPriv1.PubKey()},
	}
}

// process hands a remote channel update to the real gossiper. It returns
// (err, true) when the gossiper resolved the message, and (nil, false) when
// the message was stashed awaiting the channel announcement (which is what
// happens after a successful zombie resurrection).
func (h *probeZombieHarness) process(t *testing.T,
	upd *lnwire.ChannelUpdate1) (error, bool) {

	t.Helper()

	f := h.tCtx.gossiper.ProcessRemoteAnnouncement(
		t.Context(), upd, h.peer,
	)

	ctx, cancel := context.WithTimeout(t.Context(), time.Second)
	defer cancel()

	err := AwaitGossipResult(ctx, f)
	if errors.Is(err, context.DeadlineExceeded) {
		return nil, false
	}

	return err, true
}

func (h *probeZombieHarness) isZombie(t *testing.T) bool {
	t.Helper()

	isZombie, err := h.builder.IsZombieEdge(h.scid)
	require.NoError(t, err)

	return isZombie
}

// TestProbeStrictZombieLaggingNodeCanResurrect: node 2 was the stale side, so
// a fresh direction-1 update genuinely signed by node 2 must resurrect the
// channel.
func TestProbeStrictZombieLaggingNodeCanResurrect(t *testing.T) {
	t.Parallel()

	h := newProbeZombieHarness(t)

	upd, err := createUpdateAnnouncement(
		0, 1, h.priv2, uint32(time.Now().Unix()),
	)
	require.NoError(t, err)

	procErr, resolved := h.process(t, upd)
	require.NoErrorf(t, procErr, "fresh update signed by node 2 for "+
		"direction 1 was rejected (resolved=%v)", resolved)
	require.False(t, h.isZombie(t), "channel must have been resurrected "+
		"by node 2's fresh update")
}

// TestProbeStrictZombieWrongSignerCannotResurrect: node 1 is the up-to-date
// side; an update that claims direction 1 but is signed by node 1 must not be
// accepted and must not change the zombie index.
func TestProbeStrictZombieWrongSignerCannotResurrect(t *testing.T) {
	t.Parallel()

	h := newProbeZombieHarness(t)

	// Direction bit 1 (node 2's direction), signed with node 1's key.
	upd, err := createUpdateAnnouncement(
		0, 1, h.priv1, uint32(time.Now().Unix()),
	)
	require.NoError(t, err)

	procErr, resolved := h.process(t, upd)
	assert.Truef(t, resolved && procErr != nil, "direction-1 update "+
		"signed by node 1 was accepted (resolved=%v err=%v)", resolved,
		procErr)
	require.True(t, h.isZombie(t), "zombie entry must not be removed by "+
		"an update signed by the wrong node")
}

// TestProbeStrictZombieFreshSideCannotResurrect is a control: node 1's own
// direction-0 update must not resurrect (slot 1 is blank). Expected to pass
// with and without the repair.
func TestProbeStrictZombieFreshSideCannotResurrect(t *testing.T) {
	t.Parallel()

	h := newProbeZombieHarness(t)

	upd, err := createUpdateAnnouncement(
		0, 0, h.priv1, uint32(time.Now().Unix()),
	)
	require.NoError(t, err)

	procErr, resolved := h.process(t, upd)
	require.True(t, resolved)
	require.ErrorContains(t, procErr, "incorrect pubkey to resurrect")
	require.True(t, h.isZombie(t))
}
