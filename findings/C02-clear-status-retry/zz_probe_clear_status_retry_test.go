package channeldb

import (
	"testing"

	"github.com/lightningnetwork/lnd/kvdb"
	"github.com/stretchr/testify/require"
)

// retryOnceBackend runs every read-write transaction twice, the way the SQL
// and etcd kvdb backends do when a transaction hits a serialisation failure:
// reset(), run the closure, roll the aborted attempt back; then reset() and
// run it again and commit. kvdb.Update documents that the closure may be
// executed several times and that reset is called before each attempt.
type retryOnceBackend struct {
	kvdb.Backend
}

func (r *retryOnceBackend) Update(f func(tx kvdb.RwTx) error,
	reset func()) error {

	tx, err := r.Backend.BeginReadWriteTx()
	if err != nil {
		return err
	}
	reset()
	_ = f(tx)
	if err := tx.Rollback(); err != nil {
		return err
	}

	return r.Backend.Update(f, reset)
}

// TestProbeClearChannelStatusRetriedTransaction: clearing a status flag must
// clear it, also when the backend had to run the transaction a second time.
func TestProbeClearChannelStatusRetriedTransaction(t *testing.T) {
	fullDB, err := MakeTestDB(t)
	require.NoError(t, err)

	cdb := fullDB.ChannelStateDB()
	channel := createTestChannel(t, cdb, openChannelOption())

	require.NoError(t, channel.ApplyChanStatus(ChanStatusBorked))
	require.NoError(t, channel.ApplyChanStatus(ChanStatusCommitBroadcasted))
	require.True(t, channel.HasChanStatus(ChanStatusCommitBroadcasted))

	// From here on every write transaction is retried once.
	cdb.backend = &retryOnceBackend{Backend: cdb.backend}

	require.NoError(t, channel.ClearChanStatus(ChanStatusCommitBroadcasted))

	require.False(
		t, channel.HasChanStatus(ChanStatusCommitBroadcasted),
		"in-memory status still has the cleared flag",
	)
	require.True(t, channel.HasChanStatus(ChanStatusBorked),
		"in-memory status lost an unrelated flag")

	// And on disk.
	dbChans, err := cdb.FetchAllChannels()
	require.NoError(t, err)
	require.Len(t, dbChans, 1)
	require.False(
		t, dbChans[0].HasChanStatus(ChanStatusCommitBroadcasted),
		"persisted status still has the cleared flag",
	)
	require.True(t, dbChans[0].HasChanStatus(ChanStatusBorked),
		"persisted status lost an unrelated flag")
}
