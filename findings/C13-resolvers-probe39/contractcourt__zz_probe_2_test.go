package contractcourt

import (
	"testing"

	"github.com/lightningnetwork/lnd/invoices"
	"github.com/lightningnetwork/lnd/lntest/mock"
	"github.com/stretchr/testify/require"
)

// TestProbeIncomingContestExpiredRestart: an incoming (forwarded) HTLC whose
// preimage we learned; the node is (re)started at a height at or past the
// HTLC's expiry while the log still holds the *contest* resolver (e.g. the stop
// hit between Resolve() returning the success resolver and SwapContract, or
// the preimage arrived while the node was down).
//
// Launch() finds the preimage and hands the HTLC to the sweeper for claiming,
// Resolve() then looks at the height first and gives the very same HTLC up:
// resolved, final outcome "failed", timeout report, contract removed from the
// log. An uninterrupted run that learned the preimage before the expiry would
// have turned into the success resolver and recorded a claim.
func TestProbeIncomingContestExpiredRestart(t *testing.T) {
	defer timeout()()

	ctx := newIncomingResolverTestContext(t, false)
	ctx.witnessBeacon.lookupPreimage[testResHash] = testResPreimage

	// Already expired when the resolver is (re)started. As in production,
	// the resolver can ask the chain backend for the current height.
	ctx.resolver.htlcExpiry = uint32(testInitialBlockHeight)
	ctx.resolver.ChainIO = &mock.ChainIO{BestHeight: testInitialBlockHeight}

	ctx.resolve()
	err := <-ctx.resolveErr
	require.NoError(t, err)

	sweeper := ctx.resolver.Sweeper.(*mockSweeper)

	var offered bool
	select {
	case <-sweeper.sweptInputs:
		offered = true
	default:
	}

	t.Logf("offered to the sweeper for claiming: %v, resolver resolved: "+
		"%v, next resolver: %v", offered, ctx.resolver.IsResolved(),
		ctx.nextResolver)

	// Either the HTLC is claimed (success resolver returned, not
	// resolved yet), or it is given up and then not swept. Both at once is
	// the inconsistency.
	require.False(t, offered && ctx.resolver.IsResolved() &&
		ctx.nextResolver == nil, "HTLC was handed to the sweeper for "+
		"claiming and abandoned as timed out at the same time")
}

// TestProbeIncomingContestExpiredRestartExit is the exit hop variant: the
// invoice is still open when the node comes back at or past the expiry. Launch
// asks the registry (height 0, no subscriber) and gets a settle, so the invoice
// is settled and the claim is started, while Resolve abandons the HTLC.
func TestProbeIncomingContestExpiredRestartExit(t *testing.T) {
	defer timeout()()

	ctx := newIncomingResolverTestContext(t, true)
	ctx.registry.notifyResolution = invoices.NewSettleResolution(
		testResPreimage, testResCircuitKey, testAcceptHeight,
		invoices.ResultReplayToSettled,
	)

	ctx.resolver.htlcExpiry = uint32(testInitialBlockHeight)
	ctx.resolver.ChainIO = &mock.ChainIO{BestHeight: testInitialBlockHeight}

	ctx.resolve()
	err := <-ctx.resolveErr
	require.NoError(t, err)

	sweeper := ctx.resolver.Sweeper.(*mockSweeper)

	var offered bool
	select {
	case <-sweeper.sweptInputs:
		offered = true
	default:
	}

	abandoned := ctx.resolver.IsResolved() && ctx.nextResolver == nil
	t.Logf("registry asked to settle: %v, offered to the sweeper: %v, "+
		"abandoned: %v", ctx.registry.notifyCalls.Load(), offered,
		abandoned)

	require.False(t, abandoned && (offered ||
		ctx.registry.notifyCalls.Load() != 0), "HTLC abandoned as "+
		"timed out although the invoice registry was asked to settle "+
		"it and/or the claim was started")
}
