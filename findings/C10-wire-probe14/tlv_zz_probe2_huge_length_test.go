package tlv_test

// Probe for suspicion 2 (property C10): the non-P2P decode entry points
// (Stream.Decode / DecodeWithParsedTypes, used for the node's own database and
// by lnwire.DecodeRecords / ParseCustomRecords) don't cap the record length.
// On the unmodified tree a BigSize length >= 2^63 makes
// DecodeWithParsedTypes and DVarBytes panic in make() and makes Decode *accept*
// the stream (io.CopyN with a negative count copies nothing and succeeds).
//
// Run: cd tlv && go test -count=1 -run TestProbe2 .

import (
	"bytes"
	"fmt"
	"testing"

	"github.com/lightningnetwork/lnd/tlv"
)

func probe2NoPanic(t *testing.T, name string, f func() error) (err error) {
	t.Helper()
	defer func() {
		if r := recover(); r != nil {
			t.Errorf("%s: PANIC: %v", name, r)
			err = fmt.Errorf("panic")
		}
	}()

	return f()
}

func TestProbe2NonP2PHugeLengthUnknownRecord(t *testing.T) {
	for _, raw := range [][]byte{
		// type 1, length 2^64-1, no value; then a "next record".
		{
			0x01, 0xff, 0xff, 0xff, 0xff, 0xff, 0xff, 0xff, 0xff,
			0xff, 0x03, 0x01, 0xaa,
		},
		// type 1, length 2^62: positive as an int64, but the up-front
		// allocation is still beyond what the runtime can allocate.
		{
			0x01, 0xff, 0x40, 0, 0, 0, 0, 0, 0, 0, 0x03, 0x01, 0xaa,
		},
	} {
		s := tlv.MustNewStream()

		err := probe2NoPanic(t, "Decode", func() error {
			return s.Decode(bytes.NewReader(raw))
		})
		if err == nil {
			t.Errorf("Decode accepted %x", raw)
		}

		err = probe2NoPanic(t, "DecodeWithParsedTypes", func() error {
			_, err := s.DecodeWithParsedTypes(bytes.NewReader(raw))
			return err
		})
		if err == nil {
			t.Errorf("DecodeWithParsedTypes accepted %x", raw)
		}
	}
}

func TestProbe2NonP2PHugeLengthKnownVarBytes(t *testing.T) {
	for _, raw := range [][]byte{
		{0x01, 0xff, 0xff, 0xff, 0xff, 0xff, 0xff, 0xff, 0xff, 0xff},
		{0x01, 0xff, 0x40, 0, 0, 0, 0, 0, 0, 0, 0xaa},
	} {
		var blob []byte
		s := tlv.MustNewStream(tlv.MakePrimitiveRecord(1, &blob))

		err := probe2NoPanic(t, "Decode", func() error {
			return s.Decode(bytes.NewReader(raw))
		})
		if err == nil {
			t.Errorf("Decode accepted %x", raw)
		}
	}

	// A var bytes record above the P2P cap still decodes on the non-P2P
	// path.
	want := bytes.Repeat([]byte{0xab}, 70000)
	in := want
	var b bytes.Buffer
	enc := tlv.MustNewStream(tlv.MakePrimitiveRecord(1, &in))
	if err := enc.Encode(&b); err != nil {
		t.Fatal(err)
	}
	var blob []byte
	s := tlv.MustNewStream(tlv.MakePrimitiveRecord(1, &blob))
	m, err := s.DecodeWithParsedTypes(bytes.NewReader(b.Bytes()))
	if err != nil || !bytes.Equal(blob, want) || len(m) != 1 {
		t.Errorf("70000 byte record: err=%v len=%d", err, len(blob))
	}

	// And so does an unknown one.
	m, err = tlv.MustNewStream().DecodeWithParsedTypes(
		bytes.NewReader(b.Bytes()),
	)
	if err != nil || !bytes.Equal(m[1], want) {
		t.Errorf("70000 byte unknown record: err=%v", err)
	}
}
