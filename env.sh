# Sourced by setup.sh and check: selects the Go toolchain the analysed
# repository needs (go.mod: go 1.25.13) and pins offline module resolution.
export GOFLAGS=-mod=mod GOPROXY=off GOTOOLCHAIN=local GONOSUMDB=* GONOSUMCHECK=1 GOFLAGS=-mod=mod
unset GOWORK
_tc=/root/go/pkg/mod/golang.org/toolchain@v0.0.1-go1.25.13.linux-amd64
if [ -x "$_tc/bin/go" ]; then
  export PATH="$_tc/bin:$PATH" GOROOT="$_tc"
else
  # fall back to whatever `go` resolves to inside the repository
  _gr=$(cd "${REPO:-/repo}" && GOTOOLCHAIN=auto go env GOROOT 2>/dev/null)
  if [ -n "$_gr" ] && [ -x "$_gr/bin/go" ]; then export PATH="$_gr/bin:$PATH" GOROOT="$_gr"; fi
fi
# The checker keeps its own build cache so that cleaning the shared one (which
# grows quickly when patched variants of lnd are built and tested) cannot pull
# export data away from under a running check.
export GOCACHE="${VERIF_GOCACHE:-/root/.cache/go-build-verif}"
