package lnwallet

import (
	"testing"

	"github.com/lightningnetwork/lnd/channeldb"
	"github.com/lightningnetwork/lnd/lnwallet/chainfee"
	"github.com/lightningnetwork/lnd/lnwire"
	"github.com/stretchr/testify/require"
)

// TestProbeFeeBelowFloor: a fee rate below chainfee.FeePerKwFloor is refused
// by validateCommitmentSanity for every commitment that evaluates it. So
// UpdateFee must not accept (and queue) such a rate: once queued, the same
// node's AddHTLC and SignNextCommitment fail until the entry is overwritten.
func TestProbeFeeBelowFloor(t *testing.T) {
	alice, bob, err := CreateTestChannels(
		t, channeldb.SingleFunderTweaklessBit,
	)
	require.NoError(t, err)

	low := chainfee.SatPerKWeight(100)
	feeErr := alice.UpdateFee(low)
	t.Logf("UpdateFee(%v): %v", low, feeErr)

	// Whatever UpdateFee answered, the channel must still be usable by the
	// node that made the call.
	htlc, _ := createHTLC(0, lnwire.NewMSatFromSatoshis(100000))
	_, err = alice.AddHTLC(htlc, nil)
	require.NoError(t, err, "AddHTLC after UpdateFee(%v)=%v", low, feeErr)

	_, err = bob.ReceiveHTLC(htlc)
	require.NoError(t, err)

	require.NoError(t, ForceStateTransition(alice, bob))

	// And the below-floor rate must have been refused, not dropped.
	require.Error(t, feeErr)

	// The floor itself is a valid rate.
	require.NoError(t, alice.UpdateFee(chainfee.FeePerKwFloor))
	require.NoError(t, bob.ReceiveUpdateFee(chainfee.FeePerKwFloor))
	require.NoError(t, ForceStateTransition(alice, bob))
}
