package contractcourt

import (
	"testing"
	"time"

	"github.com/btcsuite/btcd/chainhash/v2"
	"github.com/btcsuite/btcd/wire/v2"
	"github.com/lightningnetwork/lnd/chainntnfs"
	"github.com/lightningnetwork/lnd/channeldb"
	"github.com/lightningnetwork/lnd/fn/v2"
	"github.com/lightningnetwork/lnd/input"
	"github.com/lightningnetwork/lnd/lnwallet"
	"github.com/lightningnetwork/lnd/lnwire"
	"github.com/stretchr/testify/require"
)

// Probes for suspected defects of the UNMODIFIED tree (property C12). Each
// probe asserts what the property demands; a failure on the unmodified tree
// demonstrates the suspicion.

func probeNewArb(t *testing.T) (*chanArbTestCtx, *mockArbitratorLog) {
	t.Helper()

	log := &mockArbitratorLog{
		state:     StateDefault,
		newStates: make(chan ArbitratorState, 5),
		resolvers: make(map[ContractResolver]struct{}),
	}
	ctx, err := createTestChannelArbitrator(t, log)
	require.NoError(t, err)

	require.NoError(t, ctx.chanArb.Start(nil, newBeatFromHeight(0)))
	t.Cleanup(func() {
		require.NoError(t, ctx.chanArb.Stop())
	})
	ctx.chanArb.UpdateContractSignals(&ContractSignals{
		ShortChanID: lnwire.ShortChannelID{},
	})

	return ctx, log
}

func probeUserForceClose(t *testing.T, ctx *chanArbTestCtx) {
	t.Helper()

	errChan := make(chan error, 1)
	respChan := make(chan *wire.MsgTx, 1)
	ctx.chanArb.forceCloseReqs <- &forceCloseReq{
		errResp: errChan,
		closeTx: respChan,
	}
	ctx.AssertStateTransitions(
		StateBroadcastCommit, StateCommitmentBroadcasted,
	)
	select {
	case <-respChan:
	case <-time.After(defaultTimeout):
		t.Fatalf("no response")
	}
	select {
	case err := <-errChan:
		require.NoError(t, err)
	case <-time.After(defaultTimeout):
		t.Fatalf("no response")
	}
}

// collectFails drains resolution messages for the given duration and counts
// the fail-backs per HTLC index.
func collectFails(ctx *chanArbTestCtx, d time.Duration) map[uint64]int {
	fails := make(map[uint64]int)
	deadline := time.After(d)
	for {
		select {
		case msgs := <-ctx.resolutions:
			for _, m := range msgs {
				if m.Failure != nil {
					fails[m.HtlcIndex]++
				}
			}
		case <-deadline:
			return fails
		}
	}
}

// Probe 1: an offered HTLC is above our dust limit (has an output on OUR
// commitment) but below the peer's (no output on THEIR commitment). We force
// close, but the peer's commitment is the one that confirms. The HTLC is dust
// on the confirmed commitment, so it must be failed back upstream.
func TestProbeDustOnRemoteOnlyAfterOwnBroadcast(t *testing.T) {
	t.Parallel()
	ctx, log := probeNewArb(t)
	chanArb := ctx.chanArb

	onLocal := channeldb.HTLC{
		Amt: 400_000, HtlcIndex: 5, RefundTimeout: 500, OutputIndex: 0,
	}
	onRemote := onLocal
	onRemote.OutputIndex = -1

	chanArb.notifyContractUpdate(&ContractUpdate{
		HtlcKey: LocalHtlcSet, Htlcs: []channeldb.HTLC{onLocal},
	})
	chanArb.notifyContractUpdate(&ContractUpdate{
		HtlcKey: RemoteHtlcSet, Htlcs: []channeldb.HTLC{onRemote},
	})

	probeUserForceClose(t, ctx)

	// Nothing is failed back at broadcast time: on our commitment the
	// HTLC has an output.
	require.Empty(t, collectFails(ctx, 200*time.Millisecond))

	chanArb.cfg.ChainEvents.RemoteUnilateralClosure <- &RemoteUnilateralCloseInfo{
		UnilateralCloseSummary: &lnwallet.UnilateralCloseSummary{
			SpendDetail: &chainntnfs.SpendDetail{
				SpenderTxHash:  &chainhash.Hash{},
				SpendingHeight: 101,
			},
			HtlcResolutions: &lnwallet.HtlcResolutions{},
		},
		CommitSet: CommitSet{
			ConfCommitKey: fn.Some(RemoteHtlcSet),
			HtlcSets: map[HtlcSetKey][]channeldb.HTLC{
				LocalHtlcSet:  {onLocal},
				RemoteHtlcSet: {onRemote},
			},
		},
	}
	ctx.AssertStateTransitions(
		StateContractClosed, StateWaitingFullResolution,
	)

	fails := collectFails(ctx, time.Second)
	require.Empty(t, log.resolvers, "no output => no resolver")
	require.Equal(t, map[uint64]int{5: 1}, fails,
		"HTLC that is dust on the confirmed remote commitment has "+
			"neither a resolver nor an upstream fail-back")
}

// Probe 2: a dust offered HTLC exists only on the peer's commitment (we have
// signed it, they have not yet signed ours). The user force closes long before
// its expiry and OUR commitment confirms. The HTLC exists only on a
// non-confirmed commitment, so it must be failed back upstream (the non-dust
// twin of this scenario is TestChannelArbitratorDanglingCommitForceClose).
func TestProbeDanglingDustNotDueLocalConfirmed(t *testing.T) {
	t.Parallel()
	ctx, log := probeNewArb(t)
	chanArb := ctx.chanArb

	dangling := channeldb.HTLC{
		Amt: 100_000, HtlcIndex: 6, RefundTimeout: 500, OutputIndex: -1,
	}
	chanArb.notifyContractUpdate(&ContractUpdate{
		HtlcKey: RemoteHtlcSet, Htlcs: []channeldb.HTLC{dangling},
	})

	probeUserForceClose(t, ctx)
	atBroadcast := collectFails(ctx, 200*time.Millisecond)

	closeTx := &wire.MsgTx{
		TxIn: []*wire.TxIn{{
			PreviousOutPoint: wire.OutPoint{},
			Witness:          [][]byte{{0x9}},
		}},
	}
	//nolint:ll
	chanArb.cfg.ChainEvents.LocalUnilateralClosure <- &LocalUnilateralCloseInfo{
		SpendDetail: &chainntnfs.SpendDetail{SpendingHeight: 101},
		LocalForceCloseSummary: &lnwallet.LocalForceCloseSummary{
			CloseTx: closeTx,
			ContractResolutions: fn.Some(lnwallet.ContractResolutions{
				HtlcResolutions: &lnwallet.HtlcResolutions{},
			}),
		},
		ChannelCloseSummary: &channeldb.ChannelCloseSummary{},
		CommitSet: CommitSet{
			ConfCommitKey: fn.Some(LocalHtlcSet),
			HtlcSets: map[HtlcSetKey][]channeldb.HTLC{
				RemoteHtlcSet: {dangling},
			},
		},
	}
	ctx.AssertStateTransitions(
		StateContractClosed, StateWaitingFullResolution,
	)

	fails := collectFails(ctx, time.Second)
	for idx, n := range atBroadcast {
		fails[idx] += n
	}
	require.Empty(t, log.resolvers)
	require.Equal(t, map[uint64]int{6: 1}, fails,
		"dangling dust HTLC (only on the non-confirmed remote "+
			"commitment) is never failed back upstream")
}

// Probe 3: breach close out of StateDefault with an offered dust HTLC on the
// remote commitment: fail-back "exactly once".
func TestProbeBreachDustOfferedFailedOnce(t *testing.T) {
	t.Parallel()
	ctx, _ := probeNewArb(t)
	chanArb := ctx.chanArb

	dust := channeldb.HTLC{
		Amt: 100_000, HtlcIndex: 8, RefundTimeout: 500, OutputIndex: -1,
	}
	nonDust := channeldb.HTLC{
		Amt: 900_000, HtlcIndex: 9, RefundTimeout: 500, OutputIndex: 1,
	}

	anchorRes := &lnwallet.AnchorResolution{
		AnchorSignDescriptor: input.SignDescriptor{
			Output: &wire.TxOut{Value: 1},
		},
	}
	chanArb.cfg.ChainEvents.ContractBreach <- &BreachCloseInfo{
		BreachResolution: &BreachResolution{
			FundingOutPoint: wire.OutPoint{},
		},
		AnchorResolution: anchorRes,
		CommitSet: CommitSet{
			ConfCommitKey: fn.Some(RemoteHtlcSet),
			HtlcSets: map[HtlcSetKey][]channeldb.HTLC{
				RemoteHtlcSet: {dust, nonDust},
			},
		},
		CommitHash: chainhash.Hash{},
	}

	// The breach resolver announces itself on an unbuffered channel.
	go func() {
		select {
		case <-ctx.breachSubscribed:
		case <-time.After(defaultTimeout):
		}
	}()

	fails := collectFails(ctx, 2*time.Second)
	require.Equal(t, map[uint64]int{8: 1, 9: 1}, fails,
		"offered dust HTLC is failed back twice on a breach close "+
			"(StateDefault dust pass + StateContractClosed breach pass)")
}
