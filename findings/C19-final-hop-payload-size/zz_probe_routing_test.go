package routing

import (
	"bytes"
	"errors"
	"testing"

	"github.com/btcsuite/btcd/btcec/v2"
	"github.com/btcsuite/btcd/btcutil/v2"
	sphinx "github.com/lightningnetwork/lightning-onion"
	"github.com/lightningnetwork/lnd/fn/v2"
	"github.com/lightningnetwork/lnd/lnwire"
	paymentsdb "github.com/lightningnetwork/lnd/payments/db"
	"github.com/lightningnetwork/lnd/record"
	"github.com/lightningnetwork/lnd/routing/route"
	"github.com/lightningnetwork/lnd/tlv"
	"github.com/stretchr/testify/require"
)

// The probes in this file run the real findPath / newRoute /
// paymentSession.RequestRoute code against a tiny test graph and check that a
// route which pathfinding returns
//
//	(A) does not forward more over a blinded path than that path's
//	    htlc_maximum_msat, and
//	(B, C, D) really fits into the 1300 byte onion, i.e. that the sphinx
//	    packet can be constructed from it.

const probeHeight = 800_000

// probeMC is a mission control that deems every edge perfectly reliable.
type probeMC struct{}

func (probeMC) ReportPaymentFail(uint64, *route.Route, *int,
	lnwire.FailureMessage) (*paymentsdb.FailureReason, error) {

	return nil, nil
}

func (probeMC) ReportPaymentSuccess(uint64, *route.Route) error {
	return nil
}

func (probeMC) GetProbability(_, _ route.Vertex, _ lnwire.MilliSatoshi,
	_ btcutil.Amount) float64 {

	return 1
}

var _ MissionControlQuerier = probeMC{}

// probeGraph creates the graph a(source) -- b -- c, all nodes supporting
// tlv onions, payment addresses and mpp.
func probeGraph(t *testing.T) *pathFindingTestContext {
	t.Helper()

	const capacity = btcutil.Amount(100_000_000)
	policy := &testChannelPolicy{
		Expiry:  40,
		MinHTLC: 1,
		MaxHTLC: lnwire.NewMSatFromSatoshis(capacity),
		Features: lnwire.NewFeatureVector(
			mppFeatures.Clone(), lnwire.Features,
		),
	}

	return newPathFindingTestContext(t, true, []*testChannel{
		symmetricTestChannel("a", "b", capacity, policy, 1),
		symmetricTestChannel("b", "c", capacity, policy, 2),
	}, "a")
}

// probeOnion builds the sphinx packet for the route exactly like the payment
// lifecycle does (payments/db generateSphinxPacket) and returns the real total
// payload size along with any error of the packet construction.
func probeOnion(t *testing.T, rt *route.Route) (int, error) {
	t.Helper()

	sphinxPath, err := rt.ToSphinxPath()
	require.NoError(t, err)

	sessionKey, _ := btcec.PrivKeyFromBytes(bytes.Repeat([]byte{7}, 32))

	_, err = sphinx.NewOnionPacket(
		sphinxPath, sessionKey, bytes.Repeat([]byte{1}, 32),
		sphinx.DeterministicPacketFiller,
	)

	return sphinxPath.TotalPayloadSize(), err
}

func probeVertexKey(t *testing.T, v route.Vertex) *btcec.PublicKey {
	t.Helper()

	pk, err := btcec.ParsePubKey(v[:])
	require.NoError(t, err)

	return pk
}

// probeSession creates a real payment session (with the real findPath as path
// finder) on top of the test graph.
func probeSession(t *testing.T, ctx *pathFindingTestContext,
	payment *LightningPayment) *paymentSession {

	t.Helper()

	require.NoError(t, payment.SetPaymentHash([32]byte{1}))

	session, err := newPaymentSession(
		payment, ctx.source,
		func(Graph) (bandwidthHints, error) {
			return &mockBandwidthHints{}, nil
		},
		ctx.v1Graph, probeMC{}, PathFindingConfig{},
	)
	require.NoError(t, err)

	return session
}

// TestProbeBlindedPathMaxHTLC (suspect A): a blinded path announces an
// htlc_maximum_msat of 50_000 msat. Pathfinding must not return a route that
// pushes 100_000 msat through it.
func TestProbeBlindedPathMaxHTLC(t *testing.T) {
	ctx := probeGraph(t)

	_, blinded1 := btcec.PrivKeyFromBytes([]byte{41})
	_, blinded2 := btcec.PrivKeyFromBytes([]byte{42})
	_, blindingPoint := btcec.PrivKeyFromBytes([]byte{43})

	const (
		htlcMax = 50_000
		amt     = lnwire.MilliSatoshi(100_000)
	)

	cipherText := bytes.Repeat([]byte{1}, 50)
	payment := &BlindedPayment{
		BlindedPath: &sphinx.BlindedPath{
			IntroductionPoint: probeVertexKey(
				t, ctx.keyFromAlias("c"),
			),
			BlindingPoint: blindingPoint,
			BlindedHops: []*sphinx.BlindedHopInfo{
				{CipherText: cipherText},
				{
					BlindedNodePub: blinded1,
					CipherText:     cipherText,
				},
				{
					BlindedNodePub: blinded2,
					CipherText:     cipherText,
				},
			},
		},
		CltvExpiryDelta: 100,
		HtlcMinimum:     1,
		HtlcMaximum:     htlcMax,
	}
	require.NoError(t, payment.Validate())

	pathSet, err := NewBlindedPaymentPathSet([]*BlindedPayment{payment})
	require.NoError(t, err)

	hints, err := pathSet.ToRouteHints()
	require.NoError(t, err)

	restrictions := *noRestrictions
	restrictions.BlindedPaymentPathSet = pathSet

	target := route.NewVertex(pathSet.TargetPubKey())

	// Sanity check: an amount within the blinded path's range is routable.
	_, err = dbFindPath(
		ctx.v1Graph, hints, ctx.bandwidthHints, &restrictions,
		&ctx.pathFindingConfig, ctx.source, target, htlcMax, 0,
		probeHeight,
	)
	require.NoError(t, err, "amount equal to htlc_maximum_msat")

	path, err := dbFindPath(
		ctx.v1Graph, hints, ctx.bandwidthHints, &restrictions,
		&ctx.pathFindingConfig, ctx.source, target, amt, 0,
		probeHeight,
	)
	if err == nil {
		rt, err := newRoute(
			ctx.source, path, probeHeight, finalHopParams{
				amt:      amt,
				totalAmt: amt,
			}, pathSet,
		)
		require.NoError(t, err)

		t.Fatalf("pathfinding returned a %d hop route delivering %v "+
			"through a blinded path with htlc_maximum_msat=%v "+
			"(amount forwarded to the introduction node: %v)",
			len(rt.Hops), rt.ReceiverAmt(), htlcMax,
			rt.Hops[0].AmtToForward)
	}
	require.ErrorIs(t, err, errNoPathFound)
}

// probeLargestRoute finds the largest size (of the receiver chosen blob that
// ends up in the final hop's payload) for which query still returns a route,
// and returns that route.
func probeLargestRoute(t *testing.T,
	query func(size int) (*route.Route, error)) (*route.Route, int) {

	t.Helper()

	for size := sphinx.MaxRoutingPayloadSize; size > 0; size-- {
		rt, err := query(size)
		if errors.Is(err, errNoPathFound) {
			continue
		}
		require.NoError(t, err)

		return rt, size
	}

	t.Fatalf("no route found for any size")

	return nil, 0
}

func probeIntroOnlyPathSet(t *testing.T, intro route.Vertex,
	size int) *BlindedPaymentPathSet {

	t.Helper()

	_, blindingPoint := btcec.PrivKeyFromBytes([]byte{43})

	payment := &BlindedPayment{
		BlindedPath: &sphinx.BlindedPath{
			IntroductionPoint: probeVertexKey(t, intro),
			BlindingPoint:     blindingPoint,
			BlindedHops: []*sphinx.BlindedHopInfo{{
				CipherText: bytes.Repeat([]byte{1}, size),
			}},
		},
		CltvExpiryDelta: 100,
		HtlcMinimum:     1,
		HtlcMaximum:     100_000_000_000,
	}
	require.NoError(t, payment.Validate())

	pathSet, err := NewBlindedPaymentPathSet([]*BlindedPayment{payment})
	require.NoError(t, err)

	return pathSet
}

// TestProbeBlindedTotalAmtPayloadSize (suspect B): QueryRoutes / FindRoute flow
// (restrictions carry the blinded path set, amt == total amt) to a blinded
// path that only consists of the introduction node. The receiver picks the
// size of the encrypted data. Whatever pathfinding returns must fit the onion.
func TestProbeBlindedTotalAmtPayloadSize(t *testing.T) {
	ctx := probeGraph(t)

	const amt = lnwire.MilliSatoshi(20_000_000_000)

	rt, size := probeLargestRoute(t, func(size int) (*route.Route, error) {
		pathSet := probeIntroOnlyPathSet(
			t, ctx.keyFromAlias("c"), size,
		)

		// Mirrors ChannelRouter.FindRoute with the restrictions that
		// routerrpc builds for a blinded QueryRoutes request.
		restrictions := *noRestrictions
		restrictions.BlindedPaymentPathSet = pathSet
		restrictions.DestFeatures = pathSet.Features()

		hints, err := pathSet.ToRouteHints()
		require.NoError(t, err)

		finalExpiry := pathSet.FinalCLTVDelta()
		path, err := dbFindPath(
			ctx.v1Graph, hints, ctx.bandwidthHints, &restrictions,
			&ctx.pathFindingConfig, ctx.source,
			route.NewVertex(pathSet.TargetPubKey()), amt, 0,
			probeHeight+int32(finalExpiry),
		)
		if err != nil {
			return nil, err
		}

		return newRoute(
			ctx.source, path, probeHeight, finalHopParams{
				amt:       amt,
				totalAmt:  amt,
				cltvDelta: finalExpiry,
			}, pathSet,
		)
	})

	payloadSize, err := probeOnion(t, rt)
	require.NoErrorf(t, err, "pathfinding returned a route (encrypted "+
		"data of %d bytes) whose real onion payload is %d bytes",
		size, payloadSize)
}

// TestProbeHopPayloadSizeTotalAmt (suspect B, the PayloadSize part): the size
// that Hop.PayloadSize reports must be the size of the payload that is packed
// for the hop, also if the shard amount and the total amount of a blinded
// payment differ in their encoded length.
func TestProbeHopPayloadSizeTotalAmt(t *testing.T) {
	ctx := probeGraph(t)

	hop := &route.Hop{
		PubKeyBytes:      ctx.keyFromAlias("c"),
		AmtToForward:     10_000_000,
		OutgoingTimeLock: probeHeight,
		EncryptedData:    []byte{1, 2, 3},
		TotalAmtMsat:     20_000_000_000,
	}

	sphinxPath, err := (&route.Route{
		Hops: []*route.Hop{hop},
	}).ToSphinxPath()
	require.NoError(t, err)

	require.EqualValues(
		t, sphinxPath[0].HopPayload.NumBytes(), hop.PayloadSize(0),
		"Hop.PayloadSize differs from the packed payload size",
	)
}

// TestProbeMPPShardPayloadSize (suspect C): payment session flow for a shard of
// a bigger MPP payment. The invoice's metadata is sized by the receiver.
// Whatever RequestRoute returns must fit the onion.
func TestProbeMPPShardPayloadSize(t *testing.T) {
	ctx := probeGraph(t)

	const (
		totalAmt = lnwire.MilliSatoshi(20_000_000_000)
		shardAmt = lnwire.MilliSatoshi(10_000_000)
	)

	rt, size := probeLargestRoute(t, func(size int) (*route.Route, error) {
		session := probeSession(t, ctx, &LightningPayment{
			Target:         ctx.keyFromAlias("c"),
			Amount:         totalAmt,
			FeeLimit:       noFeeLimit,
			CltvLimit:      2016,
			FinalCLTVDelta: 40,
			PaymentAddr:    fn.Some([32]byte{9}),
			DestFeatures: lnwire.NewFeatureVector(
				mppFeatures.Clone(), lnwire.Features,
			),
			Metadata: bytes.Repeat([]byte{1}, size),

			// The shard we request is the last one allowed, so
			// that the session does not split any further.
			MaxParts: 2,
		})

		return session.RequestRoute(
			shardAmt, noFeeLimit, 1, probeHeight, nil,
		)
	})

	require.Equal(t, shardAmt, rt.ReceiverAmt())
	require.Equal(t, totalAmt, rt.FinalHop().MPP.TotalMsat())

	payloadSize, err := probeOnion(t, rt)
	require.NoErrorf(t, err, "RequestRoute returned a route (metadata of "+
		"%d bytes) whose real onion payload is %d bytes", size,
		payloadSize)
}

// TestProbeBlindedSessionPayloadSize (extra finding D, plus the shard variant
// of B): payment session flow to an introduction-node-only blinded path, once
// for the full amount and once for a shard.
func TestProbeBlindedSessionPayloadSize(t *testing.T) {
	const totalAmt = lnwire.MilliSatoshi(20_000_000_000)

	for _, tc := range []struct {
		name string
		amt  lnwire.MilliSatoshi
	}{
		{name: "full amount", amt: totalAmt},
		{name: "shard", amt: 10_000_000},
	} {
		t.Run(tc.name, func(t *testing.T) {
			ctx := probeGraph(t)

			query := func(size int) (*route.Route, error) {
				pathSet := probeIntroOnlyPathSet(
					t, ctx.keyFromAlias("c"), size,
				)

				target := route.NewVertex(pathSet.TargetPubKey())
				session := probeSession(
					t, ctx, &LightningPayment{
						Target:         target,
						Amount:         totalAmt,
						FeeLimit:       noFeeLimit,
						CltvLimit:      2016,
						FinalCLTVDelta: pathSet.FinalCLTVDelta(),
						BlindedPathSet: pathSet,
						MaxParts:       2,
					},
				)

				return session.RequestRoute(
					tc.amt, noFeeLimit, 1, probeHeight, nil,
				)
			}

			rt, size := probeLargestRoute(t, query)

			payloadSize, err := probeOnion(t, rt)
			require.NoErrorf(t, err, "RequestRoute returned a "+
				"route (encrypted data of %d bytes) whose "+
				"real onion payload is %d bytes", size,
				payloadSize)
		})
	}
}

// TestProbeBlindedCustomRecordsPayloadSize: QueryRoutes / FindRoute flow to an
// introduction-node-only blinded path with destination custom records
// (routerrpc passes in.DestCustomRecords both into the restrictions and into
// the route request, also for blinded paths). newRoute attaches the records to
// the blinded final hop, but the blinded branch of lastHopPayloadSize does not
// account for them, so the returned route does not fit the onion by far more
// than the (also missing) total amount record could explain.
func TestProbeBlindedCustomRecordsPayloadSize(t *testing.T) {
	ctx := probeGraph(t)

	const amt = lnwire.MilliSatoshi(20_000_000_000)

	customRecords := record.CustomSet{
		record.CustomTypeStart: bytes.Repeat([]byte{2}, 200),
	}
	require.NoError(t, customRecords.Validate())

	// Encoded size of the records that are missing from the estimate.
	var customRecordBytes, totalAmtRecordBytes uint64
	for k, v := range customRecords {
		customRecordBytes += tlv.VarIntSize(k) +
			tlv.VarIntSize(uint64(len(v))) + uint64(len(v))
	}
	totalAmtRecordBytes = tlv.VarIntSize(
		uint64(record.TotalAmtMsatBlindedType),
	) + 1 + tlv.SizeTUint64(uint64(amt))

	restrictionsFor := func(pathSet *BlindedPaymentPathSet,
		records record.CustomSet) *RestrictParams {

		// The restrictions that routerrpc builds for a blinded
		// QueryRoutes request (lnrpc/routerrpc/router_backend.go).
		restrictions := *noRestrictions
		restrictions.BlindedPaymentPathSet = pathSet
		restrictions.DestFeatures = pathSet.Features()
		restrictions.DestCustomRecords = records

		return &restrictions
	}

	rt, size := probeLargestRoute(t, func(size int) (*route.Route, error) {
		pathSet := probeIntroOnlyPathSet(
			t, ctx.keyFromAlias("c"), size,
		)
		restrictions := restrictionsFor(pathSet, customRecords)

		hints, err := pathSet.ToRouteHints()
		require.NoError(t, err)

		// Mirrors ChannelRouter.FindRoute.
		finalExpiry := pathSet.FinalCLTVDelta()
		path, err := dbFindPath(
			ctx.v1Graph, hints, ctx.bandwidthHints, restrictions,
			&ctx.pathFindingConfig, ctx.source,
			route.NewVertex(pathSet.TargetPubKey()), amt, 0,
			probeHeight+int32(finalExpiry),
		)
		if err != nil {
			return nil, err
		}

		return newRoute(
			ctx.source, path, probeHeight, finalHopParams{
				amt:       amt,
				totalAmt:  amt,
				cltvDelta: finalExpiry,
				records:   customRecords,
			}, pathSet,
		)
	})

	// The records did make it onto the blinded final hop.
	finalHop := rt.FinalHop()
	require.NotNil(t, finalHop.EncryptedData)
	require.Equal(t, customRecords, finalHop.CustomRecords)

	// The estimate of the final hop does not depend on them at all.
	pathSet := probeIntroOnlyPathSet(t, ctx.keyFromAlias("c"), size)
	finalExpiry := probeHeight + int32(pathSet.FinalCLTVDelta())
	withRecords, err := lastHopPayloadSize(
		restrictionsFor(pathSet, customRecords), finalExpiry, amt,
	)
	require.NoError(t, err)
	withoutRecords, err := lastHopPayloadSize(
		restrictionsFor(pathSet, nil), finalExpiry, amt,
	)
	require.NoError(t, err)

	payloadSize, err := probeOnion(t, rt)
	require.NoErrorf(t, err, "pathfinding returned a %d hop route "+
		"(encrypted data of %d bytes, %d bytes of destination custom "+
		"records) whose real onion payload is %d bytes, %d over the "+
		"limit; the missing total amount record accounts for only %d "+
		"bytes; final hop estimate with custom records=%d, without=%d",
		len(rt.Hops), size, customRecordBytes, payloadSize,
		payloadSize-sphinx.MaxRoutingPayloadSize, totalAmtRecordBytes,
		withRecords, withoutRecords)
}

// TestProbeBlindedMetadataPayloadSize: the same findPath / newRoute flow as
// TestProbeBlindedCustomRecordsPayloadSize, but with 200 bytes of payment
// metadata instead of destination custom records. newRoute attaches the
// metadata to the blinded final hop, but the blinded branch of
// lastHopPayloadSize does not account for it.
//
// NOTE: at this tree no production caller combines the two: QueryRoutes (the
// only caller that sets RestrictParams.BlindedPaymentPathSet) never sets
// Metadata, and paymentSession.RequestRoute (which gets both the metadata and
// the blinded path set of an invoice) does not set BlindedPaymentPathSet and
// therefore sizes the final hop with the non-blinded branch.
func TestProbeBlindedMetadataPayloadSize(t *testing.T) {
	ctx := probeGraph(t)

	const amt = lnwire.MilliSatoshi(20_000_000_000)

	metadata := bytes.Repeat([]byte{3}, 200)

	// Encoded size of the records that are missing from the estimate.
	metadataBytes := tlv.VarIntSize(uint64(record.MetadataOnionType)) +
		tlv.VarIntSize(uint64(len(metadata))) + uint64(len(metadata))
	totalAmtRecordBytes := tlv.VarIntSize(
		uint64(record.TotalAmtMsatBlindedType),
	) + 1 + tlv.SizeTUint64(uint64(amt))

	restrictionsFor := func(pathSet *BlindedPaymentPathSet,
		metadata []byte) *RestrictParams {

		restrictions := *noRestrictions
		restrictions.BlindedPaymentPathSet = pathSet
		restrictions.DestFeatures = pathSet.Features()
		restrictions.Metadata = metadata

		return &restrictions
	}

	rt, size := probeLargestRoute(t, func(size int) (*route.Route, error) {
		pathSet := probeIntroOnlyPathSet(
			t, ctx.keyFromAlias("c"), size,
		)
		restrictions := restrictionsFor(pathSet, metadata)

		hints, err := pathSet.ToRouteHints()
		require.NoError(t, err)

		finalExpiry := pathSet.FinalCLTVDelta()
		path, err := dbFindPath(
			ctx.v1Graph, hints, ctx.bandwidthHints, restrictions,
			&ctx.pathFindingConfig, ctx.source,
			route.NewVertex(pathSet.TargetPubKey()), amt, 0,
			probeHeight+int32(finalExpiry),
		)
		if err != nil {
			return nil, err
		}

		return newRoute(
			ctx.source, path, probeHeight, finalHopParams{
				amt:       amt,
				totalAmt:  amt,
				cltvDelta: finalExpiry,
				metadata:  metadata,
			}, pathSet,
		)
	})

	// The metadata did make it onto the blinded final hop.
	finalHop := rt.FinalHop()
	require.NotNil(t, finalHop.EncryptedData)
	require.Equal(t, metadata, finalHop.Metadata)
	require.Empty(t, finalHop.CustomRecords)

	// The estimate of the final hop does not depend on it at all.
	pathSet := probeIntroOnlyPathSet(t, ctx.keyFromAlias("c"), size)
	finalExpiry := probeHeight + int32(pathSet.FinalCLTVDelta())
	withMetadata, err := lastHopPayloadSize(
		restrictionsFor(pathSet, metadata), finalExpiry, amt,
	)
	require.NoError(t, err)
	withoutMetadata, err := lastHopPayloadSize(
		restrictionsFor(pathSet, nil), finalExpiry, amt,
	)
	require.NoError(t, err)

	payloadSize, err := probeOnion(t, rt)
	require.NoErrorf(t, err, "pathfinding returned a %d hop route "+
		"(encrypted data of %d bytes, metadata record of %d bytes) "+
		"whose real onion payload is %d bytes, %d over the limit; "+
		"the missing total amount record accounts for only %d "+
		"bytes; final hop estimate with metadata=%d, without=%d",
		len(rt.Hops), size, metadataBytes, payloadSize,
		payloadSize-sphinx.MaxRoutingPayloadSize, totalAmtRecordBytes,
		withMetadata, withoutMetadata)
}
