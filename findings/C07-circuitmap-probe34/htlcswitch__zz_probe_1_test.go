package htlcswitch_test

// Probes for suspected genuine defects of the UNMODIFIED circuit map. Each
// probe FAILS when the suspicion is confirmed. Place this file in htlcswitch/
// and run: go test -count=1 -run TestProbe ./htlcswitch/

import (
	"testing"

	"github.com/lightningnetwork/lnd/htlcswitch"
	"github.com/lightningnetwork/lnd/lnwire"
	"github.com/stretchr/testify/require"
)

func probeCircuit(chanID lnwire.ShortChannelID, id uint64,
	hash [32]byte) *htlcswitch.PaymentCircuit {

	return &htlcswitch.PaymentCircuit{
		Incoming: htlcswitch.CircuitKey{
			ChanID: chanID,
			HtlcID: id,
		},
		PaymentHash:    hash,
		ErrorEncrypter: htlcswitch.NewMockObfuscator(),
	}
}

// TestProbeSecondKeystoneForOpenCircuit: OpenCircuits only checks that the
// OUTGOING key is free. A circuit that is already open can be opened a second
// time under another outgoing key: the incoming HTLC is then bound to two
// outgoing HTLCs (handed to an outgoing channel twice), the first binding
// stays in the opened index and on disk, and a response on either outgoing
// HTLC closes the circuit.
func TestProbeSecondKeystoneForOpenCircuit(t *testing.T) {
	t.Parallel()

	chan1 := lnwire.NewShortChanIDFromInt(1)
	chan2 := lnwire.NewShortChanIDFromInt(2)

	cfg, cm := newCircuitMap(t, false)

	c := probeCircuit(chan1, 1, hash1)
	_, err := cm.CommitCircuits(c)
	require.NoError(t, err)

	out1 := htlcswitch.CircuitKey{ChanID: chan2, HtlcID: 5}
	out2 := htlcswitch.CircuitKey{ChanID: chan2, HtlcID: 6}

	require.NoError(t, cm.OpenCircuits(htlcswitch.Keystone{
		InKey: c.Incoming, OutKey: out1,
	}))

	err = cm.OpenCircuits(htlcswitch.Keystone{
		InKey: c.Incoming, OutKey: out2,
	})
	if err == nil {
		t.Errorf("circuit %v, already open under %v, was opened a "+
			"second time under %v: num_pending=%d num_open=%d",
			c.Incoming, out1, out2, cm.NumPending(), cm.NumOpen())

		// Both outgoing HTLCs now resolve to the one incoming HTLC.
		c1 := cm.LookupOpenCircuit(out1)
		c2 := cm.LookupOpenCircuit(out2)
		if c1 != nil && c2 != nil {
			t.Errorf("LookupOpenCircuit(%v) and (%v) both return "+
				"circuit %v", out1, out2, c1.Incoming)
		}

		// Deleting the circuit only removes the latest keystone, the
		// first one dangles in memory and on disk.
		require.NoError(t, cm.DeleteCircuits(c.Incoming))
		if cm.NumOpen() != 0 {
			t.Errorf("after DeleteCircuits num_pending=%d but "+
				"num_open=%d: %v still resolves to the "+
				"deleted circuit", cm.NumPending(),
				cm.NumOpen(), out1)
		}

		_, cm = restartCircuitMap(t, cfg)
		t.Logf("after restart: num_pending=%d num_open=%d",
			cm.NumPending(), cm.NumOpen())
	}
}

// TestProbeDuplicateOutKeyInsideBatch: the duplicate check of OpenCircuits
// looks at the opened index only, which is updated after the batch was
// written. Two keystones of ONE batch can therefore claim the same outgoing
// key.
func TestProbeDuplicateOutKeyInsideBatch(t *testing.T) {
	t.Parallel()

	chan1 := lnwire.NewShortChanIDFromInt(1)
	chan2 := lnwire.NewShortChanIDFromInt(2)

	cfg, cm := newCircuitMap(t, false)

	a := probeCircuit(chan1, 1, hash1)
	b := probeCircuit(chan1, 2, hash2)
	_, err := cm.CommitCircuits(a, b)
	require.NoError(t, err)

	out := htlcswitch.CircuitKey{ChanID: chan2, HtlcID: 5}
	err = cm.OpenCircuits(
		htlcswitch.Keystone{InKey: a.Incoming, OutKey: out},
		htlcswitch.Keystone{InKey: b.Incoming, OutKey: out},
	)
	if err == nil {
		ca := cm.LookupCircuit(a.Incoming)
		cb := cm.LookupCircuit(b.Incoming)
		t.Errorf("one batch bound outgoing key %v to both %v and %v "+
			"(keystone a=%v b=%v, num_open=%d)", out, a.Incoming,
			b.Incoming, ca.HasKeystone(), cb.HasKeystone(),
			cm.NumOpen())

		_, cm = restartCircuitMap(t, cfg)
		ca = cm.LookupCircuit(a.Incoming)
		cb = cm.LookupCircuit(b.Incoming)
		t.Logf("after restart: keystone a=%v b=%v num_open=%d",
			ca.HasKeystone(), cb.HasKeystone(), cm.NumOpen())
	}
}

// TestProbeTrimStopsAtGap: TrimOpenCircuits walks up from the start index and
// stops at the first index without a keystone. If the keystone at the start
// index is gone (its circuit was deleted, e.g. because the incoming channel of
// that circuit was purged by cleanClosedChannels, which runs BEFORE the
// start-up trim), the keystones above it are not rolled back although their
// HTLCs never reached a commitment.
func TestProbeTrimStopsAtGap(t *testing.T) {
	t.Parallel()

	chan1 := lnwire.NewShortChanIDFromInt(1)
	chan2 := lnwire.NewShortChanIDFromInt(2)
	chan3 := lnwire.NewShortChanIDFromInt(3)

	_, cm := newCircuitMap(t, false)

	// Two incoming HTLCs from different channels, forwarded over chan2
	// as outgoing HTLC 5 and 6. Neither was signed for: the channel's next
	// local HTLC index is still 5.
	a := probeCircuit(chan1, 1, hash1)
	b := probeCircuit(chan3, 1, hash2)
	_, err := cm.CommitCircuits(a, b)
	require.NoError(t, err)

	require.NoError(t, cm.OpenCircuits(
		htlcswitch.Keystone{
			InKey:  a.Incoming,
			OutKey: htlcswitch.CircuitKey{ChanID: chan2, HtlcID: 5},
		},
		htlcswitch.Keystone{
			InKey:  b.Incoming,
			OutKey: htlcswitch.CircuitKey{ChanID: chan2, HtlcID: 6},
		},
	))

	// Circuit a goes away (incoming channel chan1 fully closed).
	require.NoError(t, cm.DeleteCircuits(a.Incoming))

	// The trim of chan2 at its next local HTLC index.
	require.NoError(t, cm.TrimOpenCircuits(chan2, 5))

	cb := cm.LookupCircuit(b.Incoming)
	require.NotNil(t, cb)
	if cb.HasKeystone() {
		t.Errorf("circuit %v keeps keystone %v above the trim point "+
			"5: it stays 'open', a re-forward is dropped instead "+
			"of failed back, and the next HTLC the channel "+
			"numbers 6 hits ErrDuplicateKeystone", cb.Incoming,
			cb.OutKey())
	}
}

// TestProbeHashIndexAfterTrim: TrimOpenCircuits clears circuit.Outgoing BEFORE
// it calls removeCircuitFromHashIndex, which derives the index key from
// circuit.OutKey(). The entry of the trimmed keystone therefore stays in the
// hash index, and as soon as the (re-used) outgoing key is opened for another
// circuit, LookupByPaymentHash(old hash) returns that other circuit.
func TestProbeHashIndexAfterTrim(t *testing.T) {
	t.Parallel()

	chan1 := lnwire.NewShortChanIDFromInt(1)
	chan2 := lnwire.NewShortChanIDFromInt(2)

	_, cm := newCircuitMap(t, false)

	a := probeCircuit(chan1, 1, hash1)
	b := probeCircuit(chan1, 2, hash2)
	_, err := cm.CommitCircuits(a, b)
	require.NoError(t, err)

	out := htlcswitch.CircuitKey{ChanID: chan2, HtlcID: 5}
	require.NoError(t, cm.OpenCircuits(htlcswitch.Keystone{
		InKey: a.Incoming, OutKey: out,
	}))
	require.NoError(t, cm.TrimOpenCircuits(chan2, 5))
	require.Empty(t, cm.LookupByPaymentHash(hash1))

	// The channel hands out index 5 again, this time for b.
	require.NoError(t, cm.OpenCircuits(htlcswitch.Keystone{
		InKey: b.Incoming, OutKey: out,
	}))

	for _, c := range cm.LookupByPaymentHash(hash1) {
		t.Errorf("LookupByPaymentHash(hash1) returns circuit %v with "+
			"payment hash %x", c.Incoming, c.PaymentHash[:2])
	}
}
