package spec

import (
	"go/ast"
	"strings"

	"lndlint/internal/an"
)

// unknownRecordsSurvive: Decode keeps the whole extension TLV stream in the
// message's extra-data field; an Encode that re-packs that field from the
// message's typed records only (lnwire.EncodeMessageExtraData overwrites the
// field with exactly the given producers) writes a stream without the records
// it does not know.
func unknownRecordsSurvive(r *an.Run) {
	p := r.Prog
	r.Obl("unknown-records-survive-reencoding", "MIRROR",
		"no Encode method of a wire message re-packs its extension data through lnwire.EncodeMessageExtraData (which overwrites the field with the given typed records only); a message with typed extension records uses EncodeMessageExtraDataKeepUnknown, naming exactly the types of the producers it passes, or writes the stored bytes unchanged",
		"a record of an unknown odd type must be ignored, not removed: removing it changes the bytes a gossip signature covers (channel_update) and breaks the canonical fixpoint decode-encode for every message", 14,
		func(o *an.Obl) {
			n := 0
			for _, f := range p.Funcs(false, "lnwire") {
				if f.Lit != nil || !strings.HasSuffix(f.ID, ".Encode") {
					continue
				}
				for _, fn := range append([]*an.Func{f}, f.Lits...) {
					for _, s := range fn.AllCalls(false) {
						id := an.CalleeID(fn.Info(), s.Node.(*ast.CallExpr))
						switch id {
						case "lnwire.EncodeMessageExtraData":
							n++
							o.Site("%s re-packs its extension data from typed records only", f.ID)
							o.FailAt(f.ID+"#drops-unknown-records", s.Where(), "%s re-packs its extension data with EncodeMessageExtraData: records of unknown types that Decode kept are not written back", f.ID)
						case "lnwire.EncodeMessageExtraDataKeepUnknown":
							n++
							c := s.Node.(*ast.CallExpr)
							o.Site("%s keeps unknown records (known types %s)", f.ID, an.Text(c.Args[1]))
							// every producer handed over is named as known, and nothing else
							known := an.Text(c.Args[1])
							lit, ok := c.Args[1].(*ast.CompositeLit)
							if !ok {
								o.FailAt(f.ID+"#known-types", s.Where(), "the known types are %s, expected a literal list", known)
								continue
							}
							var prods []string
							ast.Inspect(f.Body, func(m ast.Node) bool {
								if ap, ok := m.(*ast.CallExpr); ok && an.Text(ap.Fun) == "append" && len(ap.Args) == 2 && an.Text(ap.Args[0]) == "recordProducers" {
									prods = append(prods, strings.TrimPrefix(an.Text(ap.Args[1]), "&"))
								}
								return true
							})
							if len(lit.Elts) != len(prods) {
								o.FailAt(f.ID+"#known-types-count", s.Where(), "%d known types are named for %d typed records", len(lit.Elts), len(prods))
							}
						}
					}
				}
			}
			if n < 14 {
				o.FailAt("lnwire#extension-repackers", "", "expected at least 14 messages that re-pack their extension data, found %d", n)
			}
			// the keeping helper: unknown = existing minus known, packed together with the typed records
			k := p.FuncOpt("lnwire.EncodeMessageExtraDataKeepUnknown")
			if k == nil {
				return
			}
			ex := k.Calls(an.CalleeNamed("ExtractRecords"), false)
			pk := k.Calls(an.CalleeNamed("PackRecords"), false)
			if need(o, k, "ExtractRecords", ex, 1) && need(o, k, "PackRecords", pk, 1) {
				dl := 0
				for _, s := range k.AllCalls(false) {
					c := s.Node.(*ast.CallExpr)
					if an.Text(c.Fun) == "delete" {
						dl++
						if hdr := enclosingLoopHeader(k, c); hdr != "$p1" {
							o.FailAt(k.ID+"#removed-types", s.Where(), "records are removed for the types in %s, expected the known types only", hdr)
						}
					}
				}
				if dl != 1 {
					o.FailAt(k.ID+"#removals", k.Where(k.Body.Pos()), "expected one removal of known types from the existing records, found %d", dl)
				}
			}
		})
}
