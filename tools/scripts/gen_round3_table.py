#!/usr/bin/env python3
# Fills the <!-- GEN:round3 --> and <!-- GEN:round4 --> blocks of DESIGN.md from seeded/REPORT.md.
import re
blind3=set("C02e C02f C03e C06e C06f C07e C09f C11e C11f C12e C14e C15f C16f C17e C19e C20f".split())
blind4=set("C02h C03g C03h C04h C11g C11h C12h C13h C15g C16g C16h".split())
blind5=set("C01i C01j C02i C02j C03i C03j C06i C06j C09j C10i C11i C11j C15i C16i C17i C17j C18j C19i C19j C20j".split())
def table(vs,blind,extra=()):
    rows={}
    for l in open('/verif/seeded/REPORT.md'):
        m=re.match(r'\| (C\d\d)-(['+vs+r']) \| (.*?) \| (.*?) \|$', l.strip())
        if m: rows[(m.group(1),m.group(2))]=(m.group(3),m.group(4))
    out=["| Seed | Change | Reported by | |","|---|---|---|---|"]
    for k in sorted(rows):
        t,o=rows[k]
        t=re.sub(r'^(Seed |seeded change )?C\d\d\s*[/-]?\s*(seed )?['+vs+r']\s*[—:–-]+\s*','',t,flags=re.I)
        out.append("| %s‑%s | %s | %s | %s |"%(k[0],k[1],t[:120],o,'B' if k[0]+k[1] in blind else 'S'))
    return out+list(extra)
s=open('/verif/DESIGN.md').read()
t3=table('ef',blind3,["| C12‑f | early dust fail-back of StateDefault restricted to our own broadcast | (obsolete since b3aa835, `seeded-obsolete/`) | S |"])
t4=table('gh',blind4)
t5=table('ij',blind5)
s=re.sub(r'<!-- GEN:round3 -->.*?<!-- /GEN:round3 -->',lambda m:'<!-- GEN:round3 -->\n'+"\n".join(t3)+'\n<!-- /GEN:round3 -->',s,flags=re.S)
s=re.sub(r'<!-- GEN:round4 -->.*?<!-- /GEN:round4 -->',lambda m:'<!-- GEN:round4 -->\n'+"\n".join(t4)+'\n<!-- /GEN:round4 -->',s,flags=re.S)
s=re.sub(r'<!-- GEN:round5 -->.*?<!-- /GEN:round5 -->',lambda m:'<!-- GEN:round5 -->\n'+"\n".join(t5)+'\n<!-- /GEN:round5 -->',s,flags=re.S)
open('/verif/DESIGN.md','w').write(s)
print(len(t3)-2,len(t4)-2,len(t5)-2,'rows')
