package discovery

import (
	"sync/atomic"
	"testing"
	"time"

	"github.com/stretchr/testify/require"
)

// TestProbeRemoteFullAnnForProoflessOwnChannel documents why the proof-attach
// branch of processRejectedEdge (gossiper.go, "the edge is within the graph,
// but it doesn't yet have a proper proof attached") can't be reached by a
// remote announcement: edges are only ever stored without a proof for our own
// channels, and a remote channel_announcement naming our own node is refused
// up front in ProcessRemoteAnnouncement (and, if it got further, at the
// IsKnownEdge early return of handleChanAnnouncement). The refusal is
// deliberate ("to avoid inserting edges in the graph for our own channels that
// we have already closed"); the proof of an own channel is attached via the
// announcement_signatures exchange. This probe asserts that deliberate
// behaviour, hence passes on the unmodified tree.
func TestProbeRemoteFullAnnForProoflessOwnChannel(t *testing.T) {
	t.Parallel()
	ctx := t.Context()

	tCtx, err := createTestCtx(t, proofMatureDelta, false)
	require.NoError(t, err)

	batch, err := tCtx.createLocalAnnouncements(0)
	require.NoError(t, err)

	// Our own channel enters the graph without a proof.
	err = mustProcess(t, tCtx.gossiper.ProcessLocalAnnouncement(
		batch.chanAnn,
	))
	require.NoError(t, err)
	select {
	case <-tCtx.broadcastedMessage:
		t.Fatal("proofless channel announcement was broadcast")
	case <-time.After(2 * trickleDelay):
	}

	info, _, _, err := tCtx.router.GetChannelByID(
		batch.chanAnn.ShortChannelID,
	)
	require.NoError(t, err)
	require.Nil(t, info.AuthProof)

	// The full, validly signed announcement arrives from a remote peer.
	peer := &mockPeer{remoteKeyPriv1.PubKey(), nil, nil, atomic.Bool{}}
	err = mustProcess(t, tCtx.gossiper.ProcessRemoteAnnouncement(
		ctx, batch.chanAnn, peer,
	))
	require.ErrorContains(t, err, "own channel")

	// Nothing is attached and nothing is relayed.
	info, _, _, err = tCtx.router.GetChannelByID(
		batch.chanAnn.ShortChannelID,
	)
	require.NoError(t, err)
	require.Nil(t, info.AuthProof)
	select {
	case <-tCtx.broadcastedMessage:
		t.Fatal("announcement was relayed")
	case <-time.After(2 * trickleDelay):
	}
}
