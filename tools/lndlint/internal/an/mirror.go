package an

import (
	"fmt"
	"go/ast"
	"go/token"
	"go/types"
	"regexp"
	"strings"
)

// Canon renders an expression in a form that does not depend on the names
// of locals and parameters: parameters print as $p<i> (receiver $recv),
// locals with a unique definition print as their definition, other locals as
// $v:<type>, range variables as $elem(<ranged expr>). Fields, methods and
// package-level objects keep their names.
func (f *Func) Canon(e ast.Expr) string { return f.canon(e, 0) }

func (f *Func) canon(e ast.Expr, depth int) string {
	info := f.Info()
	switch x := e.(type) {
	case nil:
		return ""
	case *ast.ParenExpr:
		return f.canon(x.X, depth)
	case *ast.Ident:
		o := info.Uses[x]
		if o == nil {
			o = info.Defs[x]
		}
		switch ov := o.(type) {
		case *types.Var:
			if ov.IsField() {
				return x.Name
			}
			if ov.Pkg() != nil && ov.Parent() == ov.Pkg().Scope() {
				return Short(ov.Pkg().Path()) + "." + ov.Name()
			}
			for fn := f; fn != nil; fn = fn.Parent {
				if r := fn.Recv(); r != nil && r == ov {
					return "$recv"
				}
				for i, p := range fn.Params(false) {
					if p == ov {
						if fn == f.Root() || fn.Parent == nil {
							return fmt.Sprintf("$p%d", i)
						}
						return fmt.Sprintf("$lit.p%d", i)
					}
				}
			}
			if depth < 5 {
				if d := f.UniqueDef(x); d != nil {
					return f.canon(d, depth+1)
				}
			}
			if depth < 5 {
				if c, idx := f.UniqueCallDef(x); c != nil {
					if idx == 0 {
						return f.canon(c, depth+1)
					}
					return fmt.Sprintf("%s#%d", f.canon(c, depth+1), idx)
				}
			}
			if rx := f.rangeSource(ov); rx != nil && depth < 5 {
				return "$elem(" + f.canon(rx, depth+1) + ")"
			}
			if rx := f.rangeKeySource(ov); rx != nil && depth < 5 {
				return "$key(" + f.canon(rx, depth+1) + ")"
			}
			return "$v:" + normType(ov.Type())
		case *types.Const:
			if ov.Pkg() != nil {
				return Short(ov.Pkg().Path()) + "." + ov.Name()
			}
			return ov.Name()
		case *types.Func:
			return FuncID(ov)
		case *types.PkgName:
			return x.Name
		case *types.Nil:
			return "nil"
		}
		return x.Name
	case *ast.SelectorExpr:
		if id, ok := x.X.(*ast.Ident); ok {
			if _, isPkg := info.Uses[id].(*types.PkgName); isPkg {
				if o := info.Uses[x.Sel]; o != nil && o.Pkg() != nil {
					return Short(o.Pkg().Path()) + "." + x.Sel.Name
				}
			}
		}
		return f.canon(x.X, depth) + "." + x.Sel.Name
	case *ast.CallExpr:
		var args []string
		for _, a := range x.Args {
			args = append(args, f.canon(a, depth))
		}
		fun := ""
		if c := Callee(info, x); c != nil {
			if sel, ok := ast.Unparen(x.Fun).(*ast.SelectorExpr); ok {
				if s := info.Selections[sel]; s != nil {
					fun = f.canon(sel.X, depth) + "." + sel.Sel.Name
				}
			}
			if fun == "" {
				fun = FuncID(c)
			}
		} else {
			fun = f.canon(x.Fun, depth)
		}
		return fun + "(" + strings.Join(args, ", ") + ")"
	case *ast.UnaryExpr:
		return x.Op.String() + f.canon(x.X, depth)
	case *ast.StarExpr:
		return "*" + f.canon(x.X, depth)
	case *ast.BinaryExpr:
		return "(" + f.canon(x.X, depth) + " " + x.Op.String() + " " + f.canon(x.Y, depth) + ")"
	case *ast.IndexExpr:
		return f.canon(x.X, depth) + "[" + f.canon(x.Index, depth) + "]"
	case *ast.SliceExpr:
		return f.canon(x.X, depth) + "[" + f.canon(x.Low, depth) + ":" + f.canon(x.High, depth) + "]"
	case *ast.BasicLit:
		if tv, ok := info.Types[x]; ok && tv.Value != nil && x.Kind == token.INT {
			return tv.Value.ExactString()
		}
		return x.Value
	case *ast.FuncLit:
		return "func{…}"
	case *ast.CompositeLit:
		var parts []string
		for _, el := range x.Elts {
			if kv, ok := el.(*ast.KeyValueExpr); ok {
				k := types.ExprString(kv.Key)
				parts = append(parts, k+": "+f.canon(kv.Value, depth))
			} else {
				parts = append(parts, f.canon(el, depth))
			}
		}
		return normType(info.TypeOf(x)) + "{" + strings.Join(parts, ", ") + "}"
	case *ast.TypeAssertExpr:
		return f.canon(x.X, depth) + ".(" + types.ExprString(x.Type) + ")"
	}
	return types.ExprString(e)
}

// rangeSource returns the ranged expression if v is the value variable of a
// range statement in the root function.
func (f *Func) rangeSource(v *types.Var) ast.Expr {
	root := f.Root()
	if root.rangeCache == nil {
		root.rangeCache = map[types.Object]ast.Expr{}
		info := root.Info()
		ast.Inspect(root.Body, func(n ast.Node) bool {
			if rs, ok := n.(*ast.RangeStmt); ok && rs.Tok == token.DEFINE {
				if id, ok := rs.Value.(*ast.Ident); ok {
					if o := info.Defs[id]; o != nil {
						root.rangeCache[o] = rs.X
					}
				}
			}
			return true
		})
	}
	return root.rangeCache[v]
}

// rangeKeySource returns the ranged expression of which v is the key
// variable (`for v := range X` / `for v, _ := range X`).
func (f *Func) rangeKeySource(v *types.Var) ast.Expr {
	root := f.Root()
	if root.rangeKeyCache == nil {
		root.rangeKeyCache = map[types.Object]ast.Expr{}
		info := root.Info()
		ast.Inspect(root.Body, func(n ast.Node) bool {
			if rs, ok := n.(*ast.RangeStmt); ok && rs.Tok == token.DEFINE {
				if id, ok := rs.Key.(*ast.Ident); ok {
					if o := info.Defs[id]; o != nil {
						root.rangeKeyCache[o] = rs.X
					}
				}
			}
			return true
		})
	}
	return root.rangeKeyCache[v]
}

var identRe = regexp.MustCompile(`[$A-Za-z_][A-Za-z0-9_]*`)

// Swap applies the involution given by pairs to the identifier tokens of s.
// A pair may also be a whole-string pair ("X", "!X").
func Swap(s string, pairs [][2]string) string {
	for _, p := range pairs {
		if s == p[0] {
			return p[1]
		}
		if s == p[1] {
			return p[0]
		}
	}
	m := map[string]string{}
	for _, p := range pairs {
		m[p[0]] = p[1]
		m[p[1]] = p[0]
	}
	return identRe.ReplaceAllStringFunc(s, func(tok string) string {
		if r, ok := m[tok]; ok {
			return r
		}
		return tok
	})
}

// ArgCanon returns the canonical forms of the arguments of a call site.
func (f *Func) ArgCanon(s Site) []string {
	c := s.Node.(*ast.CallExpr)
	var out []string
	for _, a := range c.Args {
		out = append(out, f.Canon(a))
	}
	return out
}
