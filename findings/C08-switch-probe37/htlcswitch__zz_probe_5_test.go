package htlcswitch

import (
	"crypto/sha256"
	"testing"
	"time"

	"github.com/lightningnetwork/lnd/channeldb"
	"github.com/lightningnetwork/lnd/kvdb"
	"github.com/lightningnetwork/lnd/lnwire"
	"github.com/lightningnetwork/lnd/ticker"
	"github.com/stretchr/testify/require"
)

// TestProbe5SettleRefAckedAfterClosingCircuitDeleted: the outgoing link first
// pipelines the settle (no destRef), which closes the circuit, and after the
// peer's revocation re-sends it from the forwarding package with a destRef.
// If that second packet reaches the switch while the circuit is still closing,
// it is dropped. Once the incoming link has torn down the circuit, the
// SettleFailRef must still get acked so that the outgoing link's forwarding
// package can be garbage collected without a link restart.
func TestProbe5SettleRefAckedAfterClosingCircuitDeleted(t *testing.T) {
	t.Parallel()

	chanID1, chanID2, aliceChanID, bobChanID := genIDs()

	alicePeer, err := newMockServer(
		t, "alice", testStartingHeight, nil, testDefaultDelta,
	)
	require.NoError(t, err)
	bobPeer, err := newMockServer(
		t, "bob", testStartingHeight, nil, testDefaultDelta,
	)
	require.NoError(t, err)

	cdb := channeldb.OpenForTesting(t, t.TempDir())
	s, err := initSwitchWithDB(testStartingHeight, cdb)
	require.NoError(t, err)
	require.NoError(t, s.Start())
	defer func() { _ = s.Stop() }()

	aliceLink := newMockChannelLink(
		s, chanID1, aliceChanID, emptyScid, alicePeer, true, false,
		false, false,
	)
	bobLink := newMockChannelLink(
		s, chanID2, bobChanID, emptyScid, bobPeer, true, false, false,
		false,
	)
	require.NoError(t, s.AddLink(aliceLink))
	require.NoError(t, s.AddLink(bobLink))

	preimage := [sha256.Size]byte{1}
	rhash := sha256.Sum256(preimage[:])
	add := &htlcPacket{
		incomingChanID: aliceChanID,
		incomingHTLCID: 0,
		outgoingChanID: bobChanID,
		obfuscator:     NewMockObfuscator(),
		htlc: &lnwire.UpdateAddHTLC{
			PaymentHash: rhash,
			Amount:      1,
		},
	}
	require.NoError(t, s.ForwardPackets(nil, add))

	select {
	case pkt := <-bobLink.packets:
		require.NoError(t, bobLink.completeCircuit(pkt))
	case <-time.After(time.Second):
		t.Fatal("add not delivered")
	}
	require.Equal(t, 1, s.circuits.NumOpen())

	// Bob's channel persists a forwarding package that holds the settle.
	const height = 1
	packager := channeldb.NewChannelPackager(bobChanID)
	fwdPkg := channeldb.NewFwdPkg(bobChanID, height, nil,
		[]channeldb.LogUpdate{{
			UpdateMsg: &lnwire.UpdateFulfillHTLC{
				ChanID:          chanID2,
				ID:              0,
				PaymentPreimage: preimage,
			},
		}},
	)
	err = kvdb.Update(cdb, func(tx kvdb.RwTx) error {
		if err := packager.AddFwdPkg(tx, fwdPkg); err != nil {
			return err
		}

		// processRemoteAdds marks the package as processed.
		return packager.SetFwdFilter(tx, height, fwdPkg.FwdFilter)
	}, func() {})
	require.NoError(t, err)

	// (1) pipelined settle, without destRef.
	settle := func(destRef *channeldb.SettleFailRef) *htlcPacket {
		return &htlcPacket{
			outgoingChanID: bobChanID,
			outgoingHTLCID: 0,
			destRef:        destRef,
			htlc: &lnwire.UpdateFulfillHTLC{
				PaymentPreimage: preimage,
			},
		}
	}
	require.NoError(t, s.ForwardPackets(nil, settle(nil)))

	var alicePkt *htlcPacket
	select {
	case alicePkt = <-aliceLink.packets:
	case <-time.After(time.Second):
		t.Fatal("settle not delivered to incoming link")
	}

	// (2) The locked-in settle from the forwarding package arrives while
	// the circuit is still closing.
	destRef := fwdPkg.DestRef(0)
	require.NoError(t, s.ForwardPackets(nil, settle(&destRef)))

	// ForwardPackets only hands the packet to the forwarder goroutine; give
	// it time to process (and drop) it.
	time.Sleep(300 * time.Millisecond)

	// (3) The incoming link commits the settle and tears down the circuit.
	require.NoError(t, aliceLink.completeCircuit(alicePkt))
	require.Equal(t, 0, s.circuits.NumPending())

	// (4) Let the switch flush its pending acks.
	//nolint:forcetypeassert
	ackTicker := s.cfg.AckEventTicker.(*ticker.Force)
	for i := 0; i < 3; i++ {
		select {
		case ackTicker.Force <- time.Now():
		case <-time.After(time.Second):
		}
		time.Sleep(100 * time.Millisecond)
	}

	var pkgs []*channeldb.FwdPkg
	err = kvdb.View(cdb, func(tx kvdb.RTx) error {
		var err error
		pkgs, err = packager.LoadFwdPkgs(tx)
		return err
	}, func() { pkgs = nil })
	require.NoError(t, err)
	require.Len(t, pkgs, 1)
	require.Equal(t, channeldb.FwdStateCompleted, pkgs[0].State,
		"settle ref of the dropped fwd pkg settle was never acked: "+
			"the package lingers until the outgoing link restarts")
}
