package lnwire

import (
	"bytes"
	"encoding/hex"
	"sort"
	"testing"

	"github.com/lightningnetwork/lnd/tlv"
	"github.com/stretchr/testify/require"
	"pgregory.net/rapid"
)

// probeAppendUnknownRecord appends one well-formed TLV record to the end of a
// serialized message (type prefix included).
func probeAppendUnknownRecord(t *testing.T, msg []byte, typ uint64,
	val []byte) []byte {

	var (
		b   bytes.Buffer
		buf [8]byte
	)
	b.Write(msg)
	require.NoError(t, tlv.WriteVarInt(&b, typ, &buf))
	require.NoError(t, tlv.WriteVarInt(&b, uint64(len(val)), &buf))
	b.Write(val)

	return b.Bytes()
}

// TestProbeUnknownOddTLVSurvey takes real encodings of every message type,
// appends one unknown odd ("it's OK to be odd") TLV record at the end of the
// message, and checks that decode followed by encode reproduces the input
// bytes. Samples for which the augmented bytes do not decode (message has no
// trailing TLV stream, or the appended type is not larger than an already
// present type) are skipped.
//
// TestProbeUnknownOddTLVSignedGossip covers the messages that carry a signature
// over their extension bytes and are relayed to third parties;
// TestProbeUnknownOddTLVPeerMessages covers all the other (link-local) messages.
func TestProbeUnknownOddTLVSignedGossip(t *testing.T) {
	probeUnknownOddTLVSurvey(t, func(m MessageType) bool {
		return probeSignedGossip[m]
	})
}

func TestProbeUnknownOddTLVPeerMessages(t *testing.T) {
	probeUnknownOddTLVSurvey(t, func(m MessageType) bool {
		return !probeSignedGossip[m]
	})
}

var probeSignedGossip = map[MessageType]bool{
	MsgChannelAnnouncement:  true,
	MsgNodeAnnouncement:     true,
	MsgChannelUpdate:        true,
	MsgChannelAnnouncement2: true,
	MsgNodeAnnouncement2:    true,
	MsgChannelUpdate2:       true,
}

func probeUnknownOddTLVSurvey(t *testing.T, include func(MessageType) bool) {
	// 65535 is odd, below the custom record range (>= 65536) and above
	// every record type lnd knows about in any message.
	//
	// 1000000001 is odd and sits in the second *signed* range of the
	// pure-TLV (gossip v2) messages, the other two sit in their unsigned
	// ranges.
	unknownTypes := []uint64{65535, 0xfffffffd, 1000000001}

	// Messages that have no TLV extension field in lnd at all: Decode
	// simply ignores any bytes that follow the fixed fields. They are
	// never relayed and carry no signature; reported, not asserted.
	noExtension := map[string]bool{
		MessageType(MsgError).String():        true,
		MessageType(MsgWarning).String():      true,
		MessageType(MsgPing).String():         true,
		MessageType(MsgPong).String():         true,
		MessageType(MsgOnionMessage).String(): true,
	}

	// Pure TLV messages deliberately keep unknown records only when they
	// are in a signed range (ExtraSignedFields).
	pureTLV := map[string]bool{
		MessageType(MsgChannelAnnouncement2).String(): true,
		MessageType(MsgChannelUpdate2).String():       true,
		MessageType(MsgNodeAnnouncement2).String():    true,
		MessageType(MsgAnnounceSignatures2).String():  true,
	}
	unknownVal := []byte{0xde, 0xad, 0xbe, 0xef}

	type verdict struct {
		accepted, preserved, dropped int
		example                      string
	}

	for _, unknownType := range unknownTypes {
		results := make(map[string]*verdict)

		for msgType := MessageType(0); msgType < MsgEnd; msgType++ {
			m, err := MakeEmptyMessage(msgType)
			if err != nil || !include(msgType) {
				continue
			}
			testMsg, ok := m.(TestMessage)
			if !ok {
				continue
			}

			v := &verdict{}
			results[msgType.String()] = v

			gen := rapid.Custom(func(rt *rapid.T) Message {
				return testMsg.RandTestMessage(rt)
			})

			for seed := 0; seed < 40; seed++ {
				msg := gen.Example(seed)

				var b bytes.Buffer
				_, err := WriteMessage(&b, msg, 0)
				require.NoError(t, err)

				in := probeAppendUnknownRecord(
					t, b.Bytes(), unknownType, unknownVal,
				)
				if len(in)-2 > MaxMsgBody {
					continue
				}

				decoded, err := ReadMessage(
					bytes.NewReader(in), 0,
				)
				if err != nil {
					continue
				}
				v.accepted++

				var out bytes.Buffer
				_, err = WriteMessage(&out, decoded, 0)
				require.NoError(t, err)

				if bytes.Equal(in, out.Bytes()) {
					v.preserved++
					continue
				}
				v.dropped++
				if v.example == "" {
					v.example = hex.EncodeToString(in) +
						" -> " +
						hex.EncodeToString(out.Bytes())
				}
			}
		}

		names := make([]string, 0, len(results))
		for name := range results {
			names = append(names, name)
		}
		sort.Strings(names)

		for _, name := range names {
			v := results[name]
			t.Logf("unknown type %d: %-28s accepted=%2d "+
				"preserved=%2d dropped=%2d", unknownType, name,
				v.accepted, v.preserved, v.dropped)

			switch {
			case v.dropped == 0:

			case noExtension[name]:
				t.Logf("unknown type %d: %s has no extension "+
					"field, trailing bytes ignored",
					unknownType, name)

			case pureTLV[name] &&
				InUnsignedRange(tlv.Type(unknownType)):

				t.Logf("unknown type %d: %s drops the record "+
					"(unsigned range, by design)",
					unknownType, name)

			default:
				t.Errorf("unknown type %d: %s loses bytes on "+
					"decode->encode", unknownType, name)
			}
		}
	}
}
