package htlcswitch_test

import (
	"testing"

	"github.com/lightningnetwork/lnd/htlcswitch"
	"github.com/lightningnetwork/lnd/lnwire"
	"github.com/stretchr/testify/require"
)

// TestProbeDuplicateInKeyInsideBatch is the batch variant of the
// second-keystone defect: ONE OpenCircuits batch binds the same incoming HTLC
// to two outgoing HTLCs. The batch must be refused as a whole, nothing may be
// written.
func TestProbeDuplicateInKeyInsideBatch(t *testing.T) {
	t.Parallel()

	chan1 := lnwire.NewShortChanIDFromInt(1)
	chan2 := lnwire.NewShortChanIDFromInt(2)

	cfg, cm := newCircuitMap(t, false)

	c := probeCircuit(chan1, 1, hash1)
	_, err := cm.CommitCircuits(c)
	require.NoError(t, err)

	out1 := htlcswitch.CircuitKey{ChanID: chan2, HtlcID: 5}
	out2 := htlcswitch.CircuitKey{ChanID: chan2, HtlcID: 6}

	err = cm.OpenCircuits(
		htlcswitch.Keystone{InKey: c.Incoming, OutKey: out1},
		htlcswitch.Keystone{InKey: c.Incoming, OutKey: out2},
	)
	require.ErrorIs(t, err, htlcswitch.ErrDuplicateKeystone,
		"num_pending=%d num_open=%d", cm.NumPending(), cm.NumOpen())
	require.Equal(t, 0, cm.NumOpen())
	require.False(t, cm.LookupCircuit(c.Incoming).HasKeystone())

	// Nothing reached the disk either.
	_, cm = restartCircuitMap(t, cfg)
	require.Equal(t, 0, cm.NumOpen())
	require.Equal(t, 1, cm.NumPending())
}

// TestProbeRefusedBatchWritesNothing: a batch refused for a duplicate outgoing
// key leaves both circuits half-open in memory and on disk.
func TestProbeRefusedBatchWritesNothing(t *testing.T) {
	t.Parallel()

	chan1 := lnwire.NewShortChanIDFromInt(1)
	chan2 := lnwire.NewShortChanIDFromInt(2)

	cfg, cm := newCircuitMap(t, false)

	a := probeCircuit(chan1, 1, hash1)
	b := probeCircuit(chan1, 2, hash2)
	_, err := cm.CommitCircuits(a, b)
	require.NoError(t, err)

	out := htlcswitch.CircuitKey{ChanID: chan2, HtlcID: 5}
	err = cm.OpenCircuits(
		htlcswitch.Keystone{InKey: a.Incoming, OutKey: out},
		htlcswitch.Keystone{InKey: b.Incoming, OutKey: out},
	)
	require.ErrorIs(t, err, htlcswitch.ErrDuplicateKeystone)
	require.Equal(t, 0, cm.NumOpen())

	_, cm = restartCircuitMap(t, cfg)
	require.Equal(t, 0, cm.NumOpen())
	require.Equal(t, 2, cm.NumPending())
}
