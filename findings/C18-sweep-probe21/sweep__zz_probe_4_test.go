package sweep

import (
	"github.com/btcsuite/btcd/btcutil/v2"
	"github.com/lightningnetwork/lnd/input"
	"github.com/lightningnetwork/lnd/lnwallet/chainfee"
	"github.com/stretchr/testify/mock"
	"github.com/stretchr/testify/require"
	"testing"
	"time"
)

// Probe 4: an estimator answer below the relay fee (WebAPIEstimator only
// clamps to the constant 253 sat/kw floor, not to RelayFeePerKW; the bitcoind
// estimator returns an unclamped fallback fee on RPC failure) makes
// FeeEstimateInfo.Estimate return ErrFeePreferenceTooLow instead of clamping
// to the floor, and handleInitialTxError turns this into TxFatal: the inputs
// are abandoned for good instead of being offered at the relay floor.
func TestProbeLowEstimateAbandonsSweep(t *testing.T) {
	t.Parallel()

	tp, m := createTestPublisher(t)
	tp.currentHeight.Store(900)

	// Relay fee 4 sat/vb, estimate for a far deadline 2 sat/vb.
	m.estimator.On("RelayFeePerKW").Return(chainfee.SatPerKWeight(1000))
	m.estimator.On("EstimateFeePerKW", mock.Anything).Return(
		chainfee.SatPerKWeight(500), nil)

	// Let the tx be signed, accepted and published if we ever get there.
	m.signer.On("ComputeInputScript", mock.Anything,
		mock.Anything).Return(&input.Script{}, nil).Maybe()
	m.wallet.On("CheckMempoolAcceptance", mock.Anything).Return(nil).Maybe()
	m.wallet.On("PublishTransaction",
		mock.Anything, mock.Anything).Return(nil).Maybe()

	inp := createTestInput(1_000_000, input.WitnessKeyHash)
	req := &BumpRequest{
		DeliveryAddress: changePkScript,
		Inputs:          []input.Input{&inp},
		Budget:          btcutil.Amount(100_000),
		MaxFeeRate:      chainfee.SatPerKWeight(100_000),
		DeadlineHeight:  1000,
	}

	resultChan := tp.Broadcast(req)
	rec, ok := tp.records.Load(tp.requestCounter.Load())
	require.True(t, ok)
	tp.handleInitialBroadcast(rec)

	select {
	case <-time.After(time.Second):
		t.Fatal("no result")

	case result := <-resultChan:
		t.Logf("event=%v err=%v", result.Event, result.Err)
		require.NotEqual(t, TxFatal, result.Event, "sweep abandoned "+
			"because of a low estimator answer")

		// The sweep is offered at the relay fee instead.
		require.Equal(t, TxPublished, result.Event)
		require.Equal(t, chainfee.SatPerKWeight(1000), result.FeeRate)
	}
}
