package routerrpc

import (
	"context"
	"testing"

	"github.com/btcsuite/btcd/btcutil/v2"
	"github.com/btcsuite/btcd/chainhash/v2"
	graphdb "github.com/lightningnetwork/lnd/graph/db"
	"github.com/lightningnetwork/lnd/graph/db/models"
	"github.com/lightningnetwork/lnd/htlcswitch"
	"github.com/lightningnetwork/lnd/lnwallet"
	"github.com/lightningnetwork/lnd/lnwire"
	"github.com/lightningnetwork/lnd/routing"
	"github.com/lightningnetwork/lnd/routing/route"
	"github.com/stretchr/testify/require"
)

const probe1Height = 500_000

// probe1Chain only knows the best block.
type probe1Chain struct {
	lnwallet.BlockChainIO
}

func (c *probe1Chain) GetBestBlock() (*chainhash.Hash, int32, error) {
	return &chainhash.Hash{}, probe1Height, nil
}

// probe1Link is a local link that is always usable.
type probe1Link struct {
	htlcswitch.ChannelLink
}

func (l *probe1Link) EligibleToForward() bool { return true }

func (l *probe1Link) Bandwidth() lnwire.MilliSatoshi {
	return lnwire.NewMSatFromSatoshis(1_000_000)
}

func (l *probe1Link) MayAddOutgoingHtlc(lnwire.MilliSatoshi) error {
	return nil
}

// probe1Edge is one direction of a channel.
type probe1Edge struct {
	chanID   uint64
	from, to route.Vertex
	delta    uint16
}

// probe1Graph is a minimal routing.Graph.
type probe1Graph struct {
	edges []probe1Edge
}

func probe1Features() *lnwire.FeatureVector {
	return lnwire.NewFeatureVector(
		lnwire.NewRawFeatureVector(
			lnwire.TLVOnionPayloadRequired,
			lnwire.PaymentAddrOptional,
		), lnwire.Features,
	)
}

func (g *probe1Graph) ForEachNodeDirectedChannel(_ context.Context,
	node route.Vertex, cb func(*graphdb.DirectedChannel) error,
	_ func()) error {

	for _, e := range g.edges {
		e := e

		// Only the edges that arrive at node carry an in policy.
		if e.to != node {
			continue
		}

		err := cb(&graphdb.DirectedChannel{
			ChannelID:    e.chanID,
			OtherNode:    e.from,
			Capacity:     btcutil.Amount(1_000_000),
			OutPolicySet: true,
			InPolicy: &models.CachedEdgePolicy{
				ChannelID:     e.chanID,
				HasMaxHTLC:    true,
				TimeLockDelta: e.delta,
				MinHTLC:       1,
				MaxHTLC: lnwire.NewMSatFromSatoshis(
					1_000_000,
				),
				FeeBaseMSat: 1000,
				ToNodePubKey: func() route.Vertex {
					return e.to
				},
				ToNodeFeatures: probe1Features(),
			},
		})
		if err != nil {
			return err
		}
	}

	return nil
}

func (g *probe1Graph) FetchNodeFeatures(context.Context,
	route.Vertex) (*lnwire.FeatureVector, error) {

	return probe1Features(), nil
}

// probe1Server builds a Server that is backed by a real ChannelRouter over
// the graph self -> hop -> dest, where hop asks for hopDelta blocks.
func probe1Server(t *testing.T, maxTimelock uint32, finalDelta,
	hopDelta uint16) (*Server, route.Vertex) {

	self := route.Vertex{2, 1}
	hop := route.Vertex{2, 2}
	dest := route.Vertex{2, 3}

	graph := &probe1Graph{edges: []probe1Edge{
		// Both directions of both channels.
		{chanID: 1, from: self, to: hop, delta: 40},
		{chanID: 1, from: hop, to: self, delta: 40},
		{chanID: 2, from: hop, to: dest, delta: hopDelta},
		{chanID: 2, from: dest, to: hop, delta: hopDelta},
	}}

	router, err := routing.New(routing.Config{
		SelfNode:     self,
		RoutingGraph: graph,
		Chain:        &probe1Chain{},
		GetLink: func(lnwire.ShortChannelID) (htlcswitch.ChannelLink,
			error) {

			return &probe1Link{}, nil
		},
		PathFindingConfig: routing.PathFindingConfig{
			MinProbability: 0.01,
		},
	})
	require.NoError(t, err)

	return &Server{cfg: &Config{
		Router: router,
		RouterBackend: &RouterBackend{
			SelfNode:              self,
			MissionControl:        &mockMissionControl{},
			MaxTotalTimelock:      maxTimelock,
			DefaultFinalCltvDelta: finalDelta,
		},
	}}, dest
}

// TestProbe1EstimateRouteFeeRespectsMaxTimelock asserts that the graph based
// fee estimate never answers with a route whose total time lock (the final
// cltv delta included) exceeds the configured maximum total time lock.
func TestProbe1EstimateRouteFeeRespectsMaxTimelock(t *testing.T) {
	const (
		maxTimelock = 100
		finalDelta  = 80
	)

	// Control: 80 + 10 blocks fit in 100, a route must be found.
	s, dest := probe1Server(t, maxTimelock, finalDelta, 10)
	resp, err := s.probeDestination(dest[:], 1000, nil)
	require.NoError(t, err)
	require.EqualValues(
		t, int64(probe1Height)+finalDelta+10+int64(routing.BlockPadding),
		resp.TimeLockDelay,
	)

	// 80 + 40 blocks do not fit in 100: the only route there is exceeds
	// the limit, so no route may be returned.
	s, dest = probe1Server(t, maxTimelock, finalDelta, 40)
	resp, err = s.probeDestination(dest[:], 1000, nil)
	if err == nil {
		relative := resp.TimeLockDelay - probe1Height -
			int64(routing.BlockPadding)

		require.LessOrEqualf(t, relative, int64(maxTimelock),
			"EstimateRouteFee returned a route with a total time "+
				"lock of %d blocks, MaxTotalTimelock is %d",
			relative, maxTimelock)
	}
	require.Error(t, err)

	// A maximum that does not even leave room for the final delta is
	// refused, like it is for payments and QueryRoutes.
	s, dest = probe1Server(t, finalDelta, finalDelta, 10)
	_, err = s.probeDestination(dest[:], 1000, nil)
	require.Error(t, err)
}
