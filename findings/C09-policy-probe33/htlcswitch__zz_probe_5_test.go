package htlcswitch

import (
	"testing"

	"github.com/btcsuite/btcd/wire/v2"
	"github.com/lightningnetwork/lnd/graph/db/models"
	"github.com/lightningnetwork/lnd/lnwire"
	"github.com/stretchr/testify/require"
)

// policyRecordingLink is a mock link that remembers the last policy it was
// given.
type policyRecordingLink struct {
	*mockChannelLink
	got *models.ForwardingPolicy
}

func (p *policyRecordingLink) UpdateForwardingPolicy(
	policy models.ForwardingPolicy) {

	p.got = &policy
}

// TestProbePendingLinkMissesPolicyUpdate: Switch.UpdateForwardingPolicies only
// consults linkIndex, so a link that sits in pendingLinkIndex (short channel id
// still hop.Source) is silently skipped, while GetLink / RemoveLink find it.
func TestProbePendingLinkMissesPolicyUpdate(t *testing.T) {
	alicePeer, err := newMockServer(
		t, "alice", testStartingHeight, nil, testDefaultDelta,
	)
	require.NoError(t, err)

	s, err := initSwitchWithTempDB(t, testStartingHeight)
	require.NoError(t, err)
	require.NoError(t, s.Start())
	defer func() { _ = s.Stop() }()

	// Derive the channel id from an outpoint, as UpdateForwardingPolicies
	// is keyed by outpoint.
	op := wire.OutPoint{Index: 7}
	op.Hash[0] = 0x33
	chanID := lnwire.NewChanIDFromOutPoint(op)

	link := &policyRecordingLink{
		mockChannelLink: newMockChannelLink(
			s, chanID, lnwire.ShortChannelID{}, emptyScid,
			alicePeer, false, false, false, false,
		),
	}
	require.NoError(t, s.AddLink(link))

	// The switch knows the link (pending index).
	_, err = s.GetLink(chanID)
	require.NoError(t, err)

	newPolicy := models.ForwardingPolicy{BaseFee: 4242, FeeRate: 17}
	s.UpdateForwardingPolicies(
		map[wire.OutPoint]models.ForwardingPolicy{op: newPolicy},
	)

	require.NotNil(t, link.got, "pending link did not receive the "+
		"policy update")
	require.Equal(t, newPolicy, *link.got)
}
