// lndlint decides structural necessary conditions of the properties in
// /verif/properties.jsonl on the current working tree of /repo. See
// /verif/DESIGN.md.
package main

import (
	"encoding/json"
	"flag"
	"fmt"
	"os"
	"sort"
	"strconv"
	"strings"

	"lndlint/internal/an"
	"lndlint/internal/load"
	"lndlint/internal/spec"
)

func main() {
	if len(os.Args) < 2 {
		usage()
	}
	switch os.Args[1] {
	case "check":
		os.Exit(cmdCheck(os.Args[2:]))
	case "explain":
		os.Exit(cmdExplain(os.Args[2:]))
	case "guards":
		os.Exit(cmdGuards(os.Args[2:]))
	case "mutants":
		os.Exit(cmdMutants(os.Args[2:]))
	case "list":
		for _, id := range spec.IDs() {
			fmt.Println(id)
		}
	default:
		usage()
	}
}

func usage() {
	fmt.Fprintln(os.Stderr, "usage: lndlint check [-repo /repo] [-verif /verif] [-tier quick|thorough] Cxx... | explain <violation.json> | guards [-repo /repo] <pkg pattern> <funcID> | list")
	os.Exit(2)
}

func loadFor(repo string, s *spec.Spec, tags []string, env []string, overlay map[string][]byte) (*an.Prog, []map[string]any, error) {
	var loads []*load.Result
	var meta []map[string]any
	for _, l := range s.Loads {
		dir := repo
		if l.Dir != "" {
			dir = repo + "/" + l.Dir
		}
		res, err := load.Load(load.Config{Dir: dir, Patterns: l.Patterns, Tags: tags, Env: env, Overlay: overlay})
		if err != nil {
			return nil, nil, err
		}
		loads = append(loads, res)
		var roots []string
		for _, p := range res.Roots {
			roots = append(roots, an.Short(p.PkgPath))
		}
		meta = append(meta, map[string]any{"dir": dir, "patterns": l.Patterns, "tags": tags, "env": env, "root_packages": roots, "files_parsed": res.Files, "wall_s": res.WallS})
	}
	return an.NewProg(loads...), meta, nil
}

func cmdCheck(args []string) int {
	fs := flag.NewFlagSet("check", flag.ExitOnError)
	repo := fs.String("repo", "/repo", "repository root")
	verif := fs.String("verif", "/verif", "verif root")
	tier := fs.String("tier", "quick", "quick|thorough")
	fs.Parse(args)
	seed, _ := strconv.ParseInt(os.Getenv("VERIF_SEED"), 10, 64)
	rc := 0
	for _, id := range fs.Args() {
		s := spec.Get(id)
		if s == nil {
			fmt.Fprintf(os.Stderr, "unknown property %s\n", id)
			return 2
		}
		prog, meta, err := loadFor(*repo, s, nil, nil, nil)
		if err != nil {
			// a tree that does not load cannot be certified
			fmt.Printf("VIOLATION property=%s replay=%s/evidence/violations/%s-load.json\n  cannot analyse the tree: %v\n", id, *verif, id, err)
			os.MkdirAll(*verif+"/evidence/violations", 0o755)
			b, _ := json.Marshal(map[string]any{"property": id, "message": "load/type-check failure: " + err.Error()})
			os.WriteFile(fmt.Sprintf("%s/evidence/violations/%s-load.json", *verif, id), b, 0o644)
			rc = 1
			continue
		}
		run, err := an.NewRun(id, *tier, prog, *verif+"/known_findings.json")
		if err != nil {
			fmt.Fprintln(os.Stderr, err)
			return 2
		}
		run.Extra["explanation"] = s.Explanation
		run.Extra["assumptions"] = s.Assumptions
		run.Extra["not_decided"] = s.NotDecided
		s.Run(run)
		if *tier == "thorough" {
			spec.Thorough(run, s, *repo, loadFor)
		}
		if c := run.Finish(*verif, seed, meta); c > rc {
			rc = c
		}
	}
	return rc
}

func cmdExplain(args []string) int {
	if len(args) != 1 {
		usage()
	}
	b, err := os.ReadFile(args[0])
	if err != nil {
		fmt.Fprintln(os.Stderr, err)
		return 2
	}
	var m map[string]any
	if err := json.Unmarshal(b, &m); err != nil {
		fmt.Fprintln(os.Stderr, err)
		return 2
	}
	keys := make([]string, 0, len(m))
	for k := range m {
		keys = append(keys, k)
	}
	sort.Strings(keys)
	for _, k := range keys {
		fmt.Printf("%-18s %v\n", k+":", m[k])
	}
	fmt.Println("re-run: ./check " + fmt.Sprint(m["property"]) + " quick")
	return 0
}

// cmdGuards prints, for every call and return of a function, the atoms that
// hold on all paths to it. A development aid for writing spec tables.
func cmdGuards(args []string) int {
	fs := flag.NewFlagSet("guards", flag.ExitOnError)
	repo := fs.String("repo", "/repo", "repository root")
	dir := fs.String("dir", "", "module sub-directory")
	fs.Parse(args)
	if fs.NArg() < 2 {
		usage()
	}
	d := *repo
	if *dir != "" {
		d += "/" + *dir
	}
	res, err := load.Load(load.Config{Dir: d, Patterns: strings.Split(fs.Arg(0), ",")})
	if err != nil {
		fmt.Fprintln(os.Stderr, err)
		return 2
	}
	prog := an.NewProg(res)
	for _, id := range fs.Args()[1:] {
		f := prog.FuncOpt(id)
		if f == nil {
			fmt.Printf("no function %s; candidates:\n", id)
			for _, c := range prog.Funcs(true) {
				if strings.Contains(c.ID, id) {
					fmt.Println("  ", c.ID)
				}
			}
			continue
		}
		fmt.Printf("== %s (%d vertices)\n", f.ID, len(f.Graph().V))
		for _, s := range f.AllCalls(false) {
			fmt.Printf("call %s\n", s.String())
			for _, g := range f.GuardsAt(s) {
				fmt.Printf("      | %s\n", g)
			}
		}
		for _, s := range f.Returns() {
			fmt.Printf("ret(%d) %s\n", f.ClassifyReturn(s), s.String())
			for _, g := range f.GuardsAt(s) {
				fmt.Printf("      | %s\n", g)
			}
		}
	}
	return 0
}

// cmdMutants runs only the witness mutants of the given properties.
func cmdMutants(args []string) int {
	fs := flag.NewFlagSet("mutants", flag.ExitOnError)
	repo := fs.String("repo", "/repo", "repository root")
	only := fs.String("only", "", "substring of the mutant name")
	fs.Parse(args)
	rc := 0
	for _, id := range fs.Args() {
		s := spec.Get(id)
		if s == nil {
			fmt.Fprintf(os.Stderr, "unknown property %s\n", id)
			return 2
		}
		for _, m := range spec.RunMutants(s, *repo, loadFor, *only) {
			fmt.Printf("%-8s %-9s %-50s expect=%s by=%v %s\n", id, m.Status, m.Name, m.Expect, m.KilledBy, m.Detail)
			if m.Status != "killed" {
				rc = 1
			}
		}
	}
	return rc
}
