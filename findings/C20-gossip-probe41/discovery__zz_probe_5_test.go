package discovery

import (
	"sync/atomic"
	"testing"
	"time"

	"github.com/lightningnetwork/lnd/lnwire"
	"github.com/stretchr/testify/require"
)

// TestProbeDontForwardUpdateNotRelayed: BOLT 7 defines bit 1 of a
// channel_update's message_flags as dont_forward. An otherwise valid update on
// a proven channel carrying that bit should be applied but not be relayed to
// other peers.
func TestProbeDontForwardUpdateNotRelayed(t *testing.T) {
	t.Parallel()
	ctx := t.Context()

	const dontForward = lnwire.ChanUpdateMsgFlags(1 << 1)

	tCtx, err := createTestCtx(t, 0, false)
	require.NoError(t, err)

	peer := &mockPeer{remoteKeyPriv1.PubKey(), nil, nil, atomic.Bool{}}

	ca, err := tCtx.createRemoteChannelAnnouncement(0)
	require.NoError(t, err)
	err = mustProcess(t, tCtx.gossiper.ProcessRemoteAnnouncement(
		ctx, ca, peer,
	))
	require.NoError(t, err)
	select {
	case <-tCtx.broadcastedMessage:
	case <-time.After(2 * trickleDelay):
		t.Fatal("channel announcement wasn't relayed")
	}

	ua, err := createUpdateAnnouncement(
		0, 0, remoteKeyPriv1, testTimestamp,
	)
	require.NoError(t, err)
	ua.MessageFlags |= dontForward
	require.NoError(t, signUpdate(remoteKeyPriv1, ua))

	err = mustProcess(t, tCtx.gossiper.ProcessRemoteAnnouncement(
		ctx, ua, peer,
	))
	require.NoError(t, err)

	select {
	case msg := <-tCtx.broadcastedMessage:
		t.Fatalf("update with dont_forward was relayed: %T", msg.msg)
	case <-time.After(2 * trickleDelay):
	}
}
