package spec

import (
	"fmt"
	"go/ast"
	"go/token"
	"regexp"
	"sort"
	"strings"

	"lndlint/internal/an"
)

func init() {
	register(&Spec{
		ID:          "C17",
		Loads:       []LoadSpec{{Patterns: []string{"./lnwallet", "./lnwallet/chancloser", "./peer"}}},
		Explanation: "Decides that proposal and completion derive the closing transaction from the same inputs (same balance computation, dust limits, scripts and forwarded options), that the two halves of the transaction builder are each other's mirror image (own balance against own dust limit, own script), that the final balances credit the dangling commit fee and the anchors to the opener and charge the closing fee to the payer and fail when negative, that completion marks the channel closed and returns only after the script engine accepted the witness built from (our key, our sig, their key, their sig) against the funding output, and that the legacy negotiation calls the compromise function with (ideal, last sent, remote) in that order, the compromise function moves towards the remote offer in every order region, a proposal above the fee cap is never signed by the opener and completion uses our stored signature for exactly the fee the peer proposed; for the RBF flow that the terms announced in closing_complete / closing_sig (fee, scripts, lock time) are the terms signed, that the closee omits the closer's output in both halves exactly when the selected signature is the closee_output_only one and answers in the matching field, that a refused event leaves the shared close terms unchanged, that the balances handed to the state machine by package peer carry the opener's credit of CoopCloseBalance, that the legacy closer's dust predicates are the negation of the builder's keep condition on the credited balance for the channel's dust limits, that every dust decision of the RBF flow (the predicates of the close terms, the outputs the fee is priced on, the labels of closing_complete) and the builder under the script-dust-limits option, which all three RBF states place, use the dust limit of the judged party's own delivery script, that every fee estimate prices the type of the channel being closed and the outputs derived for the transaction, and that the legacy closer enters the negotiation state before it replays a stashed offer or makes its first one.",
		NotDecided: []string{
			"byte-identity of the two sides' transactions (only that each side feeds the builder the mirrored inputs)", "the numeric termination bound of the negotiation",
			"the RBF cooperative close state machine beyond the agreement of the options, scripts, fee and announced terms between the signing and the completing half of each flow, the closee's choice of the transaction version, the restoration of the shared terms and the balances it is handed", "signature validity (delegated to the script engine call whose dominance is decided)",
		},
		Assumptions: commonAssumptions,
		Engines:     "MIRROR, ROLE, TABLE, PATH, GUARD",
		TagMatrix:   [][]string{{"integration"}},
		Run:         runC17,
	})
}

// halfCanon lists canonical renderings of the conditions, calls and
// assignments inside node (function literals included through their own
// functions).
func halfCanon(f *an.Func, node ast.Node) []string {
	var out []string
	var walk func(fn *an.Func, n ast.Node)
	walk = func(fn *an.Func, n ast.Node) {
		ast.Inspect(n, func(m ast.Node) bool {
			switch x := m.(type) {
			case *ast.FuncLit:
				walk(fn.LitFunc(x), x.Body)
				return false
			case *ast.IfStmt:
				out = append(out, "if "+fn.Canon(x.Cond))
			case *ast.AssignStmt:
				for i := range x.Lhs {
					if i < len(x.Rhs) {
						out = append(out, fn.Canon(x.Lhs[i])+" "+x.Tok.String()+" "+fn.Canon(x.Rhs[i]))
					}
				}
			case *ast.ExprStmt:
				if c, ok := x.X.(*ast.CallExpr); ok {
					if _, isLit := c.Args, false; !isLit {
						hasLit := false
						for _, a := range c.Args {
							if _, ok := a.(*ast.FuncLit); ok {
								hasLit = true
							}
						}
						if !hasLit {
							out = append(out, fn.Canon(c))
						} else {
							out = append(out, "call "+fn.Canon(c.Fun))
						}
					}
				}
			case *ast.KeyValueExpr:
				out = append(out, an.Text(x.Key)+": "+fn.Canon(x.Value))
			}
			return true
		})
	}
	walk(f, node)
	return out
}

var paramRe = regexp.MustCompile(`\$p(\d+)\b`)

func swapParams(s string, pairs map[string]string) string {
	return paramRe.ReplaceAllStringFunc(s, func(m string) string {
		if t, ok := pairs[m[2:]]; ok {
			return "$p" + t
		}
		return m
	})
}

func runC17(r *an.Run) {
	p := r.Prog
	lc := lw + "LightningChannel."

	r.Obl("proposal-and-completion-same-inputs", "ROLE",
		"CreateCloseProposal and CompleteCooperativeClose both call CoopCloseBalance(chan type, is-initiator, the proposed fee, local commitment's local balance, its remote balance, its commit fee, custom payer) and CreateCooperativeCloseTx(funding input, local dust limit, remote dust limit, the two computed balances in order, local script, remote script, options), and forward the same set of close options; the two dust limits are, in this order and written by nothing else, the results of the one call coopCloseDustLimits(the applied close options, local script, remote script) each function makes with the scripts it hands the builder, and coopCloseDustLimits returns the channel's configured limits (LocalChanCfg.DustLimit, RemoteChanCfg.DustLimit) exactly when the script-dust-limits option is not set and (DustLimitForSize(len(local script)), DustLimitForSize(len(remote script))) exactly when it is; the two balances handed to the builder are the results of that one call, written by nothing else, except that both functions set the remote balance to zero between the two calls exactly when the omit-remote-output option of the applied close options is set (the same statement under the same single condition in both)",
		"a proposal signed over one transaction and a completion built from another never verifies; swapped dust limits or balances pay the wrong party; dust limits taken from another basis than the flow's (or from the other party's script) drop or keep an output the peer keeps or drops", 10,
		func(o *an.Obl) {
			optSets := map[string][]string{}
			zeroings := map[string]string{}
			c17f5DustLimitHelper(o, p)
			for _, name := range []string{"CreateCloseProposal", "CompleteCooperativeClose"} {
				f := p.Func(lc + name)
				// role of parameters by type
				var fee string
				var scripts []string
				for i, pv := range f.Params(false) {
					if pv == nil {
						continue
					}
					switch an.TypeID(pv.Type()) {
					case "btcutil.Amount", "github.com/btcsuite/btcd/btcutil/v2.Amount", "v2.Amount":
						fee = fmt.Sprintf("$p%d", i)
					case "[]byte":
						scripts = append(scripts, fmt.Sprintf("$p%d", i))
					}
				}
				if fee == "" || len(scripts) != 2 {
					o.FailAt(f.ID+"#params", f.Where(f.Body.Pos()), "cannot identify the fee and script parameters of %s (fee=%q scripts=%v)", name, fee, scripts)
					continue
				}
				cs := "$recv.channelState."
				bal := f.Calls(an.CalleeIs(lw+"CoopCloseBalance"), false)
				if needExactly(o, f, "CoopCloseBalance", bal, 1) {
					a := f.ArgCanon(bal[0])
					want := []string{cs + "ChanType", cs + "IsInitiator", fee, cs + "LocalCommitment.LocalBalance.ToSatoshis()", cs + "LocalCommitment.RemoteBalance.ToSatoshis()", cs + "LocalCommitment.CommitFee"}
					o.Site("%s: CoopCloseBalance%v", name, a)
					for i, w := range want {
						if a[i] != w {
							o.FailAt(f.ID+"#balance-arg-"+fmt.Sprint(i), bal[0].Where(), "%s passes %s as argument %d of CoopCloseBalance, expected %s", name, a[i], i, w)
						}
					}
					if !strings.HasSuffix(a[6], ".customPayer") {
						o.FailAt(f.ID+"#payer", bal[0].Where(), "%s passes %s as fee payer", name, a[6])
					}
				}
				tx := f.Calls(an.CalleeIs(lw+"CreateCooperativeCloseTx"), false)
				if needExactly(o, f, "CreateCooperativeCloseTx", tx, 1) {
					c := tx[0].Node.(*ast.CallExpr)
					a := f.ArgCanon(tx[0])
					o.Site("%s: CreateCooperativeCloseTx(%s, %s, %s, %s, %s, %s, %s)", name, a[0], a[1], a[2], an.Text(c.Args[3]), an.Text(c.Args[4]), a[5], a[6])
					want := map[int]string{0: lw + "fundingTxIn($recv.channelState)", 5: scripts[0], 6: scripts[1]}
					for i, w := range want {
						if a[i] != w {
							o.FailAt(f.ID+"#tx-arg-"+fmt.Sprint(i), tx[0].Where(), "%s passes %s as argument %d of CreateCooperativeCloseTx, expected %s", name, a[i], i, w)
						}
					}
					// the dust limits (arguments 1 and 2): results of the one
					// coopCloseDustLimits call, made for the applied options and
					// the scripts the builder receives
					if len(bal) == 1 {
						c17f5DustArguments(o, f, name, tx[0], bal[0], scripts)
					}
					// balances are results #0 and #1 of the balance call; the
					// remote one may only be zeroed when the remote output
					// is omitted (same handling in both functions)
					zeroings[name] = c17f4CloseBalances(o, f, name, tx[0], bal)
					mustPass(o, f, "CoopCloseBalance", bal, an.OkErrNil, tx)
				}
				// forwarded options
				var optNames []string
				for _, lf := range append([]*an.Func{f}, f.Lits...) {
					for _, s := range lf.AllCalls(false) {
						id := an.CalleeID(lf.Info(), s.Node.(*ast.CallExpr))
						if strings.HasPrefix(id, lw+"With") {
							optNames = append(optNames, strings.TrimPrefix(id, lw))
						}
					}
				}
				sort.Strings(optNames)
				optSets[name] = optNames
				o.Site("%s forwards %v", name, optNames)
				// sanity check precedes use
				san := f.Calls(an.CalleeNamed("CheckTransactionSanity"), false)
				need(o, f, "CheckTransactionSanity", san, 1)
			}
			if a, b := strings.Join(optSets["CreateCloseProposal"], ","), strings.Join(optSets["CompleteCooperativeClose"], ","); a != b || a == "" {
				o.FailAt(lc+"CompleteCooperativeClose#options", "", "the proposal forwards options [%s] but the completion [%s]", a, b)
			}
			if a, b := zeroings["CreateCloseProposal"], zeroings["CompleteCooperativeClose"]; a != b || a == "" {
				o.FailAt(lc+"CompleteCooperativeClose#omitted-output", "", "the proposal adjusts the computed balances by [%s] but the completion by [%s]: a transaction signed without the remote output is completed with it (or the reverse)", a, b)
			}
		})

	r.Obl("close-tx-halves-mirror", "MIRROR",
		"CreateCooperativeCloseTx: the local output exists iff ourBalance >= localDust and carries (ourDeliveryScript, ourBalance); the remote half is the same code with (theirBalance, remoteDust, theirDeliveryScript); the extra-output handling of each party compares against that party's dust limit",
		"testing one party's balance against the other's dust limit drops (or keeps) an output the peer keeps (drops): the two sides build different transactions and the signatures never match", 5,
		func(o *an.Obl) {
			f := p.Func(lw + "CreateCooperativeCloseTx")
			swap := map[string]string{"1": "2", "2": "1", "3": "4", "4": "3", "5": "6", "6": "5"}
			// the two output blocks are recognised by what their condition
			// compares (balance and dust limit parameters of one party), in
			// either operand order, with or without a temporary
			keepOps, keepIfs := c17BuilderKeeps(f)
			var ifs []*ast.IfStmt
			for _, party := range []string{"Local", "Remote"} {
				if x := keepIfs[party]; x != nil {
					ifs = append(ifs, x)
				}
			}
			if len(ifs) != 2 {
				o.FailAt(f.ID+"#halves", f.Where(f.Body.Pos()), "expected the local output block (ourBalance against localDust) and the remote output block (theirBalance against remoteDust), found %d", len(ifs))
				return
			}
			o.Site("local output iff $p3 %s $p1; remote output iff $p4 %s $p2", keepOps["Local"], keepOps["Remote"])
			if keepOps["Local"] != token.GEQ {
				o.FailAt(f.ID+"#local-dust-test", f.Where(ifs[0].Pos()), "the local output exists iff ourBalance %s localDust, expected ourBalance >= localDust", keepOps["Local"])
			}
			if keepOps["Remote"] != token.GEQ {
				o.FailAt(f.ID+"#remote-dust-test", f.Where(ifs[1].Pos()), "the remote output exists iff theirBalance %s remoteDust, expected theirBalance >= remoteDust", keepOps["Remote"])
			}
			a, b := halfCanon(f, ifs[0].Body), halfCanon(f, ifs[1].Body)
			for i := range a {
				a[i] = swapParams(a[i], swap)
			}
			o.Site("local half (mirrored): %v", a)
			o.Site("remote half: %v", b)
			if strings.Join(a, " ; ") != strings.Join(b, " ; ") {
				o.FailAt(f.ID+"#halves-differ", f.Where(ifs[1].Pos()), "the remote output block is not the mirror image of the local one:\n  local (mirrored): %v\n  remote: %v", a, b)
			}
			// extra outputs
			// a two-way decision on <x>.IsLocal: a tagless switch with the
			// cases IsLocal / !IsLocal (or default), or an if/else on IsLocal
			// or its negation. arms[0] is the local arm, arms[1] the remote.
			isLocalSel := func(e ast.Expr) (isLocal, negated bool) {
				e = ast.Unparen(e)
				if u, ok := e.(*ast.UnaryExpr); ok && u.Op == token.NOT {
					l, n := isLocalSelPlain(u.X)
					return l, !n
				}
				return isLocalSelPlain(e)
			}
			var armNodes [2]*ast.BlockStmt
			var armPos [2]token.Pos
			found := false
			ast.Inspect(f.Body, func(n ast.Node) bool {
				if found {
					return false
				}
				switch x := n.(type) {
				case *ast.SwitchStmt:
					if x.Tag != nil || len(x.Body.List) != 2 {
						return true
					}
					var got [2]*ast.CaseClause
					okSw := true
					for _, cl := range x.Body.List {
						cc := cl.(*ast.CaseClause)
						switch {
						case len(cc.List) == 0:
							// default: the complement of the other arm
						case len(cc.List) == 1:
							l, neg := isLocalSel(cc.List[0])
							if !l {
								okSw = false
							} else if neg {
								got[1] = cc
							} else {
								got[0] = cc
							}
						default:
							okSw = false
						}
					}
					if !okSw || (got[0] == nil && got[1] == nil) {
						return true
					}
					for _, cl := range x.Body.List {
						cc := cl.(*ast.CaseClause)
						if len(cc.List) == 0 {
							// a default arm runs only when the other case fails;
							// when it comes first in the source it still is
							// evaluated last
							if got[0] == nil {
								got[0] = cc
							} else if got[1] == nil {
								got[1] = cc
							}
						}
					}
					if got[0] == nil || got[1] == nil || got[0] == got[1] {
						return true
					}
					for i := range got {
						armNodes[i] = &ast.BlockStmt{List: got[i].Body}
						armPos[i] = got[i].Pos()
					}
					found = true
				case *ast.IfStmt:
					l, neg := isLocalSel(x.Cond)
					els, isBlock := x.Else.(*ast.BlockStmt)
					if !l || x.Init != nil || !isBlock {
						return true
					}
					if neg {
						armNodes[0], armNodes[1] = els, x.Body
					} else {
						armNodes[0], armNodes[1] = x.Body, els
					}
					armPos[0], armPos[1] = armNodes[0].Pos(), armNodes[1].Pos()
					found = true
				}
				return !found
			})
			if !found {
				o.FailAt(f.ID+"#extra-switch", f.Where(f.Body.Pos()), "cannot find the two-armed extra output switch")
				return
			}
			var arms [2][]string
			for i := range armNodes {
				arms[i] = halfCanon(f, armNodes[i])
				o.Site("extra outputs, %s arm: %v", []string{"local", "remote"}[i], arms[i])
			}
			la := strings.Join(arms[0], " ; ")
			if !strings.Contains(la, "<= $p1)") || strings.Contains(la, "<= $p2)") {
				o.FailAt(f.ID+"#extra-local-dust", f.Where(armPos[0]), "the local extra output is not tested against localDust: %v", arms[0])
			}
			for i := range arms[0] {
				arms[0][i] = swapParams(arms[0][i], swap)
			}
			if strings.Join(arms[0], " ; ") != strings.Join(arms[1], " ; ") {
				o.FailAt(f.ID+"#extra-halves-differ", f.Where(armPos[1]), "the remote extra-output arm is not the mirror image of the local one:\n  local (mirrored): %v\n  remote: %v", arms[0], arms[1])
			}
		})

	r.Obl("final-balances", "TABLE",
		"CoopCloseBalance: the opener is credited commitFee (+ 2*AnchorSize for anchor channels) - ours if we are the initiator, theirs otherwise; the closing fee is subtracted from the payer's balance, the payer defaulting to the initiator; a negative balance is an error; the results are returned as (ours, theirs); the inputs identified by position (channel type, initiator flag, closing fee, commit fee, custom payer) are never overwritten, the two balances are written by nothing but these four updates, the credit by nothing but its definition and the anchor increase, and the non-negative tests see the final balances",
		"crediting the non-opener or charging the non-payer shifts money between the parties on every cooperative close", 9,
		func(o *an.Obl) {
			c17FinalBalances(o, p.Func(lw+"CoopCloseBalance"))
		})

	r.Obl("completion-only-after-script-verification", "PATH",
		"CompleteCooperativeClose sets isClosed and returns the transaction only after CheckTransactionSanity, NewEngine and vm.Execute succeeded; the engine is run against the funding output (lc.signDesc.Output script and value) on the transaction whose witness was just set; the witness pairs (our multisig key, localSig) and (their multisig key, remoteSig); CreateCloseProposal signs only after CheckTransactionSanity succeeded and signs the transaction it returns",
		"a completed close that was not verified against the funding output may be unspendable: the channel is marked closed with an invalid transaction", 8,
		func(o *an.Obl) {
			f := p.Func(lc + "CompleteCooperativeClose")
			closed := f.Assigns(an.FieldPath(an.Recv(), "isClosed"), false)
			targets := append([]an.Site{}, closed...)
			targets = append(targets, f.StrictSuccessReturnsOrNilPtr()...)
			need(o, f, "isClosed = true", closed, 1)
			for _, c := range []string{"CheckTransactionSanity", "NewEngine", "Execute"} {
				mustPass(o, f, c, f.Calls(an.CalleeNamed(c), false), an.OkErrNil, targets)
			}
			eng := f.Calls(an.CalleeNamed("NewEngine"), false)
			if needExactly(o, f, "NewEngine", eng, 1) {
				a := f.ArgCanon(eng[0])
				o.Site("NewEngine script=%s value=%s", a[0], a[6])
				if a[0] != "$recv.signDesc.Output.PkScript" || a[6] != "$recv.signDesc.Output.Value" {
					o.FailAt(f.ID+"#engine-prevout", eng[0].Where(), "the script engine checks against (%s, %s), expected the funding output of the sign descriptor", a[0], a[6])
				}
				if !strings.HasPrefix(a[1], lw+"CreateCooperativeCloseTx(") {
					o.FailAt(f.ID+"#engine-tx", eng[0].Where(), "the script engine runs on %s", a[1])
				}
			}
			ms := f.Calls(an.CalleeNamed("SpendMultiSig"), false)
			if needExactly(o, f, "SpendMultiSig", ms, 1) {
				a := f.ArgCanon(ms[0])
				o.Site("SpendMultiSig%v", a)
				if !strings.Contains(a[1], "LocalChanCfg.MultiSigKey") || a[2] != "$p0" || !strings.Contains(a[3], "RemoteChanCfg.MultiSigKey") || a[4] != "$p1" {
					o.FailAt(f.ID+"#witness-pairing", ms[0].Where(), "the witness pairs keys and signatures as %v, expected (our key, localSig, their key, remoteSig)", a[1:])
				}
			}
			g := p.Func(lc + "CreateCloseProposal")
			signs := g.Calls(an.CalleeNamed("SignOutputRaw", "SignCommit"), false)
			if need(o, g, "signing call", signs, 2) {
				mustPass(o, g, "CheckTransactionSanity", g.Calls(an.CalleeNamed("CheckTransactionSanity"), false), an.OkErrNil, signs)
				for _, s := range signs {
					if a := g.ArgCanon(s); !strings.HasPrefix(a[0], lw+"CreateCooperativeCloseTx(") {
						o.FailAt(g.ID+"#signed-tx", s.Where(), "the proposal signs %s", a[0])
					}
				}
			}
			for _, s := range g.StrictSuccessReturnsOrNilPtr() {
				rs := s.Node.(*ast.ReturnStmt)
				if c := g.Canon(rs.Results[1]); !strings.HasPrefix(c, lw+"CreateCooperativeCloseTx(") {
					o.FailAt(g.ID+"#returned-tx", s.Where(), "the proposal returns %s", c)
				}
			}
		})

	r.Obl("legacy-negotiation", "TABLE",
		"calcCompromiseFee(ideal, lastSent, remote): ideal when remote == ideal or nothing was sent yet; lastSent when remote == lastSent; for remote < lastSent the remote offer if acceptable else ratchetFee(lastSent, down); for remote > lastSent the remote offer if acceptable else ratchetFee(lastSent, up); ratchetFee moves by +-10%% in the stated direction; feeInAcceptableRange accepts remote within 30%% on the side it lies; ReceiveClosingSigned passes (c.idealFeeSat, c.lastFeeProposal, remote fee) in that order, never signs a proposal above maxFee as initiator, and completes with our stored signature for exactly the fee the peer proposed; proposeCloseSigned stores the one closing_signed message it built for the fee under that fee, after the proposal was created",
		"a compromise step away from the peer's offer (or computed from swapped operands) never converges; completing with a signature made for another fee yields an invalid transaction", 22,
		func(o *an.Obl) {
			cc := "lnwallet/chancloser."
			f := p.Func(cc + "calcCompromiseFee")
			type row struct {
				ideal, last, remote int64
				want                []string
			}
			ret := func(s an.Site) string { return f.Canon(s.Node.(*ast.ReturnStmt).Results[0]) }
			down := cc + "ratchetFee($p2, false)"
			up := cc + "ratchetFee($p2, true)"
			rows := []row{
				{100, 0, 50, []string{"$p1"}}, {100, 0, 100, []string{"$p1"}}, {100, 0, 150, []string{"$p1"}},
				{100, 80, 100, []string{"$p1"}}, {100, 120, 100, []string{"$p1"}},
				{100, 80, 80, []string{"$p2"}},
				{100, 80, 50, []string{"$p3", down}}, {100, 120, 110, []string{"$p3", down}},
				{100, 80, 90, []string{"$p3", up}}, {100, 120, 200, []string{"$p3", up}},
			}
			for _, rw := range rows {
				env := an.IntEnv{Ints: map[string]int64{"$p1": rw.ideal, "$p2": rw.last, "$p3": rw.remote}}
				reach := f.ReachUnder(env.Decide())
				var got []string
				for _, s := range f.Returns() {
					if reach[s.V] {
						got = append(got, ret(s))
					}
				}
				sort.Strings(got)
				w := append([]string{}, rw.want...)
				sort.Strings(w)
				o.Site("ideal=%d last=%d remote=%d -> %v", rw.ideal, rw.last, rw.remote, got)
				if strings.Join(got, " | ") != strings.Join(w, " | ") {
					o.FailAt(f.ID+fmt.Sprintf("#row-%d-%d-%d", rw.ideal, rw.last, rw.remote), f.Where(f.Body.Pos()), "for ideal=%d lastSent=%d remote=%d the compromise is %v, expected %v", rw.ideal, rw.last, rw.remote, got, w)
				}
			}
			// capitulation only when acceptable
			for _, s := range f.Returns() {
				if ret(s) == "$p3" {
					if ok, _ := f.Guarded(s, an.Truth(an.CallTo(cc+"feeInAcceptableRange", nil), true, "")); ok {
						for _, c := range f.Calls(an.CalleeIs(cc+"feeInAcceptableRange"), false) {
							if a := f.ArgCanon(c); a[0] != "$p2" || a[1] != "$p3" {
								o.FailAt(f.ID+"#acceptable-args", c.Where(), "feeInAcceptableRange is called with (%s, %s), expected (lastSent, remote)", a[0], a[1])
							}
						}
					}
				}
			}
			rf := p.Func(cc + "ratchetFee")
			for _, s := range rf.Returns() {
				c := rf.Canon(s.Node.(*ast.ReturnStmt).Results[0])
				upB, _ := rf.Guarded(s, an.Truth(an.Param(1), true, ""))
				o.Site("ratchetFee(up=%v) = %s", upB, c)
				want := "($p0 - (($p0 * 1) / 10))"
				if upB {
					want = "($p0 + (($p0 * 1) / 10))"
				}
				if c != want {
					o.FailAt(rf.ID+"#step", s.Where(), "ratchetFee(up=%v) returns %s, expected %s", upB, c, want)
				}
			}
			ar := p.Func(cc + "feeInAcceptableRange")
			for _, s := range ar.Returns() {
				c := ar.Canon(s.Node.(*ast.ReturnStmt).Results[0])
				lt, _ := ar.Guarded(s, an.CmpX(an.Param(0), an.LT, an.Param(1), ""))
				o.Site("feeInAcceptableRange(local<remote=%v) = %s", lt, c)
				want := "($p1 >= ($p0 - (($p0 * 3) / 10)))"
				if lt {
					want = "($p1 <= ($p0 + (($p0 * 3) / 10)))"
				}
				if c != want {
					o.FailAt(ar.ID+"#range", s.Where(), "feeInAcceptableRange returns %s for local<remote=%v, expected %s", c, lt, want)
				}
			}
			// the call site
			g := p.Func(cc + "ChanCloser.ReceiveClosingSigned")
			cs := g.Calls(an.CalleeIs(cc+"calcCompromiseFee"), false)
			if needExactly(o, g, "calcCompromiseFee", cs, 1) {
				a := g.ArgCanon(cs[0])
				o.Site("calcCompromiseFee%v", a)
				if a[1] != "$recv.idealFeeSat" || a[2] != "$recv.lastFeeProposal" || a[3] != "$p0.FeeSatoshis" {
					o.FailAt(g.ID+"#compromise-args", cs[0].Where(), "calcCompromiseFee is called with (%s, %s, %s), expected (ideal fee, last sent fee, remote fee)", a[1], a[2], a[3])
				}
			}
			for _, s := range g.Calls(an.CalleeIs(cc+"ChanCloser.proposeCloseSigned"), false) {
				a := g.ArgCanon(s)
				if strings.HasPrefix(a[0], cc+"calcCompromiseFee(") {
					guarded(o, g, s, an.AnyOf("not the initiator, or proposal <= maxFee",
						an.Truth(an.CallNamed("IsInitiator", nil), false, ""),
						an.CmpX(an.LocalNamed("proposal"), an.LE, an.FieldPath(an.Recv(), "maxFee"), "")))
				}
			}
			comp := g.Calls(an.CalleeNamed("CompleteCooperativeClose"), false)
			if needExactly(o, g, "CompleteCooperativeClose", comp, 1) {
				a := g.ArgCanon(comp[0])
				o.Site("CompleteCooperativeClose%v", a)
				if a[2] != "$recv.localDeliveryScript" || a[3] != "$recv.remoteDeliveryScript" || a[4] != "$p0.FeeSatoshis" {
					o.FailAt(g.ID+"#completion-args", comp[0].Where(), "completion is called with scripts (%s, %s) and fee %s", a[2], a[3], a[4])
				}
				for _, s := range g.Assigns(an.LocalNamed("matchingSig"), false) {
					if c := g.Canon(s.Node.(*ast.AssignStmt).Rhs[0]); c != "$recv.priorFeeOffers[$p0.FeeSatoshis]" {
						o.FailAt(g.ID+"#matching-sig", s.Where(), "our signature is looked up as %s, expected the offer stored for the peer's fee", c)
					}
				}
			}
			ps := p.Func(cc + "ChanCloser.proposeCloseSigned")
			prop := ps.Calls(an.CalleeNamed("CreateCloseProposal"), false)
			if needExactly(o, ps, "CreateCloseProposal", prop, 1) {
				a := ps.ArgCanon(prop[0])
				if a[0] != "$p0" || a[1] != "$recv.localDeliveryScript" || a[2] != "$recv.remoteDeliveryScript" {
					o.FailAt(ps.ID+"#proposal-args", prop[0].Where(), "the proposal is created with (%s, %s, %s)", a[0], a[1], a[2])
				}
				nStored := 0
				for _, v := range ps.Graph().V {
					as, ok := v.Node.(*ast.AssignStmt)
					if !ok || len(as.Lhs) != 1 {
						continue
					}
					l := ps.Canon(as.Lhs[0])
					if l == "$recv.lastFeeProposal" || strings.HasPrefix(l, "$recv.priorFeeOffers[") {
						s := an.Site{Fn: ps, V: v, Node: as}
						o.Site("%s", s.String())
						mustPass(o, ps, "CreateCloseProposal", prop, an.OkErrNil, []an.Site{s})
						if l == "$recv.lastFeeProposal" && ps.Canon(as.Rhs[0]) != "$p0" {
							o.FailAt(ps.ID+"#last-fee", s.Where(), "lastFeeProposal is set to %s", an.Text(as.Rhs[0]))
						}
						if l != "$recv.lastFeeProposal" {
							// the signed offer is filed under the fee it was signed for
							nStored++
							if l != "$recv.priorFeeOffers[$p0]" {
								o.FailAt(ps.ID+"#offer-key", s.Where(), "the signed offer is stored as %s, expected under the fee it was signed for (completion looks our signature up by the peer's fee)", an.Text(as.Lhs[0]))
							}
							if len(as.Rhs) != 1 || !reMatch(`^lnwire\.NewClosingSigned\([^,]+, \$p0, `, ps.Canon(as.Rhs[0])) {
								o.FailAt(ps.ID+"#offer-value", s.Where(), "the offer stored for the fee is %s, expected the closing_signed message built for that fee", an.Text(as.Rhs[0]))
							}
						}
					}
				}
				if nStored != 1 {
					o.FailAt(ps.ID+"#offer-stored", ps.Where(ps.Body.Pos()), "expected exactly one place that stores the signed offer in priorFeeOffers, found %d", nStored)
				}
				notReassigned(o, ps, c17ParamNames(ps, 0)...)
			}
		})

	c17RbfCloseOptions(r)
}

// isLocalSelPlain reports whether e selects a boolean field named IsLocal.
func isLocalSelPlain(e ast.Expr) (bool, bool) {
	sel, ok := ast.Unparen(e).(*ast.SelectorExpr)
	return ok && sel.Sel.Name == "IsLocal", false
}
