package spec

// Independently seeded changes (round 3, C05/e and C05/f) expressed as
// in-memory mutants, reported since the obligations were completed.
func init() {
	registry["C05"].Mutants = append(registry["C05"].Mutants, []Mutant{
		{Name: "closed-seed-e-resolutions-trim-with-inlined-dust-test", File: "lnwallet/channel.go",
			Old:    "\t\tif HtlcIsDust(\n\t\t\tchanType, htlc.Incoming, whoseCommit, feePerKw,\n\t\t\thtlc.Amt.ToSatoshis(), dustLimit,\n\t\t) {\n\n\t\t\tcontinue\n\t\t}\n\n\t\t// If the HTLC is incoming, then we'll attempt to see if we\n\t\t// know the pre-image to the HTLC.",
			New:    "\t\thtlcFee := HtlcTimeoutFee(chanType, feePerKw)\n\t\tif htlc.Incoming {\n\t\t\thtlcFee = HtlcSuccessFee(chanType, feePerKw)\n\t\t}\n\t\tif htlc.Amt.ToSatoshis()-htlcFee < dustLimit {\n\t\t\tcontinue\n\t\t}\n\n\t\t// If the HTLC is incoming, then we'll attempt to see if we\n\t\t// know the pre-image to the HTLC.",
			Expect: "resolutions-skip-exactly-the-trimmed-htlcs"},
		{Name: "closed-resolutions-dust-test-for-the-other-owner", File: "lnwallet/channel.go",
			Old:    "\t\tif HtlcIsDust(\n\t\t\tchanType, htlc.Incoming, whoseCommit, feePerKw,\n\t\t\thtlc.Amt.ToSatoshis(), dustLimit,\n\t\t) {\n\n\t\t\tcontinue\n\t\t}\n\n\t\t// If the HTLC is incoming, then we'll attempt to see if we\n\t\t// know the pre-image to the HTLC.",
			New:    "\t\tif HtlcIsDust(\n\t\t\tchanType, htlc.Incoming, whoseCommit.CounterParty(), feePerKw,\n\t\t\thtlc.Amt.ToSatoshis(), dustLimit,\n\t\t) {\n\n\t\t\tcontinue\n\t\t}\n\n\t\t// If the HTLC is incoming, then we'll attempt to see if we\n\t\t// know the pre-image to the HTLC.",
			Expect: "resolutions-skip-exactly-the-trimmed-htlcs"},
		{Name: "closed-resolutions-dust-test-only-for-outgoing", File: "lnwallet/channel.go",
			Old:    "\t\tif HtlcIsDust(\n\t\t\tchanType, htlc.Incoming, whoseCommit, feePerKw,\n\t\t\thtlc.Amt.ToSatoshis(), dustLimit,\n\t\t) {\n\n\t\t\tcontinue\n\t\t}\n\n\t\t// If the HTLC is incoming, then we'll attempt to see if we\n\t\t// know the pre-image to the HTLC.",
			New:    "\t\tif !htlc.Incoming && HtlcIsDust(\n\t\t\tchanType, htlc.Incoming, whoseCommit, feePerKw,\n\t\t\thtlc.Amt.ToSatoshis(), dustLimit,\n\t\t) {\n\n\t\t\tcontinue\n\t\t}\n\n\t\t// If the HTLC is incoming, then we'll attempt to see if we\n\t\t// know the pre-image to the HTLC.",
			Expect: "resolutions-skip-exactly-the-trimmed-htlcs"},
		{Name: "closed-seed-f-timeout-resolution-takes-input-sequence-as-csv-delay", File: "lnwallet/channel.go",
			Old:    "\t\t\tSignDetails:     txSignDetails,\n\t\t\tCsvDelay:        csvDelay,\n\t\t\tResolutionBlob:  fn.None[tlv.Blob](),\n\t\t\tClaimOutpoint: wire.OutPoint{\n\t\t\t\tHash:  timeoutTx.TxHash(),",
			New:    "\t\t\tSignDetails:     txSignDetails,\n\t\t\tCsvDelay:        htlcCsvDelay,\n\t\t\tResolutionBlob:  fn.None[tlv.Blob](),\n\t\t\tClaimOutpoint: wire.OutPoint{\n\t\t\t\tHash:  timeoutTx.TxHash(),",
			Expect: "resolution-csv-delay-roles"},
		{Name: "closed-remote-success-resolution-takes-to-self-delay", File: "lnwallet/channel.go",
			Old:    "\t\treturn &IncomingHtlcResolution{\n\t\t\tClaimOutpoint:  op,\n\t\t\tSweepSignDesc:  signDesc,\n\t\t\tCsvDelay:       htlcCsvDelay,",
			New:    "\t\treturn &IncomingHtlcResolution{\n\t\t\tClaimOutpoint:  op,\n\t\t\tSweepSignDesc:  signDesc,\n\t\t\tCsvDelay:       csvDelay,",
			Expect: "resolution-csv-delay-roles"},
	}...)
}
