package spec

// Witnesses restoring the shapes the repairs 9e1764b (graph cache inbound
// fee), 465b109 (RequestRoute CLTV budget) and 4db5f3a (QueryRoutes CLTV
// budget) removed, and close variants of them.
func init() {
	const (
		cacheOb = "directed-channel-inbound-fee-follows-the-current-policy"
		payOb   = "payment-cltv-budget-reserves-the-final-delta-the-route-adds"
		reqOb   = "route-request-cltv-budget-reserves-the-final-delta-the-route-adds"

		node1Case = "\t\tcase channel.IsNode1 && policy.IsNode1:\n\t\t\tchannel.OutPolicySet = true\n"
		node2Case = "\t\tcase !channel.IsNode1 && !policy.IsNode1:\n\t\t\tchannel.OutPolicySet = true\n"
		unwrap    = "\t\t\tchannel.InboundFee = policy.InboundFee.UnwrapOr(\n\t\t\t\tlnwire.Fee{},\n\t\t\t)\n"
		whenSome  = "\t\t\tpolicy.InboundFee.WhenSome(func(fee lnwire.Fee) {\n\t\t\t\tchannel.InboundFee = fee\n\t\t\t})\n"

		blindedReserve = "\tif pathSet := p.payment.BlindedPathSet; pathSet != nil {\n" +
			"\t\tblindedDelta := uint32(pathSet.FinalCLTVDelta())\n" +
			"\t\tif blindedDelta > cltvReserve {\n" +
			"\t\t\tif blindedDelta > p.payment.CltvLimit {\n" +
			"\t\t\t\treturn nil, errNoPathFound\n" +
			"\t\t\t}\n\n" +
			"\t\t\tcltvReserve = blindedDelta\n" +
			"\t\t}\n" +
			"\t}\n"
		validateBlinded = "\t\terr = routing.ValidateCLTVLimit(\n\t\t\tcltvLimit, blindedFinalDelta, false,\n\t\t)\n\t\tif err != nil {\n\t\t\treturn nil, err\n\t\t}\n"
		validatePlain   = "\t\terr = routing.ValidateCLTVLimit(\n\t\t\tcltvLimit, finalCLTVDelta, false,\n\t\t)\n\t\tif err != nil {\n\t\t\treturn nil, err\n\t\t}\n"
		subtraction     = "\tcltvLimit -= uint32(finalCLTVDelta) + uint32(blindedFinalDelta)\n"
	)
	registry["C19"].Mutants = append(registry["C19"].Mutants, []Mutant{
		// 9e1764b
		{Name: "fixrev-cache-inbound-fee-only-when-some-node1", File: "graph/db/graph_cache.go",
			Old: node1Case + unwrap, New: node1Case + whenSome, Expect: cacheOb},
		{Name: "fixrev-cache-inbound-fee-only-when-some-node2", File: "graph/db/graph_cache.go",
			Old: node2Case + unwrap, New: node2Case + whenSome, Expect: cacheOb},
		{Name: "f4-cache-inbound-fee-defaults-to-the-cached-fee", File: "graph/db/graph_cache.go",
			Old:    node1Case + unwrap,
			New:    node1Case + "\t\t\tchannel.InboundFee = policy.InboundFee.UnwrapOr(\n\t\t\t\tchannel.InboundFee,\n\t\t\t)\n",
			Expect: cacheOb},
		{Name: "f4-cache-inbound-fee-below-presence-test", File: "graph/db/graph_cache.go",
			Old:    node2Case + unwrap,
			New:    node2Case + "\t\t\tif policy.InboundFee.IsSome() {\n\t\t\t\tchannel.InboundFee = policy.InboundFee.UnwrapOr(\n\t\t\t\t\tlnwire.Fee{},\n\t\t\t\t)\n\t\t\t}\n",
			Expect: cacheOb},
		{Name: "f4-cache-inbound-fee-not-updated-for-node2", File: "graph/db/graph_cache.go",
			Old: node2Case + unwrap, New: node2Case, Expect: cacheOb},
		{Name: "f4-cache-inbound-fee-of-the-incoming-policy", File: "graph/db/graph_cache.go",
			Old:    node1Case + unwrap,
			New:    node1Case + "\t\t\tif channel.InPolicy != nil {\n\t\t\t\tchannel.InboundFee = channel.InPolicy.InboundFee.UnwrapOr(\n\t\t\t\t\tlnwire.Fee{},\n\t\t\t\t)\n\t\t\t}\n",
			Expect: cacheOb},
		{Name: "f4-kv-store-inbound-fee-of-the-incoming-policy", File: "graph/db/kv_store.go",
			Old:    "\t\tif p1 != nil {\n\t\t\tp1.InboundFee.WhenSome(func(fee lnwire.Fee) {\n\t\t\t\tdirectedChannel.InboundFee = fee\n",
			New:    "\t\tif p2 != nil {\n\t\t\tp2.InboundFee.WhenSome(func(fee lnwire.Fee) {\n\t\t\t\tdirectedChannel.InboundFee = fee\n",
			Expect: cacheOb},

		// 465b109
		{Name: "fixrev-request-route-reserves-the-payment-delta-only", File: "routing/payment_session.go",
			Old: blindedReserve, New: "", Expect: payOb},
		{Name: "f4-request-route-blinded-delta-replaces-a-larger-reserve", File: "routing/payment_session.go",
			Old: "\t\tif blindedDelta > cltvReserve {\n", New: "\t\tif blindedDelta < cltvReserve {\n", Expect: payOb},
		{Name: "f4-request-route-blinded-delta-not-compared-with-the-limit", File: "routing/payment_session.go",
			Old:    "\t\t\tif blindedDelta > p.payment.CltvLimit {\n\t\t\t\treturn nil, errNoPathFound\n\t\t\t}\n\n",
			New:    "",
			Expect: payOb},
		{Name: "f4-request-route-reserve-taken-before-the-padding", File: "routing/payment_session.go",
			Old:    "\tfinalCltvDelta += BlockPadding\n\n\t// We need to subtract the final delta before passing it into path\n\t// finding. The optimal path is independent of the final cltv delta and\n\t// the path finding algorithm is unaware of this value.\n\tcltvReserve := uint32(finalCltvDelta)\n",
			New:    "\tcltvReserve := uint32(finalCltvDelta)\n\tfinalCltvDelta += BlockPadding\n",
			Expect: payOb},
		{Name: "f4-request-route-reserves-the-unpadded-delta", File: "routing/payment_session.go",
			Old:    "\tcltvReserve := uint32(finalCltvDelta)\n",
			New:    "\tcltvReserve := uint32(p.payment.FinalCLTVDelta)\n",
			Expect: payOb},
		{Name: "f4-request-route-blinded-delta-reserved-for-the-first-shard-only", File: "routing/payment_session.go",
			Old:    "\tif pathSet := p.payment.BlindedPathSet; pathSet != nil {\n",
			New:    "\tif pathSet := p.payment.BlindedPathSet; pathSet != nil && activeShards == 0 {\n",
			Expect: payOb},
		{Name: "f4-request-route-subtracts-the-payment-delta-not-the-reserve", File: "routing/payment_session.go",
			Old:    "\tcltvLimit := p.payment.CltvLimit - cltvReserve\n",
			New:    "\tcltvLimit := p.payment.CltvLimit - uint32(finalCltvDelta)\n",
			Expect: payOb},
		{Name: "f4-request-route-budget-restored-after-the-literal", File: "routing/payment_session.go",
			Old:    "\tfinalHtlcExpiry := int32(height) + int32(finalCltvDelta)\n",
			New:    "\tfinalHtlcExpiry := int32(height) + int32(finalCltvDelta)\n\tif p.payment.BlindedPathSet != nil {\n\t\trestrictions.CltvLimit = p.payment.CltvLimit - uint32(finalCltvDelta)\n\t}\n",
			Expect: payOb},

		// 4db5f3a
		{Name: "fixrev-query-routes-blinded-delta-not-subtracted", File: "lnrpc/routerrpc/router_backend.go",
			Old: subtraction, New: "\t_ = blindedFinalDelta\n\tcltvLimit -= uint32(finalCLTVDelta)\n", Expect: reqOb},
		{Name: "f4-query-routes-blinded-delta-not-validated", File: "lnrpc/routerrpc/router_backend.go",
			Old: validateBlinded, New: "", Expect: reqOb},
		{Name: "f4-query-routes-blinded-delta-validation-ignored", File: "lnrpc/routerrpc/router_backend.go",
			Old:    validateBlinded,
			New:    "\t\t_ = routing.ValidateCLTVLimit(\n\t\t\tcltvLimit, blindedFinalDelta, false,\n\t\t)\n",
			Expect: reqOb},
		{Name: "f4-query-routes-final-delta-not-validated", File: "lnrpc/routerrpc/router_backend.go",
			Old: validatePlain, New: "", Expect: reqOb},
		{Name: "f4-query-routes-subtraction-only-without-blinded-paths", File: "lnrpc/routerrpc/router_backend.go",
			Old:    subtraction,
			New:    "\tif blindedPathSet == nil {\n\t\tcltvLimit -= uint32(finalCLTVDelta) + uint32(blindedFinalDelta)\n\t}\n",
			Expect: reqOb},
		{Name: "f4-query-routes-blinded-delta-of-another-set", File: "lnrpc/routerrpc/router_backend.go",
			Old:    "\t\tblindedFinalDelta = blindedPathSet.FinalCLTVDelta()\n",
			New:    "\t\tblindedFinalDelta = (&routing.BlindedPaymentPathSet{}).FinalCLTVDelta()\n",
			Expect: reqOb},
		{Name: "f4-query-routes-request-carries-another-final-expiry", File: "lnrpc/routerrpc/router_backend.go",
			Old:    "\t\tcustomRecords, routeHintEdges, blindedPathSet,\n\t\tfinalCLTVDelta,\n\t)",
			New:    "\t\tcustomRecords, routeHintEdges, blindedPathSet,\n\t\tfinalCLTVDelta+routing.BlockPadding,\n\t)",
			Expect: reqOb},
		{Name: "f4-query-routes-budget-restored-after-the-literal", File: "lnrpc/routerrpc/router_backend.go",
			Old:    "\t\trestrictions.OutgoingChannelIDs = in.OutgoingChanIds\n",
			New:    "\t\trestrictions.OutgoingChannelIDs = in.OutgoingChanIds\n\t\trestrictions.CltvLimit = in.CltvLimit\n",
			Expect: reqOb},
		{Name: "f4-find-route-pads-the-final-delta-after-the-budget", File: "routing/router.go",
			Old:    "\t\t\tcltvDelta: req.FinalExpiry,\n",
			New:    "\t\t\tcltvDelta: req.FinalExpiry + BlockPadding,\n",
			Expect: reqOb},
		{Name: "f4-route-request-final-expiry-padded-after-the-budget", File: "routing/router.go",
			Old:    "\t\tFinalExpiry:    requestExpiry,\n",
			New:    "\t\tFinalExpiry:    requestExpiry + BlockPadding,\n",
			Expect: reqOb},
		{Name: "f4-payment-limit-validated-without-the-padding", File: "lnrpc/routerrpc/router_backend.go",
			Old:    "\t\tpayIntent.CltvLimit, payIntent.FinalCLTVDelta, true,\n",
			New:    "\t\tpayIntent.CltvLimit, payIntent.FinalCLTVDelta, false,\n",
			Expect: reqOb},
		{Name: "fixrev-probe-destination-cltv-limit-without-final-delta", File: "lnrpc/routerrpc/router_server.go",
			Old:    "\t\t\tCltvLimit:          cltvLimit,\n",
			New:    "\t\t\tCltvLimit:          max(cltvLimit, backend.MaxTotalTimelock),\n",
			Expect: reqOb},
		{Name: "f4-probe-destination-limit-not-validated-against-the-final-delta", File: "lnrpc/routerrpc/router_server.go",
			Old:    "\terr = routing.ValidateCLTVLimit(\n\t\tbackend.MaxTotalTimelock, finalCltvDelta, false,\n\t)\n\tif err != nil {\n\t\treturn nil, err\n\t}\n\tcltvLimit :=",
			New:    "\tcltvLimit :=",
			Expect: reqOb},
	}...)
}
