package chainntnfs_test

import (
	"testing"

	"github.com/btcsuite/btcd/wire/v2"
	"github.com/lightningnetwork/lnd/chainntnfs"
	"github.com/stretchr/testify/require"
)

func probeSpendTx(op wire.OutPoint, version int32) *wire.MsgTx {
	spendTx := wire.NewMsgTx(version)
	spendTx.AddTxIn(&wire.TxIn{
		PreviousOutPoint: op,
		SignatureScript:  testSigScript,
		Witness:          testWitness,
	})

	return spendTx
}

// Suspicion 2: historical spend details adopted while the set has no client
// are not tracked in spendsByHeight, so they survive the disconnect of their
// block: a later client is served the stale spend, and the real spend at tip
// is ignored.
func TestProbe2HistoricalSpendDetailsWithoutClientsSurviveReorg(t *testing.T) {
	hintCache := newMockHintCache()
	n := chainntnfs.NewTxNotifier(
		10, chainntnfs.ReorgSafetyLimit, hintCache, hintCache,
	)

	op := wire.OutPoint{Index: 3}
	spendTx := probeSpendTx(op, 2)
	spendHash := spendTx.TxHash()

	reg1, err := n.RegisterSpend(&op, testRawScript, 5)
	require.NoError(t, err)
	require.NotNil(t, reg1.HistoricalDispatch)
	req := reg1.HistoricalDispatch.SpendRequest
	reg1.Event.Cancel()

	require.NoError(t, n.UpdateSpendDetails(req, &chainntnfs.SpendDetail{
		SpentOutPoint:     &op,
		SpenderTxHash:     &spendHash,
		SpendingTx:        spendTx,
		SpenderInputIndex: 0,
		SpendingHeight:    10,
	}))

	require.NoError(t, n.DisconnectTip(10))
	require.NoError(t, n.DisconnectTip(9))

	hint, err := hintCache.QuerySpendHint(req)
	require.NoError(t, err)
	require.LessOrEqual(t, hint, uint32(8), "spend hint while the "+
		"outpoint is unspent at height 8")

	// Another tx spends the outpoint in 9'.
	otherTx := probeSpendTx(op, 3)
	otherHash := otherTx.TxHash()
	require.NoError(t, n.ConnectTip(probeBlock(1009, otherTx), 9))
	require.NoError(t, n.NotifyHeight(9))
	require.NoError(t, n.ConnectTip(probeBlock(1010), 10))
	require.NoError(t, n.NotifyHeight(10))

	hint, err = hintCache.QuerySpendHint(req)
	require.NoError(t, err)
	require.LessOrEqual(t, hint, uint32(9), "spend hint exceeds the "+
		"height of the spend")

	reg2, err := n.RegisterSpend(&op, testRawScript, 5)
	require.NoError(t, err)
	select {
	case spend := <-reg2.Event.Spend:
		require.Equal(t, int32(9), spend.SpendingHeight)
		require.Equal(t, otherHash, *spend.SpenderTxHash)
	default:
		t.Fatalf("second client not told of the spend in 9'")
	}
}

func TestProbe2StaleSpendServedToLaterClient(t *testing.T) {
	hintCache := newMockHintCache()
	n := chainntnfs.NewTxNotifier(
		10, chainntnfs.ReorgSafetyLimit, hintCache, hintCache,
	)

	op := wire.OutPoint{Index: 3}
	spendTx := probeSpendTx(op, 2)
	spendHash := spendTx.TxHash()

	reg1, err := n.RegisterSpend(&op, testRawScript, 5)
	require.NoError(t, err)
	reg1.Event.Cancel()
	require.NoError(t, n.UpdateSpendDetails(
		reg1.HistoricalDispatch.SpendRequest, &chainntnfs.SpendDetail{
			SpentOutPoint:  &op,
			SpenderTxHash:  &spendHash,
			SpendingTx:     spendTx,
			SpendingHeight: 10,
		},
	))

	require.NoError(t, n.DisconnectTip(10))
	require.NoError(t, n.ConnectTip(probeBlock(1010), 10))
	require.NoError(t, n.NotifyHeight(10))

	reg2, err := n.RegisterSpend(&op, testRawScript, 5)
	require.NoError(t, err)
	select {
	case spend := <-reg2.Event.Spend:
		t.Fatalf("second client told outpoint spent at height %d by "+
			"%v although that block was disconnected",
			spend.SpendingHeight, spend.SpenderTxHash)
	default:
	}
}

func TestProbe2ClientlessSpendSetIsPruned(t *testing.T) {
	hintCache := newMockHintCache()
	n := chainntnfs.NewTxNotifier(10, 5, hintCache, hintCache)

	op := wire.OutPoint{Index: 3}
	spendTx := probeSpendTx(op, 2)
	spendHash := spendTx.TxHash()

	reg1, err := n.RegisterSpend(&op, testRawScript, 5)
	require.NoError(t, err)
	req := reg1.HistoricalDispatch.SpendRequest
	reg1.Event.Cancel()
	require.NoError(t, n.UpdateSpendDetails(req, &chainntnfs.SpendDetail{
		SpentOutPoint:  &op,
		SpenderTxHash:  &spendHash,
		SpendingTx:     spendTx,
		SpendingHeight: 10,
	}))

	for h := uint32(11); h <= 15; h++ {
		require.NoError(t, n.ConnectTip(probeBlock(h), h))
		require.NoError(t, n.NotifyHeight(h))
	}

	require.Error(t, n.UpdateSpendDetails(req, nil))
}
