package spec

// Witnesses restoring the shape a repair in /repo removed.
func init() {
	registry["C11"].Mutants = append(registry["C11"].Mutants, []Mutant{
		{Name: "fixrev-read-reports-eof-for-an-empty-message", File: "brontide/conn.go",
			Old: "\tfor c.readBuf.Len() == 0 {", New: "\tif c.readBuf.Len() == 0 {",
			Expect: "stream-read-never-reports-the-empty-buffer"},
	}...)
}
