// Copyright 2022 The Go Authors. All rights reserved.
// Use of this source code is governed by a BSD-style
// license that can be found in the LICENSE file.

package lcs

import (
	"log"
	"sort"
)

// lcs is a longest common sequence
type lcs []diag

// A diag is a piece of the edit graph where A[X+i] == B[Y+i], for 0<=i<Len.
// All computed diagonals are parts of a longest common subsequence.
type diag struct {
	X, Y int
	Len  int
}

// sort sorts in place, by lowest X, and if tied, inversely by Len
func (l lcs) sort() lcs {
	sort.Slice(l, func(i, j int) bool {
		if l[i].X != l[j].X {
			return l[i].X < l[j].X
		}
		return l[i].Len > l[j].Len
	})
	return l
}

// validate that the elements of the lcs do not overlap
// (can only happen when the two-sided algorithm ends early)
// expects the lcs to be sorted
func (l lcs) valid() bool {
	for i := 1; i < len(l); i++ {
		if l[i-1].X+l[i-1].Len > l[i].X {
			return false
		}
		if l[i-1].Y+l[i-1].Len > l[i].Y {
			return false
		}
	}
	return true
}

// repair overlapping lcs
// only called if two-sided stops early
func (l lcs) fix() lcs {
	// from the set of diagonals in l, find a maximal non-conflicting set
	// this problem may be NP-complete, but we use a greedy heuristic,
	// which is quadratic, but with a better data structure, could be D log D.
	// indepedent is not enough: {0,3,1} and {3,0,2} can't both occur in an lcs
	// which has to have monotone x and y
	if len(l) == 0 {
		return nil
	}
	sort.Slice(l, func(i, j int) bool { return l[i].Len > l[j].Len })
	tmp := make(lcs, 0, len(l))
	tmp = append(tmp, l[0])
	for i := 1; i < len(l); i++ {
		var dir direction
		nxt := l[i]
		for _, in := range tmp {
			if dir, nxt = overlap(in, nxt); dir == empty || dir == bad {
				break
			}
		}
		if nxt.Len > 0 && dir != bad {
			tmp = append(tmp, nxt)
		}
	}
	tmp.sort()
	if false && !tmp.valid() { // debug checking
		log.Fatalf("here %d", len(tmp))
	}
	return tmp
}

type direction int

const (
	empty    direction = iota // diag is empty (so not in lcs)
	leftdown                  // proposed acceptably to the left and below
	rightup                   // proposed diag is acceptably to the right and above
	bad                       // proposed diag is inconsistent with the lcs so far
)

// overlap trims the proposed diag prop  so it doesn't overlap with
// the existing diag that has already been added to the lcs.
func overlap(exist, prop diag) (direction, diag) {
	if prop.X <= exist.X && exist.X < prop.X+prop.Len {
		// remove the end of prop where it overlaps with the X end of exist
		delta := prop.X + prop.Len - exist.X
		prop.Len -= delta
		if prop.Len <= 0 {
			return empty, prop
		}
	}
	if exist.X <= prop.X && prop.X < exist.X+exist.Len {
		// remove the beginning of prop where overlaps with exist
		delta := exist.X + exist.Len - prop.X
		prop.Len -= delta
		if prop.Len <= 0 {
			return empty, prop
		}
		prop.X += delta
		prop.Y += delta
	}
	if prop.Y <= exist.Y && exist.Y < prop.Y+prop.Len {
		// remove the end of prop that overlaps (in Y) with exist
		delta := prop.Y + prop.Len - exist.Y
		prop.Len -= delta
		if prop.Len <= 0 {
			return empty, prop
		}
	}
	if exist.Y <= prop.Y && prop.Y < exist.Y+exist.Len {
		// remove the beginning of peop that overlaps with exist
		delta := exist.Y + exist.Len - prop.Y
		prop.Len -= delta
		if prop.Len <= 0 {
			return empty, prop
		}
		prop.X += delta // no test reaches this code
		prop.Y += delta
	}
	if prop.X+prop.Len <= exist.X && prop.Y+prop.Len <= exist.Y {
		return leftdown, prop
	}
	if exist.X+exist.Len <= prop.X && exist.Y+exist.Len <= prop.Y {
		return rightup, prop
	}
	// prop can't be in an lcs that contains exist
	return bad, prop
}

// manipulating Diag and lcs

// prepend a diagonal (x,y)-(x+1,y+1) segment either to an empty lcs
// or to its first Diag. prepend is only called to extend diagonals
// the backward direction.
func (lcs lcs) prepend(x, y int) lcs {
	if len(lcs) > 0 {
		d := &lcs[0]
		if int(d.X) == x+1 && int(d.Y) == y+1 {
			// extend the diagonal down and to the left
			d.X, d.Y = int(x), int(y)
			d.Len++
			return lcs
		}
	}

	r := diag{X: int(x), Y: int(y), Len: 1}
	lcs = append([]diag{r}, lcs...)
	return lcs
}

// append appends a diagonal, or extends the existing one.
// by adding the edge (x,y)-(x+1.y+1). append is only called
// to extend diagonals in the forward direction.
func (lcs lcs) append(x, y int) lcs {
	if len(lcs) > 0 {
		last := &lcs[len(lcs)-1]
		// Expand last element if adjoining.
		if last.X+last.Len == x && last.Y+last.Len == y {
			last.Len++
			return lcs
		}
	}

	return append(lcs, diag{X: x, Y: y, Len: 1})
}

// enforce constraint on d, k
func ok(d, k int) bool {
	return d >= 0 && -d <= k && k <= d
}
