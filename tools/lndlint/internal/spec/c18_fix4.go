package spec

import (
	"go/ast"
	"go/token"
	"go/types"
	"strings"

	"lndlint/internal/an"
	"lndlint/internal/flow"
)

func init() {
	specExtras["C18"] = append(specExtras["C18"], c18f4Rules)
}

// c18f4Rules: necessary conditions behind the repairs 5d427b4, 6a37dc1,
// e3d2a3d, afd3731, 67c1a16 and bab7d07 in package sweep, and the structural
// statement of the finding that was not repaired (a bumpfee on a published
// input leaves the old monitor record running).
func c18f4Rules(r *an.Run) {
	p := r.Prog

	r.Obl("caller-supplied-start-is-lifted-to-the-fee-floor", "PATH",
		"NewLinearFeeFunction: every use of the starting rate (the per-block delta, the starting/current rate of the function under construction, every success return after the rate was obtained) is reached only after `start = chainfee.FeePerKwFloor`, unless `start >= chainfee.FeePerKwFloor` was tested or the rate is the estimator's (the option is None); the option the constructor receives is the request's StartingFeeRate",
		"a caller-supplied rate does not pass through the estimator, which is what lifts an estimate to the floor: bumpfee with 1 sat/vbyte (250 sat/kw) started below the 253 sat/kw a transaction must pay to be relayed, and a backend without testmempoolaccept published it", 6,
		func(o *an.Obl) {
			k := c18CtorShape(p)
			c := k.f
			if k.start == nil {
				o.FailAt(c.ID+"#start", c.Where(c.Body.Pos()), "cannot find the starting rate (the subtrahend of the per-block delta) in the constructor")
				return
			}
			targets := append(append([]an.Site{}, k.deltas...), k.rateWrites...)
			targets = append(targets, c18f4ReturnsAfterStart(k, an.RetSuccess)...)
			if need(o, c, "lift `start = chainfee.FeePerKwFloor`", k.lifts, 1) {
				mustDoUnless(o, c, "the lift of the starting rate to the fee floor", k.lifts, targets,
					an.Cmp(k.startTerm(), an.GE, c18FloorTerm(), "start >= FeePerKwFloor"),
					c18CallerGaveStart(c, false))
			}
			g := p.Func(sw + "TxPublisher.initializeFeeFunction")
			for _, s := range g.Calls(an.CalleeIs(sw+"NewLinearFeeFunction"), false) {
				a := g.ArgCanon(s)
				o.Site("NewLinearFeeFunction starting rate = %s", a[3])
				if a[3] != "$p0.StartingFeeRate" {
					o.FailAt(g.ID+"#starting-rate", s.Where(), "the fee function is given the starting rate %s, expected the request's StartingFeeRate", a[3])
				}
			}
		})

	r.Obl("start-at-the-ceiling-yields-a-fee-function", "GUARD",
		"NewLinearFeeFunction: once the starting rate was obtained, a failing return is reached only where the rate is the estimator's (the option is None) or `start != end` was tested after the last write of the starting rate; a success return that hands out the function under construction is preceded by the assignments of its startingFeeRate and currentFeeRate, both from the (capped) starting rate",
		"a caller-supplied starting rate is the rate already offered in an earlier attempt; failing the attempt with ErrZeroFeeRateDelta when it has reached the ceiling records no rate for the next attempt, which restarts from the estimator below the rate already offered: the offered rate decreases", 4,
		func(o *an.Obl) {
			k := c18CtorShape(p)
			c := k.f
			if k.start == nil || k.end == nil {
				o.FailAt(c.ID+"#start", c.Where(c.Body.Pos()), "cannot find the starting and ending rate locals in the constructor")
				return
			}
			room := an.AnyOf("the rate is estimated or start != end",
				c18CallerGaveStart(c, false),
				an.Cmp(k.startTerm(), an.NE, k.endTerm(), ""))
			for _, s := range c18f4ReturnsAfterStart(k, an.RetFailure) {
				guarded(o, c, s, room)
				c17HoldsSinceLastWrite(o, c, s, room, k.start, k.end)
			}
			// what is handed out carries the starting rate
			var cur, st []an.Site
			for _, w := range k.rateWrites {
				as := w.Node.(*ast.AssignStmt)
				isCur := an.Field(sw+"LinearFeeFunction", "currentFeeRate", nil)(c, an.Strip(c.Info(), as.Lhs[0]))
				if isCur {
					cur = append(cur, w)
				} else {
					st = append(st, w)
				}
				if len(as.Rhs) != 1 || as.Tok != token.ASSIGN || !k.startTerm()(c, ast.Unparen(as.Rhs[0])) {
					o.FailAt(c.ID+"#rate-of-the-function", w.Where(), "%s: expected the (capped) starting rate", an.Text(as))
				}
			}
			var handOut []an.Site
			for _, s := range c18f4ReturnsAfterStart(k, an.RetSuccess) {
				rs, _ := s.Node.(*ast.ReturnStmt)
				if rs == nil || len(rs.Results) != 2 {
					continue
				}
				if _, isID := ast.Unparen(rs.Results[0]).(*ast.Ident); isID {
					handOut = append(handOut, s)
				}
			}
			if len(handOut) > 0 {
				before(o, c, "the assignment of currentFeeRate", cur, "the return of the function under construction", handOut)
				before(o, c, "the assignment of startingFeeRate", st, "the return of the function under construction", handOut)
			}
		})

	r.Obl("budget-rate-below-the-fee-floor-is-refused-and-retried", "GUARD",
		"BumpRequest.MaxFeeRateAllowed returns a rate without error only below `Budget/weight >= chainfee.FeePerKwFloor` and answers the other case with an error wrapping ErrMaxFeeRateBelowFloor; the error travels unchanged or %w-wrapped through initializeFeeFunction and initializeTx into handleInitialTxError (argument of handleInitialBroadcast's call), where a true `errors.Is(err, ErrMaxFeeRateBelowFloor)`, like `errors.Is(err, ErrZeroFeeRateDelta)`, leads to `result.Event = TxFailed` on every path and to no other event",
		"inputs are only checked to pay the relay fee for their own weight; a ceiling below the floor builds a transaction that is never relayed (published blind by backends without testmempoolaccept, rebuilt and rejected every block by the others); reporting the condition as TxFatal instead of TxFailed would remove a time-sensitive input from the sweeper for good", 11,
		func(o *an.Obl) {
			f := p.Func(sw + "BumpRequest.MaxFeeRateAllowed")
			budget := canonTerm(c18BudgetRateRe)
			enough := an.Cmp(budget, an.GE, c18FloorTerm(), "Budget/weight >= FeePerKwFloor")
			short := an.Cmp(budget, an.LT, c18FloorTerm(), "Budget/weight < FeePerKwFloor")
			for _, s := range f.SuccessReturns() {
				guarded(o, f, s, enough)
			}
			var refusals []an.Site
			for _, s := range f.Returns() {
				if ok, _ := f.Guarded(s, short); ok && f.ClassifyReturn(s) == an.RetFailure {
					refusals = append(refusals, s)
				}
			}
			if need(o, f, "failing return below `Budget/weight < FeePerKwFloor`", refusals, 1) {
				for _, s := range refusals {
					rs := s.Node.(*ast.ReturnStmt)
					o.Site("refusal %s", s.String())
					if !c18f4CarriesSentinel(f, rs.Results[len(rs.Results)-1], "ErrMaxFeeRateBelowFloor") {
						o.FailAt(f.ID+"#refusal-error", s.Where(), "the refusal of a budget rate below the floor returns %s, expected ErrMaxFeeRateBelowFloor (bare or %%w-wrapped): handleInitialTxError recognises it by errors.Is", an.Text(rs.Results[len(rs.Results)-1]))
					}
				}
			}

			// the error keeps its chain on the way to handleInitialTxError
			c18f4ChainKept(o, p.Func(sw+"TxPublisher.initializeFeeFunction"), an.CalleeIs(sw+"BumpRequest.MaxFeeRateAllowed"), "MaxFeeRateAllowed")
			c18f4ChainKept(o, p.Func(sw+"TxPublisher.initializeTx"), an.CalleeIs(sw+"TxPublisher.initializeFeeFunction"), "initializeFeeFunction")
			hb := p.Func(sw + "TxPublisher.handleInitialBroadcast")
			calls := hb.Calls(an.CalleeIs(sw+"TxPublisher.handleInitialTxError"), false)
			if need(o, hb, "handleInitialTxError", calls, 1) {
				for _, s := range calls {
					arg, _ := ast.Unparen(callArg(s, 1)).(*ast.Ident)
					var call *ast.CallExpr
					if arg != nil {
						call = c18f4LastCallDef(hb, arg, s)
					}
					o.Site("%s", s.String())
					if call == nil || an.CalleeID(hb.Info(), call) != sw+"TxPublisher.initializeTx" {
						o.FailAt(hb.ID+"#handled-error", s.Where(), "handleInitialTxError is given %s, expected the error returned by initializeTx", an.Text(callArg(s, 1)))
					}
				}
			}
			for _, g := range p.Funcs(false, "sweep") {
				for _, s := range g.Calls(an.CalleeIs(sw+"BumpRequest.MaxFeeRateAllowed"), true) {
					if g.Root().ID != sw+"TxPublisher.initializeFeeFunction" {
						o.FailAt(g.ID+"#asks-max-fee-rate", s.Where(), "%s calls MaxFeeRateAllowed; only initializeFeeFunction's error reaches handleInitialTxError", g.ID)
					}
				}
			}

			h := p.Func(sw + "TxPublisher.handleInitialTxError")
			notReassigned(o, h, c17ParamNames(h, 1)...)
			events := h.Assigns(an.Field(sw+"BumpResult", "Event", nil), false)
			var failed, others []an.Site
			for _, s := range events {
				as, _ := s.Node.(*ast.AssignStmt)
				if as != nil && len(as.Rhs) == 1 && as.Tok == token.ASSIGN && an.PkgVar("sweep", "TxFailed")(h, ast.Unparen(as.Rhs[0])) {
					failed = append(failed, s)
				} else {
					others = append(others, s)
				}
			}
			for _, name := range []string{"ErrZeroFeeRateDelta", "ErrMaxFeeRateBelowFloor"} {
				is := an.Truth(an.CallTo("errors.Is", nil, an.Param(1), an.PkgVar("sweep", name)), true, "errors.Is(err, "+name+")")
				es := h.EdgesOf(is)
				if len(es) == 0 {
					o.FailAt(h.ID+"#no-case-"+name, h.Where(h.Body.Pos()), "handleInitialTxError has no test errors.Is(err, %s): the error falls through to TxFatal", name)
					continue
				}
				for e := range es {
					o.Site("errors.Is(err, %s) at %s leads to TxFailed", name, h.Where(e.From.Pos()))
					if c18ReachesWithout(h, e.To, nil, failed, h.Graph().Exit) {
						o.FailAt(h.ID+"#event-of-"+name, h.Where(e.From.Pos()), "after errors.Is(err, %s) the function can return without `result.Event = TxFailed`", name)
					}
					reach := h.Graph().Reach(e.To, nil, nil)
					for _, x := range others {
						if reach[x.V] {
							o.FailAt(h.ID+"#event-of-"+name, x.Where(), "after errors.Is(err, %s) the event can be set by %s; the inputs must be retried (TxFailed)", name, an.Text(x.Node))
						}
					}
				}
			}
		})

	r.Obl("reoffered-input-keeps-the-rate-already-offered", "STATE",
		"the parameters of a pending input (SweeperInput.params as a whole, Params.StartingFeeRate) are written in package sweep only by tabled statements: handleExistingInput replaces the parameters by the re-offered ones and afterwards, on every path, stores fn.Some(r) back into the input's StartingFeeRate unless `r <= new StartingFeeRate.UnwrapOr(0)` was tested, r being a local defined before the replacement as the input's StartingFeeRate.UnwrapOr(0); markInputsPublishFailed stores fn.Some(its rate parameter), which its callers take from the bump result's FeeRate; the closure of handleNewInput stores the rate of the mempool transaction into a new input; both of these writers are monotone: the store `B.params.StartingFeeRate = fn.Some(x)` is reached only below `x >= B.params.StartingFeeRate.UnwrapOr(0)` (same input B, same rate x, tested after their last write), so a reported rate of zero or below the recorded one never replaces it; handleUpdateReq installs the parameters of an explicit user request",
		"the arbitrator re-offers anchors and HTLC outputs on every block: replacing the parameters wholesale drops the rate recorded after a failed publish or found in the mempool, and the next sweep starts from the estimator, below a rate already offered; a failure that carries no rate (no output, zero delta, below-floor budget, estimator or broadcast error) reports 0, which stored as-is reads as 'none' and has the same effect, as does a mempool rate below the one the caller requested", 15,
		func(o *an.Obl) {
			c18f4ReofferKeepsRate(o, p)
		})

	r.Obl("estimate-below-the-relay-fee-is-clamped", "GUARD",
		"FeeEstimateInfo.Estimate: once the relay fee was read, a failing return is reached only below `f.ConfTarget == 0` (a manually given rate); a success return is reached only below `rate >= relay fee` or after `rate = <the relay fee read from the estimator>`, rate being the local that received the estimator's answer; that assignment is the only write of the local after the relay fee was read and lies below `rate < relay fee`",
		"a conf-target estimate below the relay fee (the estimator's fallback answer, or an answer clamped to the static floor only) is a transient fee-market condition: answering it with ErrFeePreferenceTooLow makes the fee function fail with an error the publisher turns into TxFatal, and a time-sensitive sweep is dropped for good", 6,
		func(o *an.Obl) {
			c18f4EstimateClamped(o, p)
		})

	r.Obl("input-is-not-filtered-out-for-its-starting-rate", "PATH",
		"BudgetAggregator.filterInputs: every iteration of the loop over the inputs stores the input under its outpoint in the returned map, unless it leaves through one of the tabled edges: the failure of SizeUpperBound, `budget < minFee` (budget being the input's Budget plus the extra budget, minFee the relay fee rate for the input's weight), or isDustOutput(the input's RequiredTxOut()); no condition that reads the input's StartingFeeRate decides whether the store is reached",
		"after a grouped sweep failed every member carries the group's next rate as starting rate; a member whose own budget pays less than that rate for its own weight was skipped on every block and never swept although the fee function caps the start at the budget-implied ceiling: the ceiling is not reached by the deadline", 4,
		func(o *an.Obl) {
			c18f4FilterKeepsInput(o, p)
		})

	r.Obl("requeued-input-has-no-live-monitor-record", "STATE",
		"in package sweep an existing input's state is set to a value that updateSweeperInputs offers again (Init, PublishFailed) only by markInputsPublishFailed, called only from the handlers of the terminal bump events TxFailed and TxUnknownSpend (for which the publisher has removed the monitor record), or below tests that the state is neither PendingPublish nor Published",
		"updateSweeperInputs holds back PendingPublish and Published inputs because a monitor record of the publisher is fee-bumping a transaction that spends them; re-queueing such an input without retiring the record has two records spend the same outpoint, the old one with the old budget and deadline", 8,
		func(o *an.Obl) {
			c18f4RequeueRetiresRecord(o, p)
		})
}

// c18f4ReturnsAfterStart lists the returns of the constructor of the given
// class that are reached after the starting rate was obtained (after the
// success edges of the call that defines it; all returns after the definition
// when that call cannot be found).
func c18f4ReturnsAfterStart(k *c18Ctor, class an.ReturnClass) []an.Site {
	c := k.f
	g := c.Graph()
	after := map[*flow.Vertex]bool{}
	for _, w := range k.startDef {
		s, ok := c17SiteOfNode(c, w.Node)
		if !ok {
			continue
		}
		var es flow.EdgeSet
		if as, isAs := w.Node.(*ast.AssignStmt); isAs && len(as.Rhs) == 1 {
			if call, isCall := ast.Unparen(as.Rhs[0]).(*ast.CallExpr); isCall && len(as.Lhs) == 2 {
				es, _ = c.OkEdges(an.Site{Fn: c, V: s.V, Node: call}, an.OkErrNil)
			}
		}
		if len(es) == 0 {
			for v := range c17StrictlyAfter(g, s.V) {
				after[v] = true
			}
			continue
		}
		for e := range es {
			for v := range g.Reach(e.To, nil, nil) {
				after[v] = true
			}
		}
	}
	var out []an.Site
	for _, s := range c.Returns() {
		if after[s.V] && c.ClassifyReturn(s) == class {
			out = append(out, s)
		}
	}
	return out
}

// c18f4CarriesSentinel: e is the package-level error sweep.<name>, or a
// fmt.Errorf call whose format contains %w and that lists the sentinel among
// its operands.
func c18f4CarriesSentinel(f *an.Func, e ast.Expr, name string) bool {
	e = ast.Unparen(e)
	is := an.PkgVar("sweep", name)
	if is(f, e) {
		return true
	}
	call, ok := e.(*ast.CallExpr)
	if !ok || an.CalleeID(f.Info(), call) != "fmt.Errorf" || len(call.Args) < 2 {
		return false
	}
	if !c18f4FormatWraps(f, call.Args[0]) {
		return false
	}
	for _, a := range call.Args[1:] {
		if is(f, ast.Unparen(a)) {
			return true
		}
	}
	return false
}

// c18f4FormatWraps: the constant format string contains the %w verb.
func c18f4FormatWraps(f *an.Func, e ast.Expr) bool {
	tv, ok := f.Info().Types[e]
	return ok && tv.Value != nil && strings.Contains(tv.Value.ExactString(), "%w")
}

// c18f4ChainKept: in f, every failing return reached when the call fails hands
// out the call's error itself or a fmt.Errorf that wraps it with %w.
func c18f4ChainKept(o *an.Obl, f *an.Func, callee an.CallPred, what string) {
	calls := f.Calls(callee, false)
	if !needExactly(o, f, what, calls, 1) {
		return
	}
	okEdges, _ := f.OkEdges(calls[0], an.OkErrNil)
	if len(okEdges) == 0 {
		o.FailAt(f.ID+"#untested-"+what, calls[0].Where(), "the error of %s is not tested in %s", what, f.ID)
		return
	}
	g := f.Graph()
	stop := map[*flow.Vertex]bool{}
	for _, s := range f.Returns() {
		stop[s.V] = true
	}
	seen := map[*flow.Vertex]bool{}
	n := 0
	for e := range okEdges {
		if seen[e.From] {
			continue
		}
		seen[e.From] = true
		for _, out := range e.From.Out {
			if okEdges[out] {
				continue
			}
			reach := g.Reach(out.To, nil, stop)
			for _, s := range f.Returns() {
				if !reach[s.V] {
					continue
				}
				n++
				rs, _ := s.Node.(*ast.ReturnStmt)
				o.Site("%s failed: %s", what, s.String())
				if rs == nil || len(rs.Results) == 0 {
					o.FailAt(f.ID+"#chain-of-"+what, s.Where(), "after %s failed %s returns without its error", what, f.ID)
					continue
				}
				res := ast.Unparen(rs.Results[len(rs.Results)-1])
				isErrOfCall := func(x ast.Expr) bool {
					id, ok := ast.Unparen(x).(*ast.Ident)
					if !ok {
						return false
					}
					c := c18f4LastCallDef(f, id, s)
					return c != nil && c == calls[0].Node
				}
				ok := isErrOfCall(res)
				if call, isCall := res.(*ast.CallExpr); !ok && isCall && an.CalleeID(f.Info(), call) == "fmt.Errorf" && len(call.Args) >= 2 && c18f4FormatWraps(f, call.Args[0]) {
					for _, a := range call.Args[1:] {
						if isErrOfCall(a) {
							ok = true
						}
					}
				}
				if !ok {
					o.FailAt(f.ID+"#chain-of-"+what, s.Where(), "after %s failed %s returns %s: the cause is no longer recognisable by errors.Is", what, f.ID, an.Text(res))
				}
			}
		}
	}
	if n == 0 {
		o.FailAt(f.ID+"#chain-of-"+what, calls[0].Where(), "no return hands out the error of %s", what)
	}
}

// c18f4LastCallDef returns the call whose error result the variable id holds
// at site s: the variable's only writes are assignments from calls, and the
// one returned is the single such call from which s is reached without
// passing another write of the variable.  nil when that cannot be decided.
func c18f4LastCallDef(f *an.Func, id *ast.Ident, s an.Site) *ast.CallExpr {
	obj := c17ObjOfIdent(f, id)
	if obj == nil {
		return nil
	}
	type wr struct {
		v    *flow.Vertex
		call *ast.CallExpr
	}
	var ws []wr
	for _, w := range c17WritesOf(f, obj) {
		ws0, ok := c17SiteOfNode(f, w.Node)
		if !ok {
			return nil
		}
		var call *ast.CallExpr
		switch n := w.Node.(type) {
		case *ast.AssignStmt:
			if len(n.Rhs) == 1 {
				call, _ = ast.Unparen(n.Rhs[0]).(*ast.CallExpr)
			}
		case *ast.ValueSpec:
			if len(n.Values) == 0 {
				continue // zero-value declaration
			}
			if len(n.Values) == 1 {
				call, _ = ast.Unparen(n.Values[0]).(*ast.CallExpr)
			}
		}
		if call == nil {
			return nil
		}
		ws = append(ws, wr{ws0.V, call})
	}
	var found *ast.CallExpr
	for i, w := range ws {
		stop := map[*flow.Vertex]bool{}
		for j, x := range ws {
			if j != i {
				stop[x.v] = true
			}
		}
		reaches := false
		for _, e := range w.v.Out {
			if f.Graph().Reach(e.To, nil, stop)[s.V] && !stop[s.V] {
				reaches = true
			}
		}
		if reaches {
			if found != nil {
				return nil
			}
			found = w.call
		}
	}
	return found
}

// c18f4ReofferKeepsRate is the body of reoffered-input-keeps-the-rate-already-offered.
func c18f4ReofferKeepsRate(o *an.Obl, p *an.Prog) {
	us := sw + "UtxoSweeper."
	whole := an.Field(sw+"SweeperInput", "params", nil)
	rate := an.Field(sw+"Params", "StartingFeeRate", nil)
	someOf := func(f *an.Func, e ast.Expr) ast.Expr {
		call, ok := ast.Unparen(e).(*ast.CallExpr)
		if !ok || len(call.Args) != 1 || !strings.HasSuffix(an.CalleeID(f.Info(), call), ".Some") || !strings.HasPrefix(an.CalleeID(f.Info(), call), "fn") {
			return nil
		}
		return ast.Unparen(call.Args[0])
	}
	const newRateRe = `^\$p0\.params\.StartingFeeRate\.UnwrapOr\(0\)$`
	const oldRateRe = `^\$p1\.params\.StartingFeeRate\.UnwrapOr\(0\)$`
	seen := map[string]int{}
	for _, f := range p.Funcs(false, "sweep") {
		ws := append(f.Assigns(whole, false), f.Assigns(rate, false)...)
		for _, w := range ws {
			as, _ := w.Node.(*ast.AssignStmt)
			if as == nil || len(as.Lhs) != 1 || len(as.Rhs) != 1 || as.Tok != token.ASSIGN {
				o.FailAt(f.ID+"#params-write-form", w.Where(), "the sweep parameters of an input are written by %s, expected a plain single assignment", an.Text(w.Node))
				continue
			}
			lhs, rhs := f.Canon(as.Lhs[0]), as.Rhs[0]
			isWhole := whole(f, an.Strip(f.Info(), as.Lhs[0]))
			o.Site("params writer %s: %s = %s", f.ID, lhs, f.Canon(rhs))
			seen[f.ID]++
			switch f.ID {
			case us + "handleExistingInput":
				if isWhole {
					if lhs != "$p1.params" || f.Canon(rhs) != "$p0.params" {
						o.FailAt(f.ID+"#replacement", w.Where(), "handleExistingInput replaces %s by %s, expected the known input's params by the re-offered message's", lhs, f.Canon(rhs))
					}
					continue
				}
				x := someOf(f, rhs)
				xid, _ := x.(*ast.Ident)
				if lhs != "$p1.params.StartingFeeRate" || xid == nil {
					o.FailAt(f.ID+"#kept-rate", w.Where(), "%s: expected the known input's StartingFeeRate = fn.Some(<the rate recorded before the replacement>)", an.Text(as))
					continue
				}
				c18f4KeptRate(o, f, w, xid, oldRateRe, newRateRe, f.Assigns(whole, false))
			case us + "markInputsPublishFailed":
				x := someOf(f, rhs)
				if isWhole || x == nil || f.Canon(x) != "$p1" {
					o.FailAt(f.ID+"#failed-rate", w.Where(), "%s: expected StartingFeeRate = fn.Some(<the rate parameter>)", an.Text(as))
					continue
				}
				// never lowered or zeroed (repair f94f7cd)
				c18f5MonotoneRateWrite(o, f, w, as, x)
			case us + "handleNewInput$1":
				x := someOf(f, rhs)
				if isWhole || x == nil || !reMatch(`^\$(lit\.)?p0\.FeeRate$`, f.Canon(x)) {
					o.FailAt(f.ID+"#mempool-rate", w.Where(), "%s: expected StartingFeeRate = fn.Some(<fee rate of the mempool spend>)", an.Text(as))
				}
				if !c18f4FreshInput(o, f, as.Lhs[0]) {
					o.FailAt(f.ID+"#mempool-rate-target", w.Where(), "the mempool rate is stored into %s, expected the params of the input handleNewInput has just created", lhs)
				}
				// replaces a requested rate only if it is higher (repair 53291d0)
				if !isWhole && x != nil {
					c18f5MonotoneRateWrite(o, f, w, as, x)
				}
			case us + "handleUpdateReq":
				// explicit user request (UpdateParams / bumpfee): the rate is
				// the user's to set
				if !isWhole {
					o.FailAt(f.ID+"#update-request", w.Where(), "handleUpdateReq writes %s, expected the whole parameter set of the request", lhs)
				}
			default:
				o.FailAt(f.ID+"#unlisted-params-writer", w.Where(), "%s writes the sweep parameters of a pending input (%s); a new writer must keep the rate already offered and be added to the table", f.ID, an.Text(as))
			}
		}
	}
	for _, id := range []string{us + "handleExistingInput", us + "markInputsPublishFailed"} {
		if seen[id] == 0 {
			o.FailAt(id+"#no-params-write", "", "%s no longer writes the sweep parameters: the table of this obligation is out of date", id)
		}
	}
	// the rate recorded for a failed publish is the one the publisher reported
	for _, f := range p.Funcs(false, "sweep") {
		for _, s := range f.Calls(an.CalleeIs(us+"markInputsPublishFailed"), false) {
			a := f.ArgCanon(s)
			o.Site("%s rate=%s", s.String(), a[1])
			if !reMatch(`^\$p0\.result\.FeeRate$`, a[1]) {
				o.FailAt(f.ID+"#failed-rate-source", s.Where(), "markInputsPublishFailed is given the rate %s, expected the bump result's FeeRate", a[1])
			}
		}
	}
}

// c18f4FreshInput: lhs is <v>.params.StartingFeeRate inside a closure of
// handleNewInput, v being a variable of handleNewInput that was assigned a new
// &SweeperInput{…} on every path before the closure is handed out.
func c18f4FreshInput(o *an.Obl, f *an.Func, lhs ast.Expr) bool {
	sel, _ := an.Strip(f.Info(), lhs).(*ast.SelectorExpr)
	if sel == nil {
		return false
	}
	inner, _ := ast.Unparen(sel.X).(*ast.SelectorExpr)
	if inner == nil || inner.Sel.Name != "params" {
		return false
	}
	id, _ := ast.Unparen(inner.X).(*ast.Ident)
	root := f.Root()
	if id == nil || root == f || f.Lit == nil {
		return false
	}
	obj := c17ObjOfIdent(f, id)
	var fresh []an.Site
	for _, w := range c17WritesOf(root, obj) {
		u, _ := w.Rhs.(*ast.UnaryExpr)
		if u == nil || u.Op != token.AND || w.Tok != token.ASSIGN || !w.Whole || w.Tuple {
			continue
		}
		if cl, ok := ast.Unparen(u.X).(*ast.CompositeLit); ok && an.TypeID(root.Info().TypeOf(cl)) == sw+"SweeperInput" {
			if s, ok := c17SiteOfNode(root, w.Node); ok {
				fresh = append(fresh, s)
			}
		}
	}
	use := root.Graph().Containing(f.Lit, true)
	if len(fresh) == 0 || use == nil {
		return false
	}
	o.Site("%s: the closure stores into the input created at %s", f.ID, fresh[0].Where())
	return root.Before(fresh, an.Site{Fn: root, V: use, Node: f.Lit})
}

// c18f4KeptRate checks the write-back `known.params.StartingFeeRate =
// fn.Some(x)` at w in handleExistingInput.
func c18f4KeptRate(o *an.Obl, f *an.Func, w an.Site, x *ast.Ident, oldRe, newRe string, replacements []an.Site) {
	obj := c17ObjOfIdent(f, x)
	def := f.UniqueDef(x)
	if def == nil || !reMatch(oldRe, f.Canon(def)) {
		o.FailAt(f.ID+"#kept-rate-source", w.Where(), "the rate written back, %s, is not a local defined once as the known input's StartingFeeRate.UnwrapOr(0)", x.Name)
		return
	}
	ds, ok := c17SiteOfNode(f, def)
	if !ok || !need(o, f, "replacement of the known input's params", replacements, 1) {
		return
	}
	g := f.Graph()
	xt := c17ObjTerm(obj)
	newRate := canonTerm(newRe)
	for _, rep := range replacements {
		// recorded before the replacement
		before(o, f, "the read of the rate already offered", []an.Site{ds}, "the replacement of the params", []an.Site{rep})
		if c17StrictlyAfter(g, rep.V)[ds.V] {
			o.FailAt(f.ID+"#kept-rate-read-late", ds.Where(), "the rate already offered is read at %s, which can execute after the params were replaced at %s", ds.Where(), rep.Where())
		}
		// written back on every path, unless the new params ask for at least as much
		var exits []an.Site
		for _, s := range f.Returns() {
			exits = append(exits, s)
		}
		mustDoUnlessFrom(o, f, rep.V, "the write-back of the rate already offered", []an.Site{w}, exits,
			an.Cmp(xt, an.LE, newRate, "offered <= new StartingFeeRate.UnwrapOr(0)"))
		if !c17StrictlyAfter(g, rep.V)[w.V] {
			o.FailAt(f.ID+"#kept-rate-early", w.Where(), "the write-back at %s does not follow the replacement of the params at %s", w.Where(), rep.Where())
		}
	}
	guarded(o, f, w, an.Cmp(xt, an.GE, newRate, "offered >= new StartingFeeRate.UnwrapOr(0)"))
}

// c18f4EstimateClamped is the body of estimate-below-the-relay-fee-is-clamped.
func c18f4EstimateClamped(o *an.Obl, p *an.Prog) {
	f := p.Func(sw + "FeeEstimateInfo.Estimate")
	// the local that receives the estimator's answer
	est := f.Calls(an.CalleeNamed("EstimateFeePerKW"), false)
	relay := f.Calls(an.CalleeNamed("RelayFeePerKW"), false)
	if !needExactly(o, f, "EstimateFeePerKW", est, 1) || !needExactly(o, f, "RelayFeePerKW", relay, 1) {
		return
	}
	var rate types.Object
	if as, ok := est[0].V.Node.(*ast.AssignStmt); ok && len(as.Rhs) == 1 && ast.Unparen(as.Rhs[0]) == est[0].Node && len(as.Lhs) == 2 {
		if id, isID := as.Lhs[0].(*ast.Ident); isID {
			rate = c17ObjOfIdent(f, id)
		}
	}
	if rate == nil {
		o.FailAt(f.ID+"#estimate", est[0].Where(), "cannot find the local that receives the estimator's answer")
		return
	}
	rt := c17ObjTerm(rate)
	min := canonTerm(`^\$p0\.RelayFeePerKW\(\)$`)
	g := f.Graph()
	after := c17StrictlyAfter(g, relay[0].V)
	manual := an.Cmp(an.FieldPath(an.Recv(), "ConfTarget"), an.EQ, an.IntConst(0), "f.ConfTarget == 0")
	for _, s := range f.Returns() {
		if after[s.V] && f.ClassifyReturn(s) != an.RetSuccess {
			guarded(o, f, s, manual)
		}
	}
	// the clamp
	var clamps []an.Site
	for _, w := range c17WritesOf(f, rate) {
		s, ok := c17SiteOfNode(f, w.Node)
		if !ok || !after[s.V] {
			continue
		}
		if w.Tok == token.ASSIGN && w.Whole && !w.Tuple && w.Rhs != nil && an.Match(f, min, w.Rhs) {
			clamps = append(clamps, s)
			guarded(o, f, s, an.Cmp(rt, an.LE, min, "rate < relay fee"))
			continue
		}
		o.FailAt(f.ID+"#rate-rewritten", f.Where(w.Node.Pos()), "after the relay fee was read the rate is changed by %s; only the clamp to the relay fee is tabled", an.Text(w.Node))
	}
	var succ []an.Site
	for _, s := range f.SuccessReturns() {
		if after[s.V] {
			succ = append(succ, s)
		}
	}
	if need(o, f, "clamp `rate = relay fee`", clamps, 1) && need(o, f, "success return after the relay fee was read", succ, 1) {
		mustDoUnlessFrom(o, f, relay[0].V, "the clamp of the estimate to the relay fee", clamps, succ,
			an.Cmp(rt, an.GE, min, "rate >= relay fee"))
	}
}

// c18f4FilterKeepsInput is the body of input-is-not-filtered-out-for-its-starting-rate.
func c18f4FilterKeepsInput(o *an.Obl, p *an.Prog) {
	f := p.Func(sw + "BudgetAggregator.filterInputs")
	// the map that is returned
	var result types.Object
	for _, s := range f.Returns() {
		rs, _ := s.Node.(*ast.ReturnStmt)
		if rs == nil || len(rs.Results) != 1 {
			continue
		}
		if id, ok := ast.Unparen(rs.Results[0]).(*ast.Ident); ok {
			result = c17ObjOfIdent(f, id)
		}
	}
	var stores []an.Site
	if result != nil {
		for _, w := range c17WritesOf(f, result) {
			ix, isIx := ast.Unparen(w.Lhs).(*ast.IndexExpr)
			if w.Lhs == nil || !isIx || w.Tok != token.ASSIGN || w.Rhs == nil {
				continue
			}
			if s, ok := c17SiteOfNode(f, w.Node); ok {
				o.Site("store %s[%s] = %s", result.Name(), f.Canon(ix.Index), f.Canon(w.Rhs))
				if f.Canon(w.Rhs) != "$elem($p0)" || f.Canon(ix.Index) != "$elem($p0).OutPoint()" {
					o.FailAt(f.ID+"#store", s.Where(), "the filtered map receives %s under %s, expected the input of this iteration under its outpoint", f.Canon(w.Rhs), f.Canon(ix.Index))
				}
				stores = append(stores, s)
			}
		}
	}
	if !need(o, f, "store of the input into the returned map", stores, 1) {
		return
	}
	size := f.Calls(an.CalleeNamed("SizeUpperBound"), false)
	fail := flow.EdgeSet{}
	if needExactly(o, f, "SizeUpperBound", size, 1) {
		okEdges, _ := f.OkEdges(size[0], an.OkErrNil)
		for e := range okEdges {
			for _, out := range e.From.Out {
				if !okEdges[out] {
					fail[out] = true
				}
			}
		}
	}
	sizeFails := an.Fact{Desc: "SizeUpperBound failed", Hold: func(_ *an.Func, e *flow.Edge) bool { return fail[e] }}
	budget := canonTerm(`^\(\$elem\(\$p0\)\.params\.Budget \+ [^()]*\)$`)
	minFee := canonTerm(`^\$recv\.estimator\.RelayFeePerKW\(\)\.FeeForWeight\(`)
	poor := an.CmpX(budget, an.LT, minFee, "budget < minFee")
	dust := an.Truth(an.CallTo(sw+"isDustOutput", nil, canonTerm(`^\$elem\(\$p0\)\.RequiredTxOut\(\)$`)), true, "isDustOutput(RequiredTxOut())")
	everyIterationOr(o, f, `^\$p0$`, stores, an.AnyOf("SizeUpperBound failed | budget < minFee | dust required output", sizeFails, poor, dust), "the store of the input into the returned map")

	// no decision on the starting rate
	g := f.Graph()
	for _, v := range g.V {
		if v.Kind != flow.KCond && v.Kind != flow.KCase {
			continue
		}
		c := f.AtomCanon(v)
		if !strings.Contains(c, "StartingFeeRate") {
			continue
		}
		o.Site("condition on the starting rate at %s: %s", f.Where(v.Pos()), c)
		for _, e := range v.Out {
			hit := false
			for _, s := range stores {
				if g.Reach(e.To, nil, map[*flow.Vertex]bool{})[s.V] {
					hit = true
				}
			}
			// the store must stay reachable within the same iteration
			head := c18f4LoopHead(f, `^\$p0$`)
			if hit && head != nil {
				hit = false
				for _, s := range stores {
					if g.Reach(e.To, nil, map[*flow.Vertex]bool{head: true})[s.V] {
						hit = true
					}
				}
			}
			if !hit {
				o.FailAt(f.ID+"#starting-rate-decides", f.Where(v.Pos()), "the %v edge of %s leaves the iteration without storing the input: its starting rate decides whether it is offered", e.Kind == flow.ETrue, an.Text(v.Node))
			}
		}
	}
}

func c18f4LoopHead(f *an.Func, loopRe string) *flow.Vertex {
	for _, v := range f.Graph().V {
		if rs, ok := v.Node.(*ast.RangeStmt); ok && v.Kind == flow.KRange && reMatch(loopRe, f.Canon(rs.X)) {
			return v
		}
	}
	return nil
}

// c18f4RequeueRetiresRecord is the body of requeued-input-has-no-live-monitor-record.
func c18f4RequeueRetiresRecord(o *an.Obl, p *an.Prog) {
	us := sw + "UtxoSweeper."
	state := an.Field(sw+"SweeperInput", "state", nil)
	offeredAgain := an.Or(an.PkgVar("sweep", "Init"), an.PkgVar("sweep", "PublishFailed"))
	n := 0
	for _, f := range p.Funcs(false, "sweep") {
		for _, w := range f.Assigns(state, false) {
			as, _ := w.Node.(*ast.AssignStmt)
			if as == nil || len(as.Lhs) != 1 || len(as.Rhs) != 1 {
				o.FailAt(f.ID+"#state-write-form", w.Where(), "the state of an input is written by %s", an.Text(w.Node))
				continue
			}
			if !offeredAgain(f, ast.Unparen(as.Rhs[0])) {
				continue
			}
			n++
			o.Site("re-queueing write %s", w.String())
			if f.ID == us+"markInputsPublishFailed" {
				continue
			}
			sel := an.Strip(f.Info(), as.Lhs[0]).(*ast.SelectorExpr)
			cur := an.Field(sw+"SweeperInput", "state", canonTerm("^"+regexpQuote(f.Canon(sel.X))+"$"))
			okPending, _ := f.Guarded(w, an.Cmp(cur, an.NE, an.PkgVar("sweep", "PendingPublish"), ""))
			okPublished, _ := f.Guarded(w, an.Cmp(cur, an.NE, an.PkgVar("sweep", "Published"), ""))
			if !okPending || !okPublished {
				o.FailAt(f.ID+"#requeues-input-with-a-live-monitor-record", w.Where(), "%s sets the state of an input to %s without testing that it is neither PendingPublish nor Published and without retiring the publisher's monitor record: the next block starts a second record for the same outpoint", f.ID, an.Text(as.Rhs[0]))
			}
		}
		for _, s := range f.Calls(an.CalleeIs(us+"markInputsPublishFailed"), false) {
			o.Site("%s", s.String())
			switch f.ID {
			case us + "handleBumpEventTxFailed", us + "handleBumpEventTxUnknownSpend":
			default:
				o.FailAt(f.ID+"#marks-publish-failed", s.Where(), "%s marks inputs PublishFailed; only the handlers of the terminal bump events TxFailed and TxUnknownSpend may (the publisher has removed the record)", f.ID)
			}
		}
	}
	if n == 0 {
		o.FailAt("sweep.SweeperInput.state#no-requeue", "", "no statement re-queues an input: the table of this obligation is out of date")
	}
	// the two handlers run only for their events
	h := p.Func(us + "handleBumpEvent")
	for callee, ev := range map[string]string{us + "handleBumpEventTxFailed": "TxFailed", us + "handleBumpEventTxUnknownSpend": "TxUnknownSpend"} {
		for _, f := range p.Funcs(false, "sweep") {
			for _, s := range f.Calls(an.CalleeIs(callee), false) {
				o.Site("%s", s.String())
				if f.ID != h.ID {
					o.FailAt(f.ID+"#handles-"+ev, s.Where(), "%s calls %s; only handleBumpEvent dispatches bump events", f.ID, callee)
					continue
				}
				guarded(o, f, s, an.Cmp(an.FieldPath(an.FieldPath(an.Param(0), "result"), "Event"), an.EQ, an.PkgVar("sweep", ev), "r.result.Event == "+ev))
			}
		}
	}
}
