package spec

import (
	"lndlint/internal/an"
)

func init() { specExtras["C20"] = append(specExtras["C20"], c20r5Rules) }

// c20r5Rules: seeded change C20/i of the fifth round (the per-block node
// garbage collection is skipped for a block that closes no channel).
func c20r5Rules(r *an.Run) {
	p := r.Prog
	r.Obl("every-pruned-block-collects-channelless-nodes", "PATH",
		"in the transaction closure of KVStore.PruneGraph and of SQLStore.PruneGraph every return that is not a failure return is preceded, on every path from the entry of the closure, by the call of the store's pruneGraphNodes: the node garbage collection of a connected block is restricted by no condition (in particular not by whether the block closed a channel of the graph); the closure that calls it is the one that writes the prune log entry",
		"`the node has a known channel` is decided by the existence of the node record (HasV1Node); DisconnectBlockAtHeight and DeleteChannelEdges remove channels without removing their nodes and rely on the collection of the next block, so a block that skips it leaves a node without any channel `known` and its node announcements are applied and relayed", 2,
		func(o *an.Obl) {
			root := p.Func("graph/db.KVStore.PruneGraph")
			gcID := "graph/db.KVStore.pruneGraphNodes"
			found := 0
			for _, lf := range root.Lits {
				gcs := lf.Calls(an.CalleeIs(gcID), false)
				logs := lf.Calls(an.CalleeNamed("Put"), false)
				if len(gcs) == 0 && len(logs) == 0 {
					continue
				}
				found++
				var targets []an.Site
				for _, s := range lf.Returns() {
					if lf.ClassifyReturn(s) != an.RetFailure {
						targets = append(targets, s)
					}
				}
				if !need(o, lf, "returns that may report success", targets, 1) {
					continue
				}
				for _, s := range logs {
					o.Site("%s: prune log write %s shares the closure with the node collection", lf.ID, s.String())
				}
				mustDoUnless(o, lf, "the node garbage collection (pruneGraphNodes)", gcs, targets)
			}
			if found == 0 {
				o.FailAt(root.ID+"#no-prune-closure", root.Where(root.Body.Pos()), "no closure of %s writes the prune log or collects nodes", root.ID)
			}
			// the sql sibling (repair 41afca5: it used to leave its closure
			// right after the prune log entry when the block spent no channel
			// of the graph): the same rule, its prune log write is the
			// UpsertPruneLogEntry query
			sq := p.Func("graph/db.SQLStore.PruneGraph")
			sqFound := 0
			for _, lf := range sq.Lits {
				gcs := lf.Calls(an.CalleeIs("graph/db.SQLStore.pruneGraphNodes"), false)
				logs := lf.Calls(an.CalleeNamed("UpsertPruneLogEntry"), false)
				if len(gcs) == 0 && len(logs) == 0 {
					continue
				}
				sqFound++
				var targets []an.Site
				for _, s := range lf.Returns() {
					if lf.ClassifyReturn(s) != an.RetFailure {
						targets = append(targets, s)
					}
				}
				if !need(o, lf, "returns that may report success", targets, 1) {
					continue
				}
				mustDoUnless(o, lf, "the node garbage collection (pruneGraphNodes)", gcs, targets)
			}
			if sqFound == 0 {
				o.FailAt(sq.ID+"#no-prune-closure", sq.Where(sq.Body.Pos()), "no closure of %s writes the prune log or collects nodes", sq.ID)
			}
		})
}
