package contractcourt

// Probe 1 (property C13, restart equivalence): a contract that was checkpointed
// as resolved but not yet removed from the arbitrator log must be removed after
// a restart, so that the channel can reach StateFullyResolved.
//
// Every resolver finishes with
//
//	markResolved(); Checkpoint(self)      -> log.InsertUnresolvedContracts
//
// and only afterwards ChannelArbitrator.resolveContract calls
//
//	log.ResolveContract(contract)         -> deletes the contract from the log
//
// These are two separate database transactions. If the process dies between
// them, the log holds a contract whose resolved flag is true. On the unmodified
// tree resolveContract's loop `for !currentContract.IsResolved()` is then never
// entered after the restart, ResolveContract is never called, no resolution
// signal is sent, and StateWaitingFullResolution sees len(unresolved) != 0 on
// this and every later restart.
//
// Both tests FAIL on the unmodified tree and pass with probe12-fix1.patch.

import (
	"errors"
	"testing"
	"time"

	"github.com/btcsuite/btcd/chainhash/v2"
	"github.com/btcsuite/btcd/wire/v2"
	"github.com/lightningnetwork/lnd/channeldb"
	"github.com/lightningnetwork/lnd/fn/v2"
	"github.com/lightningnetwork/lnd/lnwallet"
	"github.com/stretchr/testify/require"
)

// TestProbeResolvedCheckpointNeverRemoved writes exactly what
// commitSweepResolver.Resolve() leaves in the log (`c.markResolved();
// c.Checkpoint(c, report)`) and then starts the arbitrator, i.e. it models a
// stop right after the resolver's final checkpoint.
func TestProbeResolvedCheckpointNeverRemoved(t *testing.T) {
	ctx, err := createTestChannelArbitrator(t, nil)
	require.NoError(t, err)

	tlog := ctx.log.(*testArbLog)
	blog := tlog.ArbitratorLog

	commitHash := chainhash.Hash{0xaa}
	commitRes := lnwallet.CommitOutputResolution{
		SelfOutPoint:       wire.OutPoint{Hash: commitHash, Index: 1},
		SelfOutputSignDesc: testSignDesc,
		MaturityDelay:      10,
	}
	require.NoError(t, blog.LogContractResolutions(&ContractResolutions{
		CommitHash:       commitHash,
		CommitResolution: &commitRes,
	}))
	require.NoError(t, blog.InsertConfirmedCommitSet(&CommitSet{
		ConfCommitKey: fn.Some(LocalHtlcSet),
		HtlcSets:      map[HtlcSetKey][]channeldb.HTLC{},
	}))

	r := &commitSweepResolver{
		commitResolution: commitRes,
		confirmHeight:    100,
	}
	r.resolved.Store(true)
	require.NoError(t, blog.InsertUnresolvedContracts(nil, r))
	require.NoError(t, blog.CommitState(StateWaitingFullResolution))

	// Restart.
	require.NoError(t, ctx.chanArb.Start(nil, newBeatFromHeight(0)))
	defer ctx.CleanUp()

	select {
	case s := <-tlog.newStates:
		require.Equal(t, StateFullyResolved, s)

	case <-time.After(3 * time.Second):
		unresolved, err := blog.FetchUnresolvedContracts()
		require.NoError(t, err)
		t.Fatalf("channel stuck in %v: the only contract left is "+
			"already resolved=%v but is never removed from the "+
			"log (%d contracts)", ctx.chanArb.state,
			unresolved[0].IsResolved(), len(unresolved))
	}

	unresolved, err := blog.FetchUnresolvedContracts()
	require.NoError(t, err)
	require.Empty(t, unresolved)
}

// errProbeCrash is returned by crashBeforeResolveLog in place of the write that
// the simulated crash prevented.
var errProbeCrash = errors.New("probe: process died before ResolveContract")

// crashBeforeResolveLog models the process dying right before the
// ResolveContract transaction: that write never reaches the database, every
// earlier write (including the resolver's final checkpoint) did.
type crashBeforeResolveLog struct {
	ArbitratorLog

	crashed chan struct{}
}

func (l *crashBeforeResolveLog) ResolveContract(ContractResolver) error {
	close(l.crashed)

	return errProbeCrash
}

// TestProbeStopBetweenCheckpointAndResolveContract reaches the same log
// contents through the production code path: a breach close is driven with a
// real (bolt) arbitrator log until the breach resolver has finished and
// checkpointed itself; the ResolveContract write that follows is lost (crash).
// After the restart the channel must still become fully resolved, as it does
// in an uninterrupted run (TestChannelArbitratorBreachClose).
func TestProbeStopBetweenCheckpointAndResolveContract(t *testing.T) {
	ctx, err := createTestChannelArbitrator(t, nil)
	require.NoError(t, err)

	tlog := ctx.log.(*testArbLog)
	crashLog := &crashBeforeResolveLog{
		ArbitratorLog: tlog,
		crashed:       make(chan struct{}),
	}
	ctx.chanArb.log = crashLog

	require.NoError(t, ctx.chanArb.Start(nil, newBeatFromHeight(0)))

	ctx.chanArb.cfg.ChainEvents.ContractBreach <- &BreachCloseInfo{
		BreachResolution: &BreachResolution{
			FundingOutPoint: wire.OutPoint{},
		},
		CommitSet: CommitSet{
			ConfCommitKey: fn.Some(RemoteHtlcSet),
			HtlcSets: map[HtlcSetKey][]channeldb.HTLC{
				RemoteHtlcSet: {},
			},
		},
		CommitHash: chainhash.Hash{},
	}
	ctx.AssertStateTransitions(
		StateContractClosed, StateWaitingFullResolution,
	)

	// The breach resolver subscribes to the breach arbitrator; let the
	// latter report that the breach is fully handled. The resolver then
	// does `b.markResolved(); b.Checkpoint(b)`.
	<-ctx.breachSubscribed
	close(ctx.breachResolutionChan)

	// ... and the process dies before log.ResolveContract.
	select {
	case <-crashLog.crashed:
	case <-time.After(defaultTimeout):
		t.Fatalf("ResolveContract not reached")
	}

	// What the crash left on disk: the contract, marked resolved.
	unresolved, err := tlog.FetchUnresolvedContracts()
	require.NoError(t, err)
	require.Len(t, unresolved, 1)
	require.True(t, unresolved[0].IsResolved())

	// Restart on top of the same log.
	newCtx, err := ctx.Restart(nil)
	require.NoError(t, err)
	defer newCtx.CleanUp()

	select {
	case s := <-tlog.newStates:
		require.Equal(t, StateFullyResolved, s)

	case <-time.After(3 * time.Second):
		t.Fatalf("after the restart the channel stays in %v: the "+
			"resolved %T is never removed from the log",
			newCtx.chanArb.state, unresolved[0])
	}

	select {
	case <-newCtx.resolvedChan:
	case <-time.After(defaultTimeout):
		t.Fatalf("channel was not marked fully resolved")
	}
}
