package spec

import (
	"fmt"
	"go/ast"
	"go/types"
	"regexp"
	"sort"
	"strings"

	"lndlint/internal/an"
	"lndlint/internal/flow"
)

func init() {
	specExtras["C14"] = append(specExtras["C14"], c14f5Rules)
}

const c14f5TN = "chainntnfs.TxNotifier."

// c14f5Kind describes one of the two sibling halves of the TxNotifier (the
// confirmation side and the spend side) by the names of its types and tables.
type c14f5Kind struct {
	name    string // "conf" | "spend"
	setType string // per-request set caching the details
	reqMap  string // TxNotifier field: request -> set
	height  string // field of the details holding the height of the event
	index   string // TxNotifier field: height of the event -> requests
	atTip   string // handler adopting details of the block being connected
	event   string // struct of channels handed to the client
	ntfn    string // per-client registration
}

var c14f5Kinds = []*c14f5Kind{
	{name: "conf", setType: "confNtfnSet", reqMap: "confNotifications", height: "BlockHeight", index: "confsByInitialHeight",
		atTip: "handleConfDetailsAtTip", event: "ConfirmationEvent", ntfn: "ConfNtfn"},
	{name: "spend", setType: "spendNtfnSet", reqMap: "spendNotifications", height: "SpendingHeight", index: "spendsByHeight",
		atTip: "handleSpendDetailsAtTip", event: "SpendEvent", ntfn: "SpendNtfn"},
}

// c14f5Historical: the functions through which details found outside the
// block being connected (historical rescans, relevant transactions relayed by
// the backend) enter a request set.
var c14f5Historical = map[string]string{
	"conf":  c14f5TN + "UpdateConfDetails",
	"spend": c14f5TN + "updateSpendDetails",
}

// c14f5Write is one assignment to the details field of a request set.
type c14f5Write struct {
	f     *an.Func
	site  an.Site
	kind  *c14f5Kind
	base  ast.Expr // X of X.details
	rhs   ast.Expr // nil when the assignment is not 1:1
	clear bool     // the value written is nil
}

// c14f5ObjOf resolves an identifier to its object.
func c14f5ObjOf(f *an.Func, e ast.Expr) types.Object {
	id, ok := ast.Unparen(e).(*ast.Ident)
	if !ok {
		return nil
	}
	if o := f.Info().Uses[id]; o != nil {
		return o
	}
	return f.Info().Defs[id]
}

// c14f5Obj matches an identifier referring to obj.
func c14f5Obj(obj types.Object) an.Term {
	return func(f *an.Func, e ast.Expr) bool {
		return obj != nil && c14f5ObjOf(f, e) == obj
	}
}

// c14f5DetailWrites lists the assignments to <set>.details of the kind in the
// chainntnfs package, identified by the field, not by the name of the local
// that holds the set.
func c14f5DetailWrites(p *an.Prog, k *c14f5Kind) []c14f5Write {
	var out []c14f5Write
	fld := an.Field("chainntnfs."+k.setType, "details", nil)
	for _, f := range p.Funcs(false, "chainntnfs") {
		for _, s := range f.Assigns(fld, false) {
			as, ok := s.Node.(*ast.AssignStmt)
			if !ok {
				continue
			}
			for i, l := range as.Lhs {
				sel, isSel := an.Strip(f.Info(), l).(*ast.SelectorExpr)
				if !isSel || !fld(f, sel) {
					continue
				}
				w := c14f5Write{f: f, site: s, kind: k, base: sel.X}
				if len(as.Lhs) == len(as.Rhs) {
					w.rhs = as.Rhs[i]
					w.clear = an.IsNilIdent(f.Info(), ast.Unparen(as.Rhs[i]))
				}
				out = append(out, w)
			}
		}
	}
	return out
}

// c14f5CompletedInTheSameRun reports whether control, having executed the
// store at w, necessarily executes one of the stores in completes next, with
// nothing in between but plain stores: assignments that contain no call, no
// function literal, no channel operation and no read of a rescanStatus field.
// Such a run has a single entry and a single way through, so the order of its
// independent stores cannot be observed: `status = complete; details = d` and
// `details = d; status = complete` are the same adoption.
func c14f5CompletedInTheSameRun(f *an.Func, w an.Site, completes []an.Site) bool {
	goal := map[*flow.Vertex]bool{}
	for _, c := range completes {
		goal[c.V] = true
	}
	plain := func(v *flow.Vertex) bool {
		if v.Kind == flow.KJoin {
			return true
		}
		as, ok := v.Node.(*ast.AssignStmt)
		if v.Kind != flow.KStmt || !ok {
			return false
		}
		pure := true
		ast.Inspect(as, func(n ast.Node) bool {
			switch x := n.(type) {
			case *ast.CallExpr, *ast.FuncLit:
				pure = false
			case *ast.UnaryExpr:
				if x.Op.String() == "<-" {
					pure = false
				}
			case *ast.SelectorExpr:
				if x.Sel.Name == "rescanStatus" {
					pure = false
				}
			}
			return pure
		})
		return pure
	}
	if w.V == nil || !plain(w.V) {
		return false
	}
	v := w.V
	for steps := 0; steps < 16; steps++ {
		if len(v.Out) != 1 || v.Out[0].Kind != flow.EPlain {
			return false
		}
		v = v.Out[0].To
		if goal[v] {
			// the completing store itself is entered only through this run
			return len(v.In) == 1
		}
		if len(v.In) != 1 || !plain(v) {
			return false
		}
	}
	return false
}

// c14f5Sources returns the canonical forms of every expression assigned to
// the local obj in the root function of f (`x, ok := m[k]` yields m[k]).
func c14f5Sources(f *an.Func, obj types.Object) []string {
	var out []string
	if obj == nil {
		return nil
	}
	info := f.Info()
	is := func(e ast.Expr) bool {
		id, ok := ast.Unparen(e).(*ast.Ident)
		return ok && (info.Defs[id] == obj || info.Uses[id] == obj)
	}
	ast.Inspect(f.Root().Body, func(n ast.Node) bool {
		switch x := n.(type) {
		case *ast.AssignStmt:
			for i, l := range x.Lhs {
				if !is(l) {
					continue
				}
				switch {
				case len(x.Lhs) == len(x.Rhs):
					out = append(out, f.Canon(x.Rhs[i]))
				case len(x.Rhs) == 1 && i == 0:
					out = append(out, f.Canon(x.Rhs[0]))
				default:
					out = append(out, "<result "+itoa(i)+" of "+f.Canon(x.Rhs[0])+">")
				}
			}
		case *ast.ValueSpec:
			for i, nm := range x.Names {
				if info.Defs[nm] != obj {
					continue
				}
				if i < len(x.Values) {
					out = append(out, f.Canon(x.Values[i]))
				} else {
					out = append(out, "<zero value>")
				}
			}
		case *ast.RangeStmt:
			if (x.Key != nil && is(x.Key)) || (x.Value != nil && is(x.Value)) {
				out = append(out, "<range "+f.Canon(x.X)+">")
			}
		}
		return true
	})
	return out
}

var c14f5ParamRe = regexp.MustCompile(`^\$p(\d+)$`)

// c14f5Adoption resolves the shape `set.details = <details parameter>` where
// set was looked up under a request parameter: it returns the object of the
// set local, the index of the request parameter and that of the details
// parameter, or the reasons why the write does not have that shape.
func c14f5Adoption(w c14f5Write) (set types.Object, req, det int, problems []string) {
	f, k := w.f, w.kind
	req, det = -1, -1
	if f.Lit != nil {
		problems = append(problems, "the details are written inside a function literal")
		return
	}
	set = c14f5ObjOf(f, w.base)
	if set == nil {
		problems = append(problems, fmt.Sprintf("the set written (%s) is not a local looked up from n.%s under the request handed in", an.Text(w.base), k.reqMap))
		return
	}
	srcRe := regexp.MustCompile(`^\$recv\.` + k.reqMap + `\[\$p(\d+)\]$`)
	srcs := c14f5Sources(f, set)
	if len(srcs) == 0 {
		problems = append(problems, fmt.Sprintf("cannot find where %s comes from", an.Text(w.base)))
	}
	for _, s := range srcs {
		m := srcRe.FindStringSubmatch(s)
		if m == nil {
			problems = append(problems, fmt.Sprintf("%s is taken from %s, expected n.%s[<request parameter>]", an.Text(w.base), s, k.reqMap))
			continue
		}
		j := 0
		fmt.Sscan(m[1], &j)
		if req >= 0 && req != j {
			problems = append(problems, fmt.Sprintf("%s is looked up under two different parameters", an.Text(w.base)))
		}
		req = j
	}
	if w.rhs == nil {
		problems = append(problems, "the details are written by a multi-value assignment")
		return
	}
	m := c14f5ParamRe.FindStringSubmatch(f.Canon(w.rhs))
	if m == nil {
		problems = append(problems, fmt.Sprintf("the value adopted is %s, expected the details parameter", f.Canon(w.rhs)))
		return
	}
	fmt.Sscan(m[1], &det)
	return
}

// c14f5StaleGuard decides, for an adoption `set.details = details` outside the
// at-tip handlers, that no path reaches it unless the height of the details
// was compared below the set's reorgedHeight (or nothing was disconnected
// since the registration), a stale verdict being acted on by overwriting the
// parameter with nil. It returns the reasons for failure.
func c14f5StaleGuard(o *an.Obl, w c14f5Write) []string {
	f, k := w.f, w.kind
	set, _, det, problems := c14f5Adoption(w)
	if len(problems) > 0 || det < 0 {
		return problems
	}
	g := f.Graph()
	stop := map[*flow.Vertex]bool{}
	for _, a := range f.Assigns(an.Param(det), false) {
		as, ok := a.Node.(*ast.AssignStmt)
		if !ok || len(as.Lhs) != 1 || len(as.Rhs) != 1 || !an.IsNilIdent(f.Info(), ast.Unparen(as.Rhs[0])) {
			problems = append(problems, fmt.Sprintf("the details parameter is overwritten by %s; the only permitted overwrite is the discard `= nil`", an.Text(a.Node)))
			continue
		}
		stop[a.V] = true
	}
	heightT := canonTerm(fmt.Sprintf(`^(uint32\()?\$p%d\.%s\)?$`, det, k.height))
	reorgT := an.Field("chainntnfs."+k.setType, "reorgedHeight", c14f5Obj(set))
	fresh := an.CmpX(heightT, an.LT, reorgT, "details."+k.height+" < set.reorgedHeight")
	undisturbed := an.Cmp(reorgT, an.LE, an.IntConst(0), "set.reorgedHeight == 0")
	nothing := an.IsNil(an.Param(det), true, "details == nil")
	nFresh := len(f.EdgesOf(fresh))
	o.Site("%s: adoption %s; %d edges establish [%s], %d discards of the parameter", f.ID, w.site.String(), nFresh, fresh.Desc, len(stop))
	if nFresh == 0 {
		problems = append(problems, fmt.Sprintf("%s does not compare the height of the details (%s of parameter %d) with the reorgedHeight of the set it writes: details from a block disconnected meanwhile would be adopted", f.ID, k.height, det))
		return problems
	}
	cut := flow.EdgeSet{}
	for _, fc := range []an.Fact{fresh, undisturbed, nothing} {
		for e := range f.EdgesOf(fc) {
			cut[e] = true
		}
	}
	if g.Reach(g.Entry, cut, stop)[w.site.V] {
		problems = append(problems, fmt.Sprintf("%s can be reached although the details are at or above the lowest height disconnected since the registration (neither [%s] nor [%s] nor [%s] holds and the parameter was not discarded): %s",
			w.site.String(), fresh.Desc, undisturbed.Desc, nothing.Desc, f.RenderPath(g.PathTo(g.Entry, w.site.V, cut))))
	}
	return problems
}

// c14f5Builtin lists the calls of the builtin name in f (function literals
// not entered).
func c14f5Builtin(f *an.Func, name string) []an.Site {
	return f.Calls(an.CalleeIs("builtin."+name), false)
}

func c14f5NormHeight(c string) string {
	c = strings.TrimPrefix(c, "uint32(")
	if strings.HasPrefix(c, "$") || strings.HasPrefix(c, "(") {
		c = strings.TrimSuffix(c, ")")
	}
	return c
}

func c14f5Rules(r *an.Run) {
	p := r.Prog

	r.Obl("details-enter-a-request-set-only-at-tip-or-behind-the-staleness-test", "WHO",
		"the details field of a confNtfnSet / spendNtfnSet (identified as a field, whatever the local holding the set is called; composite literals included) is assigned a value only by the at-tip handler of its side and by the one historical entry point of its side (UpdateConfDetails, updateSpendDetails, which the obligation at-tip-and-historical-details-… holds to the staleness test); any further function that assigns it must itself pass that test; nil is assigned only by DisconnectTip; handleConfDetailsAtTip and handleSpendDetailsAtTip are referenced only by ConnectTip, as the callbacks of its filterTx call over the block being connected, and adopt the details they are handed",
		"the staleness test protects a request only if no caller can get details into the set around it: ProcessRelevantSpendTx used to call the inner function below the test, and an at-tip handler handed to another filterTx call would adopt a transaction of a block that is not the one being connected", 10,
		func(o *an.Obl) {
			ct := p.Func(c14f5TN + "ConnectTip")
			for _, k := range c14f5Kinds {
				atTip := p.Func(c14f5TN + k.atTip)
				nAdopt := map[string]int{}
				for _, w := range c14f5DetailWrites(p, k) {
					root := w.f.Root().ID
					o.Site("%s details written by %s", k.name, w.site.String())
					switch {
					case w.clear:
						if root != c14f5TN+"DisconnectTip" {
							o.FailAt(w.f.ID+"#clears-"+k.name+"-details", w.site.Where(), "%s clears the cached %s details; only DisconnectTip may (for the requests of the height it disconnects)", w.f.ID, k.name)
						}
					case root == atTip.ID:
						nAdopt[root]++
						_, _, det, probs := c14f5Adoption(w)
						for _, pr := range probs {
							o.FailAt(w.f.ID+"#at-tip-adoption-shape", w.site.Where(), "%s: %s", w.f.ID, pr)
						}
						if len(probs) == 0 && det != 1 {
							o.FailAt(w.f.ID+"#at-tip-adopts", w.site.Where(), "%s adopts parameter %d, expected the details built by filterTx (parameter 1)", w.f.ID, det)
						}
					case root == c14f5Historical[k.name]:
						nAdopt[root]++
					default:
						probs := c14f5StaleGuard(o, w)
						if len(probs) > 0 {
							o.FailAt(w.f.ID+"#adopts-"+k.name+"-details-around-the-staleness-test", w.site.Where(), "%s assigns %s: it is neither the at-tip handler nor %s, and it does not pass the staleness test itself: %s",
								w.f.ID, an.Text(w.site.Node), c14f5Historical[k.name], strings.Join(probs, "; "))
						}
					}
				}
				if nAdopt[atTip.ID] != 1 || nAdopt[c14f5Historical[k.name]] != 1 {
					o.FailAt(c14f5TN+k.name+"#adoption-sites", "", "expected one adoption of %s details in %s and one in %s, found %d and %d", k.name, atTip.ID, c14f5Historical[k.name], nAdopt[atTip.ID], nAdopt[c14f5Historical[k.name]])
				}
				// composite literals carrying details
				for _, ref := range p.CompositeLitsOf(p.LookupType("chainntnfs", k.setType)) {
					cl, ok := ref.Node.(*ast.CompositeLit)
					if !ok {
						continue
					}
					for _, el := range cl.Elts {
						kv, isKV := el.(*ast.KeyValueExpr)
						if !isKV || an.Text(kv.Key) == "details" {
							o.FailAt("chainntnfs."+k.setType+"#literal-with-details", ref.Where, "a %s is built with details in a composite literal: they enter the set around the at-tip handler and the staleness test", k.setType)
						}
					}
				}
				// who may use the at-tip handler
				obj := p.Method("chainntnfs", "TxNotifier", k.atTip)
				refs := p.RefsTo(obj, false)
				nRef := 0
				for _, ref := range refs {
					nRef++
					fn := "<package level>"
					if ref.Fn != nil {
						fn = ref.Fn.ID
					}
					o.Site("%s referenced in %s at %s", k.atTip, fn, ref.Where)
					if fn != ct.ID {
						o.FailAt(fn+"#uses-"+k.atTip, ref.Where, "%s uses %s: the at-tip handler adopts details without the staleness test and may only be driven by ConnectTip over the block it connects", fn, k.atTip)
					}
				}
				if nRef != 1 {
					o.FailAt(ct.ID+"#"+k.atTip+"-references", "", "expected exactly one reference to %s (the callback of ConnectTip's filterTx call), found %d", k.atTip, nRef)
				}
			}
			// the one reference is an argument of filterTx(block, tx, blockHeight, …)
			calls := ct.Calls(an.CalleeIs(c14f5TN+"filterTx"), false)
			if needExactly(o, ct, "filterTx call", calls, 1) {
				a := ct.ArgCanon(calls[0])
				want := []string{"$p0", `$elem($p0.Transactions())`, "$p1", "$recv.handleConfDetailsAtTip", "$recv.handleSpendDetailsAtTip"}
				for i, wnt := range want {
					if i >= len(a) || a[i] != wnt {
						got := "<missing>"
						if i < len(a) {
							got = a[i]
						}
						o.FailAt(ct.ID+"#filterTx-arg"+itoa(i), calls[0].Where(), "ConnectTip hands %s to filterTx as argument %d, expected %s (the block being connected, its transactions, its height, the two at-tip handlers)", got, i, wnt)
					}
				}
				notReassigned(o, ct, "block", "blockHeight")
			}
		})

	r.Obl("adopted-details-are-tracked-under-their-height-with-or-without-clients", "PATH",
		"every function that assigns details to a request set (the two at-tip handlers, UpdateConfDetails, updateSpendDetails) puts the request into the height index DisconnectTip walks (confsByInitialHeight resp. spendsByHeight) on every path from the assignment to its end: the index is read under the height of the adopted details (details.BlockHeight resp. uint32(details.SpendingHeight)), a set created for that height is stored back under the same height, and the element inserted is the request the set was looked up under; the at-tip handlers have no exemption, the historical ones only `height + reorgSafetyLimit <= currentHeight`; in particular the insertion does not depend on the request having clients",
		"DisconnectTip finds the requests whose details it must clear through this index only; details adopted while the only client had cancelled were in no index, survived the disconnect of their block, were served to later clients, made the re-inclusion look like address/script reuse and kept the hint above the event", 22,
		func(o *an.Obl) {
			cur := an.FieldPath(an.Recv(), "currentHeight")
			for _, k := range c14f5Kinds {
				n := 0
				for _, w := range c14f5DetailWrites(p, k) {
					if w.clear {
						continue
					}
					n++
					f := w.f
					_, req, det, probs := c14f5Adoption(w)
					if len(probs) > 0 || det < 0 || req < 0 {
						o.FailAt(f.ID+"#adoption-shape", w.site.Where(), "%s: cannot relate the adoption %s to a request and details parameter: %s", f.ID, an.Text(w.site.Node), strings.Join(probs, "; "))
						continue
					}
					height := fmt.Sprintf("$p%d.%s", det, k.height)
					idxRe := regexp.MustCompile(`^\$recv\.` + k.index + `\[(.+)\]$`)
					var inserts, stores, fresh []an.Site
					for _, v := range f.Graph().V {
						as, ok := v.Node.(*ast.AssignStmt)
						if !ok || len(as.Lhs) != 1 || len(as.Rhs) != 1 {
							continue
						}
						site := an.Site{Fn: f, V: v, Node: as}
						ix, isIx := ast.Unparen(as.Lhs[0]).(*ast.IndexExpr)
						if !isIx {
							// S = make(...) for a local that also comes from the index
							if obj := c14f5ObjOf(f, as.Lhs[0]); obj != nil && as.Tok.String() == "=" {
								for _, s := range c14f5Sources(f, obj) {
									if idxRe.MatchString(s) {
										fresh = append(fresh, site)
										break
									}
								}
							}
							continue
						}
						// n.index[h] = S
						if c := f.Canon(ix.X); c == "$recv."+k.index {
							h := f.Canon(ix.Index)
							o.Site("%s: %s stored under %s", f.ID, k.index, h)
							if c14f5NormHeight(h) != height {
								o.FailAt(f.ID+"#"+k.index+"-stored-under", site.Where(), "%s stores the set of requests under %s, expected the height of the adopted details (%s)", f.ID, h, height)
							}
							stores = append(stores, site)
							continue
						}
						// S[request] = struct{}{}
						obj := c14f5ObjOf(f, ix.X)
						if obj == nil {
							continue
						}
						for _, s := range c14f5Sources(f, obj) {
							m := idxRe.FindStringSubmatch(s)
							if m == nil {
								continue
							}
							key := f.Canon(ix.Index)
							o.Site("%s: request %s inserted into %s[%s]", f.ID, key, k.index, m[1])
							if c14f5NormHeight(m[1]) != height {
								o.FailAt(f.ID+"#"+k.index+"-read-under", site.Where(), "%s inserts the request into the set read from %s[%s], expected the height of the adopted details (%s)", f.ID, k.index, m[1], height)
							}
							if key != fmt.Sprintf("$p%d", req) {
								o.FailAt(f.ID+"#"+k.index+"-element", site.Where(), "%s inserts %s into %s, expected the request whose set adopted the details (parameter %d)", f.ID, key, k.index, req)
							}
							inserts = append(inserts, site)
							break
						}
					}
					var targets []an.Site
					for _, s := range f.Returns() {
						targets = append(targets, s)
					}
					targets = append(targets, an.Site{Fn: f, V: f.Graph().Exit, Node: f.Body})
					var skips []an.Fact
					if f.ID != c14f5TN+k.atTip {
						sum := canonTerm(fmt.Sprintf(`^\((uint32\()?\$p%d\.%s\)? \+ \$recv\.reorgSafetyLimit\)$`, det, k.height))
						skips = append(skips, an.CmpX(sum, an.LE, cur, "height of the details + reorgSafetyLimit <= currentHeight"))
					}
					mustDoUnlessFrom(o, f, w.site.V, "the insertion of the request into "+k.index, inserts, targets, skips...)
					// a set made here is stored before the function ends
					g := f.Graph()
					stop := map[*flow.Vertex]bool{}
					for _, s := range stores {
						stop[s.V] = true
					}
					for _, m := range fresh {
						o.Site("%s: %s is stored in %s", f.ID, an.Text(m.Node), k.index)
						if g.Reach(m.V, nil, stop)[g.Exit] {
							o.FailAt(f.ID+"#"+k.index+"-fresh-set-not-stored", m.Where(), "%s creates the set of requests of a height (%s) and can finish without storing it in %s: the insertion is lost", f.ID, an.Text(m.Node), k.index)
						}
					}
					if len(inserts) > 0 && len(fresh) == 0 {
						o.FailAt(f.ID+"#"+k.index+"-no-fresh-set", w.site.Where(), "%s never creates the set of a height that has none yet", f.ID)
					}
				}
				if n < 2 {
					o.FailAt(c14f5TN+k.name+"#adoptions", "", "expected the at-tip and the historical adoption of %s details, found %d", k.name, n)
				}
			}
		})

	r.Obl("removing-a-client-closes-every-channel-of-its-event", "MIRROR",
		"every function of the notifier that deletes a client from the ntfns map of a request set (CancelConf, CancelSpend, TearDown for both sides) closes, before the deletion, every channel-typed field of the client's event struct (ConfirmationEvent: Confirmed, Updates, NegativeConf, Done; SpendEvent: Spend, Reorg, Done) exactly once; the field list is taken from the struct, so the three paths agree by construction",
		"the closed channels are how a client (and every goroutine selecting on Done) learns that nothing further will arrive; CancelConf left Done open while CancelSpend and TearDown closed it, so a waiter on a cancelled confirmation request's Done channel was never released", 28,
		func(o *an.Obl) {
			for _, k := range c14f5Kinds {
				st, ok := p.LookupType("chainntnfs", k.event).Underlying().(*types.Struct)
				if !ok {
					o.FailAt("chainntnfs."+k.event+"#struct", "", "%s is not a struct", k.event)
					continue
				}
				chans := map[*types.Var]bool{}
				var names []string
				for i := 0; i < st.NumFields(); i++ {
					if _, isChan := st.Field(i).Type().Underlying().(*types.Chan); isChan {
						chans[st.Field(i)] = true
						names = append(names, st.Field(i).Name())
					}
				}
				sort.Strings(names)
				if len(names) < 3 {
					o.FailAt("chainntnfs."+k.event+"#channels", "", "%s has %d channel fields, expected at least 3", k.event, len(names))
				}
				nFn := 0
				for _, f := range p.Funcs(false, "chainntnfs") {
					var dels []an.Site
					for _, d := range c14f5Builtin(f, "delete") {
						mt, isMap := f.Info().TypeOf(callArg(d, 0)).Underlying().(*types.Map)
						// map[<id>]*ConfNtfn / map[<id>]*SpendNtfn: the ntfns of a set
						if isMap && an.TypeID(mt.Elem()) == "chainntnfs."+k.ntfn {
							dels = append(dels, d)
						}
					}
					if len(dels) == 0 {
						continue
					}
					nFn++
					closed := map[*types.Var][]an.Site{}
					for _, c := range c14f5Builtin(f, "close") {
						sel, isSel := ast.Unparen(callArg(c, 0)).(*ast.SelectorExpr)
						if !isSel {
							continue
						}
						if s := f.Info().Selections[sel]; s != nil {
							if fv, isVar := s.Obj().(*types.Var); isVar && chans[fv] {
								closed[fv] = append(closed[fv], c)
							}
						}
					}
					for fv := range chans {
						o.Site("%s: %s.%s closed %d time(s) before the client is deleted", f.ID, k.event, fv.Name(), len(closed[fv]))
						switch len(closed[fv]) {
						case 0:
							o.FailAt(f.ID+"#leaves-"+k.event+"."+fv.Name()+"-open", dels[0].Where(), "%s removes a %s client without closing Event.%s; the channels of %s are %v and the sibling paths close all of them", f.ID, k.name, fv.Name(), k.event, names)
						case 1:
							before(o, f, "close(Event."+fv.Name()+")", closed[fv], "the deletion of the client", dels)
						default:
							o.FailAt(f.ID+"#closes-"+k.event+"."+fv.Name()+"-twice", closed[fv][1].Where(), "%s closes Event.%s at %d sites", f.ID, fv.Name(), len(closed[fv]))
						}
					}
				}
				if nFn < 2 {
					o.FailAt("chainntnfs."+k.ntfn+"#removal-paths", "", "expected the cancel path and TearDown to delete %s clients, found %d functions", k.name, nFn)
				}
			}
		})

	r.Obl("a-set-with-details-has-a-completed-rescan", "MIRROR",
		"every assignment of details to a request set (at tip or historical, both sides) is dominated by `<that set>.rescanStatus = rescanComplete` with no other assignment of the status in between; the two at-tip handlers write the same fields of their set",
		"RegisterConf / RegisterSpend serve the cached details to a late client only in `case rescanComplete`, and the historical entry points return on `details != nil` before their own transition: a spend found at tip while the rescan is outstanding would leave the set pending for good, later clients of the request are never told and its hint is no longer maintained", 6,
		func(o *an.Obl) {
			done := p.LookupObj("chainntnfs", "rescanComplete")
			fieldsOf := map[string][]string{}
			for _, k := range c14f5Kinds {
				n := 0
				for _, w := range c14f5DetailWrites(p, k) {
					if w.clear {
						continue
					}
					n++
					f := w.f
					set := c14f5ObjOf(f, w.base)
					if set == nil {
						o.FailAt(f.ID+"#adoption-base", w.site.Where(), "%s writes the details of %s, which is not a local: cannot relate it to a rescan status", f.ID, an.Text(w.base))
						continue
					}
					var completes, others []an.Site
					for _, s := range f.Assigns(an.Field("chainntnfs."+k.setType, "rescanStatus", c14f5Obj(set)), false) {
						as, ok := s.Node.(*ast.AssignStmt)
						if ok && len(as.Lhs) == 1 && len(as.Rhs) == 1 && c14f5ObjOf(f, as.Rhs[0]) == done {
							completes = append(completes, s)
						} else {
							others = append(others, s)
						}
					}
					if len(completes) > 0 && !f.Before(completes, w.site) && c14f5CompletedInTheSameRun(f, w.site, completes) {
						// `set.details = d; set.rescanStatus = rescanComplete`: the two
						// stores are one straight run of plain stores (no call, no branch,
						// no read of the status in between), which nothing can observe in
						// the swapped order (the notifier's lock is held).
						o.Site("%s: the adoption of details at %s is completed by the store of rescanComplete in the same run of stores", f.ID, w.site.Where())
					} else {
						before(o, f, an.Text(w.base)+".rescanStatus = rescanComplete", completes, "the adoption of details", []an.Site{w.site})
					}
					stop := map[*flow.Vertex]bool{}
					for _, c := range completes {
						stop[c.V] = true
					}
					for _, x := range others {
						if f.Graph().Reach(x.V, nil, stop)[w.site.V] {
							o.FailAt(f.ID+"#status-changed-before-adoption", x.Where(), "%s sets the rescan status by %s and can reach %s without completing it again", f.ID, an.Text(x.Node), an.Text(w.site.Node))
						}
					}
					if f.ID == c14f5TN+k.atTip {
						// fields of the set written by the handler
						seen := map[string]bool{}
						ast.Inspect(f.Body, func(nd ast.Node) bool {
							as, ok := nd.(*ast.AssignStmt)
							if !ok {
								return true
							}
							for _, l := range as.Lhs {
								if sel, ok := ast.Unparen(l).(*ast.SelectorExpr); ok && c14f5ObjOf(f, sel.X) == set {
									seen[sel.Sel.Name] = true
								}
							}
							return true
						})
						for nm := range seen {
							fieldsOf[k.name] = append(fieldsOf[k.name], nm)
						}
						sort.Strings(fieldsOf[k.name])
						o.Site("%s writes the fields %v of its set", f.ID, fieldsOf[k.name])
					}
				}
				if n < 2 {
					o.FailAt(c14f5TN+k.name+"#adoptions", "", "expected the at-tip and the historical adoption of %s details, found %d", k.name, n)
				}
			}
			if a, b := strings.Join(fieldsOf["conf"], ","), strings.Join(fieldsOf["spend"], ","); a != b {
				o.FailAt(c14f5TN+"at-tip-handlers#fields-written", "", "handleConfDetailsAtTip writes the fields [%s] of its set, handleSpendDetailsAtTip [%s]: the two sides of one protocol disagree", a, b)
			}
		})

	r.Obl("disconnect-clears-details-per-request-not-per-client", "PATH",
		"DisconnectTip: every iteration of the loop over the requests of confsByInitialHeight passes `<set of that request>.details = nil` unless the height the request is filed under differs from the height being disconnected (no other way around it, in particular none that depends on the set's clients); every iteration of the loop over spendsByHeight[blockHeight] passes the spend side's clear unconditionally; the set cleared is the one looked up under the loop's request",
		"cached details are served to clients registering later and make a re-inclusion look like address/script reuse; when every client of a request has cancelled, a clear that sits in the per-client loop does not run and the details of the disconnected block survive while the height index entry that could still clear them is deleted", 5,
		func(o *an.Obl) {
			dt := p.Func(c14f5TN + "DisconnectTip")
			for _, k := range c14f5Kinds {
				var clears []an.Site
				var loopCanon string
				if k.name == "conf" {
					loopCanon = "$elem($recv." + k.index + ")"
				} else {
					loopCanon = "$recv." + k.index + "[$p0]"
				}
				want := "$recv." + k.reqMap + "[$key(" + loopCanon + ")]"
				for _, w := range c14f5DetailWrites(p, k) {
					if !w.clear || w.f.ID != dt.ID {
						continue
					}
					clears = append(clears, w.site)
					srcs := c14f5Sources(dt, c14f5ObjOf(dt, w.base))
					o.Site("DisconnectTip clears the %s details of %v", k.name, srcs)
					if len(srcs) != 1 || srcs[0] != want {
						o.FailAt(dt.ID+"#"+k.name+"-set-cleared", w.site.Where(), "DisconnectTip clears the details of %v, expected the set of the request the loop is at (%s)", srcs, want)
					}
				}
				if !need(o, dt, k.name+" details = nil", clears, 1) {
					continue
				}
				loopRe := "^" + regexp.QuoteMeta(loopCanon) + "$"
				if k.name == "conf" {
					filed := canonTerm(`^\$key\(\$recv\.` + k.index + `\)$`)
					everyIterationOr(o, dt, loopRe, clears, an.Cmp(filed, an.NE, an.Param(0), "the request is filed under another height than the one disconnected"), "the clearing of the cached conf details")
				} else {
					everyIteration(o, dt, loopRe, clears, "the clearing of the cached spend details")
				}
			}
			notReassigned(o, dt, "blockHeight", "initialHeight")
		})
}
