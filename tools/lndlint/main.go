// lndlint decides structural necessary conditions of the properties in
// /verif/properties.jsonl on the current working tree of /repo. See
// /verif/DESIGN.md.
package main

import (
	"bytes"
	"compress/gzip"
	"encoding/json"
	"flag"
	"fmt"
	"os"
	"regexp"
	"sort"
	"strconv"
	"strings"

	"lndlint/internal/an"
	"lndlint/internal/load"
	"lndlint/internal/spec"
)

func main() {
	if len(os.Args) < 2 {
		usage()
	}
	switch os.Args[1] {
	case "check":
		os.Exit(cmdCheck(os.Args[2:]))
	case "explain":
		os.Exit(cmdExplain(os.Args[2:]))
	case "guards":
		os.Exit(cmdGuards(os.Args[2:]))
	case "sizes":
		os.Exit(cmdSizes(os.Args[2:]))
	case "atoms":
		os.Exit(cmdAtoms(os.Args[2:]))
	case "enums":
		os.Exit(cmdEnums(os.Args[2:]))
	case "calls":
		os.Exit(cmdCalls(os.Args[2:]))
	case "manifest":
		os.Exit(cmdManifest(os.Args[2:]))
	case "trace":
		os.Exit(cmdTrace(os.Args[2:]))
	case "mutants":
		os.Exit(cmdMutants(os.Args[2:]))
	case "names":
		os.Exit(cmdNames(os.Args[2:]))
	case "list":
		for _, id := range spec.IDs() {
			fmt.Println(id)
		}
	default:
		usage()
	}
}

func usage() {
	fmt.Fprintln(os.Stderr, "usage: lndlint check [-repo /repo] [-verif /verif] [-tier quick|thorough] Cxx... | explain <violation.json> | guards [-repo /repo] <pkg pattern> <funcID> | list")
	os.Exit(2)
}

func loadFor(repo string, s *spec.Spec, tags []string, env []string, overlay map[string][]byte) (*an.Prog, []map[string]any, error) {
	var loads []*load.Result
	var meta []map[string]any
	for _, l := range s.Loads {
		dir := repo
		if l.Dir != "" {
			dir = repo + "/" + l.Dir
		}
		// Overlay loads (witness mutants) type-check every dependency from
		// source: the export-data path would compile the mutated package and
		// all its dependants into the build cache for each mutant (tens of GB
		// over a full mutant run).
		fromSource := (len(overlay) > 0 && os.Getenv("LNDLINT_MUTANTS_EXPORT") == "") || os.Getenv("LNDLINT_FROM_SOURCE") != ""
		res, err := load.Load(load.Config{Dir: dir, Patterns: l.Patterns, Tags: tags, Env: env, Overlay: overlay, AllDeps: fromSource})
		if err != nil && !fromSource {
			// The fast path needs compiled export data of the dependencies
			// (go list -export). If that fails for an environmental reason
			// (cold or unwritable build cache) fall back to type-checking
			// every dependency from source, which compiles nothing.
			res2, err2 := load.Load(load.Config{Dir: dir, Patterns: l.Patterns, Tags: tags, Env: env, Overlay: overlay, AllDeps: true})
			if err2 != nil {
				return nil, nil, err
			}
			res = res2
		}
		if err != nil && res == nil {
			return nil, nil, err
		}
		// analyse the program with new helper functions inlined (internal/an/inline.go);
		// any failure of the transformation leaves the untransformed program in place
		cur := overlay
		var notes []an.InlineNote
		for round := 0; round < 4; round++ {
			ov, ns := an.NewHelperOverlay(res, cur)
			if ov == nil || an.SameOverlay(ov, cur) {
				break
			}
			res2, err2 := load.Load(load.Config{Dir: dir, Patterns: l.Patterns, Tags: tags, Env: env, Overlay: ov, AllDeps: fromSource})
			if err2 != nil {
				if os.Getenv("LNDLINT_DEBUG_INLINE") != "" {
					fmt.Fprintln(os.Stderr, "inline round failed:", err2)
				}
				break
			}
			res, cur = res2, ov
			notes = append(notes, ns...)
			if d := os.Getenv("LNDLINT_DUMP_INLINE"); d != "" {
				os.MkdirAll(d, 0o755)
				for name, b := range ov {
					os.WriteFile(d+"/"+strings.ReplaceAll(strings.TrimPrefix(name, "/"), "/", "_"), b, 0o644)
				}
			}
		}
		if len(notes) > 0 {
			fmt.Printf("note: analysed with new helper functions inlined at their call sites (line numbers of those files refer to the transformed source): %s\n", an.NotesString(notes))
		}
		loads = append(loads, res)
		var roots []string
		for _, p := range res.Roots {
			roots = append(roots, an.Short(p.PkgPath))
		}
		meta = append(meta, map[string]any{"dir": dir, "patterns": l.Patterns, "tags": tags, "env": env, "root_packages": roots, "files_parsed": res.Files, "wall_s": res.WallS, "inlined_helpers": notes})
	}
	prog := an.NewProg(loads...)
	prog.Overlay = overlay
	return prog, meta, nil
}

func cmdCheck(args []string) int {
	fs := flag.NewFlagSet("check", flag.ExitOnError)
	repo := fs.String("repo", "/repo", "repository root")
	verif := fs.String("verif", "/verif", "verif root")
	tier := fs.String("tier", "quick", "quick|thorough")
	fs.Parse(args)
	seed, _ := strconv.ParseInt(os.Getenv("VERIF_SEED"), 10, 64)
	rc := 0
	for _, id := range fs.Args() {
		s := spec.Get(id)
		if s == nil {
			fmt.Fprintf(os.Stderr, "unknown property %s\n", id)
			return 2
		}
		prog, meta, err := loadFor(*repo, s, nil, nil, nil)
		if err != nil {
			// a tree that does not load cannot be certified
			fmt.Printf("VIOLATION property=%s replay=%s/evidence/violations/%s-load.json\n  cannot analyse the tree: %v\n", id, *verif, id, err)
			os.MkdirAll(*verif+"/evidence/violations", 0o755)
			b, _ := json.Marshal(map[string]any{"property": id, "message": "load/type-check failure: " + err.Error()})
			os.WriteFile(fmt.Sprintf("%s/evidence/violations/%s-load.json", *verif, id), b, 0o644)
			rc = 1
			continue
		}
		spec.MutantKnownPath = *verif + "/known_findings.json"
		run, err := an.NewRun(id, *tier, prog, *verif+"/known_findings.json")
		if err != nil {
			fmt.Fprintln(os.Stderr, err)
			return 2
		}
		run.WideLoader = func() (*an.Prog, error) {
			res, err := load.Load(load.Config{Dir: *repo, Patterns: []string{"./..."}})
			if err != nil {
				return nil, err
			}
			meta = append(meta, map[string]any{"dir": *repo, "patterns": []string{"./..."}, "root_packages_count": len(res.Roots), "files_parsed": res.Files, "wall_s": res.WallS, "purpose": "who-may-reference rules on exported objects"})
			return an.NewProg(res), nil
		}
		run.Extra["explanation"] = s.Explanation
		run.Extra["assumptions"] = s.Assumptions
		run.Extra["not_decided"] = s.NotDecided
		s.Run(run)
		if *tier == "thorough" {
			spec.Thorough(run, s, *repo, loadFor)
		}
		run.Extra["loads_meta"] = meta
		if c := run.Finish(*verif, seed, meta); c > rc {
			rc = c
		}
	}
	return rc
}

func cmdExplain(args []string) int {
	if len(args) != 1 {
		usage()
	}
	b, err := os.ReadFile(args[0])
	if err != nil {
		fmt.Fprintln(os.Stderr, err)
		return 2
	}
	var m map[string]any
	if err := json.Unmarshal(b, &m); err != nil {
		fmt.Fprintln(os.Stderr, err)
		return 2
	}
	keys := make([]string, 0, len(m))
	for k := range m {
		keys = append(keys, k)
	}
	sort.Strings(keys)
	for _, k := range keys {
		fmt.Printf("%-18s %v\n", k+":", m[k])
	}
	fmt.Println("re-run: ./check " + fmt.Sprint(m["property"]) + " quick")
	return 0
}

// cmdGuards prints, for every call and return of a function, the atoms that
// hold on all paths to it. A development aid for writing spec tables.
func cmdGuards(args []string) int {
	fs := flag.NewFlagSet("guards", flag.ExitOnError)
	repo := fs.String("repo", "/repo", "repository root")
	dir := fs.String("dir", "", "module sub-directory")
	fs.Parse(args)
	if fs.NArg() < 2 {
		usage()
	}
	d := *repo
	if *dir != "" {
		d += "/" + *dir
	}
	res, err := load.Load(load.Config{Dir: d, Patterns: strings.Split(fs.Arg(0), ",")})
	if err != nil {
		fmt.Fprintln(os.Stderr, err)
		return 2
	}
	prog := an.NewProg(res)
	for _, id := range fs.Args()[1:] {
		f := prog.FuncOpt(id)
		if f == nil {
			fmt.Printf("no function %s; candidates:\n", id)
			for _, c := range prog.Funcs(true) {
				if strings.Contains(c.ID, id) {
					fmt.Println("  ", c.ID)
				}
			}
			continue
		}
		fmt.Printf("== %s (%d vertices)\n", f.ID, len(f.Graph().V))
		for _, s := range f.AllCalls(false) {
			fmt.Printf("call %s\n", s.String())
			for _, g := range f.GuardsAt(s) {
				fmt.Printf("      | %s\n", g)
			}
		}
		for _, s := range f.Returns() {
			fmt.Printf("ret(%d) %s\n", f.ClassifyReturn(s), s.String())
			for _, g := range f.GuardsAt(s) {
				fmt.Printf("      | %s\n", g)
			}
		}
	}
	return 0
}

// cmdMutants runs only the witness mutants of the given properties.
func cmdMutants(args []string) int {
	fs := flag.NewFlagSet("mutants", flag.ExitOnError)
	repo := fs.String("repo", "/repo", "repository root")
	only := fs.String("only", "", "substring of the mutant name")
	verif := fs.String("verif", "/verif", "verif root")
	gaps := fs.Bool("gaps", false, "run the reported, not yet closed gaps instead of the witness mutants")
	fs.Parse(args)
	spec.MutantKnownPath = *verif + "/known_findings.json"
	rc := 0
	for _, id := range fs.Args() {
		s := spec.Get(id)
		if s == nil {
			fmt.Fprintf(os.Stderr, "unknown property %s\n", id)
			return 2
		}
		run := spec.RunMutants
		if *gaps {
			run = spec.RunGaps
		}
		for _, m := range run(s, *repo, loadFor, *only) {
			fmt.Printf("%-8s %-9s %-50s expect=%s by=%v %s\n", id, m.Status, m.Name, m.Expect, m.KilledBy, m.Detail)
			if m.Status != "killed" {
				rc = 1
			}
		}
	}
	return rc
}

// cmdTrace prints the codec trace of functions for a value type:
// lndlint trace <patterns> <pkg.Type> <funcID>...
func cmdTrace(args []string) int {
	fs := flag.NewFlagSet("trace", flag.ExitOnError)
	repo := fs.String("repo", "/repo", "repository root")
	dir := fs.String("dir", "", "module sub-directory")
	fs.Parse(args)
	if fs.NArg() < 3 {
		usage()
	}
	d := *repo
	if *dir != "" {
		d += "/" + *dir
	}
	res, err := load.Load(load.Config{Dir: d, Patterns: strings.Split(fs.Arg(0), ",")})
	if err != nil {
		fmt.Fprintln(os.Stderr, err)
		return 2
	}
	prog := an.NewProg(res)
	tp := strings.SplitN(fs.Arg(1), ".", 2)
	T := prog.LookupType(tp[0], tp[1])
	for _, id := range fs.Args()[2:] {
		f := prog.FuncOpt(id)
		if f == nil {
			fmt.Println("no function", id)
			continue
		}
		ev, ment := f.Trace(T, an.CodecOpts{})
		fmt.Printf("== %s\n", id)
		for _, e := range ev {
			fmt.Printf("   %-28s %-40s %s\n", e.Field, e.Type, e.Prim)
		}
		var ms []string
		for m := range ment {
			ms = append(ms, m)
		}
		sort.Strings(ms)
		fmt.Printf("   mentioned: %v\n", ms)
	}
	return 0
}

// cmdManifest writes MANIFEST.json from the spec registry.
func cmdManifest(args []string) int {
	fs := flag.NewFlagSet("manifest", flag.ExitOnError)
	verif := fs.String("verif", "/verif", "verif root")
	fs.Parse(args)
	var all []string
	f, err := os.Open(*verif + "/properties.jsonl")
	if err != nil {
		fmt.Fprintln(os.Stderr, err)
		return 2
	}
	dec := json.NewDecoder(f)
	for dec.More() {
		var p struct {
			ID string `json:"id"`
		}
		if err := dec.Decode(&p); err != nil {
			fmt.Fprintln(os.Stderr, err)
			return 2
		}
		all = append(all, p.ID)
	}
	var checks []map[string]any
	var na []map[string]any
	for _, id := range all {
		s := spec.Get(id)
		if s == nil {
			na = append(na, map[string]any{"property_id": id, "reason": "no static check registered yet: the rule instances for this property are still being written (see DESIGN.md section 6 for what will be claimed)"})
			continue
		}
		tech := s.Technique
		if tech == "" {
			tech = "static analysis of the type-checked source: " + s.Engines
		}
		checks = append(checks, map[string]any{
			"property_id":         id,
			"quick_cmd":           "./check " + id + " quick",
			"thorough_cmd":        "./check " + id + " thorough",
			"evidence_file":       "/verif/evidence/" + id + ".json",
			"replay_cmd_template": "./bin/lndlint explain {path}",
			"engine":              "lndlint",
			"technique":           tech,
			"level_claimed": map[string]any{
				"category":   "other",
				"text":       "Structural necessary conditions only, decided statically on every path of the analysed functions: " + s.Explanation + " Not a proof of the behavioural property; a violated obligation breaks the property, discharged obligations do not establish it.",
				"design_ref": "DESIGN.md section 6, " + id,
			},
			"level_note": "Not decided: " + strings.Join(s.NotDecided, "; ") + ". Trusted: go/types, go/packages (x/tools v0.29.0), the lndlint flow-graph builder and the spec tables in tools/lndlint/internal/spec. Tests, mocks and test helpers are outside the rules.",
		})
	}
	m := map[string]any{
		"version":   1,
		"setup_cmd": "./setup.sh",
		"hooks": map[string]any{
			"guard":            "verif",
			"enable":           "no hooks: the checks analyse /repo's source as it is (no instrumentation, nothing built with a tag)",
			"baseline_off_cmd": "cd /repo && export GOFLAGS=-mod=mod GOPROXY=off && for m in . actor cert clock fn healthcheck kvdb queue sqldb sqldb/v2 ticker tlv tor; do (cd $m && go test -vet=off -count=1 -timeout 25m ./...); done",
			"source_commits":   []string{},
			"add_only":         true,
		},
		"engines": []map[string]any{{
			"name": "lndlint", "path": "tools/lndlint", "serves_properties": spec.IDs(),
			"kind_free_text": "custom static analyser (go/packages + go/types, own statement-level flow graph with short-circuit splitting): must-pass-through / dominance / edge-cut path rules, guard atoms with origin terms, codec trace agreement, decision-table extraction over finite domains, who-may-reference, lock and field typestate rules, registries",
		}},
		"checks":         checks,
		"notes":          "All checks are static: they load and type-check /repo's current working tree on every run and never execute lnd code. thorough = quick + witness mutants (in-memory overlay edits that must be reported) + extra build configurations. See DESIGN.md.",
		"not_applicable": na,
	}
	if na == nil {
		m["not_applicable"] = []any{}
	}
	b, _ := json.MarshalIndent(m, "", " ")
	if err := os.WriteFile(*verif+"/MANIFEST.json", append(b, '\n'), 0o644); err != nil {
		fmt.Fprintln(os.Stderr, err)
		return 2
	}
	fmt.Printf("MANIFEST.json: %d checks, %d not applicable\n", len(checks), len(na))
	return 0
}

// cmdCalls prints every non-test call site of a callee with canonical
// arguments and the guards at the site: lndlint calls <patterns> <calleeID>...
func cmdCalls(args []string) int {
	fs := flag.NewFlagSet("calls", flag.ExitOnError)
	repo := fs.String("repo", "/repo", "repository root")
	guards := fs.Bool("guards", false, "print guards")
	fs.Parse(args)
	if fs.NArg() < 2 {
		usage()
	}
	res, err := load.Load(load.Config{Dir: *repo, Patterns: strings.Split(fs.Arg(0), ",")})
	if err != nil {
		fmt.Fprintln(os.Stderr, err)
		return 2
	}
	prog := an.NewProg(res)
	for _, f := range prog.Funcs(false) {
		for _, s := range f.Calls(an.CalleeIs(fs.Args()[1:]...), false) {
			fmt.Printf("%s\n", s.String())
			for i, a := range f.ArgCanon(s) {
				fmt.Printf("      arg%d = %s\n", i, a)
			}
			if *guards {
				for _, g := range f.GuardsAt(s) {
					fmt.Printf("      | %s\n", g)
				}
			}
		}
	}
	return 0
}

// cmdEnums prints the tagged switches over an enum type: lndlint enums <patterns> <pkg.Type>
func cmdEnums(args []string) int {
	fs := flag.NewFlagSet("enums", flag.ExitOnError)
	repo := fs.String("repo", "/repo", "repository root")
	fs.Parse(args)
	if fs.NArg() < 2 {
		usage()
	}
	res, err := load.Load(load.Config{Dir: *repo, Patterns: strings.Split(fs.Arg(0), ",")})
	if err != nil {
		fmt.Fprintln(os.Stderr, err)
		return 2
	}
	prog := an.NewProg(res)
	tp := strings.SplitN(fs.Arg(1), ".", 2)
	fmt.Println("constants:", prog.EnumConsts(tp[0], tp[1]))
	for _, es := range prog.EnumSwitches(tp[0], tp[1]) {
		fmt.Printf("%s %s tag=%s default=%v %v\n", es.Fn.ID, es.Where, es.Tag, es.HasDefault, es.Clauses)
	}
	return 0
}

// cmdAtoms prints every condition atom whose canonical text matches a regexp:
// lndlint atoms <patterns> <regexp>
func cmdAtoms(args []string) int {
	fs := flag.NewFlagSet("atoms", flag.ExitOnError)
	repo := fs.String("repo", "/repo", "repository root")
	fs.Parse(args)
	if fs.NArg() < 2 {
		usage()
	}
	res, err := load.Load(load.Config{Dir: *repo, Patterns: strings.Split(fs.Arg(0), ",")})
	if err != nil {
		fmt.Fprintln(os.Stderr, err)
		return 2
	}
	prog := an.NewProg(res)
	re := regexp.MustCompile(fs.Arg(1))
	for _, f := range prog.Funcs(false) {
		for _, v := range f.Graph().V {
			c := f.AtomCanon(v)
			if c != "" && re.MatchString(c) {
				fmt.Printf("%s %s: %s\n", f.ID, f.Where(v.Pos()), c)
			}
		}
	}
	return 0
}

// cmdSizes prints the size-deciding sites of the packages: lndlint sizes [-dir d] <patterns>
func cmdSizes(args []string) int {
	fs := flag.NewFlagSet("sizes", flag.ExitOnError)
	repo := fs.String("repo", "/repo", "repository root")
	dir := fs.String("dir", "", "module sub-directory")
	fs.Parse(args)
	d := *repo
	if *dir != "" {
		d += "/" + *dir
	}
	res, err := load.Load(load.Config{Dir: d, Patterns: strings.Split(fs.Arg(0), ",")})
	if err != nil {
		fmt.Fprintln(os.Stderr, err)
		return 2
	}
	prog := an.NewProg(res)
	for _, f := range prog.Funcs(false) {
		for _, s := range f.SizeSites() {
			fmt.Printf("%-8s %-8s %s %s: %s  [%s] bound=%s\n", s.Class, s.Kind, f.ID, f.Where(s.Node.Pos()), an.Text(s.Node), s.Why, s.Bound)
		}
	}
	return 0
}

// cmdNames writes (or compares) the baseline of variable names per function
// declaration that makes name-based rule instances tolerate renames
// (internal/an/names.go). It is regenerated on the reviewed tree only.
func cmdNames(args []string) int {
	fs := flag.NewFlagSet("names", flag.ExitOnError)
	repo := fs.String("repo", "/repo", "repository root")
	out := fs.String("o", "", "output file (gzip'ed JSON)")
	fs.Parse(args)
	an.DisableNamesBaseline()
	all := map[string][]an.NameEntry{}
	for _, l := range []struct{ dir, pat string }{{*repo, "./..."}, {*repo + "/tlv", "./..."}} {
		res, err := load.Load(load.Config{Dir: l.dir, Patterns: []string{l.pat}})
		if err != nil {
			fmt.Fprintln(os.Stderr, err)
			return 2
		}
		prog := an.NewProg(res)
		for _, f := range prog.Funcs(false) {
			if f.Decl == nil || f.Obj == nil {
				continue
			}
			ns := an.NamesOf(f.Info(), f.Decl)
			if ns == nil {
				ns = []an.NameEntry{}
			}
			all[f.ID] = ns
		}
	}
	b, _ := json.Marshal(all)
	if *out == "" {
		fmt.Printf("%d functions, %d bytes\n", len(all), len(b))
		return 0
	}
	var buf bytes.Buffer
	zw, _ := gzip.NewWriterLevel(&buf, gzip.BestCompression)
	zw.Write(b)
	zw.Close()
	if err := os.WriteFile(*out, buf.Bytes(), 0o644); err != nil {
		fmt.Fprintln(os.Stderr, err)
		return 2
	}
	fmt.Printf("%d functions, %d bytes (%d compressed) -> %s\n", len(all), len(b), buf.Len(), *out)
	return 0
}
