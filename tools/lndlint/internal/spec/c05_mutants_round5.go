package spec

func init() {
	registry["C05"].Mutants = append(registry["C05"].Mutants, []Mutant{
		{Name: "seed5-C05-i", File: "input/script_utils.go",
			Old:    "\tcase ScriptPathTimeout:\n\t\treturn lnutils.Ptr(MakeTaprootCtrlBlock(\n\t\t\th.TimeoutTapLeaf.Script, h.InternalKey,",
			New:    "\tcase ScriptPathTimeout:\n\t\treturn lnutils.Ptr(MakeTaprootCtrlBlock(\n\t\t\th.SuccessTapLeaf.Script, h.InternalKey,",
			Expect: "control-block-of-a-path-proves-the-script-of-that-path"},
		{Name: "seed5-C05-j", File: "contractcourt/chain_watcher.go",
			Old:    "\t_, err = chanState.RemoteRevocationStore()\n\tif err != nil {\n\t\treturn nil, fmt.Errorf(\"unable to fetch revocation state for \"+\n\t\t\t\"chan_point=%v\", chanState.FundingOutpoint)\n\t}\n",
			New:    "",
			Expect: "commit-point-of-the-channel-state-read-only-after-its-revocation-state-was-refreshed"},
	}...)
}
