// Copyright 2019 The Go Authors. All rights reserved.
// Use of this source code is governed by a BSD-style
// license that can be found in the LICENSE file.

package diff

import (
	"fmt"
	"log"
	"strings"
)

// DefaultContextLines is the number of unchanged lines of surrounding
// context displayed by Unified. Use ToUnified to specify a different value.
const DefaultContextLines = 3

// Unified returns a unified diff of the old and new strings.
// The old and new labels are the names of the old and new files.
// If the strings are equal, it returns the empty string.
func Unified(oldLabel, newLabel, old, new string) string {
	edits := Strings(old, new)
	unified, err := ToUnified(oldLabel, newLabel, old, edits, DefaultContextLines)
	if err != nil {
		// Can't happen: edits are consistent.
		log.Fatalf("internal error in diff.Unified: %v", err)
	}
	return unified
}

// ToUnified applies the edits to content and returns a unified diff,
// with contextLines lines of (unchanged) context around each diff hunk.
// The old and new labels are the names of the content and result files.
// It returns an error if the edits are inconsistent; see ApplyEdits.
func ToUnified(oldLabel, newLabel, content string, edits []Edit, contextLines int) (string, error) {
	u, err := toUnified(oldLabel, newLabel, content, edits, contextLines)
	if err != nil {
		return "", err
	}
	return u.String(), nil
}

// unified represents a set of edits as a unified diff.
type unified struct {
	// from is the name of the original file.
	from string
	// to is the name of the modified file.
	to string
	// hunks is the set of edit hunks needed to transform the file content.
	hunks []*hunk
}

// Hunk represents a contiguous set of line edits to apply.
type hunk struct {
	// The line in the original source where the hunk starts.
	fromLine int
	// The line in the original source where the hunk finishes.
	toLine int
	// The set of line based edits to apply.
	lines []line
}

// Line represents a single line operation to apply as part of a Hunk.
type line struct {
	// kind is the type of line this represents, deletion, insertion or copy.
	kind opKind
	// content is the content of this line.
	// For deletion it is the line being removed, for all others it is the line
	// to put in the output.
	content string
}

// opKind is used to denote the type of operation a line represents.
type opKind int

const (
	// opDelete is the operation kind for a line that is present in the input
	// but not in the output.
	opDelete opKind = iota
	// opInsert is the operation kind for a line that is new in the output.
	opInsert
	// opEqual is the operation kind for a line that is the same in the input and
	// output, often used to provide context around edited lines.
	opEqual
)

// String returns a human readable representation of an OpKind. It is not
// intended for machine processing.
func (k opKind) String() string {
	switch k {
	case opDelete:
		return "delete"
	case opInsert:
		return "insert"
	case opEqual:
		return "equal"
	default:
		panic("unknown operation kind")
	}
}

// toUnified takes a file contents and a sequence of edits, and calculates
// a unified diff that represents those edits.
func toUnified(fromName, toName string, content string, edits []Edit, contextLines int) (unified, error) {
	gap := contextLines * 2
	u := unified{
		from: fromName,
		to:   toName,
	}
	if len(edits) == 0 {
		return u, nil
	}
	var err error
	edits, err = lineEdits(content, edits) // expand to whole lines
	if err != nil {
		return u, err
	}
	lines := splitLines(content)
	var h *hunk
	last := 0
	toLine := 0
	for _, edit := range edits {
		// Compute the zero-based line numbers of the edit start and end.
		// TODO(adonovan): opt: compute incrementally, avoid O(n^2).
		start := strings.Count(content[:edit.Start], "\n")
		end := strings.Count(content[:edit.End], "\n")
		if edit.End == len(content) && len(content) > 0 && content[len(content)-1] != '\n' {
			end++ // EOF counts as an implicit newline
		}

		switch {
		case h != nil && start == last:
			//direct extension
		case h != nil && start <= last+gap:
			//within range of previous lines, add the joiners
			addEqualLines(h, lines, last, start)
		default:
			//need to start a new hunk
			if h != nil {
				// add the edge to the previous hunk
				addEqualLines(h, lines, last, last+contextLines)
				u.hunks = append(u.hunks, h)
			}
			toLine += start - last
			h = &hunk{
				fromLine: start + 1,
				toLine:   toLine + 1,
			}
			// add the edge to the new hunk
			delta := addEqualLines(h, lines, start-contextLines, start)
			h.fromLine -= delta
			h.toLine -= delta
		}
		last = start
		for i := start; i < end; i++ {
			h.lines = append(h.lines, line{kind: opDelete, content: lines[i]})
			last++
		}
		if edit.New != "" {
			for _, content := range splitLines(edit.New) {
				h.lines = append(h.lines, line{kind: opInsert, content: content})
				toLine++
			}
		}
	}
	if h != nil {
		// add the edge to the final hunk
		addEqualLines(h, lines, last, last+contextLines)
		u.hunks = append(u.hunks, h)
	}
	return u, nil
}

func splitLines(text string) []string {
	lines := strings.SplitAfter(text, "\n")
	if lines[len(lines)-1] == "" {
		lines = lines[:len(lines)-1]
	}
	return lines
}

func addEqualLines(h *hunk, lines []string, start, end int) int {
	delta := 0
	for i := start; i < end; i++ {
		if i < 0 {
			continue
		}
		if i >= len(lines) {
			return delta
		}
		h.lines = append(h.lines, line{kind: opEqual, content: lines[i]})
		delta++
	}
	return delta
}

// String converts a unified diff to the standard textual form for that diff.
// The output of this function can be passed to tools like patch.
func (u unified) String() string {
	if len(u.hunks) == 0 {
		return ""
	}
	b := new(strings.Builder)
	fmt.Fprintf(b, "--- %s\n", u.from)
	fmt.Fprintf(b, "+++ %s\n", u.to)
	for _, hunk := range u.hunks {
		fromCount, toCount := 0, 0
		for _, l := range hunk.lines {
			switch l.kind {
			case opDelete:
				fromCount++
			case opInsert:
				toCount++
			default:
				fromCount++
				toCount++
			}
		}
		fmt.Fprint(b, "@@")
		if fromCount > 1 {
			fmt.Fprintf(b, " -%d,%d", hunk.fromLine, fromCount)
		} else if hunk.fromLine == 1 && fromCount == 0 {
			// Match odd GNU diff -u behavior adding to empty file.
			fmt.Fprintf(b, " -0,0")
		} else {
			fmt.Fprintf(b, " -%d", hunk.fromLine)
		}
		if toCount > 1 {
			fmt.Fprintf(b, " +%d,%d", hunk.toLine, toCount)
		} else if hunk.toLine == 1 && toCount == 0 {
			// Match odd GNU diff -u behavior adding to empty file.
			fmt.Fprintf(b, " +0,0")
		} else {
			fmt.Fprintf(b, " +%d", hunk.toLine)
		}
		fmt.Fprint(b, " @@\n")
		for _, l := range hunk.lines {
			switch l.kind {
			case opDelete:
				fmt.Fprintf(b, "-%s", l.content)
			case opInsert:
				fmt.Fprintf(b, "+%s", l.content)
			default:
				fmt.Fprintf(b, " %s", l.content)
			}
			if !strings.HasSuffix(l.content, "\n") {
				fmt.Fprintf(b, "\n\\ No newline at end of file\n")
			}
		}
	}
	return b.String()
}
