package contractcourt

import (
	"io"
	"testing"

	btclogv1 "github.com/btcsuite/btclog"
	"github.com/btcsuite/btclog/v2"
	"github.com/lightningnetwork/lnd/chainntnfs"
	"github.com/lightningnetwork/lnd/channeldb"
	lnmock "github.com/lightningnetwork/lnd/lntest/mock"
	"github.com/lightningnetwork/lnd/lnwallet"
	"github.com/lightningnetwork/lnd/lnwire"
	"github.com/stretchr/testify/require"
)

// TestProbe3BreachRetributionNotMutatedByLogging: the retribution handed to
// the contractBreach callback (i.e. to the breach arbitrator) must be the same
// at every log level. With the debug level enabled, the lazily evaluated log
// closure in dispatchContractBreach blanks five keys of retribution.KeyRing.
func TestProbe3BreachRetributionNotMutatedByLogging(t *testing.T) {
	run := func(t *testing.T, level btclogv1.Level) *lnwallet.BreachRetribution {
		oldLog := log
		logger := btclog.NewSLogger(btclog.NewDefaultHandler(io.Discard))
		logger.SetLevel(level)
		UseLogger(logger)
		defer UseLogger(oldLog)

		aliceChannel, bobChannel, err := lnwallet.CreateTestChannels(
			t, channeldb.SingleFunderTweaklessBit,
		)
		require.NoError(t, err)

		// Bob's state 0 commitment, which is about to be revoked.
		bobRevoked := bobChannel.State().LocalCommitment.CommitTx

		htlc, _ := createHTLC(0, lnwire.NewMSatFromSatoshis(20000))
		_, err = aliceChannel.AddHTLC(htlc, nil)
		require.NoError(t, err)
		_, err = bobChannel.ReceiveHTLC(htlc)
		require.NoError(t, err)
		require.NoError(t, lnwallet.ForceStateTransition(
			aliceChannel, bobChannel,
		))

		var handed *lnwallet.BreachRetribution
		watcher, err := newChainWatcher(chainWatcherConfig{
			chanState: aliceChannel.State(),
			notifier: &lnmock.ChainNotifier{
				SpendChan: make(chan *chainntnfs.SpendDetail, 1),
				EpochChan: make(chan *chainntnfs.BlockEpoch),
				ConfChan:  make(chan *chainntnfs.TxConfirmation, 1),
			},
			signer:              aliceChannel.Signer,
			extractStateNumHint: lnwallet.GetStateNumHint,
			contractBreach: func(
				r *lnwallet.BreachRetribution) error {

				handed = r
				return nil
			},
		})
		require.NoError(t, err)

		chainSet, err := newChainSet(aliceChannel.State())
		require.NoError(t, err)

		txHash := bobRevoked.TxHash()
		spend := &chainntnfs.SpendDetail{
			SpenderTxHash:  &txHash,
			SpendingTx:     bobRevoked,
			SpendingHeight: 100,
		}

		breached, err := watcher.handlePossibleBreach(
			spend, 0, chainSet,
		)
		require.NoError(t, err)
		require.True(t, breached)
		require.NotNil(t, handed)

		return handed
	}

	info := run(t, btclog.LevelInfo)
	require.NotNil(t, info.KeyRing)
	require.NotNil(t, info.KeyRing.RevocationKey, "info level")

	debug := run(t, btclog.LevelDebug)
	require.NotNil(t, debug.KeyRing)
	require.NotNil(t, debug.KeyRing.RevocationKey,
		"debug level: RevocationKey blanked by the log closure")
	require.NotNil(t, debug.KeyRing.ToLocalKey)
	require.NotNil(t, debug.KeyRing.ToRemoteKey)
	require.NotNil(t, debug.KeyRing.LocalHtlcKey)
	require.NotNil(t, debug.KeyRing.RemoteHtlcKey)
}
