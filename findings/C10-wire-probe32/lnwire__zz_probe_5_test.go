package lnwire

import (
	"bytes"
	"testing"

	"github.com/stretchr/testify/require"
)

// A ChannelReestablish without LocalUnrevokedCommitPoint writes its ExtraData
// straight after the two heights, where the decoder expects the commit secret
// and the commit point. Such a value must either be refused by the encoder or
// decode back to an equal value.
func TestProbeReestablishNilPointExtraData(t *testing.T) {
	pub, err := randPubKey()
	require.NoError(t, err)

	// 32 bytes that will be taken for the secret, a valid compressed
	// point, and an empty tlv stream.
	extra := append(bytes.Repeat([]byte{0xab}, 32),
		pub.SerializeCompressed()...)

	for _, ed := range [][]byte{extra, {0x01, 0x01, 0x00}} {
		msg := &ChannelReestablish{
			NextLocalCommitHeight:  1,
			RemoteCommitTailHeight: 2,
			ExtraData:              ed,
		}

		var b bytes.Buffer
		_, err := WriteMessage(&b, msg, 0)
		if err != nil {
			t.Logf("refused by the encoder: %v", err)
			continue
		}

		decoded, err := ReadMessage(bytes.NewReader(b.Bytes()), 0)
		if err != nil {
			t.Errorf("encoded without error, but the result "+
				"does not decode: %v", err)
			continue
		}

		got := decoded.(*ChannelReestablish)
		if got.LocalUnrevokedCommitPoint != nil ||
			!bytes.Equal(got.ExtraData, ed) {

			t.Errorf("value round trip broken: point=%v "+
				"secret=%x extra=%x",
				got.LocalUnrevokedCommitPoint != nil,
				got.LastRemoteCommitSecret[:4], got.ExtraData)
		}
	}
}
