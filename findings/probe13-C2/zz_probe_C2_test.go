package contractcourt

// Probe C2 (property C04). Run:
//   go test -count=1 -run TestProbeC2BothCommitOutputsDust -v ./contractcourt/
//
// Suspicion: newRetributionInfo's isTaproot closure reads the pkScript of
// LocalOutputSignDesc and, when that is nil, of RemoteOutputSignDesc without a
// nil check. NewBreachRetribution leaves BOTH nil when both commitment outputs
// of the revoked state are below the dust limit (documented a few lines above
// the closure: "the commitment outputs are conditionally added depending on
// the nil-ness of their sign descriptors"), so a revoked state whose only
// non-dust outputs are HTLCs crashes the breach arbitrator.
//
// Observed on the unmodified tree (both sub-tests):
//   PANIC in newRetributionInfo: runtime error: invalid memory address or nil
//   pointer dereference
//
// The retribution is a genuine one (NewBreachRetribution of a revoked state
// with one HTLC) whose two commitment sign descriptors are dropped, which is
// what NewBreachRetribution does for dust commitment outputs.

import (
	"testing"

	"github.com/lightningnetwork/lnd/channeldb"
	"github.com/lightningnetwork/lnd/fn/v2"
	"github.com/lightningnetwork/lnd/input"
	"github.com/lightningnetwork/lnd/lnwallet"
	"github.com/lightningnetwork/lnd/lnwire"
	"github.com/stretchr/testify/require"
)

func TestProbeC2BothCommitOutputsDust(t *testing.T) {
	run := func(t *testing.T, chanType channeldb.ChannelType,
		want input.StandardWitnessType) {

		alice, bob, err := lnwallet.CreateTestChannels(t, chanType)
		require.NoError(t, err)

		htlc, _ := createHTLC(0, lnwire.NewMSatFromSatoshis(1_000_000))
		_, err = alice.AddHTLC(htlc, nil)
		require.NoError(t, err)
		_, err = bob.ReceiveHTLC(htlc)
		require.NoError(t, err)
		require.NoError(t, lnwallet.ForceStateTransition(alice, bob))

		state := alice.State()
		revokedHeight := state.RemoteCommitment.CommitHeight
		breachTx := state.RemoteCommitment.CommitTx
		require.NoError(t, lnwallet.ForceStateTransition(alice, bob))

		br, err := lnwallet.NewBreachRetribution(
			state, revokedHeight, 100, breachTx,
			fn.None[lnwallet.AuxLeafStore](),
			fn.None[lnwallet.AuxContractResolver](),
		)
		require.NoError(t, err)
		require.Len(t, br.HtlcRetributions, 1)

		// Both commitment outputs are dust.
		br.LocalOutputSignDesc = nil
		br.RemoteOutputSignDesc = nil

		var retInfo *retributionInfo
		func() {
			defer func() {
				if r := recover(); r != nil {
					t.Fatalf("PANIC in newRetributionInfo: %v", r)
				}
			}()

			retInfo = newRetributionInfo(&state.FundingOutpoint, br)
		}()

		// The HTLC is still punished, with the witness type of the
		// channel's commitment format.
		require.Len(t, retInfo.breachedOutputs, 1)
		require.Equal(t, want, retInfo.breachedOutputs[0].witnessType)
	}

	t.Run("segwit v0", func(t *testing.T) {
		run(
			t, channeldb.SingleFunderTweaklessBit,
			input.HtlcOfferedRevoke,
		)
	})
	t.Run("taproot", func(t *testing.T) {
		run(
			t, channeldb.SingleFunderTweaklessBit|
				channeldb.AnchorOutputsBit|
				channeldb.ZeroHtlcTxFeeBit|
				channeldb.SimpleTaprootFeatureBit,
			input.TaprootHtlcOfferedRevoke,
		)
	})
}
