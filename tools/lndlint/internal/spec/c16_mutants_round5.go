package spec

// Witnesses for c16_round5.go: seeded change C16/j of the fifth round and the
// same slip in the kv sibling.
func init() {
	registry["C16"].Mutants = append(registry["C16"].Mutants, []Mutant{
		{Name: "seed5-C16-j", File: "payments/db/sql_store.go",
			Old:    "\t\t\tif failedOnly && status != StatusFailed {\n\t\t\t\treturn nil\n\t\t\t}\n",
			New:    "\t\t\tif failedOnly && !payment.FailReason.Valid {\n\t\t\t\treturn nil\n\t\t\t}\n",
			Expect: "failed-only-deletion-selects-by-the-computed-status"},
		{Name: "seed5-C16-j-kv-sibling", File: "payments/db/kv_store.go",
			Old:    "\t\t\tif failedOnly && paymentStatus != StatusFailed {\n\t\t\t\treturn nil\n\t\t\t}\n",
			New:    "\t\t\tif failedOnly && paymentStatus == StatusSucceeded {\n\t\t\t\treturn nil\n\t\t\t}\n",
			Expect: "failed-only-deletion-selects-by-the-computed-status"},
	}...)
}
