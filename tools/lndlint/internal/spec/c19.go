package spec

import (
	"go/ast"
	"go/token"
	"go/types"
	"strings"

	"lndlint/internal/an"
)

func init() {
	register(&Spec{
		ID:          "C19",
		Loads:       []LoadSpec{{Patterns: []string{"./routing", "./routing/route", "./graph/db/models", "./graph/db", "./lnrpc/routerrpc"}}},
		Explanation: "Decides the shape of the checks a returned route depends on: an edge is selected only if the amount it must carry (net amount plus the capped inbound fee) is within capacity / max / min HTLC and, for local channels, within the available bandwidth, and (network) the policy is enabled; the search adopts a predecessor only below the fee-limit, zero-probability, CLTV-limit, minimum-probability and onion-size checks, all evaluated on the amount computed after the non-negative node fee clamp; the clamp has one form in edge selection and in the search; newRoute recomputes per-hop amounts and time locks with the same fee functions and deltas and hands their totals to the route; the route's fee accessors are differences of per-hop amounts; the CLTV budget handed to the search (RestrictParams.CltvLimit) is the caller's limit minus the final delta the route construction adds on top of the hops, at every place that fills it (RequestRoute, the callers of NewRouteRequest), and a delta enters that reserve only after it was compared with the limit; the inbound fee of a directed channel (graph cache, kv and sql store) is a function of the node's current outgoing policy alone; the outgoing-channel restriction filters the channels of the source of the search (set by findPath on every unifier before it is used), local-channel rules stay with self; BuildRoute hands out a route built without a fixed amount only after every edge was range-checked for the amount the built route sends over it; the outbound fee of both policy types is the shared 128-bit, saturating computeFee; ValidateCLTVLimit and RequestRoute add the block padding to a final delta without wrapping 16 bits; the unified edge returned for a node pair takes its policy, inbound fee and blinded payment from the one adopted candidate; senderAmtBackwardPass selects each edge for the very amount and next-hop fee its inbound fee is then computed from.",
		NotDecided: []string{
			"that a returned route satisfies every hop's policy on arbitrary graphs (backward accumulation with integer rounding)", "probability estimation and mission control", "bandwidth races between route computation and HTLC dispatch",
			"ignored-node/edge and outgoing-channel restrictions inside the graph session (only the last-hop and self-cycle guards of the search loop are decided)",
		},
		Assumptions: commonAssumptions,
		Engines:     "GUARD, WHO, MIRROR, ROLE",
		Run:         runC19,
	})
}

const rt = "routing."

func runC19(r *an.Run) {
	p := r.Prog

	r.Obl("edge-selection", "GUARD",
		"getEdgeNetwork adopts an edge only below amtInRange(amt) and !policy.IsDisabled; getEdgeLocal only below (custom HTLC payment or amtInRange(amt)) and amt <= bandwidth, with the bandwidth queried for amt; in both amt = netAmtReceived + capped inbound fee of that edge; amtInRange is true only when amt is within capacity (if known), MaxHTLC (if set) and not below MinHTLC",
		"an edge adopted for an amount outside its limits (or without the inbound fee the node will charge) yields a route that fails at that hop", 11,
		func(o *an.Obl) {
			amtForm := map[string]string{
				"getEdgeLocal":   "($p0 + lnwire.MilliSatoshi(routing.calcCappedInboundFee($elem($recv.edges), $p0, $p2)))",
				"getEdgeNetwork": "($p0 + lnwire.MilliSatoshi(routing.calcCappedInboundFee($elem($recv.edges), $p0, $p1)))",
			}
			for name, best := range map[string]string{"getEdgeLocal": "bestEdge", "getEdgeNetwork": "bestPolicy"} {
				f := p.Func(rt + "edgeUnifier." + name)
				amt := an.LocalNamed("amt")
				for _, s := range f.Assigns(amt, false) {
					c := f.Canon(s.Node.(*ast.AssignStmt).Rhs[0])
					o.Site("%s: amt = %s", name, c)
					if c != amtForm[name] {
						o.FailAt(f.ID+"#amt", s.Where(), "the amount the edge must carry is %s, expected netAmtReceived + capped inbound fee", c)
					}
				}
				inRange := an.Truth(an.CallTo(rt+"unifiedEdge.amtInRange", nil, amt), true, "edge.amtInRange(amt)")
				n := 0
				for _, s := range f.Assigns(an.LocalNamed(best), false) {
					as := s.Node.(*ast.AssignStmt)
					if _, isCall := as.Rhs[0].(*ast.CallExpr); !isCall {
						continue
					}
					n++
					if name == "getEdgeNetwork" {
						guarded(o, f, s, inRange)
						guarded(o, f, s, an.Truth(an.FieldPath(an.FieldPath(nil, "policy"), "IsDisabled"), false, "!edge.policy.IsDisabled"))
					} else {
						guarded(o, f, s, an.AnyOf("custom HTLC payment or amtInRange(amt)", an.Truth(an.CallNamed("isCustomHTLCPayment", nil), true, ""), inRange))
						guarded(o, f, s, an.CmpX(amt, an.LE, an.LocalNamed("bandwidth"), "amt <= bandwidth"))
					}
					// the adopted edge is the loop element
					if c := f.Canon(as.Rhs[0]); !strings.HasPrefix(c, rt+"newUnifiedEdge($elem($recv.edges).policy, ") {
						o.FailAt(f.ID+"#adopted", s.Where(), "the adopted edge is %s", c)
					}
				}
				if n != 1 {
					o.FailAt(f.ID+"#adoptions", f.Where(f.Body.Pos()), "%s adopts an edge at %d sites, expected one", name, n)
				}
				if name == "getEdgeLocal" {
					bw := f.Calls(an.CalleeNamed("availableChanBandwidth"), false)
					if needExactly(o, f, "availableChanBandwidth", bw, 1) {
						a := f.ArgCanon(bw[0])
						if a[0] != "$elem($recv.edges).policy.ChannelID" || !an.Match(f, amt, callArg(bw[0], 1)) {
							o.FailAt(f.ID+"#bandwidth-query", bw[0].Where(), "bandwidth is queried for (%s, %s), expected this edge's channel and amt", a[0], an.Text(callArg(bw[0], 1)))
						}
					}
				}
			}
			ir := p.Func(rt + "unifiedEdge.amtInRange")
			for _, s := range ir.Returns() {
				if an.Text(s.Node.(*ast.ReturnStmt).Results[0]) != "true" {
					continue
				}
				a := an.Param(0)
				pol := func(fl string) an.Term { return an.FieldPath(an.FieldPath(an.Recv(), "policy"), fl) }
				guarded(o, ir, s, an.AnyOf("capacity unknown or amt <= capacity",
					an.CmpX(an.FieldPath(an.Recv(), "capacity"), an.LE, an.IntConst(0), ""),
					an.CmpX(a, an.LE, an.CallNamed("NewMSatFromSatoshis", nil, an.FieldPath(an.Recv(), "capacity")), "")))
				guarded(o, ir, s, an.AnyOf("no MaxHTLC or amt <= MaxHTLC",
					an.Truth(pol("HasMaxHTLC"), false, ""),
					an.CmpX(a, an.LE, pol("MaxHTLC"), "")))
				guarded(o, ir, s, an.CmpX(a, an.GE, pol("MinHTLC"), "amt >= MinHTLC"))
			}
			ge := p.Func(rt + "edgeUnifier.getEdge")
			for _, s := range ge.Returns() {
				c := ge.Canon(s.Node.(*ast.ReturnStmt).Results[0])
				local, _ := ge.Guarded(s, an.Truth(an.FieldPath(an.Recv(), "localChan"), true, ""))
				o.Site("getEdge(local=%v) -> %s", local, c)
				want := "$recv.getEdgeNetwork($p0, $p2)"
				if local {
					want = "$recv.getEdgeLocal($p0, $p1, $p2)"
				}
				if c != want {
					o.FailAt(ge.ID+"#dispatch", s.Where(), "getEdge(local=%v) returns %s, expected %s", local, c, want)
				}
			}
		})

	r.Obl("search-adopts-only-checked-predecessors", "GUARD",
		"in findPath the only writer of distance[...] is the processEdge closure, below: not (totalFee > 0 and totalFee > FeeLimit), edgeProbability != 0, incomingCltv <= absoluteCltvLimit, probability >= MinProbability, routingInfoSize <= sphinx.MaxRoutingPayloadSize; totalFee = amountToSend - amt where amountToSend is computed after the clamp of the inbound fee; absoluteCltvLimit = r.CltvLimit + finalHtlcExpiry, probability = next hop's probability * ProbabilitySource(from, to, amountToSend, capacity), routingInfoSize = next hop's size + the edge's own payload size function of (amountToSend, next hop's incomingCltv, the edge's channel) (zero for the source); each of these locals has that single definition; the recorded node state carries netAmountReceived = amountToSend + outboundFee, incomingCltv = next hop's incomingCltv + this policy's TimeLockDelta and outboundFee = policy.ComputeFee(amountToSend) (zero delta and fee for the source) and is stored as built; the search starts at the target with amt, finalHtlcExpiry, probability 1 and lastHopPayloadSize(r, finalHtlcExpiry, amt); processEdge is called only below the self-cycle and last-hop (fromNode == *r.LastHop) restrictions, a non-nil edge and validated features, with the node being expanded; the feature cache stores a vector only after both validations passed",
		"a predecessor adopted without one of these checks makes the returned route exceed the fee or CLTV limit, or not fit the onion", 16,
		func(o *an.Obl) {
			f := p.Func(rt + "findPath")
			var pe *an.Func
			for _, lf := range f.Lits {
				if lf.Parent == f && len(lf.Params(false)) == 3 && strings.Contains(an.Text(lf.Type), "*nodeWithDist") {
					pe = lf
				}
			}
			if pe == nil {
				o.FailAt(f.ID+"#processEdge", f.Where(f.Body.Pos()), "cannot find the processEdge closure")
				return
			}
			var writes []an.Site
			for _, g := range append([]*an.Func{f}, f.Lits...) {
				for _, v := range g.Graph().V {
					as, ok := v.Node.(*ast.AssignStmt)
					if !ok || len(as.Lhs) != 1 {
						continue
					}
					if ix, ok := as.Lhs[0].(*ast.IndexExpr); ok && an.Text(ix.X) == "distance" {
						s := an.Site{Fn: g, V: v, Node: as}
						o.Site("distance writer %s", s.String())
						if g != pe {
							o.FailAt(g.ID+"#writes-distance", s.Where(), "%s writes the distance map outside processEdge", g.ID)
							continue
						}
						writes = append(writes, s)
					}
				}
			}
			if !needExactly(o, pe, "distance[fromVertex] = withDist", writes, 1) {
				return
			}
			w := writes[0]
			// the parameters the definitions below are written in
			notReassigned(o, f, "r", "cfg", "source", "target", "amt", "finalHtlcExpiry")
			notReassigned(o, pe, "fromVertex", "edge", "toNodeDist")
			tf := an.LocalNamed("totalFee")
			guarded(o, pe, w, an.AnyOf("totalFee <= 0 or totalFee <= FeeLimit",
				an.CmpX(tf, an.LE, an.IntConst(0), ""),
				an.CmpX(tf, an.LE, an.FieldPath(an.Param(1), "FeeLimit"), "")))
			guarded(o, pe, w, an.Cmp(an.LocalNamed("edgeProbability"), an.NE, an.IntConst(0), "edgeProbability != 0"))
			guarded(o, pe, w, an.CmpX(an.LocalNamed("incomingCltv"), an.LE, an.LocalNamed("absoluteCltvLimit"), "incomingCltv <= absoluteCltvLimit"))
			guarded(o, pe, w, an.CmpX(an.LocalNamed("probability"), an.GE, an.FieldPath(an.Param(2), "MinProbability"), "probability >= cfg.MinProbability"))
			guarded(o, pe, w, an.CmpX(an.LocalNamed("routingInfoSize"), an.LE, canonTerm(`MaxRoutingPayloadSize$`), "routingInfoSize <= MaxRoutingPayloadSize"))
			// definitions of the locals the guards are written in: one variable
			// per name, one value each (`var`, `:=`, `=`, `op=` and `++` all count)
			defs := map[string]string{
				"amountToSend":       "toNodeDist.netAmountReceived + lnwire.MilliSatoshi(inboundFee)",
				"totalFee":           "int64(amountToSend) - int64(amt)",
				"netAmountToReceive": "amountToSend + lnwire.MilliSatoshi(outboundFee)",
				"incomingCltv":       "toNodeDist.incomingCltv + int32(timeLockDelta)",
				"routingInfoSize":    "toNodeDist.routingInfoSize + payloadSize",
				"minInboundFee":      "-int64(toNodeDist.outboundFee)",
				"edgeProbability":    "r.ProbabilitySource(fromVertex, toNodeDist.node, amountToSend, edge.capacity)",
				"probability":        "toNodeDist.probability * edgeProbability",
			}
			defSite := map[string]an.Site{}
			for name, want := range defs {
				for _, ds := range c19DefinedAs(o, pe, name, "= "+want) {
					defSite[name] = ds[0].site()
				}
			}
			c19DefinedAs(o, f, "absoluteCltvLimit", "= uint64(r.CltvLimit) + uint64(finalHtlcExpiry)")
			// the per-hop payload: zero for the source, else the edge's own size function
			// for the amount and expiry the hop forwards and the channel it forwards over
			notSource := an.Cmp(an.Param(0), an.NE, an.LocalNamed("source"), "fromVertex != source")
			for fm, ds := range c19DefinedAs(o, pe, "payloadSize", "zero", "= edge.hopPayloadSizeFn(amountToSend, uint32(toNodeDist.incomingCltv), edge.policy.ChannelID)") {
				if fm != "zero" {
					for _, d := range ds {
						guarded(o, pe, d.site(), notSource)
					}
				}
			}
			// the clamp precedes the amount
			if d, ok := defSite["amountToSend"]; ok {
				// the clamp is the test inboundFee < minInboundFee (operands in either
				// order) or the assignment inboundFee = max(inboundFee, minInboundFee)
				var clampCond *an.FlowVertex
				for e := range pe.EdgesOf(an.CmpX(an.LocalNamed("inboundFee"), an.LT, an.LocalNamed("minInboundFee"), "inboundFee < minInboundFee")) {
					if clampCond == nil || e.From.Pos() < clampCond.Pos() {
						clampCond = e.From
					}
				}
				for _, s := range pe.Assigns(an.LocalNamed("inboundFee"), false) {
					as, ok := s.Node.(*ast.AssignStmt)
					if ok && clampCond == nil && len(as.Lhs) == 1 && len(as.Rhs) == 1 && as.Tok == token.ASSIGN && c19IsMaxOf(pe, as.Rhs[0],
						func(e ast.Expr) bool { return an.LocalNamed("inboundFee")(pe, ast.Unparen(e)) },
						func(e ast.Expr) bool { return an.LocalNamed("minInboundFee")(pe, ast.Unparen(e)) }) {
						clampCond = s.V
					}
				}
				if clampCond == nil {
					o.FailAt(pe.ID+"#clamp", pe.Where(pe.Body.Pos()), "cannot find the non-negative node fee clamp in processEdge")
				} else {
					if pe.Graph().Reach(pe.Graph().Entry, nil, map[*an.FlowVertex]bool{clampCond: true})[d.V] {
						o.FailAt(pe.ID+"#amount-before-clamp", d.Where(), "amountToSend is computed before the inbound fee is clamped")
					}
					after := pe.Graph().Reach(d.V, nil, nil)
					for _, s := range pe.Assigns(an.LocalNamed("inboundFee"), false) {
						if s.V != d.V && after[s.V] {
							o.FailAt(pe.ID+"#fee-changed-after-amount", s.Where(), "inboundFee is changed after amountToSend was computed from it")
						}
					}
					o.Site("clamp at %s precedes %s", pe.Where(clampCond.Pos()), d.String())
				}
			}
			for name, want := range map[string]string{
				"outboundFee":   "int64(edge.policy.ComputeFee(amountToSend))",
				"timeLockDelta": "edge.policy.TimeLockDelta",
			} {
				for fm, ds := range c19DefinedAs(o, pe, name, "zero", "= "+want) {
					if fm != "zero" {
						for _, d := range ds {
							guarded(o, pe, d.site(), notSource)
						}
					}
				}
			}
			// recorded state
			for _, cl := range p.CompositeLitsOf(p.LookupType("routing", "nodeWithDist")) {
				if cl.Fn == nil || cl.Fn.ID != f.ID || !(cl.Node.Pos() >= pe.Body.Pos() && cl.Node.End() <= pe.Body.End()) {
					continue
				}
				want := map[string]string{"netAmountReceived": "netAmountToReceive", "incomingCltv": "incomingCltv", "outboundFee": "lnwire.MilliSatoshi(outboundFee)", "node": "fromVertex", "nextHop": "edge", "routingInfoSize": "routingInfoSize", "probability": "probability"}
				for k, v := range want {
					if got := kvText(cl.Node, k); got != v {
						o.FailAt(pe.ID+"#state-"+k, cl.Where, "the recorded %s is %s, expected %s", k, got, v)
					}
				}
				o.Site("recorded node state at %s", cl.Where)
				// what is stored is this literal, unmodified
				ws := w.Node.(*ast.AssignStmt)
				if c19LitOf(pe, ws.Rhs[0]) != cl.Node.(*ast.CompositeLit) {
					o.FailAt(pe.ID+"#stored-state", w.Where(), "the value stored in the distance map (%s) is not the node state built at %s", an.Text(ws.Rhs[0]), cl.Where)
				} else {
					for fld, fw := range c19FieldWrites(pe, c19VarObj(pe, ws.Rhs[0])) {
						o.FailAt(pe.ID+"#state-rewritten-"+fld, pe.Where(fw[0].Pos()), "%s rewrites the recorded %s after the checks were made on the computed value", an.Text(fw[0]), fld)
					}
				}
				if c := pe.Canon(ws.Lhs[0].(*ast.IndexExpr).Index); c != "$lit.p0" {
					o.FailAt(pe.ID+"#stored-key", w.Where(), "the node state is stored under %s, expected the node the edge comes from", c)
				}
			}
			// the search starts at the target with the HTLC amount, the final
			// expiry and the size of the final hop's payload
			nInit := 0
			for _, cl := range p.CompositeLitsOf(p.LookupType("routing", "nodeWithDist")) {
				if cl.Fn == nil || cl.Fn.ID != f.ID || (cl.Node.Pos() >= pe.Body.Pos() && cl.Node.End() <= pe.Body.End()) {
					continue
				}
				nInit++
				lit := cl.Node.(*ast.CompositeLit)
				got := map[string]string{}
				for _, el := range lit.Elts {
					if kv, ok := el.(*ast.KeyValueExpr); ok {
						got[an.Text(kv.Key)] = f.Canon(kv.Value)
					}
				}
				o.Site("initial node state at %s: routingInfoSize = %s", cl.Where, got["routingInfoSize"])
				for k, want := range map[string]string{"node": "$p5", "netAmountReceived": "$p6", "incomingCltv": "$p8", "probability": "1", "routingInfoSize": "routing.lastHopPayloadSize($p1, $p8, $p6)"} {
					if got[k] != want {
						o.FailAt(f.ID+"#initial-"+k, cl.Where, "the search starts with %s = %s, expected %s", k, got[k], want)
					}
				}
				for k, v := range got {
					if (k == "outboundFee" || k == "nextHop") && v != "0" && v != "nil" {
						o.FailAt(f.ID+"#initial-"+k, cl.Where, "the search starts with %s = %s: the target charges no fee and has no next hop", k, v)
					}
				}
				objs, pdefs := c19LocalDefs(f, "partialPath")
				if len(objs) != 1 || len(pdefs) != 2 || c19AsLit(pdefs[0].Rhs) != lit || an.Text(pdefs[1].Rhs) != "heap.Pop(&nodeHeap).(*nodeWithDist)" {
					o.FailAt(f.ID+"#expanded-node", cl.Where, "the node being expanded must be the initial state and then the heap minimum; found %d variables and %d definitions of partialPath", len(objs), len(pdefs))
				} else {
					for fld, fw := range c19FieldWrites(f, objs[0]) {
						o.FailAt(f.ID+"#expanded-node-rewritten-"+fld, f.Where(fw[0].Pos()), "%s rewrites the %s of the node being expanded", an.Text(fw[0]), fld)
					}
				}
			}
			if nInit != 1 {
				o.FailAt(f.ID+"#initial-state", f.Where(f.Body.Pos()), "expected one initial node state in findPath, found %d", nInit)
			}
			// call of processEdge
			var calls []an.Site
			for _, s := range f.AllCalls(false) {
				if id, ok := s.Node.(*ast.CallExpr).Fun.(*ast.Ident); ok && id.Name == "processEdge" {
					calls = append(calls, s)
				}
			}
			if needExactly(o, f, "processEdge call", calls, 1) {
				s := calls[0]
				c := s.Node.(*ast.CallExpr)
				if an.Text(c.Args[0]) != "fromNode" || an.Text(c.Args[1]) != "edge" || an.Text(c.Args[2]) != "partialPath" {
					o.FailAt(f.ID+"#processEdge-args", s.Where(), "processEdge is called with (%s, %s, %s)", an.Text(c.Args[0]), an.Text(c.Args[1]), an.Text(c.Args[2]))
				}
				guarded(o, f, s, an.IsNil(an.LocalNamed("edge"), false, "edge != nil"))
				guarded(o, f, s, an.IsNil(an.LocalNamed("fromFeatures"), false, "fromFeatures != nil"))
				guarded(o, f, s, an.AnyOf("route to self or fromNode != target", an.Truth(an.LocalNamed("routeToSelf"), true, ""), an.Cmp(an.LocalNamed("fromNode"), an.NE, an.LocalNamed("target"), "")))
				guarded(o, f, s, an.AnyOf("no last-hop restriction, not at the target, or fromNode is the required last hop",
					an.IsNil(an.FieldPath(an.Param(1), "LastHop"), true, ""),
					an.Cmp(an.LocalNamed("pivot"), an.NE, an.LocalNamed("target"), ""),
					an.Cmp(an.LocalNamed("fromNode"), an.EQ, an.FieldPath(an.Param(1), "LastHop"), "")))
				c19DefinedAs(o, f, "pivot", "= partialPath.node")
				c19DefinedAs(o, f, "routeToSelf", "= source == target")
				ge := f.Calls(an.CalleeIs(rt+"edgeUnifier.getEdge"), false)
				if needExactly(o, f, "getEdge", ge, 1) {
					a := f.ArgCanon(ge[0])
					o.Site("getEdge%v", a)
					if an.Text(callArg(ge[0], 0)) != "netAmountReceived" || an.Text(callArg(ge[0], 2)) != "partialPath.outboundFee" {
						o.FailAt(f.ID+"#getEdge-args", ge[0].Where(), "getEdge is asked for (%s, .., %s), expected the expanded node's net amount and outbound fee", an.Text(callArg(ge[0], 0)), an.Text(callArg(ge[0], 2)))
					}
				}
				for _, d := range f.Assigns(an.LocalNamed("netAmountReceived"), false) {
					if c := an.Text(d.Node.(*ast.AssignStmt).Rhs[0]); c != "partialPath.netAmountReceived" {
						o.FailAt(f.ID+"#net-amount", d.Where(), "netAmountReceived is %s", c)
					}
				}
			}
			// feature validation
			for _, lf := range f.Lits {
				if lf.Parent != f {
					continue
				}
				vr := lf.Calls(an.CalleeNamed("ValidateRequired"), false)
				vd := lf.Calls(an.CalleeNamed("ValidateDeps"), false)
				if len(vr) == 1 && len(vd) == 1 {
					// what is validated is what is returned and cached; a vector
					// enters the cache only validated (the cached return below is
					// exempt from the validation rule)
					validated := c19VarObj(lf, callArg(vr[0], 0))
					if validated == nil || c19VarObj(lf, callArg(vd[0], 0)) != validated {
						o.FailAt(lf.ID+"#validated-vector", vr[0].Where(), "ValidateRequired(%s) and ValidateDeps(%s) must examine the same fetched vector", an.Text(callArg(vr[0], 0)), an.Text(callArg(vd[0], 0)))
					}
					var cacheObj types.Object
					isCache := func(e ast.Expr) bool {
						m, ok := lf.Info().TypeOf(e).Underlying().(*types.Map)
						return ok && types.Identical(m.Elem(), lf.Info().TypeOf(callArg(vr[0], 0)))
					}
					for _, v := range lf.Graph().V {
						as, ok := v.Node.(*ast.AssignStmt)
						if !ok {
							continue
						}
						for i, l := range as.Lhs {
							ix, ok := ast.Unparen(l).(*ast.IndexExpr)
							if !ok || len(as.Lhs) != len(as.Rhs) || !isCache(ix.X) {
								continue
							}
							cacheObj = c19VarObj(lf, ix.X)
							cs := an.Site{Fn: lf, V: v, Node: as}
							o.Site("feature cache write %s", cs.String())
							if c := lf.Canon(ix.Index); c != "$lit.p0" {
								o.FailAt(lf.ID+"#cache-key", cs.Where(), "the feature cache is written under %s, expected the node asked for", c)
							}
							if an.IsNilIdent(lf.Info(), as.Rhs[i]) {
								continue
							}
							if c19VarObj(lf, as.Rhs[i]) != validated {
								o.FailAt(lf.ID+"#cache-value", cs.Where(), "the feature cache stores %s, which is not the validated vector", an.Text(as.Rhs[i]))
							}
							mustPass(o, lf, "feature.ValidateRequired", vr, an.OkErrNil, []an.Site{cs})
							mustPass(o, lf, "feature.ValidateDeps", vd, an.OkErrNil, []an.Site{cs})
						}
					}
					if cacheObj == nil {
						o.Site("%s: no feature cache", lf.ID)
					}
					for _, s := range lf.Returns() {
						rs := s.Node.(*ast.ReturnStmt)
						if an.IsNilIdent(lf.Info(), rs.Results[0]) || !an.IsNilIdent(lf.Info(), rs.Results[1]) {
							continue
						}
						if ok, _ := lf.Guarded(s, an.Truth(an.LocalNamed("ok"), true, "")); ok {
							continue // cached
						}
						if c19VarObj(lf, rs.Results[0]) != validated {
							o.FailAt(lf.ID+"#returned-vector", s.Where(), "%s returns %s, which is not the validated vector", lf.ID, an.Text(rs.Results[0]))
						}
						mustPass(o, lf, "feature.ValidateRequired", vr, an.OkErrNil, []an.Site{s})
						mustPass(o, lf, "feature.ValidateDeps", vd, an.OkErrNil, []an.Site{s})
					}
				}
			}
		})

	r.Obl("node-fee-clamp-one-form", "MIRROR",
		"the 'a node's total fee is never negative' clamp has the same form where edges are selected (calcCappedInboundFee) and where the search accumulates (processEdge): inboundFee = edge.inboundFees.CalcFee(net amount received); if inboundFee < -int64(outbound fee of the next hop) then inboundFee = that bound",
		"two different clamps make edge selection admit an amount the search then prices differently: the route's amounts no longer match what each node demands", 4,
		func(o *an.Obl) {
			// the clamp of x at the bound b is `if x < b { x = b }`, `x = max(x, b)`
			// or, where x is what the function returns, `if x < b { return b }`
			f := p.Func(rt + "calcCappedInboundFee")
			isFee := func(e ast.Expr) bool { return an.LocalNamed("inboundFee")(f, ast.Unparen(e)) }
			isBound := func(e ast.Expr) bool { c := f.Canon(e); return c == "-int64($p2)" }
			below := an.CmpX(an.LocalNamed("inboundFee"), an.LT, canonTerm(`^-int64\(\$p2\)$|^-\$p2$`), "inboundFee < -int64(nextOutFee)")
			nComputed, nClamp := 0, 0
			for _, s := range f.Assigns(an.LocalNamed("inboundFee"), false) {
				as, ok := s.Node.(*ast.AssignStmt)
				if !ok || len(as.Lhs) != 1 || len(as.Rhs) != 1 || (as.Tok != token.ASSIGN && as.Tok != token.DEFINE) {
					o.FailAt(f.ID+"#clamp-form", s.Where(), "inboundFee is changed by %s", an.Text(s.Node))
					continue
				}
				c := f.Canon(as.Rhs[0])
				o.Site("calcCappedInboundFee: inboundFee %s %s", as.Tok, c)
				switch {
				case c == "$p0.inboundFees.CalcFee($p1)":
					nComputed++
				case c == "-int64($p2)":
					nClamp++
					guarded(o, f, s, below)
				case c19IsMaxOf(f, as.Rhs[0], isFee, isBound):
					nClamp++
				default:
					o.FailAt(f.ID+"#clamp-form", s.Where(), "inboundFee is set to %s", c)
				}
			}
			for _, s := range f.Returns() {
				res := s.Node.(*ast.ReturnStmt).Results[0]
				switch {
				case isFee(res):
				case isBound(res):
					// the bound itself, returned where the fee is below it
					nClamp++
					guarded(o, f, s, below)
				case c19IsMaxOf(f, res, isFee, isBound):
					nClamp++
				default:
					o.FailAt(f.ID+"#returns", s.Where(), "calcCappedInboundFee returns %s", an.Text(res))
				}
			}
			if nComputed != 1 || nClamp != 1 {
				o.FailAt(f.ID+"#clamp", f.Where(f.Body.Pos()), "calcCappedInboundFee computes inboundFee %d times and clamps it %d times, expected one computation and one clamp", nComputed, nClamp)
			}
			fp := p.Func(rt + "findPath")
			for _, lf := range fp.Lits {
				ss := lf.Assigns(an.LocalNamed("inboundFee"), false)
				if lf.Parent != fp || len(ss) == 0 {
					continue
				}
				n := 0
				for _, s := range ss {
					as, ok := s.Node.(*ast.AssignStmt)
					if !ok || len(as.Lhs) != 1 || len(as.Rhs) != 1 || (as.Tok != token.ASSIGN && as.Tok != token.DEFINE) {
						o.FailAt(lf.ID+"#clamp-form", s.Where(), "inboundFee is changed by %s", an.Text(s.Node))
						continue
					}
					c := an.Text(as.Rhs[0])
					o.Site("processEdge: inboundFee %s %s", as.Tok, c)
					switch {
					case c == "edge.inboundFees.CalcFee(toNodeDist.netAmountReceived)":
						n++
					case c == "minInboundFee":
						n++
						guarded(o, lf, s, an.CmpX(an.LocalNamed("inboundFee"), an.LT, an.LocalNamed("minInboundFee"), "inboundFee < minInboundFee"))
					case c19IsMaxOf(lf, as.Rhs[0],
						func(e ast.Expr) bool { return an.LocalNamed("inboundFee")(lf, ast.Unparen(e)) },
						func(e ast.Expr) bool { return an.LocalNamed("minInboundFee")(lf, ast.Unparen(e)) }):
						// the same clamp written with the builtin
						n++
					default:
						o.FailAt(lf.ID+"#clamp-form", s.Where(), "inboundFee is set to %s", c)
					}
				}
				if n != 2 {
					o.FailAt(lf.ID+"#clamp", lf.Where(lf.Body.Pos()), "processEdge assigns inboundFee %d times, expected the computation and the clamp", n)
				}
			}
		})

	r.Obl("route-recomputation", "ROLE",
		"newRoute: the final hop forwards finalHop.amt at fee 0 and is handed the running time lock (start: currentHeight) after the final delta was added; a non-final hop forwards the next hop's incoming amount; its fee is ComputeFee of the outgoing edge on that amount plus the inbound fee of the incoming edge on (amount + outbound fee), floored at zero; the amount entering the hop is amount + fee; the time lock handed to the hop is the running total, which then grows by the outgoing edge's TimeLockDelta; each of these locals is a single variable that receives values in these forms only, the final-hop forms below i == len(pathEdges)-1 and the forwarding forms below its negation; each hop is put in front of the hops built so far; the totals given to NewRouteFromHops are the first hop's incoming amount and the final running time lock; Route.TotalFees / HopFee / ReceiverAmt are differences of those per-hop amounts, HopFee being 0 only when nothing comes in and in-out only when both are set; a channel update applied to a hint edge (UpdateAdditionalEdge) replaces every policy term the fee and time lock computations read, after its signature verified",
		"a route whose stated totals differ from the sum of its hops pays a different fee than pathfinding accepted, or is rejected by the first node", 12,
		func(o *an.Obl) {
			f := p.Func(rt + "newRoute")
			// the parameters the forms below are written in (pathEdges is trimmed
			// of the blinded dummy hop on entry and is read by index only)
			notReassigned(o, f, "sourceVertex", "currentHeight", "finalHop", "blindedPathSet")
			lastIdx := canonTerm(`^\(len\(\$p1\) - 1\)$`)
			last := an.CmpX(an.LocalNamed("i"), an.EQ, lastIdx, "i == len(pathEdges)-1 (final hop)")
			notLast := an.CmpX(an.LocalNamed("i"), an.NE, lastIdx, "i != len(pathEdges)-1 (forwarding hop)")
			// name -> form ("<tok> <value>") -> branch of the per-hop computation
			// the form belongs to. Every name is one variable (a `:=` that
			// shadows it computes a value nobody reads), receives values in
			// these forms only (`var x = v`, `=`, `op=`, `++` all count) and each
			// form sits in its own branch.
			forms := map[string]map[string]string{
				// (written with the outbound / inbound fee temporaries substituted: they
				// are single-definition locals, wherever and under whatever name they
				// are computed; a second assignment to one of them keeps it from being
				// substituted and the form below is then not met)
				"fee":                {"= 0": "final|floor", "= int64(pathEdges[i + 1].policy.ComputeFee(amtToForward)) + pathEdges[i].inboundFees.CalcFee(amtToForward + pathEdges[i + 1].policy.ComputeFee(amtToForward))": "forward"},
				"amtToForward":       {"= finalHop.amt": "final", "= nextIncomingAmount": "forward"},
				"nextIncomingAmount": {"= amtToForward + lnwire.MilliSatoshi(fee)": "every"},
				"outgoingTimeLock":   {"= totalTimeLock": "final+forward"},
				"totalTimeLock": {"= currentHeight": "start", "+= uint32(finalHop.cltvDelta)": "final", "+= uint32(blindedPathSet.FinalCLTVDelta())": "final",
					"+= uint32(pathEdges[i + 1].policy.TimeLockDelta)": "forward"},
			}
			var names []string
			for n := range forms {
				names = append(names, n)
			}
			sortStrings(names)
			keep := map[string]bool{}
			for _, n := range names {
				keep[n] = true
			}
			nZero := 0
			for _, name := range names {
				var fl []string
				for fm := range forms[name] {
					fl = append(fl, fm)
				}
				sortStrings(fl)
				byForm, same, temps := c19DefinedAsN(o, f, name, keep, append([]string{"zero"}, fl...)...)
				for fm, ds := range byForm {
					branch := forms[name][fm]
					nFinal, nForward := 0, 0
					for _, d := range ds {
						if d.Tok == "zero" {
							continue
						}
						// (a literal the flow layer splices - an inlined helper - is part
						// of newRoute's graph)
						st := c19SiteFor(f, d.Node)
						if c19InUnsplicedLit(st, d.Node) {
							o.FailAt(f.ID+"#"+name+"-in-closure", f.Where(d.Node.Pos()), "%s %s is assigned inside a function literal", name, fm)
							continue
						}
						isFinal, _ := f.Guarded(st, last)
						isForward, _ := f.Guarded(st, notLast)
						if isFinal {
							nFinal++
						}
						if isForward {
							nForward++
						}
						switch branch {
						case "final":
							guarded(o, f, st, last)
						case "forward":
							guarded(o, f, st, notLast)
							for _, t := range temps[d.Node] {
								if ts := c19SiteFor(f, t); c19InUnsplicedLit(ts, t) {
									o.FailAt(f.ID+"#"+name+"-temp-in-closure", f.Where(t.Pos()), "%s: the temporary %s is computed inside a function literal", name, an.Text(t))
								} else {
									guarded(o, f, ts, notLast)
								}
							}
						case "final|floor":
							nZero++
							if !isFinal {
								guarded(o, f, st, notLast)
								guarded(o, f, st, an.CmpX(c19ObjTerm(same), an.LT, an.IntConst(0), "fee < 0"))
							}
						case "every", "start":
							if isFinal || isForward || len(ds) != 1 {
								o.FailAt(f.ID+"#"+name+"-branch", st.Where(), "%s %s must be computed once, for every hop; found it under a final/forwarding-hop test", name, fm)
							}
						case "final+forward":
							if !isFinal && !isForward {
								o.FailAt(f.ID+"#"+name+"-branch", st.Where(), "%s %s is outside the final / forwarding hop branches", name, fm)
							}
						}
					}
					if (branch == "final+forward" || branch == "final|floor") && (nFinal != 1 || nForward != 1) {
						o.FailAt(f.ID+"#"+name+"-branches", f.Where(f.Body.Pos()), "expected %s %s once for the final hop and once for a forwarding hop, found %d and %d", name, fm, nFinal, nForward)
					}
					if (branch == "final" || branch == "forward") && len(ds) != 1 {
						o.FailAt(f.ID+"#"+name+"-count", f.Where(f.Body.Pos()), "expected one %s %s, found %d", name, fm, len(ds))
					}
					switch fm {
					case "+= uint32(finalHop.cltvDelta)":
						for _, d := range ds {
							guarded(o, f, c19SiteFor(f, d.Node), an.IsNil(an.Param(4), true, "blindedPathSet == nil"))
						}
					case "+= uint32(blindedPathSet.FinalCLTVDelta())":
						for _, d := range ds {
							guarded(o, f, c19SiteFor(f, d.Node), an.IsNil(an.Param(4), false, "blindedPathSet != nil"))
						}
					}
				}
			}
			// the floor of the hop fee exists (final hop: 0; other hops: 0 below fee < 0)
			if nZero != 2 {
				o.FailAt(f.ID+"#fee-floor", f.Where(f.Body.Pos()), "expected two places that set the hop fee to zero (final hop, negative total floored), found %d", nZero)
			}
			// hops are prepended: the walk runs from the last edge to the first
			// and the route lists them from the first to the last
			hopObjs, hopDefs := c19LocalDefs(f, "hops")
			nPrepend := 0
			for _, d := range hopDefs {
				if d.Tok == "zero" {
					continue
				}
				c, _ := d.Rhs.(*ast.CallExpr)
				ok := len(hopObjs) == 1 && d.Tok == "=" && c != nil && isAppend(f, c) && c.Ellipsis.IsValid() && len(c.Args) == 2 && c19VarObj(f, c.Args[1]) == hopObjs[0]
				if ok {
					sl := c19AsLit(c.Args[0])
					ok = sl != nil && len(sl.Elts) == 1 && c19LitOf(f, sl.Elts[0]) != nil && an.TypeID(f.Info().TypeOf(c19LitOf(f, sl.Elts[0]))) == "routing/route.Hop"
				}
				o.Site("hops %s", d.form())
				if !ok {
					o.FailAt(f.ID+"#hops-order", f.Where(d.Node.Pos()), "hops %s: expected the hop built in this iteration to be put in front of the hops built so far", d.form())
					continue
				}
				nPrepend++
			}
			if nPrepend != 1 {
				o.FailAt(f.ID+"#hops", f.Where(f.Body.Pos()), "expected one place that prepends the current hop to hops, found %d", nPrepend)
			}
			// order inside one iteration: a forwarding hop is handed the running
			// time lock before its own delta is added; the final hop is handed
			// the total including the final delta
			ast.Inspect(f.Body, func(n ast.Node) bool {
				blk, ok := n.(*ast.BlockStmt)
				if !ok {
					return true
				}
				handed, grown, final := -1, -1, false
				for i, st := range blk.List {
					ast.Inspect(st, func(m ast.Node) bool {
						if _, nested := m.(*ast.BlockStmt); nested && m != st {
							// if/else around the final delta belongs to this level
						}
						if as, ok := m.(*ast.AssignStmt); ok && len(as.Lhs) == 1 && len(as.Rhs) == 1 {
							l, rh := an.Text(as.Lhs[0]), an.Text(as.Rhs[0])
							if l == "outgoingTimeLock" && rh == "totalTimeLock" && handed < 0 {
								handed = i
							}
							if l == "totalTimeLock" && as.Tok.String() == "+=" && grown < 0 {
								grown = i
								final = !strings.Contains(rh, "TimeLockDelta")
							}
						}
						return true
					})
				}
				if handed < 0 || grown < 0 {
					return true
				}
				o.Site("time lock order in block at %s: handed=%d grown=%d final=%v", f.Where(blk.Pos()), handed, grown, final)
				if final && handed < grown {
					o.FailAt(f.ID+"#final-timelock-order", f.Where(blk.Pos()), "the final hop is handed the time lock before the final delta is added")
				}
				if !final && grown < handed {
					o.FailAt(f.ID+"#hop-timelock-order", f.Where(blk.Pos()), "a forwarding hop is handed the time lock after its own delta was added: it would have to forward with its incoming expiry")
				}
				return true
			})
			nr := f.Calls(an.CalleeNamed("NewRouteFromHops"), false)
			if needExactly(o, f, "NewRouteFromHops", nr, 1) {
				c := nr[0].Node.(*ast.CallExpr)
				o.Site("NewRouteFromHops(%s, %s, ...)", an.Text(c.Args[0]), an.Text(c.Args[1]))
				if an.Text(c.Args[0]) != "nextIncomingAmount" || an.Text(c.Args[1]) != "totalTimeLock" || an.Text(c.Args[3]) != "hops" {
					o.FailAt(f.ID+"#totals", nr[0].Where(), "the route totals are (%s, %s)", an.Text(c.Args[0]), an.Text(c.Args[1]))
				}
			}
			for _, cl := range p.CompositeLitsOf(p.LookupType("routing/route", "Hop")) {
				if cl.Fn == nil || cl.Fn.ID != f.ID {
					continue
				}
				for k, v := range map[string]string{"AmtToForward": "amtToForward", "OutgoingTimeLock": "outgoingTimeLock", "ChannelID": "edge.ChannelID", "PubKeyBytes": "edge.ToNodePubKey()"} {
					if got := kvText(cl.Node, k); got != v {
						o.FailAt(f.ID+"#hop-"+k, cl.Where, "the hop's %s is %s", k, got)
					}
				}
				o.Site("hop literal at %s", cl.Where)
			}
			rr := "routing/route.Route."
			nf := p.Func("routing/route.NewRouteFromHops")
			for _, cl := range p.CompositeLitsOf(p.LookupType("routing/route", "Route")) {
				if cl.Fn == nil || cl.Fn.ID != nf.ID {
					continue
				}
				for k, v := range map[string]string{"TotalAmount": "amtToSend", "TotalTimeLock": "timeLock", "Hops": "hops"} {
					if got := kvText(cl.Node, k); got != v {
						o.FailAt(nf.ID+"#"+k, cl.Where, "Route.%s = %s", k, got)
					}
				}
			}
			// HopFee: incoming amount of hop i is the previous hop's forwarded
			// amount (the route total for the first), minus what hop i forwards
			hf := p.Func(rr + "HopFee")
			wantHF := map[string][]string{
				"incomingAmt": {"$recv.TotalAmount", "$recv.Hops[($p0 - 1)].AmtToForward"},
				"outgoingAmt": {"$recv.Hops[$p0].AmtToForward"},
			}
			for name, want := range wantHF {
				ss := hf.Assigns(an.LocalNamed(name), false)
				if !need(o, hf, name, ss, len(want)) {
					continue
				}
				for _, s := range ss {
					c := hf.Canon(s.Node.(*ast.AssignStmt).Rhs[0])
					o.Site("HopFee %s = %s", name, c)
					ok := false
					for _, w := range want {
						ok = ok || c == w
					}
					if !ok {
						o.FailAt(hf.ID+"#"+name, s.Where(), "HopFee takes %s from %s, expected one of %v", name, c, want)
					}
					if c == "$recv.TotalAmount" {
						// taken for the first hop only: either assigned below
						// hopIndex == 0, or assigned as the default that the other
						// definition replaces before anything reads it on every path
						// where hopIndex != 0
						first := an.Cmp(an.Param(0), an.EQ, an.IntConst(0), "hopIndex == 0")
						if ok, _ := hf.Guarded(s, first); !ok {
							stop := map[*an.FlowVertex]bool{}
							for _, s2 := range ss {
								if s2.V != s.V {
									stop[s2.V] = true
								}
							}
							bad := len(stop) == 0
							for v := range hf.Graph().Reach(s.V, hf.EdgesOf(first), stop) {
								if v == s.V || stop[v] {
									continue
								}
								if v.Kind.String() == "return" || v == hf.Graph().Exit {
									bad = true
								}
								v.Inspect(false, func(n ast.Node) bool {
									if id, ok := n.(*ast.Ident); ok && id.Name == name {
										bad = true
									}
									return true
								})
							}
							if bad {
								guarded(o, hf, s, first)
							} else {
								o.Site("HopFee %s = %s is the default replaced where hopIndex != 0", name, c)
							}
						}
					}
				}
			}
			for _, s := range hf.Returns() {
				c := an.Text(s.Node.(*ast.ReturnStmt).Results[0])
				o.Site("HopFee returns %s", c)
				in, out := an.LocalNamed("incomingAmt"), an.LocalNamed("outgoingAmt")
				switch c {
				case "0":
					// a blinded intermediate hop: nothing comes in
					guarded(o, hf, s, an.Cmp(in, an.EQ, an.IntConst(0), "incomingAmt == 0"))
				case "incomingAmt - outgoingAmt":
					guarded(o, hf, s, an.Cmp(in, an.NE, an.IntConst(0), "incomingAmt != 0"))
					guarded(o, hf, s, an.Cmp(out, an.NE, an.IntConst(0), "outgoingAmt != 0"))
				case "incomingAmt - r.ReceiverAmt()":
					guarded(o, hf, s, an.Cmp(in, an.NE, an.IntConst(0), "incomingAmt != 0"))
				default:
					o.FailAt(hf.ID+"#returns", s.Where(), "HopFee returns %s", c)
				}
				onlyGuards(o, hf, s, []string{`^!?\(?(incomingAmt|outgoingAmt) [!=]= 0\)?$`}, "HopFee case")
			}
			for id, want := range map[string][]string{
				rr + "TotalFees":   {"0", "($recv.TotalAmount - $recv.ReceiverAmt())"},
				rr + "ReceiverAmt": {"0", "$recv.Hops[(len($recv.Hops) - 1)].AmtToForward"},
			} {
				g := p.Func(id)
				for _, s := range g.Returns() {
					c := g.Canon(s.Node.(*ast.ReturnStmt).Results[0])
					o.Site("%s returns %s", id, c)
					if c != want[0] && c != want[1] {
						o.FailAt(id+"#returns", s.Where(), "%s returns %s", id, c)
					}
				}
			}
		})

	r.Obl("hint-edge-update-replaces-all-terms", "TABLE",
		"paymentSession.UpdateAdditionalEdge returns true only after VerifyChannelUpdateSignature(msg, pubKey) succeeded and after TimeLockDelta, FeeBaseMSat and FeeProportionalMillionths (the terms ComputeFee and the time lock computation read) of the policy it was handed (the parameter itself, never re-pointed to a copy) were each assigned from the update's TimeLockDelta, BaseFee and FeeRate",
		"a hint edge that keeps a stale term after the forwarding node announced a new policy is priced wrongly on every retry: the hop is left less than its policy demands", 4,
		func(o *an.Obl) {
			f := p.Func("routing.paymentSession.UpdateAdditionalEdge")
			// the policy written is the caller's edge (not a copy), the terms
			// come from the verified message
			notReassigned(o, f, "msg", "pubKey", "policy")
			var succ []an.Site
			for _, s := range f.Returns() {
				if an.Text(s.Node.(*ast.ReturnStmt).Results[0]) == "true" {
					succ = append(succ, s)
				}
			}
			if !need(o, f, "success return", succ, 1) {
				return
			}
			vs := f.Calls(an.CalleeIs("netann.VerifyChannelUpdateSignature"), false)
			mustPass(o, f, "VerifyChannelUpdateSignature", vs, an.OkErrNil, succ)
			for _, v := range vs {
				if a := f.ArgCanon(v); a[0] != "$p0" || a[1] != "$p1" {
					o.FailAt(f.ID+"#verify-args", v.Where(), "the signature is verified as (%s, %s)", a[0], a[1])
				}
			}
			// the terms the fee formula reads
			cf := p.Func("graph/db/models.CachedEdgePolicy.ComputeFee")
			terms := map[string]string{"TimeLockDelta": "$p0.TimeLockDelta"}
			ast.Inspect(cf.Body, func(n ast.Node) bool {
				if sel, ok := n.(*ast.SelectorExpr); ok {
					if id, ok := sel.X.(*ast.Ident); ok && id.Name == "c" {
						terms[sel.Sel.Name] = ""
					}
				}
				return true
			})
			src := map[string]string{"TimeLockDelta": "$p0.TimeLockDelta", "FeeBaseMSat": "lnwire.MilliSatoshi($p0.BaseFee)", "FeeProportionalMillionths": "lnwire.MilliSatoshi($p0.FeeRate)"}
			for t := range terms {
				want, ok := src[t]
				if !ok {
					o.FailAt(f.ID+"#unknown-term-"+t, "", "ComputeFee reads policy.%s, which the table of update terms does not cover", t)
					continue
				}
				as := f.Assigns(an.Field("graph/db/models.CachedEdgePolicy", t, an.Param(2)), false)
				o.Site("term %s: %d assignments", t, len(as))
				if len(as) == 0 {
					o.FailAt(f.ID+"#stale-"+t, f.Where(f.Body.Pos()), "the update does not replace policy.%s", t)
					continue
				}
				for _, a := range as {
					if c := f.Canon(a.Node.(*ast.AssignStmt).Rhs[0]); c != want {
						o.FailAt(f.ID+"#source-of-"+t, a.Where(), "policy.%s is set from %s, expected %s", t, c, want)
					}
				}
				before(o, f, "assignment of policy."+t, as, "success return", succ)
			}
		})

	r.Obl("outgoing-channel-restriction", "GUARD",
		"nodeEdgeUnifier.addPolicy adds an edge that leaves the node the restriction applies to (fromNode == the unifier's outChanRestrNode, the first node of the route) only if no outgoing-channel restriction is set or the channel is in the restriction map, the membership being the comma-ok result of looking this edge's channel id up in that map; whether an edge is local (bandwidth hints, local channel rules) is decided by fromNode == sourceNode and by nothing else; findPath builds the map from every entry of r.OutgoingChannelIDs and hands it, together with self as the node local channels belong to, to every unifier it creates; graph channels without an incoming policy are not added",
		"an edge outside the restriction lets the first hop leave through a channel the caller excluded", 6,
		func(o *an.Obl) {
			f := p.Func(rt + "nodeEdgeUnifier.addPolicy")
			var adds []an.Site
			for _, v := range f.Graph().V {
				as, ok := v.Node.(*ast.AssignStmt)
				if ok && len(as.Lhs) == 1 && strings.HasSuffix(an.Text(as.Lhs[0]), ".edges") && isAppend(f, as.Rhs[0]) {
					adds = append(adds, an.Site{Fn: f, V: v, Node: as})
				}
			}
			if needExactly(o, f, "append to unifier.edges", adds, 1) {
				// the membership flag is the comma-ok result of the lookup in the
				// restriction map (addPolicy has a second `ok`, of the unifier map)
				inRestr := func(fn *an.Func, e ast.Expr) bool {
					id, isID := e.(*ast.Ident)
					if !isID {
						return false
					}
					obj := c19VarObj(fn, id)
					found := false
					ast.Inspect(fn.Body, func(n ast.Node) bool {
						as, isAs := n.(*ast.AssignStmt)
						if !isAs || len(as.Lhs) != 2 || len(as.Rhs) != 1 {
							return true
						}
						ix, isIx := ast.Unparen(as.Rhs[0]).(*ast.IndexExpr)
						if isIx && c19VarObj(fn, as.Lhs[1]) == obj && obj != nil && an.Match(fn, an.FieldPath(an.Recv(), "outChanRestr"), ix.X) {
							found = true
						}
						return true
					})
					return found
				}
				guarded(o, f, adds[0], an.AnyOf("not a channel of the node the restriction applies to, no restriction, or channel in the restriction map",
					an.Cmp(an.Param(0), an.NE, an.FieldPath(an.Recv(), "outChanRestrNode"), ""),
					an.IsNil(an.FieldPath(an.Recv(), "outChanRestr"), true, ""),
					an.Truth(inRestr, true, "")))
				guarded(o, f, adds[0], an.IsNil(an.Param(4), false, "hopPayloadSizeFn != nil"))
			}
			for _, s := range f.Assigns(an.LocalNamed("localChan"), false) {
				if c := f.Canon(s.Node.(*ast.AssignStmt).Rhs[0]); c != "($p0 == $recv.sourceNode)" {
					o.FailAt(f.ID+"#local", s.Where(), "an edge counts as local iff %s", c)
				}
			}
			// membership test uses this edge's channel id
			found := false
			ast.Inspect(f.Body, func(n ast.Node) bool {
				if ix, ok := n.(*ast.IndexExpr); ok && strings.HasSuffix(an.Text(ix.X), ".outChanRestr") {
					found = true
					if c := f.Canon(ix.Index); c != "$p1.ChannelID" {
						o.FailAt(f.ID+"#restriction-key", f.Where(ix.Pos()), "the restriction map is indexed with %s", c)
					}
				}
				return true
			})
			if !found {
				o.FailAt(f.ID+"#restriction-lookup", f.Where(f.Body.Pos()), "addPolicy no longer consults the restriction map")
			}
			fp := p.Func(rt + "findPath")
			n := 0
			for _, s := range fp.Calls(an.CalleeIs(rt+"newNodeEdgeUnifier"), false) {
				n++
				c := s.Node.(*ast.CallExpr)
				o.Site("%s", s.String())
				if an.Text(c.Args[3]) != "outgoingChanMap" || an.Text(c.Args[0]) != "self" {
					o.FailAt(fp.ID+"#unifier-args", s.Where(), "the unifier is created with source %s and restriction %s", an.Text(c.Args[0]), an.Text(c.Args[3]))
				}
			}
			if n < 1 {
				o.FailAt(fp.ID+"#unifier", fp.Where(fp.Body.Pos()), "findPath creates no edge unifier")
			}
			m := 0
			for _, v := range fp.Graph().V {
				as, ok := v.Node.(*ast.AssignStmt)
				if !ok || len(as.Lhs) != 1 {
					continue
				}
				if ix, ok := as.Lhs[0].(*ast.IndexExpr); ok && an.Text(ix.X) == "outgoingChanMap" {
					m++
					s := an.Site{Fn: fp, V: v, Node: as}
					hdr := enclosingLoopHeader(fp, as)
					o.Site("%s over %s", s.String(), hdr)
					if !strings.HasSuffix(hdr, ".OutgoingChannelIDs") || !strings.HasPrefix(fp.Canon(ix.Index), "$elem(") {
						o.FailAt(fp.ID+"#restriction-map", s.Where(), "the restriction map is filled from %s with key %s", hdr, fp.Canon(ix.Index))
					}
				}
			}
			if m != 1 {
				o.FailAt(fp.ID+"#restriction-fill", fp.Where(fp.Body.Pos()), "expected one site filling the restriction map, found %d", m)
			}
			g := p.Func(rt + "nodeEdgeUnifier.addGraphPolicies")
			for _, lf := range g.Lits {
				for _, v := range lf.Graph().V {
					as, ok := v.Node.(*ast.AssignStmt)
					if ok && len(as.Lhs) == 1 && an.Text(as.Lhs[0]) == "channels" && isAppend(lf, as.Rhs[0]) {
						guarded(o, lf, an.Site{Fn: lf, V: v, Node: as}, an.IsNil(an.FieldPath(an.Param(0), "InPolicy"), false, "channel.InPolicy != nil"))
					}
				}
			}
		})

	onionPayloadEstimate(r)
}
