package discovery

import (
	"testing"

	"github.com/btcsuite/btcd/chaincfg/v2"
	"github.com/stretchr/testify/require"
)

// TestProbeRejectedUpdateBlocksValidAnnouncement: the reject cache is keyed
// by (version, scid, peer) for every message type. A channel_update of peer P
// for scid X that is refused for a reason that says nothing about the channel
// (here: wrong chain hash) must not make P's later, valid channel_announcement
// for X be dropped as "recently rejected".
func TestProbeRejectedUpdateBlocksValidAnnouncement(t *testing.T) {
	ctx := t.Context()

	tCtx, err := createTestCtx(t, 10, false)
	require.NoError(t, err)

	batch, err := tCtx.createRemoteAnnouncements(5)
	require.NoError(t, err)

	peer := &mockPeer{pk: remoteKeyPriv1.PubKey()}

	// An update for the channel on another chain: refused and cached.
	upd := *batch.chanUpdAnn1
	upd.ChainHash = *chaincfg.TestNet3Params.GenesisHash
	require.NoError(t, signUpdate(remoteKeyPriv1, &upd))
	err = mustProcess(t, tCtx.gossiper.ProcessRemoteAnnouncement(
		ctx, &upd, peer,
	))
	require.Error(t, err)

	// The valid announcement of the same channel from the same peer.
	err = mustProcess(t, tCtx.gossiper.ProcessRemoteAnnouncement(
		ctx, batch.chanAnn, peer,
	))
	t.Logf("valid announcement after the refused update: %v", err)
	require.NoError(t, err)
	require.True(t, tCtx.gossiper.cfg.Graph.IsKnownEdge(
		batch.chanAnn.ShortChannelID,
	))

	// The other direction is kept: a refused announcement still makes the
	// peer's updates for that channel be dropped without processing.
	bad, err := tCtx.createRemoteChannelAnnouncement(
		6, withFundingTxPrep(fundingTxPrepTypeNone),
	)
	require.NoError(t, err)
	bad.ChainHash = *chaincfg.TestNet3Params.GenesisHash
	err = mustProcess(t, tCtx.gossiper.ProcessRemoteAnnouncement(
		ctx, bad, peer,
	))
	require.Error(t, err)

	upd6, err := createUpdateAnnouncement(6, 0, remoteKeyPriv1, 1234)
	require.NoError(t, err)
	err = mustProcess(t, tCtx.gossiper.ProcessRemoteAnnouncement(
		ctx, upd6, peer,
	))
	require.ErrorContains(t, err, "recently rejected")
}
