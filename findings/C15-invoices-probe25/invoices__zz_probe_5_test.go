package invoices_test

import (
	"testing"
	"time"

	invpkg "github.com/lightningnetwork/lnd/invoices"
	"github.com/lightningnetwork/lnd/lntypes"
	"github.com/lightningnetwork/lnd/lnwire"
	"github.com/lightningnetwork/lnd/record"
	"github.com/stretchr/testify/require"
)

// Probe 5 (refuted, passes on the unmodified tree): an AMP shard that was
// canceled by the MPP timeout must not be forgotten by the KV store when a
// further shard of the same set is accepted
// (kvInvoiceUpdater.UpdateAmpState, case HtlcStateAccepted, only pulls the
// accepted htlcs into the blob it rewrites). It is kept only because
// getUpdatedInvoiceAmpState leaves AMPState[setID].State at Canceled when a
// further shard is accepted, which routes UpdateAmpState through its Canceled
// case (accepted + canceled merged).
func TestProbe5AmpCanceledShardForgottenOnNextAccept(t *testing.T) {
	runProbe(t, func(t *testing.T, makeDB probeMakeDB) {
		defer timeout()()

		cfg := defaultRegistryConfig()
		cfg.AcceptAMP = true
		ctx := newTestContext(t, &cfg, makeDB)
		ctxb := t.Context()

		const (
			totalAmt = lnwire.MilliSatoshi(300)
			shardAmt = lnwire.MilliSatoshi(100)
			expiry   = uint32(testCurrentHeight + 20)
		)
		payAddr := [32]byte{1}
		setID := [32]byte{2}
		hash0 := lntypes.Hash{0xa0}
		hash1 := lntypes.Hash{0xa1}

		payload := func(idx uint32) *mockPayload {
			return &mockPayload{
				mpp: record.NewMPP(totalAmt, payAddr),
				amp: record.NewAMP(
					[32]byte{byte(idx + 1)}, setID, idx,
				),
			}
		}

		// Shard 0 is held.
		hodlChan0 := make(chan interface{}, 1)
		res, err := ctx.registry.NotifyExitHopHtlc(
			hash0, shardAmt, expiry, testCurrentHeight,
			getCircuitKey(0), hodlChan0, nil, payload(0),
		)
		require.NoError(t, err)
		require.Nil(t, res)

		// MPP timeout for shard 0.
		ctx.clock.SetTime(testTime.Add(31 * time.Second))
		select {
		case r := <-hodlChan0:
			checkFailResolution(
				t, r.(invpkg.HtlcResolution),
				invpkg.ResultMppTimeout,
			)
		case <-time.After(testTimeout):
			t.Fatalf("no mpp timeout")
		}

		// A replay of shard 0 right now is recognised.
		res, err = ctx.registry.NotifyExitHopHtlc(
			hash0, shardAmt, expiry, testCurrentHeight,
			getCircuitKey(0), nil, nil, payload(0),
		)
		require.NoError(t, err)
		checkFailResolution(t, res, invpkg.ResultReplayToCanceled)

		// Shard 1 of the same set comes in and is held.
		hodlChan1 := make(chan interface{}, 1)
		res, err = ctx.registry.NotifyExitHopHtlc(
			hash1, shardAmt, expiry, testCurrentHeight,
			getCircuitKey(1), hodlChan1, nil, payload(1),
		)
		require.NoError(t, err)
		require.Nil(t, res)

		inv, err := ctx.registry.LookupInvoiceByRef(
			ctxb, invpkg.InvoiceRefByAddr(payAddr),
		)
		require.NoError(t, err)
		if _, ok := inv.Htlcs[getCircuitKey(0)]; !ok {
			t.Errorf("SUSPECT: canceled shard 0 vanished from the "+
				"stored invoice, htlcs now: %v", len(inv.Htlcs))
		}

		// Replay of shard 0 again: originally canceled.
		res, err = ctx.registry.NotifyExitHopHtlc(
			hash0, shardAmt, expiry, testCurrentHeight,
			getCircuitKey(0), nil, nil, payload(0),
		)
		require.NoError(t, err)
		fail, ok := res.(*invpkg.HtlcFailResolution)
		if !ok || fail.Outcome != invpkg.ResultReplayToCanceled {
			t.Errorf("SUSPECT: replay of the canceled shard 0 is "+
				"not answered with replay-to-canceled but "+
				"with %T %+v (nil means: accepted and held "+
				"as a NEW htlc)", res, res)
		}
	})
}
