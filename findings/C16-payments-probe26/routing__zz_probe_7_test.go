package routing

import (
	"errors"
	"testing"
	"time"

	"github.com/stretchr/testify/assert"
	"github.com/stretchr/testify/mock"
)

// Suspicion 7: an error of Payer.GetAttemptResult that says nothing about the
// fate of the HTLC (anything but ErrPaymentIDNotFound, e.g. a failed read of
// the switch's result store) must not be turned into a failed attempt and a
// failed payment: the HTLC may still be in flight and can still settle, while
// a Failed payment may be initiated again. The lifecycle has to give up with
// the error and leave the attempt and the payment as they are.
func TestZZProbe7TransientSwitchErrorKeepsAttemptInFlight(t *testing.T) {
	t.Parallel()

	p, m := newTestPaymentLifecycle(t)

	attempt := makeFailedAttempt(t, 10_000)
	attempt.Failure = nil

	errTransient := errors.New("result store: database not open")
	m.payer.On("GetAttemptResult",
		attempt.AttemptID, p.identifier, mock.Anything,
	).Return(nil, errTransient).Once()

	// Tolerated so that the calls can be counted below instead of
	// panicking inside the mock.
	reason := mock.Anything
	m.control.On("FailPayment", p.identifier, reason).Return(nil).Maybe()
	m.control.On("FailAttempt",
		p.identifier, attempt.AttemptID, mock.Anything,
	).Return(attempt, nil).Maybe()
	m.shardTracker.On("CancelShard", attempt.AttemptID).Return(nil).Maybe()
	m.clock.On("Now").Return(time.Now()).Maybe()

	_, err := p.collectAndHandleResult(t.Context(), attempt)
	assert.ErrorIs(t, err, errTransient)

	m.control.AssertNotCalled(t, "FailAttempt",
		p.identifier, attempt.AttemptID, mock.Anything)
	m.control.AssertNotCalled(t, "FailPayment", p.identifier, reason)
}
