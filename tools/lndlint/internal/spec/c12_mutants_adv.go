package spec

func init() {
	registry["C12"].Mutants = append(registry["C12"].Mutants, []Mutant{
		// per-element-loops-visit-every-element
		{Name: "adv-loop-incoming-scan-stops-at-first-unknown-preimage", File: "contractcourt/channel_arbitrator.go",
			Old:    "		if !preimageAvailable {\n			continue\n		}\n\n		toChain := c.shouldGoOnChain(",
			New:    "		if !preimageAvailable {\n			break\n		}\n\n		toChain := c.shouldGoOnChain(",
			Expect: "per-element-loops-visit-every-element"},
		{Name: "adv-loop-dangling-scan-stops-at-first-unexpired", File: "contractcourt/channel_arbitrator.go",
			Old:    "		if !goToChain && !commitsConfirmed {\n			continue\n		}",
			New:    "		if !goToChain && !commitsConfirmed {\n			break\n		}",
			Expect: "per-element-loops-visit-every-element"},
		{Name: "adv-loop-diff-scan-returns-after-first-dust", File: "contractcourt/channel_arbitrator.go",
			Old:    "				\"htlc=%x from remote commitments diff\",\n				c.cfg.ChanPoint, htlc.RHash[:])\n\n			actionMap[HtlcFailDustAction] = append(\n				actionMap[HtlcFailDustAction], htlc,\n			)\n\n			continue",
			New:    "				\"htlc=%x from remote commitments diff\",\n				c.cfg.ChanPoint, htlc.RHash[:])\n\n			actionMap[HtlcFailDustAction] = append(\n				actionMap[HtlcFailDustAction], htlc,\n			)\n\n			return actionMap",
			Expect: "per-element-loops-visit-every-element"},
		{Name: "adv-loop-remote-set-built-from-first-commitment-only", File: "contractcourt/channel_arbitrator.go",
			Old:    "			for _, htlc := range htlcs.outgoingHTLCs {\n				localHTLCs[htlc.HtlcIndex] = struct{}{}\n			}\n		}\n",
			New:    "			for _, htlc := range htlcs.outgoingHTLCs {\n				localHTLCs[htlc.HtlcIndex] = struct{}{}\n			}\n\n			break\n		}\n",
			Expect: "per-element-loops-visit-every-element"},
		{Name: "adv-loop-dangling-scan-preimage-error-ends-scan", File: "contractcourt/channel_arbitrator.go",
			Old:    "				\"preimage for dangling htlc=%x from remote \"+\n				\"commitments diff\", c.cfg.ChanPoint,\n				htlc.RHash[:])\n\n			continue\n		}\n\n		if preimageAvailable {\n			continue\n		}\n\n		// Dust htlcs can be canceled back",
			New:    "				\"preimage for dangling htlc=%x from remote \"+\n				\"commitments diff\", c.cfg.ChanPoint,\n				htlc.RHash[:])\n\n			return actionMap\n		}\n\n		if preimageAvailable {\n			continue\n		}\n\n		// Dust htlcs can be canceled back",
			Expect: "per-element-loops-visit-every-element"},
	}...)
}
