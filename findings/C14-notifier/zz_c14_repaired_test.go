package chainntnfs_test

// Regression tests for three TxNotifier defects (property C14: every
// registered confirmation/spend client is told exactly once per chain position
// when its event reaches the requested depth on the active chain, with the
// details of the block that contains it; after a reorg it gets the reorg
// notice first).
//
// Every test in this file FAILS on the unmodified chainntnfs/txnotifier.go and
// passes with the accompanying repairs:
//
//   - fix 1: handleSpendDetailsAtTip ignores a second spend of a script-based
//     request (the same guard handleConfDetailsAtTip already has).
//   - fix 2: RegisterConf strips the block per subscriber when it dispatches
//     to the whole conf set.
//   - fix 3: UpdateConfDetails/UpdateSpendDetails discard a historical result
//     that refers to a block disconnected since the request was registered.
//
// The tests drive the notifier only through the calls the chain backends make
// (RegisterConf/RegisterSpend, UpdateConfDetails/UpdateSpendDetails,
// ConnectTip, NotifyHeight, DisconnectTip).

import (
	"testing"

	"github.com/btcsuite/btcd/btcutil/v2"
	"github.com/btcsuite/btcd/chainhash/v2"
	"github.com/btcsuite/btcd/wire/v2"
	"github.com/lightningnetwork/lnd/chainntnfs"
	"github.com/stretchr/testify/require"
)

// c14Block returns a block with the given transactions. The nonce only serves
// to give competing blocks of the same height different hashes.
func c14Block(nonce uint32, txs ...*wire.MsgTx) *btcutil.Block {
	return btcutil.NewBlock(&wire.MsgBlock{
		Header:       wire.BlockHeader{Nonce: nonce},
		Transactions: txs,
	})
}

// c14ScriptSpend returns a transaction whose only input spends the outpoint
// {idx.., idx} with the signature script/witness that resolve to
// testRawScript. Different idx values are different outputs paying the same
// script.
func c14ScriptSpend(idx uint32) *wire.MsgTx {
	tx := wire.NewMsgTx(2)
	tx.AddTxIn(&wire.TxIn{
		PreviousOutPoint: wire.OutPoint{
			Hash: chainhash.Hash{byte(idx)}, Index: idx,
		},
		SignatureScript: testSigScript,
		Witness:         testWitness,
	})

	return tx
}

// TestC14ScriptSpentTwiceDoesNotCrash (fix 1): a spend request on a script
// (zero outpoint) sees two outputs paying that script being spent at heights
// 11 and 13. Before the fix the second spend overwrote the cached details and
// indexed the request under both heights: when the first spend matured (16)
// the request was removed, and when the second one matured (18) ConnectTip
// dereferenced the removed request: "invalid memory address or nil pointer
// dereference".
func TestC14ScriptSpentTwiceDoesNotCrash(t *testing.T) {
	t.Parallel()

	const (
		startingHeight = 10
		safetyLimit    = 5
	)

	hintCache := newMockHintCache()
	n := chainntnfs.NewTxNotifier(
		startingHeight, safetyLimit, hintCache, hintCache,
	)

	reg, err := n.RegisterSpend(&chainntnfs.ZeroOutPoint, testRawScript, 1)
	require.NoError(t, err)
	require.NoError(t, n.UpdateSpendDetails(
		reg.HistoricalDispatch.SpendRequest, nil,
	))

	height := uint32(startingHeight)
	connect := func(txs ...*wire.MsgTx) {
		height++
		require.NoError(t, n.ConnectTip(c14Block(height, txs...), height))
		require.NoError(t, n.NotifyHeight(height))
	}

	// Height 11: first spend of the script, the client is told.
	connect(c14ScriptSpend(1))
	select {
	case d := <-reg.Event.Spend:
		require.EqualValues(t, 11, d.SpendingHeight)
	default:
		t.Fatal("expected spend notification at height 11")
	}

	// Height 13: another output with the same script is spent. The client
	// was already served, nothing more is sent.
	connect()
	connect(c14ScriptSpend(2))
	select {
	case d := <-reg.Event.Spend:
		t.Fatalf("second spend notification: %v", d)
	default:
	}

	// Run past the maturity of both spends.
	require.NotPanics(t, func() {
		for height < 13+safetyLimit {
			connect()
		}
	})

	// The client is told exactly once that its spend is final.
	select {
	case <-reg.Event.Done:
	default:
		t.Fatal("expected done notification")
	}
	select {
	case <-reg.Event.Done:
		t.Fatal("second done notification")
	default:
	}
}

// TestC14SecondScriptSpendReorgIsNotReported (fix 1): same history, but the
// block holding the *second* spend (13) is disconnected. The client's spend (at
// 11) is still on the active chain, so it must not receive a reorg notice.
// Before the fix the request had been re-indexed under height 13 and the
// client got a Reorg although nothing it was told about had changed.
func TestC14SecondScriptSpendReorgIsNotReported(t *testing.T) {
	t.Parallel()

	const startingHeight = 10

	hintCache := newMockHintCache()
	n := chainntnfs.NewTxNotifier(
		startingHeight, chainntnfs.ReorgSafetyLimit, hintCache,
		hintCache,
	)

	reg, err := n.RegisterSpend(&chainntnfs.ZeroOutPoint, testRawScript, 1)
	require.NoError(t, err)
	require.NoError(t, n.UpdateSpendDetails(
		reg.HistoricalDispatch.SpendRequest, nil,
	))

	require.NoError(t, n.ConnectTip(c14Block(11, c14ScriptSpend(1)), 11))
	require.NoError(t, n.NotifyHeight(11))
	<-reg.Event.Spend

	require.NoError(t, n.ConnectTip(c14Block(12, c14ScriptSpend(2)), 12))
	require.NoError(t, n.NotifyHeight(12))
	require.NoError(t, n.DisconnectTip(12))

	select {
	case <-reg.Event.Reorg:
		t.Fatal("reorg notice although the spend at height 11 is " +
			"still part of the chain")
	default:
	}
}

// TestC14IncludeBlockIsPerClient (fix 2): client A asked for the block
// (WithIncludeBlock). The backend calls ConnectTip(h) and then NotifyHeight(h)
// without holding a lock in between, and RegisterConf of another client B (who
// did not ask for the block) can run in that window. RegisterConf then
// dispatches to the whole set, and before the fix it used the details prepared
// for B for everyone, so A was handed a confirmation without its block.
func TestC14IncludeBlockIsPerClient(t *testing.T) {
	t.Parallel()

	const startingHeight = 10

	hintCache := newMockHintCache()
	n := chainntnfs.NewTxNotifier(
		startingHeight, chainntnfs.ReorgSafetyLimit, hintCache,
		hintCache,
	)

	tx := wire.MsgTx{Version: 5}
	tx.AddTxOut(&wire.TxOut{PkScript: testRawScript})
	txHash := tx.TxHash()

	regA, err := n.RegisterConf(
		&txHash, testRawScript, 1, 1, chainntnfs.WithIncludeBlock(),
	)
	require.NoError(t, err)
	require.NoError(t, n.UpdateConfDetails(
		regA.HistoricalDispatch.ConfRequest, nil,
	))

	require.NoError(t, n.ConnectTip(c14Block(0, &tx), startingHeight+1))

	// B registers between ConnectTip and NotifyHeight.
	regB, err := n.RegisterConf(&txHash, testRawScript, 1, 1)
	require.NoError(t, err)

	require.NoError(t, n.NotifyHeight(startingHeight+1))

	select {
	case conf := <-regA.Event.Confirmed:
		require.NotNil(t, conf.Block, "A asked for the block")
	default:
		t.Fatal("expected confirmation for A")
	}
	select {
	case conf := <-regB.Event.Confirmed:
		require.Nil(t, conf.Block, "B did not ask for the block")
	default:
		t.Fatal("expected confirmation for B")
	}
}

// TestC14StaleHistoricalConfAfterReorg (fix 3): the backend runs the historical
// rescan in its own goroutine. It reads block 10A, finds the transaction, and
// before it hands the result to UpdateConfDetails the dispatcher processes a
// reorg that replaces 10A by 10B (same height, transaction not included).
// Before the fix the only staleness check was "height above current height",
// so the client was told the transaction confirmed in 10A, a block that is not
// on the active chain, and no reorg notice could ever follow because the
// disconnect had already been processed.
func TestC14StaleHistoricalConfAfterReorg(t *testing.T) {
	t.Parallel()

	const startingHeight = 10

	hintCache := newMockHintCache()
	n := chainntnfs.NewTxNotifier(
		startingHeight, chainntnfs.ReorgSafetyLimit, hintCache,
		hintCache,
	)

	tx := wire.MsgTx{Version: 6}
	tx.AddTxOut(&wire.TxOut{PkScript: testRawScript})
	txHash := tx.TxHash()
	block10A := c14Block(0xa, &tx)

	reg, err := n.RegisterConf(&txHash, testRawScript, 1, 1)
	require.NoError(t, err)
	require.NotNil(t, reg.HistoricalDispatch)

	require.NoError(t, n.DisconnectTip(startingHeight))
	require.NoError(t, n.ConnectTip(c14Block(0xb), startingHeight))
	require.NoError(t, n.NotifyHeight(startingHeight))

	require.NoError(t, n.UpdateConfDetails(
		reg.HistoricalDispatch.ConfRequest, &chainntnfs.TxConfirmation{
			Tx:          &tx,
			BlockHash:   block10A.Hash(),
			BlockHeight: startingHeight,
		},
	))

	select {
	case conf := <-reg.Event.Confirmed:
		t.Fatalf("client told tx confirmed in block %v (height %d) "+
			"which is not on the active chain", conf.BlockHash,
			conf.BlockHeight)
	default:
	}

	// The request keeps being watched: once the transaction makes it into
	// the new chain the client is told, with the right block.
	block11 := c14Block(0xc, &tx)
	require.NoError(t, n.ConnectTip(block11, startingHeight+1))
	require.NoError(t, n.NotifyHeight(startingHeight+1))
	select {
	case conf := <-reg.Event.Confirmed:
		require.Equal(t, block11.Hash(), conf.BlockHash)
		require.EqualValues(t, startingHeight+1, conf.BlockHeight)
	default:
		t.Fatal("expected confirmation at height 11")
	}
}

// TestC14StaleHistoricalSpendAfterReorg (fix 3): the spend counterpart of the
// test above, through UpdateSpendDetails.
func TestC14StaleHistoricalSpendAfterReorg(t *testing.T) {
	t.Parallel()

	const startingHeight = 10

	hintCache := newMockHintCache()
	n := chainntnfs.NewTxNotifier(
		startingHeight, chainntnfs.ReorgSafetyLimit, hintCache,
		hintCache,
	)

	spendTx := c14ScriptSpend(7)
	spendTxHash := spendTx.TxHash()
	op := spendTx.TxIn[0].PreviousOutPoint

	reg, err := n.RegisterSpend(&op, testRawScript, 1)
	require.NoError(t, err)
	require.NotNil(t, reg.HistoricalDispatch)

	// The rescan saw spendTx in block 10A, which is then replaced by an
	// empty 10B before the result is delivered.
	require.NoError(t, n.DisconnectTip(startingHeight))
	require.NoError(t, n.ConnectTip(c14Block(0xb), startingHeight))
	require.NoError(t, n.NotifyHeight(startingHeight))

	require.NoError(t, n.UpdateSpendDetails(
		reg.HistoricalDispatch.SpendRequest, &chainntnfs.SpendDetail{
			SpentOutPoint:     &op,
			SpenderTxHash:     &spendTxHash,
			SpendingTx:        spendTx,
			SpenderInputIndex: 0,
			SpendingHeight:    startingHeight,
		},
	))

	select {
	case d := <-reg.Event.Spend:
		t.Fatalf("client told outpoint spent at height %d in a block "+
			"that is not on the active chain", d.SpendingHeight)
	default:
	}

	// The spend is still picked up when it happens on the new chain.
	require.NoError(t, n.ConnectTip(
		c14Block(0xc, spendTx), startingHeight+1,
	))
	require.NoError(t, n.NotifyHeight(startingHeight+1))
	select {
	case d := <-reg.Event.Spend:
		require.EqualValues(t, startingHeight+1, d.SpendingHeight)
	default:
		t.Fatal("expected spend at height 11")
	}
}

// TestC14HistoricalConfBelowReorgIsKept guards fix 3 against over-reach (it
// passes with and without the fix): a historical result from a block *below*
// the lowest disconnected height is on the common part of both chains and must
// still be delivered.
func TestC14HistoricalConfBelowReorgIsKept(t *testing.T) {
	t.Parallel()

	const startingHeight = 10

	hintCache := newMockHintCache()
	n := chainntnfs.NewTxNotifier(
		startingHeight, chainntnfs.ReorgSafetyLimit, hintCache,
		hintCache,
	)

	tx := wire.MsgTx{Version: 7}
	tx.AddTxOut(&wire.TxOut{PkScript: testRawScript})
	txHash := tx.TxHash()
	block8 := c14Block(8, &tx)

	reg, err := n.RegisterConf(&txHash, testRawScript, 1, 1)
	require.NoError(t, err)

	require.NoError(t, n.DisconnectTip(startingHeight))
	require.NoError(t, n.ConnectTip(c14Block(0xb), startingHeight))
	require.NoError(t, n.NotifyHeight(startingHeight))

	require.NoError(t, n.UpdateConfDetails(
		reg.HistoricalDispatch.ConfRequest, &chainntnfs.TxConfirmation{
			Tx:          &tx,
			BlockHash:   block8.Hash(),
			BlockHeight: 8,
		},
	))

	select {
	case conf := <-reg.Event.Confirmed:
		require.EqualValues(t, 8, conf.BlockHeight)
	default:
		t.Fatal("expected confirmation from block 8")
	}
}
