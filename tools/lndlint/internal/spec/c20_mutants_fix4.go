package spec

// Witnesses restoring the shapes the repairs 4030415, 312a442, 9f8479c and
// eede6b8 removed, close variants of them, and new sites for the rule on who
// may lift a zombie index entry.
func init() {
	const gsp = "discovery/gossiper.go"
	registry["C20"].Mutants = append(registry["C20"].Mutants, []Mutant{
		// 4030415
		{Name: "fixrev-revived-zombie-not-queried", File: "graph/db/graph.go",
			Old:    "\t\tunknown = append(unknown, info.ShortChannelID.ToUint64())\n\t\trevived = true\n",
			New:    "",
			Expect: "revived-zombie-is-part-of-the-ids-to-query"},
		{Name: "revived-zombie-queried-only-with-other-unknown-ids", File: "graph/db/graph.go",
			Old:    "\t\tunknown = append(unknown, info.ShortChannelID.ToUint64())\n",
			New:    "\t\tif len(unknown) > 0 {\n\t\t\tunknown = append(unknown, info.ShortChannelID.ToUint64())\n\t\t}\n",
			Expect: "revived-zombie-is-part-of-the-ids-to-query"},
		{Name: "revived-zombie-queried-under-the-first-zombies-id", File: "graph/db/graph.go",
			Old:    "\t\tunknown = append(unknown, info.ShortChannelID.ToUint64())\n",
			New:    "\t\tunknown = append(unknown, knownZombies[0].ShortChannelID.ToUint64())\n",
			Expect: "revived-zombie-is-part-of-the-ids-to-query"},
		{Name: "revived-zombies-dropped-from-the-returned-set", File: "graph/db/graph.go",
			Old:    "\tif revived {\n\t\tslices.Sort(unknown)\n\t}\n\n\treturn unknown, nil\n",
			New:    "\tif revived {\n\t\tslices.Sort(unknown)\n\t}\n\n\treturn unknown[:len(unknown)-len(knownZombies)], nil\n",
			Expect: "revived-zombie-is-part-of-the-ids-to-query"},

		// 312a442
		{Name: "fixrev-every-utxo-error-closes-the-scid", File: gsp,
			Old:    "\t\tif !errors.Is(err, btcwallet.ErrOutputSpent) {\n\t\t\treturn wire.OutPoint{}, 0, nil, fmt.Errorf(\"unable to \"+\n\t\t\t\t\"fetch utxo for chan_id=%v, chan_point=%v: %w\",\n\t\t\t\tscid.ToUint64(), fundingPoint, err)\n\t\t}\n\n\t\tzErr := d.cfg.Graph.MarkZombieEdge(scid.ToUint64())\n\t\tif zErr != nil {\n\t\t\treturn wire.OutPoint{}, 0, nil, zErr\n\t\t}\n",
			New:    "\t\tif errors.Is(err, btcwallet.ErrOutputSpent) {\n\t\t\tzErr := d.cfg.Graph.MarkZombieEdge(scid.ToUint64())\n\t\t\tif zErr != nil {\n\t\t\t\treturn wire.OutPoint{}, 0, nil, zErr\n\t\t\t}\n\t\t}\n",
			Expect: "only-a-spent-funding-output-closes-a-channel-id"},
		{Name: "other-utxo-errors-reported-as-invalid-funding-output", File: gsp,
			Old:    "\t\t\treturn wire.OutPoint{}, 0, nil, fmt.Errorf(\"unable to \"+\n\t\t\t\t\"fetch utxo for chan_id=%v, chan_point=%v: %w\",\n\t\t\t\tscid.ToUint64(), fundingPoint, err)\n",
			New:    "\t\t\treturn wire.OutPoint{}, 0, nil, fmt.Errorf(\"%w: %w\",\n\t\t\t\tErrInvalidFundingOutput, err)\n",
			Expect: "only-a-spent-funding-output-closes-a-channel-id"},
		{Name: "utxo-failure-marks-zombie-before-the-spent-test", File: gsp,
			Old:    "\t\tif !errors.Is(err, btcwallet.ErrOutputSpent) {\n\t\t\treturn wire.OutPoint{}, 0, nil, fmt.Errorf(\"unable to \"+\n",
			New:    "\t\t_ = d.cfg.Graph.MarkZombieEdge(scid.ToUint64())\n\t\tif !errors.Is(err, btcwallet.ErrOutputSpent) {\n\t\t\treturn wire.OutPoint{}, 0, nil, fmt.Errorf(\"unable to \"+\n",
			Expect: "only-a-spent-funding-output-closes-a-channel-id"},
		{Name: "closed-scid-recorded-for-any-remote-funding-failure", File: gsp,
			Old:    "\t\t\tcase errors.Is(err, ErrChannelSpent):\n",
			New:    "\t\t\tcase errors.Is(err, ErrChannelSpent), nMsg.isRemote:\n",
			Expect: "only-a-spent-funding-output-closes-a-channel-id"},

		// 9f8479c
		{Name: "fixrev-zombie-resurrected-on-the-signature-alone", File: gsp,
			Old:    "\terr := netann.ValidateChannelUpdateAnn(pubKey, 0, msg)\n",
			New:    "\terr := netann.VerifyChannelUpdateSignature(msg, pubKey)\n",
			Expect: "channel-update-admission"},
		{Name: "update-validator-skips-fields-without-a-capacity", File: "netann/channel_update.go",
			Old:    "\tif err := ValidateChannelUpdateFields(capacity, a); err != nil {\n\t\treturn err\n\t}\n\n\treturn VerifyChannelUpdateSignature(a, pubKey)",
			New:    "\tif capacity != 0 {\n\t\tif err := ValidateChannelUpdateFields(capacity, a); err != nil {\n\t\t\treturn err\n\t\t}\n\t}\n\n\treturn VerifyChannelUpdateSignature(a, pubKey)",
			Expect: "channel-update-admission"},
		{Name: "zombie-update-validated-against-its-own-max-htlc", File: gsp,
			Old:    "\terr := netann.ValidateChannelUpdateAnn(pubKey, 0, msg)\n",
			New:    "\terr := netann.ValidateChannelUpdateAnn(\n\t\tpubKey, msg.HtlcMaximumMsat.ToSatoshis(), msg,\n\t)\n",
			Expect: "channel-update-admission"},
		{Name: "update-validator-checks-fields-of-a-blank-update", File: "netann/channel_update.go",
			Old:    "\tif err := ValidateChannelUpdateFields(capacity, a); err != nil {\n\t\treturn err\n\t}\n\n\treturn VerifyChannelUpdateSignature(a, pubKey)",
			New:    "\tif err := ValidateChannelUpdateFields(\n\t\tcapacity, &lnwire.ChannelUpdate1{},\n\t); err != nil {\n\t\treturn err\n\t}\n\n\treturn VerifyChannelUpdateSignature(a, pubKey)",
			Expect: "channel-update-admission"},

		// eede6b8
		{Name: "fixrev-same-node-on-both-sides-accepted", File: "netann/channel_announcement.go",
			Old:    "\tif a.NodeID1 == a.NodeID2 {\n\t\treturn errors.New(\"channel announcement names the same node \" +\n\t\t\t\"on both sides\")\n\t}\n",
			New:    "",
			Expect: "announcement-names-two-distinct-nodes"},
		{Name: "same-node-test-compares-the-bitcoin-keys", File: "netann/channel_announcement.go",
			Old:    "\tif a.NodeID1 == a.NodeID2 {\n",
			New:    "\tif a.BitcoinKey1 == a.BitcoinKey2 {\n",
			Expect: "announcement-names-two-distinct-nodes"},
		{Name: "same-node-refused-only-with-extra-data", File: "netann/channel_announcement.go",
			Old:    "\tif a.NodeID1 == a.NodeID2 {\n",
			New:    "\tif a.NodeID1 == a.NodeID2 && len(a.ExtraOpaqueData) > 0 {\n",
			Expect: "announcement-names-two-distinct-nodes"},

		// who lifts zombie index entries
		{Name: "zombie-entry-lifted-by-an-incoming-announcement", File: gsp,
			Old:    "\tlog.Debugf(\"Adding edge for short_chan_id: %v\", scid.ToUint64())\n",
			New:    "\t_ = d.cfg.Graph.MarkEdgeLive(lnwire.GossipVersion1, scid)\n",
			Expect: "zombie-index-entries-are-lifted-only-after-a-verified-update"},
		{Name: "zombie-entry-lifted-for-the-stored-channel-id", File: gsp,
			Old:    "\t\terr = d.processZombieUpdate(ctx, chanInfo, graphScid, upd)\n",
			New:    "\t\terr = d.processZombieUpdate(\n\t\t\tctx, chanInfo,\n\t\t\tlnwire.NewShortChanIDFromInt(chanInfo.ChannelID), upd,\n\t\t)\n",
			Expect: "zombie-index-entries-are-lifted-only-after-a-verified-update"},
		{Name: "channel-graph-layer-lifts-a-neighbouring-id", File: "graph/db/graph.go",
			Old:    "\terr := c.db.MarkEdgeLive(ctx, v, chanID)\n",
			New:    "\terr := c.db.MarkEdgeLive(ctx, v, chanID|1)\n",
			Expect: "zombie-index-entries-are-lifted-only-after-a-verified-update"},
	}...)
}
