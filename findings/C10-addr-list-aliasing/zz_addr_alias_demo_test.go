package lnwire

import (
	"bytes"
	"net"
	"testing"

	"github.com/stretchr/testify/require"
)

// TestAddrListsDecodeDistinctEntries encodes address lists with two distinct
// entries through their TLV records and requires that decoding yields the same
// two addresses (and hence that re-encoding reproduces the bytes).
func TestAddrListsDecodeDistinctEntries(t *testing.T) {
	t.Run("ipv4", func(t *testing.T) {
		in := IPV4Addrs{
			{IP: net.IPv4(1, 2, 3, 4), Port: 1},
			{IP: net.IPv4(5, 6, 7, 8), Port: 2},
		}
		var b bytes.Buffer
		rec := in.Record()
		require.NoError(t, rec.Encode(&b))
		enc := append([]byte{}, b.Bytes()...)

		var out IPV4Addrs
		orec := out.Record()
		require.NoError(t, orec.Decode(bytes.NewReader(enc), uint64(len(enc))))
		require.Len(t, out, 2)
		require.Equal(t, "1.2.3.4:1", out[0].String())
		require.Equal(t, "5.6.7.8:2", out[1].String())

		var b2 bytes.Buffer
		rec2 := out.Record()
		require.NoError(t, rec2.Encode(&b2))
		require.Equal(t, enc, b2.Bytes())
	})
	t.Run("ipv6", func(t *testing.T) {
		in := IPV6Addrs{
			{IP: net.ParseIP("2001:db8::1"), Port: 1},
			{IP: net.ParseIP("2001:db8::2"), Port: 2},
		}
		var b bytes.Buffer
		rec := in.Record()
		require.NoError(t, rec.Encode(&b))
		enc := append([]byte{}, b.Bytes()...)

		var out IPV6Addrs
		orec := out.Record()
		require.NoError(t, orec.Decode(bytes.NewReader(enc), uint64(len(enc))))
		require.Len(t, out, 2)
		require.Equal(t, "[2001:db8::1]:1", out[0].String())
		require.Equal(t, "[2001:db8::2]:2", out[1].String())

		var b2 bytes.Buffer
		rec2 := out.Record()
		require.NoError(t, rec2.Encode(&b2))
		require.Equal(t, enc, b2.Bytes())
	})
}
