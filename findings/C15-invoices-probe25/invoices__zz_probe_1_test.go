package invoices_test

import (
	"testing"
	"time"

	invpkg "github.com/lightningnetwork/lnd/invoices"
	"github.com/lightningnetwork/lnd/lntypes"
	"github.com/lightningnetwork/lnd/lnwire"
	"github.com/lightningnetwork/lnd/record"
	"github.com/stretchr/testify/require"
)

// Probe 1a: with GcCanceledInvoicesOnTheFly a canceled (hold) keysend invoice
// is deleted, so the replay of its htlc (the link replays every add whose
// response is not committed yet, e.g. because the peer was offline when the
// invoice was canceled) is not recognised as a replay any more: the invoice is
// re-created and the htlc that was canceled is accepted and held as new.
func TestProbe1KeysendReplayAfterGcOfCanceledInvoice(t *testing.T) {
	runProbe(t, func(t *testing.T, makeDB probeMakeDB) {
		defer timeout()()

		cfg := defaultRegistryConfig()
		cfg.AcceptKeySend = true
		cfg.KeysendHoldTime = time.Minute
		cfg.GcCanceledInvoicesOnTheFly = true
		ctx := newTestContext(t, &cfg, makeDB)
		ctxb := t.Context()

		preimage := lntypes.Preimage{1, 2, 3}
		hash := preimage.Hash()
		expiry := uint32(testCurrentHeight + 20)
		payload := &mockPayload{
			customRecords: map[uint64][]byte{
				record.KeySendType: preimage[:],
			},
		}

		hodlChan := make(chan interface{}, 1)
		res, err := ctx.registry.NotifyExitHopHtlc(
			hash, 1000, expiry, testCurrentHeight,
			getCircuitKey(0), hodlChan, nil, payload,
		)
		require.NoError(t, err)
		require.Nil(t, res, "hold keysend must be held")

		// The user cancels the held keysend.
		require.NoError(t, ctx.registry.CancelInvoice(ctxb, hash))
		r := <-hodlChan
		checkFailResolution(
			t, r.(invpkg.HtlcResolution), invpkg.ResultCanceled,
		)

		// Replay of the canceled htlc.
		res, err = ctx.registry.NotifyExitHopHtlc(
			hash, 1000, expiry, testCurrentHeight,
			getCircuitKey(0), hodlChan, nil, payload,
		)
		require.NoError(t, err)
		fail, ok := res.(*invpkg.HtlcFailResolution)
		if !ok {
			t.Fatalf("SUSPECT: replay of a canceled keysend htlc "+
				"is answered with %T (nil = held again as new)",
				res)
		}
		require.Equal(t, invpkg.ResultReplayToCanceled, fail.Outcome)

		// An invoice that never saw an htlc is still collected.
		inv := newInvoice(t, false, false)
		_, err = ctx.registry.AddInvoice(
			ctxb, inv, testInvoicePaymentHash,
		)
		require.NoError(t, err)
		require.NoError(
			t, ctx.registry.CancelInvoice(ctxb, testInvoicePaymentHash),
		)
		_, err = ctx.registry.LookupInvoice(ctxb, testInvoicePaymentHash)
		require.ErrorIs(t, err, invpkg.ErrInvoiceNotFound)
	})
}

// Probe 1b: same structure for spontaneous AMP: the invoice a shard created is
// canceled and collected, the replay of the shard re-creates it and the shard
// is held again.
func TestProbe1SpontaneousAmpReplayAfterGcOfCanceledInvoice(t *testing.T) {
	runProbe(t, func(t *testing.T, makeDB probeMakeDB) {
		defer timeout()()

		cfg := defaultRegistryConfig()
		cfg.AcceptAMP = true
		cfg.GcCanceledInvoicesOnTheFly = true
		ctx := newTestContext(t, &cfg, makeDB)
		ctxb := t.Context()

		const (
			totalAmt = lnwire.MilliSatoshi(300)
			shardAmt = lnwire.MilliSatoshi(100)
			expiry   = uint32(testCurrentHeight + 20)
		)
		payAddr := [32]byte{1}
		setID := [32]byte{2}
		hash0 := lntypes.Hash{0xa0}
		payload := &mockPayload{
			mpp: record.NewMPP(totalAmt, payAddr),
			amp: record.NewAMP([32]byte{1}, setID, 0),
		}

		hodlChan := make(chan interface{}, 1)
		res, err := ctx.registry.NotifyExitHopHtlc(
			hash0, shardAmt, expiry, testCurrentHeight,
			getCircuitKey(0), hodlChan, nil, payload,
		)
		require.NoError(t, err)
		require.Nil(t, res)

		require.NoError(t, ctx.registry.CancelInvoice(ctxb, hash0))
		r := <-hodlChan
		checkFailResolution(
			t, r.(invpkg.HtlcResolution), invpkg.ResultCanceled,
		)

		res, err = ctx.registry.NotifyExitHopHtlc(
			hash0, shardAmt, expiry, testCurrentHeight,
			getCircuitKey(0), hodlChan, nil, payload,
		)
		require.NoError(t, err)
		fail, ok := res.(*invpkg.HtlcFailResolution)
		if !ok {
			t.Fatalf("SUSPECT: replay of a canceled spontaneous "+
				"AMP shard is answered with %T (nil = held "+
				"again as new)", res)
		}
		require.Equal(t, invpkg.ResultReplayToCanceled, fail.Outcome)
	})
}
