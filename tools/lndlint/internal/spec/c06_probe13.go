package spec

import (
	"go/ast"
	"go/constant"
	"go/types"

	"lndlint/internal/an"
)

func init() {
	specExtras["C06"] = append(specExtras["C06"], c06StoreIntake)
}

// c06StoreIntake: three conditions on what reaches the revocation store and
// how it is indexed (repairs e0a347c, b337b37, 82950e8 in /repo).
func c06StoreIntake(r *an.Run) {
	p := r.Prog
	r.Obl("secret-reaches-the-store-only-after-it-revoked-the-current-commitment", "GUARD",
		"LightningChannel.ReceiveRevocation calls RevocationStore.AddNextEntry only where the commitment point computed from the revealed secret (input.ComputeCommitmentPoint of the message's Revocation) was compared equal to channelState.RemoteCurrentRevocation; the store's bucket array has one bucket for every value countTrailingZeros can return (maxHeight+1, the counting loop stops at maxHeight); NewRevocationStoreFromBytes indexes the array only after the serialised bucket count was compared against the array length",
		"the store checks a new secret only against the buckets below its own, which for every other height is none: a secret that does not revoke the current commitment would be stored, the index advanced, and the genuine secret refused afterwards; the secret of index 0 has maxHeight trailing zeros and needs the last bucket; an unchecked count indexes outside the array", 4,
		func(o *an.Obl) {
			f := p.Func("lnwallet.LightningChannel.ReceiveRevocation")
			adds := f.Calls(an.CalleeNamed("AddNextEntry"), true)
			if need(o, f, "AddNextEntry call", adds, 1) {
				derived := canonTerm(`input\.ComputeCommitmentPoint\(\$p0\.Revocation(\[:\])?\)$`)
				current := an.FieldPath(an.FieldPath(an.Recv(), "channelState"), "RemoteCurrentRevocation")
				fact := an.Truth(an.CallNamed("IsEqual", derived, current), true,
					"ComputeCommitmentPoint(revMsg.Revocation).IsEqual(channelState.RemoteCurrentRevocation)")
				for _, s := range adds {
					guarded(o, f, s, fact)
					if a := f.ArgCanon(s); len(a) != 1 || !reMatch(`chainhash(/v2)?\.NewHash\(\$p0\.Revocation(\[:\])?\)`, a[0]) {
						o.FailAt(f.ID+"#stored-secret", s.Where(), "the value handed to AddNextEntry is %v, expected the hash of the message's Revocation field (the one the commitment point was computed from)", a)
					}
				}
			}

			// bucket array length against the counting bound
			mh, _ := p.LookupObj("shachain", "maxHeight").(*types.Const)
			st := p.LookupType("shachain", "RevocationStore").Underlying().(*types.Struct)
			var arr *types.Array
			for i := 0; i < st.NumFields(); i++ {
				if st.Field(i).Name() == "buckets" {
					arr, _ = st.Field(i).Type().Underlying().(*types.Array)
				}
			}
			if mh == nil || arr == nil {
				o.FailAt("shachain.RevocationStore.buckets#anchor", "", "cannot resolve shachain.maxHeight or the bucket array")
			} else {
				h, _ := constant.Int64Val(mh.Val())
				o.Site("shachain: maxHeight=%d, len(buckets)=%d", h, arr.Len())
				if arr.Len() < h+1 {
					o.FailAt("shachain.RevocationStore.buckets#one-per-trailing-zero-count", "", "the bucket array has %d elements, countTrailingZeros returns values up to maxHeight=%d: the secret of index 0 has no bucket", arr.Len(), h)
				}
			}
			ctz := p.Func("shachain.countTrailingZeros")
			nLoops := 0
			ast.Inspect(ctz.Body, func(n ast.Node) bool {
				if fs, ok := n.(*ast.ForStmt); ok {
					nLoops++
					c := ""
					if fs.Cond != nil {
						c = ctz.Canon(fs.Cond)
					}
					o.Site("countTrailingZeros loop condition %s", c)
					if !reMatch(`^\$v:uint8 < shachain\.maxHeight$|^zeros < maxHeight$`, c) && an.Text(fs.Cond) != "zeros < maxHeight" {
						o.FailAt(ctz.ID+"#bound", ctz.Where(fs.Pos()), "countTrailingZeros counts while %s, expected zeros < maxHeight (the bound the bucket array is sized for)", an.Text(fs.Cond))
					}
				}
				return true
			})
			if nLoops != 1 {
				o.FailAt(ctz.ID+"#loops", ctz.Where(ctz.Body.Pos()), "expected one counting loop in countTrailingZeros, found %d", nLoops)
			}

			// decode: the serialised count is bounded before it indexes
			d := p.Func("shachain.NewRevocationStoreFromBytes")
			store := an.LocalNamed("store")
			ws := d.Assigns(an.Index(an.FieldPath(store, "buckets"), an.Any()), false)
			if need(o, d, "store.buckets[i] = …", ws, 1) {
				guardedAll(o, d, ws, an.Cmp(an.FieldPath(store, "lenBuckets"), an.LE, an.Len(an.FieldPath(store, "buckets")), "store.lenBuckets <= len(store.buckets)"))
			}
		})
}
